// E-K harnesses for loop-free engine functions (complete proofs over their full symbolic domain).
use crate::client::*;
use crate::client::config::*;
use crate::error::*;
use crate::mqtt::*;
use crate::protocol::*;
use super::stub_format;
use std::sync::atomic::{AtomicU32, Ordering};
use std::sync::Arc;
use std::time::{Duration, Instant};

fn any_opt_u16() -> Option<u16> { if kani::any() { Some(kani::any()) } else { None } }
fn any_opt_u32() -> Option<u32> { if kani::any() { Some(kani::any()) } else { None } }
fn any_opt_bool() -> Option<bool> { if kani::any() { Some(kani::any()) } else { None } }
fn any_qos() -> QualityOfService { match kani::any::<u8>() % 3 { 0 => QualityOfService::AtMostOnce, 1 => QualityOfService::AtLeastOnce, _ => QualityOfService::ExactlyOnce } }
fn zero_instant() -> Instant { unsafe { core::mem::zeroed() } }

// C07 / C14: "the negotiated settings reported to the application are exactly the CONNACK's values, completed with the
// CONNECT's values or the specification's defaults for what the server omitted" (MQTT5 3.2.2.3)
#[kani::proof]
#[kani::stub(alloc::fmt::format, stub_format)]
fn negotiated_settings_table() {
    let keep_alive = any_opt_u16();
    let session_expiry = any_opt_u32();
    let mut cb = ConnectOptions::builder();
    cb.with_keep_alive_interval_seconds(keep_alive);
    if let Some(se) = session_expiry { cb.with_session_expiry_interval_seconds(se); }
    let config = ProtocolStateConfig {
        connect_options: cb.build(), base_timestamp: zero_instant(), offline_queue_policy: OfflineQueuePolicy::PreserveAll, ping_timeout: Duration::from_secs(1),
        outbound_alias_resolver: None, protocol_mode: ProtocolMode::Mqtt5, post_reconnect_queue_drain_policy: PostReconnectQueueDrainPolicy::None, max_interrupted_retries: None };
    let maximum_qos = if kani::any() { Some(any_qos()) } else { None };
    let connack = ConnackPacket { session_present: kani::any(), session_expiry_interval: any_opt_u32(), receive_maximum: any_opt_u16(), maximum_qos,
        retain_available: any_opt_bool(), maximum_packet_size: any_opt_u32(), topic_alias_maximum: any_opt_u16(), wildcard_subscriptions_available: any_opt_bool(),
        subscription_identifiers_available: any_opt_bool(), shared_subscriptions_available: any_opt_bool(), server_keep_alive: any_opt_u16(), ..Default::default() };
    let s = verif_build_negotiated_settings(&config, &connack);
    assert!(s.maximum_qos == connack.maximum_qos.unwrap_or(QualityOfService::ExactlyOnce));
    assert!(s.session_expiry_interval == match connack.session_expiry_interval { Some(v) => v, None => session_expiry.unwrap_or(0) });
    assert!(s.receive_maximum_from_server == connack.receive_maximum.unwrap_or(65535));
    assert!(s.maximum_packet_size_to_server == connack.maximum_packet_size.unwrap_or(268435455));
    assert!(s.topic_alias_maximum_to_server == connack.topic_alias_maximum.unwrap_or(0));
    // the server's keep alive overrides the client's; the client's (0 if disabled) applies only when the server sent none
    assert!(s.server_keep_alive == match connack.server_keep_alive { Some(v) => v, None => keep_alive.unwrap_or(0) });
    assert!(s.retain_available == connack.retain_available.unwrap_or(true));
    assert!(s.wildcard_subscriptions_available == connack.wildcard_subscriptions_available.unwrap_or(true));
    assert!(s.subscription_identifiers_available == connack.subscription_identifiers_available.unwrap_or(true));
    assert!(s.shared_subscriptions_available == connack.shared_subscriptions_available.unwrap_or(true));
    assert!(s.rejoined_session == connack.session_present);
    kani::cover!(connack.server_keep_alive.is_some() && keep_alive.is_none());
}

