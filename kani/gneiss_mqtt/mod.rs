// verif_kani: Kani harnesses compiled into a scratch copy of the real gneiss-mqtt crate.
// Postconditions are typed in from the OASIS MQTT 5.0 / 3.1.1 tables and the property texts,
// not from the code under test.
#![allow(dead_code, unused_imports, unused_variables)]

pub(crate) fn stub_format(_: core::fmt::Arguments<'_>) -> String { String::new() }

mod tables;
mod engine;
