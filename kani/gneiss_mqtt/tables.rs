// C03: reason-code / enum decode tables.  Loop-free over the full u8 domain => complete proofs.
// Direction taken from the property: every code the specification allows for that packet MUST decode
// (to the code with that numeric value), and whatever decodes must carry the wire value.
use crate::mqtt::*;
use super::stub_format;

macro_rules! table_harness {
    ($name:ident, $ty:ty, $legal:expr) => {
        #[kani::proof]
        #[kani::stub(alloc::fmt::format, stub_format)]
        fn $name() {
            let v: u8 = kani::any();
            let legal: fn(u8) -> bool = $legal;
            let r = <$ty>::try_from(v);
            match r {
                Ok(c) => { assert!(c as u8 == v, "decoded code keeps its wire value"); }
                Err(_) => { assert!(!legal(v), "spec-legal code rejected"); }
            }
            kani::cover!(legal(v));
        }
    };
}

// OASIS MQTT 5.0 table 3.2.2.2 (CONNACK)
table_harness!(tbl_connect_reason_code, ConnectReasonCode, |v| matches!(v, 0 | 128..=138 | 140 | 144 | 149 | 151 | 153..=157 | 159));
// 3.4.2.1 (PUBACK)
table_harness!(tbl_puback_reason_code, PubackReasonCode, |v| matches!(v, 0 | 16 | 128 | 131 | 135 | 144 | 145 | 151 | 153));
// 3.5.2.1 (PUBREC)
table_harness!(tbl_pubrec_reason_code, PubrecReasonCode, |v| matches!(v, 0 | 16 | 128 | 131 | 135 | 144 | 145 | 151 | 153));
// 3.6.2.1 (PUBREL)
table_harness!(tbl_pubrel_reason_code, PubrelReasonCode, |v| matches!(v, 0 | 146));
// 3.7.2.1 (PUBCOMP)
table_harness!(tbl_pubcomp_reason_code, PubcompReasonCode, |v| matches!(v, 0 | 146));
// 3.9.3 (SUBACK)
table_harness!(tbl_suback_reason_code, SubackReasonCode, |v| matches!(v, 0 | 1 | 2 | 128 | 131 | 135 | 143 | 145 | 151 | 158 | 161 | 162));
// 3.11.3 (UNSUBACK)
table_harness!(tbl_unsuback_reason_code, UnsubackReasonCode, |v| matches!(v, 0 | 17 | 128 | 131 | 135 | 143 | 145));
// 3.14.2.1 (DISCONNECT) -- codes a *server* may send (0x04 is client-only)
table_harness!(tbl_disconnect_reason_code, DisconnectReasonCode, |v| matches!(v, 0 | 128..=131 | 135 | 137 | 139 | 141..=144 | 147..=162));
// 3.3.1.2 QoS, 3.3.2.3.2 payload format indicator (RetainHandlingType::try_from is cfg(test)-only: the client never decodes it)
table_harness!(tbl_quality_of_service, QualityOfService, |v| v <= 2);
table_harness!(tbl_payload_format_indicator, PayloadFormatIndicator, |v| v <= 1);

// MQTT 3.1.1 table 3.1 (CONNACK return codes 0..5) mapped onto their MQTT5 meaning
#[kani::proof]
#[kani::stub(alloc::fmt::format, stub_format)]
fn tbl_connack_return_code_311() {
    let v: u8 = kani::any();
    let r = convert_311_encoding_to_connect_reason_code(v);
    match r {
        Ok(c) => {
            let expect = match v {
                0 => ConnectReasonCode::Success,
                1 => ConnectReasonCode::UnsupportedProtocolVersion,
                2 => ConnectReasonCode::ClientIdentifierNotValid,
                3 => ConnectReasonCode::ServerUnavailable,
                4 => ConnectReasonCode::BadUsernameOrPassword,
                5 => ConnectReasonCode::NotAuthorized,
                _ => { assert!(false, "non-3.1.1 return code accepted"); ConnectReasonCode::Success }
            };
            assert!(c == expect);
        }
        Err(_) => { assert!(v > 5, "3.1.1 return code rejected"); }
    }
    kani::cover!(v <= 5);
}

// MQTT 3.1.1 section 3.9.3 (SUBACK return codes 0,1,2,0x80)
#[kani::proof]
#[kani::stub(alloc::fmt::format, stub_format)]
fn tbl_suback_return_code_311() {
    let v: u8 = kani::any();
    let r = convert_311_encoding_to_suback_reason_code(v);
    match r {
        Ok(c) => { assert!(c as u8 == v); assert!(matches!(v, 0 | 1 | 2 | 128)); }
        Err(_) => { assert!(!matches!(v, 0 | 1 | 2 | 128), "3.1.1 suback return code rejected"); }
    }
    kani::cover!(v == 128);
}
