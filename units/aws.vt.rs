// U-aws: AWS IoT builder glue (gneiss-mqtt-aws/src/lib.rs) with the gneiss-mqtt option builders it calls (client/config.rs) - C20
//@include base.vt.rs
//@include types_mqtt.vt.rs
verus! {

// ---- trusted shim for the uuid crate: Uuid::new_v4().to_string() is the 36-character hyphenated form (uuid docs)
pub mod uuid {
    use vstd::prelude::*;
    pub struct Uuid { pub x: u8 }
    impl Uuid {
        #[verifier::external_body] pub fn new_v4() -> Uuid { unimplemented!() }
        #[verifier::external_body] pub fn to_string(&self) -> (r: String) ensures r@.len() == 36 { unimplemented!() }
    }
}
// std docs: slice::to_vec copies the slice into a new Vec (stated for u8 contents: Clone of u8 is a copy)
pub assume_specification<T: Clone> [<[T]>::to_vec] (s: &[T]) -> (r: Vec<T>)
    ensures r@.len() == s@.len(), (forall|i: int| 0 <= i < s@.len() ==> vstd::pervasive::cloned(s@[i], #[trigger] r@[i]));

// ---- shims: the alias-resolver factory (Arc<dyn Fn>) is an opaque value that is only ever copied
#[verifier::external_body]
pub struct OutboundAliasResolverFactoryFn { f: u8 }
#[verifier::external]
impl Clone for OutboundAliasResolverFactoryFn { fn clone(&self) -> Self { unimplemented!() } }
pub assume_specification [<OutboundAliasResolverFactoryFn as Clone>::clone] (x: &OutboundAliasResolverFactoryFn) -> (r: OutboundAliasResolverFactoryFn) ensures r == *x;

//@enum gneiss-mqtt/src/client/config.rs RejoinSessionPolicy
//@struct gneiss-mqtt/src/client/config.rs ConnectOptions clonespec
//@struct gneiss-mqtt/src/client/config.rs ConnectOptionsBuilder
//@enum gneiss-mqtt/src/client/config.rs OfflineQueuePolicy
//@enum gneiss-mqtt/src/client/config.rs ExponentialBackoffJitterType
//@struct gneiss-mqtt/src/client/config.rs ReconnectOptions
//@enum gneiss-mqtt/src/client/config.rs ProtocolMode
//@enum gneiss-mqtt/src/client/config.rs PostReconnectQueueDrainPolicy
//@struct gneiss-mqtt/src/client/config.rs MqttClientOptions clonespec
//@struct gneiss-mqtt/src/client/config.rs MqttClientOptionsBuilder
//@struct gneiss-mqtt-aws/src/lib.rs AwsCustomAuthOptions
//@struct gneiss-mqtt-aws/src/lib.rs AwsClientBuilder keep=custom_auth_options,connect_options,client_options

impl ConnectOptions {
//@fn gneiss-mqtt/src/client/config.rs ConnectOptions::builder_from_existing props=C20
    ensures r.options == connect_options,
//@end
//@fn gneiss-mqtt/src/client/config.rs ConnectOptions::client_id props=C20
    ensures *r == self.client_id,
//@end
}
impl ConnectOptionsBuilder {
//@fn gneiss-mqtt/src/client/config.rs ConnectOptionsBuilder::new_from_existing props=C20
    ensures r.options == options,
//@end
//@fn gneiss-mqtt/src/client/config.rs ConnectOptionsBuilder::with_client_id props=C20
    ensures *final(self) == *final(r), r.options.client_id is Some, r.options.client_id->Some_0@ == client_id@,
        r.options == (ConnectOptions { client_id: r.options.client_id, ..old(self).options }),
//@end
//@fn gneiss-mqtt/src/client/config.rs ConnectOptionsBuilder::with_username props=C20
    ensures *final(self) == *final(r), r.options.username is Some, r.options.username->Some_0@ == username@,
        r.options == (ConnectOptions { username: r.options.username, ..old(self).options }),
//@end
//@fn gneiss-mqtt/src/client/config.rs ConnectOptionsBuilder::with_password props=C20
    ensures *final(self) == *final(r), r.options.password is Some, r.options.password->Some_0@ == password@,
        r.options == (ConnectOptions { password: r.options.password, ..old(self).options }),
//@end
//@fn gneiss-mqtt/src/client/config.rs ConnectOptionsBuilder::build props=C20
    ensures r == self.options,
//@end
}

impl MqttClientOptions {
//@fn gneiss-mqtt/src/client/config.rs MqttClientOptions::to_builder props=C20
    ensures r.options == self,
//@end
//@fn gneiss-mqtt/src/client/config.rs MqttClientOptions::protocol_mode props=C20
    ensures r == self.protocol_mode,
//@end
//@fn gneiss-mqtt/src/client/config.rs MqttClientOptions::post_reconnect_queue_drain_policy props=C20
    ensures r == self.post_reconnect_queue_drain_policy,
//@end
//@fn gneiss-mqtt/src/client/config.rs MqttClientOptions::max_interrupted_retries props=C20
    ensures r == self.max_interrupted_retries,
//@end
}
impl MqttClientOptionsBuilder {
//@fn gneiss-mqtt/src/client/config.rs MqttClientOptionsBuilder::new_from_options props=C20
    ensures r.options == options,
//@end
//@fn gneiss-mqtt/src/client/config.rs MqttClientOptionsBuilder::with_post_reconnect_queue_drain_policy props=C20
    ensures *final(self) == *final(r), r.options == (MqttClientOptions { post_reconnect_queue_drain_policy: Some(policy), ..old(self).options }),
//@end
//@fn gneiss-mqtt/src/client/config.rs MqttClientOptionsBuilder::with_max_interrupted_retries props=C20
    ensures *final(self) == *final(r), r.options == (MqttClientOptions { max_interrupted_retries: Some(max_retries), ..old(self).options }),
//@end
//@fn gneiss-mqtt/src/client/config.rs MqttClientOptionsBuilder::build props=C20
    ensures r == self.options,
//@end
}

// C20: "The one-at-a-time drain policy and retry limit of 2 are applied only to MQTT 3.1.1 clients whose user set neither";
// every other client option is preserved
//@fn gneiss-mqtt-aws/src/lib.rs apply_aws_defaults props=C20
    ensures
        (options.protocol_mode == ProtocolMode::Mqtt311 && options.post_reconnect_queue_drain_policy is None && options.max_interrupted_retries is None)
            ==> r == (MqttClientOptions { post_reconnect_queue_drain_policy: Some(PostReconnectQueueDrainPolicy::OneAtATime), max_interrupted_retries: Some(2u32), ..options }),
        !(options.protocol_mode == ProtocolMode::Mqtt311 && options.post_reconnect_queue_drain_policy is None && options.max_interrupted_retries is None)
            ==> r == options,
//@end

// String::len() is the UTF-8 byte length: zero exactly for the empty text (assumed specification; std docs of String::len)
pub open spec fn str_empty(s: Seq<char>) -> bool { s.len() == 0 }
pub assume_specification [String::len] (s: &String) -> (r: usize) ensures (r == 0) == str_empty(s@);

impl AwsClientBuilder {
//@fn gneiss-mqtt-aws/src/lib.rs AwsClientBuilder::build_final_connect_options props=C20
    ensures
        // C20: "always connect with a non-empty client id, generating a fresh one when the user supplied none and otherwise keeping the user's"
        // (an empty string asks the broker to assign an id, exactly like an absent one: was finding F-AWS-EMPTY-CLIENTID)
        r.client_id matches Some(id) && !str_empty(id@),
        (connect_options.client_id is Some && !str_empty(connect_options.client_id->Some_0@)) ==> r.client_id->Some_0@ == connect_options.client_id->Some_0@,
        (connect_options.client_id is None || str_empty(connect_options.client_id->Some_0@)) ==> r.client_id->Some_0@.len() == 36,
        // custom auth replaces username (and password when configured); nothing else of the user's options changes
        self.custom_auth_options matches Some(a) ==> (r.username matches Some(u) && u@ == a.username@)
            && (a.password matches Some(pw) ==> (r.password matches Some(p) && p@ == pw@))
            && (a.password is None ==> r.password == connect_options.password),
        self.custom_auth_options is None ==> r.username == connect_options.username && r.password == connect_options.password,
        r == (ConnectOptions { client_id: r.client_id, username: r.username, password: r.password, ..connect_options }),
//@end
}

} // verus!
fn main() {}
