// U-protocol: the sans-IO engine (gneiss-mqtt/src/protocol.rs) -- contracts are ours, bodies are /repo's
//@include base.vt.rs
//@include types_mqtt.vt.rs
//@include types_protocol.vt.rs
//@include wf_protocol.vt.rs
verus! {

// cyclic distance from a to b going forward through 1..=65535
pub open spec fn pid_dist(a: u16, b: u16) -> int { if a <= b { b - a } else { 65535 - a + b } }

impl ClientOperation {
//@fn gneiss-mqtt/src/protocol.rs ClientOperation::bind_packet_id props=C06,C11
    requires carries_packet_id_field(*old(self).packet),
    ensures final(self).packet_id == Some(packet_id),
        packet_id_field(*final(self).packet) == packet_id,
        final(self).id == old(self).id, final(self).qos2_pubrel == old(self).qos2_pubrel,
        final(self).options == old(self).options,
        final(self).slow_start_ack_value == old(self).slow_start_ack_value,
        final(self).interruption_count == old(self).interruption_count,
        final(self).ping_extension_base_timepoint == old(self).ping_extension_base_timepoint,
        same_packet_except_id(*old(self).packet, *final(self).packet),
//@end

//@fn gneiss-mqtt/src/protocol.rs ClientOperation::unbind_packet_id props=C06,C11
    requires carries_packet_id_field(*old(self).packet),
    ensures final(self).packet_id is None,
        packet_id_field(*final(self).packet) == 0,
        final(self).id == old(self).id, final(self).qos2_pubrel == old(self).qos2_pubrel,
        final(self).options == old(self).options,
        final(self).slow_start_ack_value == old(self).slow_start_ack_value,
        final(self).interruption_count == old(self).interruption_count,
        final(self).ping_extension_base_timepoint == old(self).ping_extension_base_timepoint,
        same_packet_except_id(*old(self).packet, *final(self).packet),
//@end
}

// the packet with its packet-id field zeroed (what unbind_packet_id leaves behind)
pub open spec fn reset_packet(p: MqttPacket) -> MqttPacket {
    match p {
        MqttPacket::Subscribe(x) => MqttPacket::Subscribe(SubscribePacket { packet_id: 0, ..x }),
        MqttPacket::Unsubscribe(x) => MqttPacket::Unsubscribe(UnsubscribePacket { packet_id: 0, ..x }),
        MqttPacket::Publish(x) => MqttPacket::Publish(PublishPacket { packet_id: 0, ..x }),
        _ => p,
    }
}
pub open spec fn unbound_op(op: ClientOperation) -> ClientOperation {
    if op.packet_id is Some { ClientOperation { packet_id: None, packet: Box::new(reset_packet(*op.packet)), ..op } } else { op }
}
// an operation that starts over: no packet id, no PUBREL  (C06 "until the operation is restarted because the session was lost", C04)
pub open spec fn restarted_op(op: ClientOperation) -> ClientOperation {
    ClientOperation { qos2_pubrel: None, ..unbound_op(op) }
}

// everything but the packet-id field of the packet is untouched
pub open spec fn same_packet_except_id(a: MqttPacket, b: MqttPacket) -> bool {
    match (a, b) {
        (MqttPacket::Subscribe(x), MqttPacket::Subscribe(y)) => y == SubscribePacket { packet_id: y.packet_id, ..x },
        (MqttPacket::Unsubscribe(x), MqttPacket::Unsubscribe(y)) => y == UnsubscribePacket { packet_id: y.packet_id, ..x },
        (MqttPacket::Publish(x), MqttPacket::Publish(y)) => y == PublishPacket { packet_id: y.packet_id, ..x },
        _ => a == b,
    }
}

impl ProtocolState {
//@fn gneiss-mqtt/src/protocol.rs ProtocolState::acquire_free_packet_id props=C06
    requires old(self).next_packet_id >= 1,
    ensures final(self).next_packet_id >= 1,
        match r {
            Ok(id) => id != 0 && !old(self).allocated_packet_ids@.contains_key(id)
                && final(self).allocated_packet_ids@ == old(self).allocated_packet_ids@.insert(id, operation_id),
            Err(_) => final(self).allocated_packet_ids@ == old(self).allocated_packet_ids@
                && (forall|k: u16| 1 <= k ==> old(self).allocated_packet_ids@.contains_key(k)),
        },
        // frame: nothing else changes
        *final(self) == (ProtocolState { allocated_packet_ids: final(self).allocated_packet_ids, next_packet_id: final(self).next_packet_id, ..*old(self) }),
//@@loop 0
        invariant
            1 <= start_id, 1 <= check_id,
            self.next_packet_id == check_id,
            self.allocated_packet_ids@ == old(self).allocated_packet_ids@,
            *self == (ProtocolState { allocated_packet_ids: self.allocated_packet_ids, next_packet_id: self.next_packet_id, ..*old(self) }),
            forall|k: u16| 1 <= k && pid_dist(start_id, k) < pid_dist(start_id, check_id) ==> old(self).allocated_packet_ids@.contains_key(k),
        decreases 65535 - pid_dist(start_id, check_id),
//@end
}


// =====================================================================================================
// completion (C01, C06, C09, C11, C14)
// =====================================================================================================

// C01: "a success carrying the acknowledgement that belongs to that operation"
pub open spec fn resp_belongs(op: ClientOperation, resp: Option<OperationResponse>) -> bool {
    match resp {
        None => !takes_packet_id(*op.packet),
        Some(OperationResponse::Publish(PublishResponse::Qos0)) => false,
        Some(OperationResponse::Publish(PublishResponse::Qos1(puback))) =>
            is_qos_publish(*op.packet, QualityOfService::AtLeastOnce) && op.packet_id == Some(puback.packet_id),
        Some(OperationResponse::Publish(PublishResponse::Qos2(Qos2Response::Pubcomp(pubcomp)))) =>
            is_qos_publish(*op.packet, QualityOfService::ExactlyOnce) && op.qos2_pubrel is Some && op.packet_id == Some(pubcomp.packet_id),
        Some(OperationResponse::Publish(PublishResponse::Qos2(Qos2Response::Pubrec(pubrec)))) =>
            is_qos_publish(*op.packet, QualityOfService::ExactlyOnce) && op.packet_id == Some(pubrec.packet_id)
                && pubrec.reason_code as u8 >= 128,
        Some(OperationResponse::Subscribe(suback)) =>
            (*op.packet matches MqttPacket::Subscribe(sub) && suback.reason_codes@.len() == sub.subscriptions@.len())
                && op.packet_id == Some(suback.packet_id),
        Some(OperationResponse::Unsubscribe(unsuback)) =>
            (*op.packet matches MqttPacket::Unsubscribe(unsub) && unsuback.reason_codes@.len() == unsub.topic_filters@.len())
                && op.packet_id == Some(unsuback.packet_id),
    }
}

pub open spec fn resp_kind_matches(o: ClientOperationOptions, resp: Option<OperationResponse>) -> bool {
    match o {
        ClientOperationOptions::Publish(_) => resp is None || resp->Some_0 is Publish,
        ClientOperationOptions::Subscribe(_) => resp is Some && resp->Some_0 is Subscribe,
        ClientOperationOptions::Unsubscribe(_) => resp is Some && resp->Some_0 is Unsubscribe,
    }
}

// map with the operation's packet-id binding removed
pub open spec fn unbind_map(m: Map<u16, u64>, pid: Option<u16>) -> Map<u16, u64> {
    match pid { Some(p) => m.remove(p), None => m }
}

// what removing operation `id` does to the tables (shared by both completion paths): exactly that
// operation and its id bindings disappear, every other entry of every table is untouched
pub open spec fn removed_exactly(pre: ProtocolState, post: ProtocolState, id: u64) -> bool {
    &&& post.operations@ == pre.operations@.remove(id)
    &&& post.allocated_packet_ids@ == unbind_map(pre.allocated_packet_ids@, pre.operations@[id].packet_id)
    &&& post.pending_publish_operations@ == unbind_map(pre.pending_publish_operations@, pre.operations@[id].packet_id)
    &&& post.pending_non_publish_operations@ == unbind_map(pre.pending_non_publish_operations@, pre.operations@[id].packet_id)
}

pub open spec fn tables_unchanged(pre: ProtocolState, post: ProtocolState) -> bool {
    &&& post.operations@ == pre.operations@
    &&& post.allocated_packet_ids@ == pre.allocated_packet_ids@
    &&& post.pending_publish_operations@ == pre.pending_publish_operations@
    &&& post.pending_non_publish_operations@ == pre.pending_non_publish_operations@
}

// fields no completion path may touch
pub open spec fn completion_frame(pre: ProtocolState, post: ProtocolState) -> bool {
    &&& post.user_operation_queue@ == pre.user_operation_queue@
    &&& post.resubmit_operation_queue@ == pre.resubmit_operation_queue@
    &&& post.high_priority_operation_queue@ == pre.high_priority_operation_queue@
    &&& post.pending_write_completion_operations@ == pre.pending_write_completion_operations@
    &&& post.current_operation == pre.current_operation
    &&& post.next_operation_id == pre.next_operation_id
    &&& post.next_packet_id == pre.next_packet_id
    &&& post.config == pre.config
    &&& post.current_settings == pre.current_settings
    &&& post.qos2_incomplete_incoming_publishes@ == pre.qos2_incomplete_incoming_publishes@
    &&& post.pending_write_completion == pre.pending_write_completion
    &&& post.ping_timeout_timepoint == pre.ping_timeout_timepoint
    &&& post.connack_timeout_timepoint == pre.connack_timeout_timepoint
    &&& post.current_time == pre.current_time
    &&& post.protocol_version == pre.protocol_version
    &&& post.has_connected_successfully == pre.has_connected_successfully
    &&& post.operation_ack_timeouts == pre.operation_ack_timeouts
    &&& post.current_operation_ack_timeout_elapsed == pre.current_operation_ack_timeout_elapsed
    &&& post.inbound_alias_resolver == pre.inbound_alias_resolver
}

// completing (or failing) a user DISCONNECT tears the connection down -- unless there is no connection any more (C12:
// a stop request must lead to Stopped also "while a user-requested DISCONNECT is still waiting to be written")
pub open spec fn disconnect_completion_err(pre: ProtocolStateType, op: ClientOperation) -> bool {
    *op.packet is Disconnect && pre != ProtocolStateType::Disconnected
}
pub open spec fn disconnect_completion_state(pre: ProtocolStateType, op: ClientOperation) -> ProtocolStateType {
    if *op.packet is Disconnect && pre == ProtocolStateType::PendingDisconnect { ProtocolStateType::Halted } else { pre }
}

pub proof fn lemma_ss_set_remove(pre: ProtocolState, post: ProtocolState, id: u64)
    requires pre.operations@.contains_key(id), post.operations@ == pre.operations@.remove(id),
    ensures post.ss_set() =~= pre.ss_set().remove(id),
        pre.operations@[id].slow_start_ack_value != 0 ==> pre.ss_set().contains(id) && pre.ss_set().len() >= 1,
        pre.operations@[id].slow_start_ack_value == 0 ==> post.ss_set() =~= pre.ss_set(),
{
    if pre.operations@[id].slow_start_ack_value != 0 {
        assert(pre.ss_set().contains(id));
        if pre.ss_set().len() == 0 { pre.ss_set().lemma_len0_is_empty(); }
    }
}

// the C14 rule: the next ping only ever moves later, to at most (written_at + K)
pub open spec fn ping_extension_result(pre: ProtocolState, op: ClientOperation) -> Option<Instant> {
    let base = if takes_packet_id(*op.packet) { op.ping_extension_base_timepoint } else { None };
    match (base, pre.current_settings, pre.next_ping_timepoint) {
        (Some(b), Some(settings), Some(np)) =>
            if b.nanos + settings.server_keep_alive as int * 1000000000 > np.nanos {
                Some(Instant { nanos: (b.nanos + settings.server_keep_alive as int * 1000000000) as u128 })
            } else { Some(np) },
        _ => pre.next_ping_timepoint,
    }
}

impl ProtocolState {
//@fn gneiss-mqtt/src/protocol.rs ProtocolState::apply_disconnect_completion props=C12,C07,C11
    ensures
        *final(self) == (ProtocolState { state: final(self).state, ..*old(self) }),
        final(self).state == disconnect_completion_state(old(self).state, *operation),
        r is Err <==> disconnect_completion_err(old(self).state, *operation),
        r matches Err(e) ==> e.kind() == GErrKind::UserInitiatedDisconnect,
//@end

//@fn gneiss-mqtt/src/protocol.rs ProtocolState::apply_ackable_completion props=C09,C11
    requires
        // no-panic condition; follows from wf_slow_start (see complete_operation_*)
        old(self).ss_active() && operation.slow_start_ack_value != 0 ==> old(self).slow_start_ack_count >= operation.slow_start_ack_value,
    ensures
        *final(self) == (ProtocolState { slow_start_ack_count: final(self).slow_start_ack_count, ..*old(self) }),
        final(self).slow_start_ack_count == (if old(self).ss_active() { (old(self).slow_start_ack_count - operation.slow_start_ack_value) as u32 } else { old(self).slow_start_ack_count }),
//@end

//@fn gneiss-mqtt/src/protocol.rs ProtocolState::should_external_operations_be_slow_start_throttled props=C09
    ensures r == (self.ss_active() && self.slow_start_ack_count != 0),
//@end

//@fn gneiss-mqtt/src/protocol.rs ProtocolState::has_pending_ack props=C09
    ensures r == (self.pending_publish_operations@.len() != 0 || self.pending_non_publish_operations@.len() != 0),
//@end

//@fn gneiss-mqtt/src/protocol.rs ProtocolState::apply_ping_extension_on_operation_success props=C14,C11
    requires op_wf(*operation),
    ensures
        *final(self) == (ProtocolState { next_ping_timepoint: final(self).next_ping_timepoint, ..*old(self) }),
        final(self).next_ping_timepoint == ping_extension_result(*old(self), *operation),
        // "only ever moves later"
        (old(self).next_ping_timepoint matches Some(a) ==> (final(self).next_ping_timepoint matches Some(b) && b.nanos >= a.nanos)),
        old(self).next_ping_timepoint is None ==> final(self).next_ping_timepoint is None,
//@end
}

//@fn gneiss-mqtt/src/protocol.rs complete_operation_with_result props=C01 stub
    requires options_untaken(Some(*old(operation_options))),
        // the body unwraps the result for subscribe / unsubscribe operations: "no acknowledgement" is only ever passed for publishes
        (*old(operation_options) is Subscribe || *old(operation_options) is Unsubscribe) ==> completion_result is Some,
    ensures
        // assumed here, proved by E-K (harnesses cwr_*): the one-shot handler is invoked exactly once iff Ok
        r is Ok <==> resp_kind_matches(*old(operation_options), completion_result),
//@end

//@fn gneiss-mqtt/src/protocol.rs complete_operation_with_error props=C01 stub
    requires options_untaken(Some(*old(operation_options))),
    ensures r is Ok,
//@end

impl ProtocolState {
//@fn gneiss-mqtt/src/protocol.rs ProtocolState::complete_operation_as_success props=C01,C06,C09,C11,C14
    requires old(self).wf(),
        old(self).operations@.contains_key(id) ==> resp_belongs(old(self).operations@[id], completion_result),
    ensures final(self).wf(),
        // H1-H5 (DESIGN.md 2): removing an operation keeps them, the removed operation itself being exempt from "is located somewhere"
        (hs_ok_but(*old(self), id) && unreferenced(*old(self), id)) ==> hs_ok(*final(self)),
        completion_frame(*old(self), *final(self)),
        !old(self).operations@.contains_key(id) ==> r is Err && tables_unchanged(*old(self), *final(self)) && final(self).state == old(self).state
            && final(self).slow_start_ack_count == old(self).slow_start_ack_count && final(self).next_ping_timepoint == old(self).next_ping_timepoint,
        old(self).operations@.contains_key(id) ==> {
            let op = old(self).operations@[id];
            &&& removed_exactly(*old(self), *final(self), id)
            &&& final(self).state == disconnect_completion_state(old(self).state, op)
            &&& final(self).next_ping_timepoint == ping_extension_result(*old(self), op)
            &&& (r is Err <==> disconnect_completion_err(old(self).state, op))
        },
        old(self).cur_ok() && old(self).current_operation != Some(id) ==> final(self).cur_ok(),
        !old(self).ss_active() ==> final(self).slow_start_ack_count == old(self).slow_start_ack_count,
//@@at after "if operation_option.is_none() {"
        proof { assert(self.operations@ =~= old(self).operations@); }
//@@at after "let operation = operation_option.unwrap();"
        proof {
            lemma_ss_set_remove(*old(self), *self, id);
        }
//@@at after "self.apply_ackable_completion(&operation);"
        proof { if hs_ok_but(*old(self), id) && unreferenced(*old(self), id) { lemma_hs_remove(*old(self), *self, id); } }
//@end

//@fn gneiss-mqtt/src/protocol.rs ProtocolState::complete_operation_as_failure props=C01,C06,C09,C11,C18
    requires old(self).wf(),
    ensures final(self).wf(),
        // H1-H5 (DESIGN.md 2): removing an operation keeps them, the removed operation itself being exempt from "is located somewhere"
        (hs_ok_but(*old(self), id) && unreferenced(*old(self), id)) ==> hs_ok(*final(self)),
        completion_frame(*old(self), *final(self)),
        final(self).next_ping_timepoint == old(self).next_ping_timepoint,
        !old(self).operations@.contains_key(id) ==> r is Ok && tables_unchanged(*old(self), *final(self)) && final(self).state == old(self).state
            && final(self).slow_start_ack_count == old(self).slow_start_ack_count,
        old(self).operations@.contains_key(id) ==> {
            let op = old(self).operations@[id];
            &&& removed_exactly(*old(self), *final(self), id)
            &&& final(self).state == disconnect_completion_state(old(self).state, op)
            &&& (r is Err <==> disconnect_completion_err(old(self).state, op))
        },
        old(self).cur_ok() && old(self).current_operation != Some(id) ==> final(self).cur_ok(),
        !old(self).ss_active() ==> final(self).slow_start_ack_count == old(self).slow_start_ack_count,
//@@at after "if operation_option.is_none() {"
        proof { assert(self.operations@ =~= old(self).operations@); }
//@@at after "let operation = operation_option.unwrap();"
        proof {
            lemma_ss_set_remove(*old(self), *self, id);
        }
//@@at after "self.apply_ackable_completion(&operation);"
        proof { if hs_ok_but(*old(self), id) && unreferenced(*old(self), id) { lemma_hs_remove(*old(self), *self, id); } }
//@end
}


// =====================================================================================================
// operation creation, queues, id binding (C06, C01, C05, C10)
// =====================================================================================================

// Assumption A-OPID: fewer than 2^64 - 1 operations are created in a client's lifetime
pub open spec fn opid_budget(s: ProtocolState, n: int) -> bool { s.next_operation_id + n < u64::MAX }

pub open spec fn fresh_operation(id: u64, packet: MqttPacket, options: Option<ClientOperationOptions>) -> ClientOperation {
    ClientOperation { id, packet: Box::new(packet), qos2_pubrel: None, packet_id: None, options,
        ping_extension_base_timepoint: None, slow_start_ack_value: 0, interruption_count: 0 }
}

// one operation is rewritten in place, keeping its id, packet-id binding and slow-start weight: wf is kept
pub proof fn lemma_wf_op_update(pre: ProtocolState, post: ProtocolState, id: u64)
    requires pre.wf(), pre.operations@.contains_key(id),
        post.operations@.dom() =~= pre.operations@.dom(),
        forall|k: u64| k != id && pre.operations@.contains_key(k) ==> post.operations@[k] == pre.operations@[k],
        op_wf(post.operations@[id]), post.operations@[id].id == id,
        post.operations@[id].packet_id == pre.operations@[id].packet_id,
        post.operations@[id].slow_start_ack_value == pre.operations@[id].slow_start_ack_value,
        is_qos1plus_publish(*pre.operations@[id].packet) ==> is_qos1plus_publish(*post.operations@[id].packet),
        *pre.operations@[id].packet is Subscribe ==> *post.operations@[id].packet is Subscribe,
        *pre.operations@[id].packet is Unsubscribe ==> *post.operations@[id].packet is Unsubscribe,
        takes_packet_id(*post.operations@[id].packet) ==> takes_packet_id(*pre.operations@[id].packet),
        post.pending_write_completion_operations@ == pre.pending_write_completion_operations@,
        post.allocated_packet_ids@ == pre.allocated_packet_ids@,
        post.pending_publish_operations@ == pre.pending_publish_operations@,
        post.pending_non_publish_operations@ == pre.pending_non_publish_operations@,
        post.next_packet_id == pre.next_packet_id, post.next_operation_id == pre.next_operation_id,
        post.state == pre.state, post.config == pre.config, post.slow_start_ack_count == pre.slow_start_ack_count,
        post.current_settings == pre.current_settings, post.connack_timeout_timepoint == pre.connack_timeout_timepoint,
        post.current_operation == pre.current_operation,
    ensures post.wf(),
{
    assert(post.ss_set() =~= pre.ss_set());
    assert forall|k: u64| #[trigger] post.operations@.contains_key(k) implies
        post.operations@[k].id == k && k != 0 && k < post.next_operation_id && op_wf(post.operations@[k]) by {
        assert(pre.operations@.contains_key(k));
    }
}

impl ProtocolState {
//@fn gneiss-mqtt/src/protocol.rs ProtocolState::create_operation props=C01,C10,C05,C06
    requires old(self).wf_core(), opid_budget(*old(self), 1),
        options_untaken(options), options_match_packet(options, *packet),
    ensures final(self).wf_core(), old(self).wf() ==> final(self).wf(),
        r == old(self).next_operation_id, r != 0,
        !old(self).operations@.contains_key(r),       // never overwrites a tracked operation
        final(self).next_operation_id == r + 1,       // ids strictly increase with submission order
        final(self).operations@ == old(self).operations@.insert(r, fresh_operation(r, *packet, options)),
        *final(self) == (ProtocolState { operations: final(self).operations, next_operation_id: final(self).next_operation_id, ..*old(self) }),
        old(self).cur_ok() ==> final(self).cur_ok(),
//@@at after "self.operations.insert(id, operation);"
        proof {
            assert(self.ss_set() =~= old(self).ss_set());
        }
//@end

//@fn gneiss-mqtt/src/protocol.rs ProtocolState::get_queue props=C10
    ensures
        queue_type == ProtocolQueueType::User ==> *r == old(self).user_operation_queue
            && *final(self) == (ProtocolState { user_operation_queue: *final(r), ..*old(self) }),
        queue_type == ProtocolQueueType::HighPriority ==> *r == old(self).high_priority_operation_queue
            && *final(self) == (ProtocolState { high_priority_operation_queue: *final(r), ..*old(self) }),
//@end

//@fn gneiss-mqtt/src/protocol.rs ProtocolState::enqueue_operation props=C10,C05,C11
    requires old(self).operations@.contains_key(id),
    ensures
        queue_type == ProtocolQueueType::User ==>
            *final(self) == (ProtocolState { user_operation_queue: final(self).user_operation_queue, ..*old(self) })
            && final(self).user_operation_queue@ == (if position == ProtocolEnqueuePosition::Front { seq![id] + old(self).user_operation_queue@ } else { old(self).user_operation_queue@.push(id) }),
        queue_type == ProtocolQueueType::HighPriority ==>
            *final(self) == (ProtocolState { high_priority_operation_queue: final(self).high_priority_operation_queue, ..*old(self) })
            && final(self).high_priority_operation_queue@ == (if position == ProtocolEnqueuePosition::Front { seq![id] + old(self).high_priority_operation_queue@ } else { old(self).high_priority_operation_queue@.push(id) }),
//@end

//@fn gneiss-mqtt/src/protocol.rs ProtocolState::acquire_packet_id_for_operation props=C06,C11
    requires old(self).wf(), old(self).operations@.contains_key(operation_id),
    ensures final(self).wf(),
        final(self).operations@.dom() =~= old(self).operations@.dom(),
        forall|k: u64| k != operation_id && old(self).operations@.contains_key(k) ==> final(self).operations@[k] == old(self).operations@[k],
        *final(self) == (ProtocolState { operations: final(self).operations, allocated_packet_ids: final(self).allocated_packet_ids, next_packet_id: final(self).next_packet_id, ..*old(self) }),
        ({
            let op = old(self).operations@[operation_id];
            let op2 = final(self).operations@[operation_id];
            // a retransmission reuses the identifier of the original; QoS0 / internal packets get none
            &&& (op.packet_id is Some || !takes_packet_id(*op.packet)) ==> r is Ok && op2 == op && final(self).allocated_packet_ids@ == old(self).allocated_packet_ids@
            &&& (op.packet_id is None && takes_packet_id(*op.packet) && r is Ok) ==> (op2.packet_id matches Some(p) && p != 0
                    && !old(self).allocated_packet_ids@.contains_key(p)
                    && final(self).allocated_packet_ids@ == old(self).allocated_packet_ids@.insert(p, operation_id)
                    && packet_id_field(*op2.packet) == p && same_packet_except_id(*op.packet, *op2.packet)
                    && op2.qos2_pubrel == op.qos2_pubrel && op2.options == op.options && op2.id == op.id)
            &&& r is Err ==> final(self).operations@ == old(self).operations@ && final(self).allocated_packet_ids@ == old(self).allocated_packet_ids@
                    && (forall|k: u16| 1 <= k ==> old(self).allocated_packet_ids@.contains_key(k))
        }),
//@@at after "operation.bind_packet_id(packet_id);"
        proof {
            assert(self.ss_set() =~= old(self).ss_set());
        }
//@end

//@fn gneiss-mqtt/src/protocol.rs ProtocolState::unbind_operation_packet_id props=C06,C04,C11
    // purely functional contract (no wf in the precondition): session handling calls this while the allocation table is
    // deliberately out of step with the operations (it was cleared in one go); wf is re-established there by lemma_restart_wf
    requires
        old(self).operations@.contains_key(id) && old(self).operations@[id].packet_id is Some ==> carries_packet_id_field(*old(self).operations@[id].packet),
    ensures
        *final(self) == (ProtocolState { operations: final(self).operations, allocated_packet_ids: final(self).allocated_packet_ids, ..*old(self) }),
        final(self).operations@.dom() =~= old(self).operations@.dom(),
        forall|k: u64| k != id && old(self).operations@.contains_key(k) ==> final(self).operations@[k] == old(self).operations@[k],
        old(self).operations@.contains_key(id) ==> final(self).operations@[id] == unbound_op(old(self).operations@[id])
            && final(self).allocated_packet_ids@ == unbind_map(old(self).allocated_packet_ids@, old(self).operations@[id].packet_id),
        !old(self).operations@.contains_key(id) ==> final(self).allocated_packet_ids@ == old(self).allocated_packet_ids@,
//@@at bodyend
        proof {
            if !old(self).operations@.contains_key(id) { assert(self.operations@ =~= old(self).operations@); }
        }
//@end

//@fn gneiss-mqtt/src/protocol.rs ProtocolState::clear_qos2_state props=C04
    ensures
        final(self).operations@.dom() =~= old(self).operations@.dom(),
        forall|k: u64| k != id && old(self).operations@.contains_key(k) ==> final(self).operations@[k] == old(self).operations@[k],
        old(self).operations@.contains_key(id) ==> final(self).operations@[id] == (ClientOperation { qos2_pubrel: None, ..old(self).operations@[id] }),
        *final(self) == (ProtocolState { operations: final(self).operations, ..*old(self) }),
//@@at bodyend
        proof { if !old(self).operations@.contains_key(id) { assert(self.operations@ =~= old(self).operations@); } }
//@end

//@fn gneiss-mqtt/src/protocol.rs ProtocolState::set_publish_duplicate_flag props=C04
    requires old(self).wf(),
        // verified for publishes only (every call site passes ids taken from the publish tables): Verus cannot
        // resolve the `&mut *Box` reborrow of a non-matching `if let` arm, so the no-op case is not provable
        old(self).operations@.contains_key(id) ==> *old(self).operations@[id].packet is Publish,
    ensures final(self).wf(),
        final(self).operations@.dom() =~= old(self).operations@.dom(),
        forall|k: u64| k != id && old(self).operations@.contains_key(k) ==> final(self).operations@[k] == old(self).operations@[k],
        // frame: only the DUP flag of that publish changes (same packet id, same application content)
        old(self).operations@.contains_key(id) ==> {
            let op = old(self).operations@[id];
            let op2 = final(self).operations@[id];
            match *op.packet {
                MqttPacket::Publish(publish) => *op2.packet == MqttPacket::Publish(PublishPacket { duplicate: value, ..publish })
                    && op2 == (ClientOperation { packet: op2.packet, ..op }),
                _ => op2 == op,
            }
        },
        *final(self) == (ProtocolState { operations: final(self).operations, ..*old(self) }),
//@@at bodyend
        proof { if old(self).operations@.contains_key(id) { lemma_wf_op_update(*old(self), *self, id); } else { assert(self.operations@ =~= old(self).operations@); } }
//@end
}


// =====================================================================================================
// inbound packet handlers (C01, C04, C05, C11, C14)
// =====================================================================================================

pub open spec fn accepts_acks(st: ProtocolStateType) -> bool {
    st != ProtocolStateType::Disconnected && st != ProtocolStateType::PendingConnack
}

// an ack that completes nothing changes nothing (mismatched / unknown / wrong-type acks)
pub open spec fn ack_rejected(pre: ProtocolState, post: ProtocolState) -> bool {
    tables_unchanged(pre, post) && completion_frame(pre, post) && post.state == pre.state
        && post.next_ping_timepoint == pre.next_ping_timepoint && post.slow_start_ack_count == pre.slow_start_ack_count
}


//@fn gneiss-mqtt/src/mqtt/utils.rs mqtt_packet_to_packet_type props=C11
    ensures (r == PacketType::Connect) == (packet is Connect),
//@end

impl ProtocolState {
//@fn gneiss-mqtt/src/protocol.rs ProtocolState::is_operation_publish_of_qos props=C01
    ensures r == (self.operations@.contains_key(operation_id) && is_qos_publish(*self.operations@[operation_id].packet, qos)),
//@end

//@fn gneiss-mqtt/src/protocol.rs ProtocolState::handle_puback props=C01,C11,C06,C14
    requires old(self).wf(), *packet is Puback,
    ensures final(self).wf(),
        // C14: received traffic never moves the keep-alive schedule (only the client's own transmissions and the CONNACK do)
        final(self).ping_timeout_timepoint == old(self).ping_timeout_timepoint,
        // (completing the acknowledged operation may move the next ping later, to the time that operation was written + K: ping_extension_result)
        old(self).next_ping_timepoint matches Some(a) ==> (final(self).next_ping_timepoint matches Some(b) && b.nanos >= a.nanos),
        old(self).next_ping_timepoint is None ==> final(self).next_ping_timepoint is None,
        hs_ok(*old(self)) ==> hs_ok(*final(self)),
        final(self).next_operation_id == old(self).next_operation_id,
        completion_frame(*old(self), *final(self)),
        ({
            let pid = packet->Puback_0.packet_id;
            let pre = *old(self);
            let hit = accepts_acks(pre.state) && pre.pending_publish_operations@.contains_key(pid)
                && is_qos_publish(*pre.operations@[pre.pending_publish_operations@[pid]].packet, QualityOfService::AtLeastOnce);
            &&& hit ==> r is Ok && removed_exactly(pre, *final(self), pre.pending_publish_operations@[pid]) && final(self).state == pre.state
            &&& !hit ==> r is Err && ack_rejected(pre, *final(self))
        }),
        old(self).cur_ok() && (old(self).current_operation matches Some(c) ==> !(old(self).pending_publish_operations@.contains_key(packet->Puback_0.packet_id) && old(self).pending_publish_operations@[packet->Puback_0.packet_id] == c)) ==> final(self).cur_ok(),
//@end

//@fn gneiss-mqtt/src/protocol.rs ProtocolState::handle_pubcomp props=C01,C04,C11,C06,C14
    requires old(self).wf(), *packet is Pubcomp,
    ensures final(self).wf(),
        // C14: received traffic never moves the keep-alive schedule (only the client's own transmissions and the CONNACK do)
        final(self).ping_timeout_timepoint == old(self).ping_timeout_timepoint,
        // (completing the acknowledged operation may move the next ping later, to the time that operation was written + K: ping_extension_result)
        old(self).next_ping_timepoint matches Some(a) ==> (final(self).next_ping_timepoint matches Some(b) && b.nanos >= a.nanos),
        old(self).next_ping_timepoint is None ==> final(self).next_ping_timepoint is None,
        hs_ok(*old(self)) ==> hs_ok(*final(self)),
        final(self).next_operation_id == old(self).next_operation_id,
        completion_frame(*old(self), *final(self)),
        ({
            let pid = packet->Pubcomp_0.packet_id;
            let pre = *old(self);
            let hit = accepts_acks(pre.state) && pre.pending_publish_operations@.contains_key(pid)
                && is_qos_publish(*pre.operations@[pre.pending_publish_operations@[pid]].packet, QualityOfService::ExactlyOnce)
                && pre.operations@[pre.pending_publish_operations@[pid]].qos2_pubrel is Some      // PUBCOMP only after PUBREC was seen
                // C11: a PUBCOMP that arrives while the PUBREL it answers is still being written is a protocol violation
                && pre.current_operation != Some(pre.pending_publish_operations@[pid]);
            &&& hit ==> r is Ok && removed_exactly(pre, *final(self), pre.pending_publish_operations@[pid]) && final(self).state == pre.state
            &&& !hit ==> r is Err && ack_rejected(pre, *final(self))
        }),
        // the half-written operation is never the one completed
        old(self).cur_ok() ==> final(self).cur_ok(),
//@@at before "Qos2Response::Pubcomp(pubcomp)"
        proof { assert(self.operations@ =~= old(self).operations@); }
//@@at before "received a pubcomp before sending a pubrel @nth=1/2"
        proof { assert(self.operations@ =~= old(self).operations@); }
//@@at before "received a pubcomp before sending a pubrel @nth=2/2"
        proof { assert(self.operations@ =~= old(self).operations@); }
//@end

//@fn gneiss-mqtt/src/protocol.rs ProtocolState::handle_suback props=C01,C11,C06,C14
    requires old(self).wf(), *packet is Suback,
    ensures final(self).wf(),
        // C14: received traffic never moves the keep-alive schedule (only the client's own transmissions and the CONNACK do)
        final(self).ping_timeout_timepoint == old(self).ping_timeout_timepoint,
        // (completing the acknowledged operation may move the next ping later, to the time that operation was written + K: ping_extension_result)
        old(self).next_ping_timepoint matches Some(a) ==> (final(self).next_ping_timepoint matches Some(b) && b.nanos >= a.nanos),
        old(self).next_ping_timepoint is None ==> final(self).next_ping_timepoint is None,
        hs_ok(*old(self)) ==> hs_ok(*final(self)),
        final(self).next_operation_id == old(self).next_operation_id,
        completion_frame(*old(self), *final(self)),
        ({
            let suback = packet->Suback_0;
            let pid = suback.packet_id;
            let pre = *old(self);
            let hit = accepts_acks(pre.state) && pre.pending_non_publish_operations@.contains_key(pid)
                && (*pre.operations@[pre.pending_non_publish_operations@[pid]].packet matches MqttPacket::Subscribe(sub)
                    && sub.subscriptions@.len() == suback.reason_codes@.len());           // one reason code per requested entry
            &&& hit ==> r is Ok && removed_exactly(pre, *final(self), pre.pending_non_publish_operations@[pid]) && final(self).state == pre.state
            &&& !hit ==> r is Err && ack_rejected(pre, *final(self))
        }),
//@end

//@fn gneiss-mqtt/src/protocol.rs ProtocolState::handle_unsuback props=C01,C11,C06,C14
    requires old(self).wf(), *packet is Unsuback,
    ensures final(self).wf(),
        // C14: received traffic never moves the keep-alive schedule (only the client's own transmissions and the CONNACK do)
        final(self).ping_timeout_timepoint == old(self).ping_timeout_timepoint,
        // (completing the acknowledged operation may move the next ping later, to the time that operation was written + K: ping_extension_result)
        old(self).next_ping_timepoint matches Some(a) ==> (final(self).next_ping_timepoint matches Some(b) && b.nanos >= a.nanos),
        old(self).next_ping_timepoint is None ==> final(self).next_ping_timepoint is None,
        hs_ok(*old(self)) ==> hs_ok(*final(self)),
        final(self).next_operation_id == old(self).next_operation_id,
        completion_frame(*old(self), *final(self)),
        ({
            let unsuback = packet->Unsuback_0;
            let pid = unsuback.packet_id;
            let pre = *old(self);
            let hit = accepts_acks(pre.state) && pre.pending_non_publish_operations@.contains_key(pid)
                && (*pre.operations@[pre.pending_non_publish_operations@[pid]].packet matches MqttPacket::Unsubscribe(unsub)
                    && (pre.protocol_version == ProtocolVersion::Mqtt311 || unsub.topic_filters@.len() == unsuback.reason_codes@.len()));
            &&& hit ==> r is Ok && removed_exactly(pre, *final(self), pre.pending_non_publish_operations@[pid]) && final(self).state == pre.state
            &&& !hit ==> r is Err && ack_rejected(pre, *final(self))
        }),
//@end

//@fn gneiss-mqtt/src/protocol.rs ProtocolState::handle_pubrec props=C01,C04,C11,C06,C14
    requires old(self).wf(), *packet is Pubrec,
    ensures final(self).wf(),
        // C14: received traffic never moves the keep-alive schedule (only the client's own transmissions and the CONNACK do)
        final(self).ping_timeout_timepoint == old(self).ping_timeout_timepoint,
        // (a failing PUBREC completes the publish: that may move the next ping later, to the time the publish was written + K: ping_extension_result)
        old(self).next_ping_timepoint matches Some(a) ==> (final(self).next_ping_timepoint matches Some(b) && b.nanos >= a.nanos),
        old(self).next_ping_timepoint is None ==> final(self).next_ping_timepoint is None,
        hs_ok(*old(self)) ==> hs_ok(*final(self)),
        final(self).next_operation_id == old(self).next_operation_id,
        ({
            let pubrec = packet->Pubrec_0;
            let pid = pubrec.packet_id;
            let pre = *old(self);
            let post = *final(self);
            let hit = accepts_acks(pre.state) && pre.pending_publish_operations@.contains_key(pid)
                && is_qos_publish(*pre.operations@[pre.pending_publish_operations@[pid]].packet, QualityOfService::ExactlyOnce)
                // C11: a PUBREC for an operation that is (again) half-written is a protocol violation, not a completion
                && pre.current_operation != Some(pre.pending_publish_operations@[pid]);
            let oid = pre.pending_publish_operations@[pid];
            // failing PUBREC: the operation completes with it
            &&& hit && pubrec.reason_code as u8 >= 128 ==> r is Ok && removed_exactly(pre, post, oid) && completion_frame(pre, post) && post.state == pre.state
            // success PUBREC: a PUBREL with that identifier is queued (at the back of the high-priority queue),
            // the publish stays un-completed and will never be sent again as a PUBLISH
            &&& hit && (pubrec.reason_code as u8) < 128 ==> {
                    &&& r is Ok
                    &&& post.operations@.dom() =~= pre.operations@.dom()
                    &&& (forall|k: u64| k != oid && pre.operations@.contains_key(k) ==> post.operations@[k] == pre.operations@[k])
                    &&& (post.operations@[oid].qos2_pubrel matches Some(rel) && (*rel matches MqttPacket::Pubrel(p) && p.packet_id == pid && p.reason_string is None && p.user_properties is None))
                    &&& post.operations@[oid] == (ClientOperation { qos2_pubrel: post.operations@[oid].qos2_pubrel, ..pre.operations@[oid] })
                    &&& post.high_priority_operation_queue@ == pre.high_priority_operation_queue@.push(oid)
                    &&& post.pending_publish_operations@ == pre.pending_publish_operations@
                    &&& post.allocated_packet_ids@ == pre.allocated_packet_ids@
                    &&& post.pending_non_publish_operations@ == pre.pending_non_publish_operations@
                    &&& post.user_operation_queue@ == pre.user_operation_queue@ && post.resubmit_operation_queue@ == pre.resubmit_operation_queue@
                    &&& post.state == pre.state && post.current_operation == pre.current_operation
                }
            &&& !hit ==> r is Err && ack_rejected(pre, post)
        }),
        old(self).cur_ok() ==> final(self).cur_ok(),
//@@at after "self.enqueue_operation(*operation_id, ProtocolQueueType::HighPriority, ProtocolEnqueuePosition::Back);"
        proof {
            lemma_wf_op_update(*old(self), *self, old(self).pending_publish_operations@[packet->Pubrec_0.packet_id]);
        }
//@@at before "Qos2Response::Pubrec(pubrec)"
        proof { assert(self.operations@ =~= old(self).operations@); }
//@@at before "pubrec received for a pending operation that is not a qos2 publish"
        proof { assert(self.operations@ =~= old(self).operations@); }
//@@at before "pubrec received for a pending operation that is not a publish"
        proof { assert(self.operations@ =~= old(self).operations@); }
//@end

//@fn gneiss-mqtt/src/protocol.rs ProtocolState::handle_pubrel props=C05,C11,C14
    requires old(self).wf(), *packet is Pubrel, opid_budget(*old(self), 1),
    ensures final(self).wf(),
        // C14: received traffic never moves the keep-alive schedule (only the client's own transmissions and the CONNACK do)
        final(self).next_ping_timepoint == old(self).next_ping_timepoint, final(self).ping_timeout_timepoint == old(self).ping_timeout_timepoint,
        hs_ok(*old(self)) ==> hs_ok(*final(self)),
        old(self).next_operation_id <= final(self).next_operation_id <= old(self).next_operation_id + 1,
        ({
            let pid = packet->Pubrel_0.packet_id;
            let pre = *old(self);
            let post = *final(self);
            &&& !accepts_acks(pre.state) ==> r is Err && post == pre
            &&& accepts_acks(pre.state) ==> {
                    let oid = pre.next_operation_id;
                    &&& r is Ok
                    // the identifier is released ...
                    &&& post.qos2_incomplete_incoming_publishes@ == pre.qos2_incomplete_incoming_publishes@.remove(pid)
                    // ... and exactly one PUBCOMP for the same identifier is queued behind every earlier ack
                    &&& post.operations@ == pre.operations@.insert(oid, fresh_operation(oid, MqttPacket::Pubcomp(PubcompPacket { packet_id: pid, reason_code: PubcompReasonCode::Success, reason_string: None, user_properties: None }), None))
                    &&& post.high_priority_operation_queue@ == pre.high_priority_operation_queue@.push(oid)
                    &&& post.next_operation_id == oid + 1
                    &&& post.state == pre.state && post.user_operation_queue@ == pre.user_operation_queue@ && post.resubmit_operation_queue@ == pre.resubmit_operation_queue@
                    &&& post.allocated_packet_ids@ == pre.allocated_packet_ids@ && post.pending_publish_operations@ == pre.pending_publish_operations@
                    &&& post.pending_non_publish_operations@ == pre.pending_non_publish_operations@ && post.current_operation == pre.current_operation
                }
        }),
//@end

//@fn gneiss-mqtt/src/protocol.rs ProtocolState::handle_publish props=C05,C11,C14
    requires old(self).wf(), *packet is Publish, opid_budget(*old(self), 1),
    ensures final(self).wf(),
        // C14: received traffic never moves the keep-alive schedule (only the client's own transmissions and the CONNACK do)
        final(self).next_ping_timepoint == old(self).next_ping_timepoint, final(self).ping_timeout_timepoint == old(self).ping_timeout_timepoint,
        hs_ok(*old(self)) ==> hs_ok(*final(self)),
        old(self).next_operation_id <= final(self).next_operation_id <= old(self).next_operation_id + 1,
        final(context).current_time == old(context).current_time,
        ({
            let publish = packet->Publish_0;
            let pid = publish.packet_id;
            let pre = *old(self);
            let post = *final(self);
            let ev_pre = old(context).packet_events@;
            let ev_post = final(context).packet_events@;
            let oid = pre.next_operation_id;
            let queued_ack = |ack: MqttPacket| {
                &&& post.operations@ == pre.operations@.insert(oid, fresh_operation(oid, ack, None))
                &&& post.high_priority_operation_queue@ == pre.high_priority_operation_queue@.push(oid)
                &&& post.next_operation_id == oid + 1
            };
            let rest_same = post.state == pre.state && post.user_operation_queue@ == pre.user_operation_queue@ && post.resubmit_operation_queue@ == pre.resubmit_operation_queue@
                    && post.allocated_packet_ids@ == pre.allocated_packet_ids@ && post.pending_publish_operations@ == pre.pending_publish_operations@
                    && post.pending_non_publish_operations@ == pre.pending_non_publish_operations@ && post.current_operation == pre.current_operation;
            &&& !accepts_acks(pre.state) ==> r is Err && post == pre && ev_post == ev_pre
            &&& accepts_acks(pre.state) ==> r is Ok && rest_same
            // QoS 0: surfaced, nothing queued
            &&& accepts_acks(pre.state) && publish.qos == QualityOfService::AtMostOnce ==> post == pre && ev_post == ev_pre.push(PacketEvent::Publish(publish))
            // QoS 1: surfaced and answered with exactly one PUBACK bearing its identifier
            &&& accepts_acks(pre.state) && publish.qos == QualityOfService::AtLeastOnce ==> ev_post == ev_pre.push(PacketEvent::Publish(publish))
                    && queued_ack(MqttPacket::Puback(PubackPacket { packet_id: pid, reason_code: PubackReasonCode::Success, reason_string: None, user_properties: None }))
                    && post.qos2_incomplete_incoming_publishes@ == pre.qos2_incomplete_incoming_publishes@
            // QoS 2: always answered with PUBREC; surfaced iff the identifier is not already awaiting its PUBREL
            &&& accepts_acks(pre.state) && publish.qos == QualityOfService::ExactlyOnce ==>
                    queued_ack(MqttPacket::Pubrec(PubrecPacket { packet_id: pid, reason_code: PubrecReasonCode::Success, reason_string: None, user_properties: None }))
                    && post.qos2_incomplete_incoming_publishes@ == pre.qos2_incomplete_incoming_publishes@.insert(pid)
                    && ev_post == (if pre.qos2_incomplete_incoming_publishes@.contains(pid) { ev_pre } else { ev_pre.push(PacketEvent::Publish(publish)) })
        }),
//@end

//@fn gneiss-mqtt/src/protocol.rs ProtocolState::handle_pingresp props=C14,C11
    ensures
        hs_ok(*old(self)) ==> hs_ok(*final(self)),
        final(self).next_operation_id == old(self).next_operation_id,
        ({
            let ok = (old(self).state == ProtocolStateType::Connected || old(self).state == ProtocolStateType::PendingDisconnect)
                && old(self).ping_timeout_timepoint is Some;
            &&& ok ==> r is Ok && *final(self) == (ProtocolState { ping_timeout_timepoint: None, ..*old(self) })
            &&& !ok ==> r is Err && *final(self) == *old(self)       // unsolicited PINGRESP is a protocol error
        }),
//@end

//@fn gneiss-mqtt/src/protocol.rs ProtocolState::handle_disconnect props=C11,C14
    requires *packet is Disconnect,
    ensures *final(self) == *old(self), r is Err,
        // C14: received traffic never moves the keep-alive schedule (only the client's own transmissions and the CONNACK do)
        final(self).next_ping_timepoint == old(self).next_ping_timepoint, final(self).ping_timeout_timepoint == old(self).ping_timeout_timepoint,
        hs_ok(*old(self)) ==> hs_ok(*final(self)),
        final(self).next_operation_id == old(self).next_operation_id,
        final(context).current_time == old(context).current_time,
        (accepts_acks(old(self).state) && old(self).protocol_version != ProtocolVersion::Mqtt311)
            ==> final(context).packet_events@ == old(context).packet_events@.push(PacketEvent::Disconnect(packet->Disconnect_0)),
        !(accepts_acks(old(self).state) && old(self).protocol_version != ProtocolVersion::Mqtt311)
            ==> final(context).packet_events@ == old(context).packet_events@,
//@end

//@fn gneiss-mqtt/src/protocol.rs ProtocolState::handle_auth props=C11,C14
    ensures *final(self) == *old(self), r is Err, final(_arg2).packet_events@ == old(_arg2).packet_events@, final(_arg2).current_time == old(_arg2).current_time,
        // C14: received traffic never moves the keep-alive schedule (only the client's own transmissions and the CONNACK do)
        final(self).next_ping_timepoint == old(self).next_ping_timepoint, final(self).ping_timeout_timepoint == old(self).ping_timeout_timepoint,
        hs_ok(*old(self)) ==> hs_ok(*final(self)),
        final(self).next_operation_id == old(self).next_operation_id,
//@end
}

// =====================================================================================================
// dequeue rules and the service-time contract (C08, C09, C10, C07)
// =====================================================================================================

// C09: a QoS1+ publish may not start while the server's Receive Maximum is reached
pub open spec fn rm_blocked(s: ProtocolState, id: u64) -> bool {
    s.current_settings matches Some(settings)
        && s.pending_publish_operations@.len() >= settings.receive_maximum_from_server as nat
        && s.operations@.contains_key(id) && is_qos1plus_publish(*s.operations@[id].packet)
}

pub open spec fn slow_start_blocked(s: ProtocolState) -> bool {
    (s.ss_active() && s.slow_start_ack_count != 0)
        && (s.pending_publish_operations@.len() != 0 || s.pending_non_publish_operations@.len() != 0)
}

// "a sendable queued operation" (C08), in the priority order of C10: high priority, then
// retransmissions, then user operations in submission order; a blocked head is not overtaken.
pub open spec fn next_sendable(s: ProtocolState, mode: ProtocolQueueServiceMode) -> Option<u64> {
    if s.pending_write_completion { None }
    else if s.high_priority_operation_queue@.len() > 0 { Some(s.high_priority_operation_queue@[0]) }
    else if mode == ProtocolQueueServiceMode::HighPriorityOnly { None }
    else if slow_start_blocked(s) { None }
    else if s.resubmit_operation_queue@.len() > 0 {
        if rm_blocked(s, s.resubmit_operation_queue@[0]) { None } else { Some(s.resubmit_operation_queue@[0]) }
    }
    else if s.user_operation_queue@.len() > 0 {
        if rm_blocked(s, s.user_operation_queue@[0]) { None } else { Some(s.user_operation_queue@[0]) }
    }
    else { None }
}

// C08 "work it is able to perform - a sendable queued operation": besides a dequeuable head this includes the operation that
// is already half-written (its packet did not fit the output space offered so far) - it must be continued, not stranded
pub open spec fn has_sendable_work(s: ProtocolState, mode: ProtocolQueueServiceMode) -> bool {
    !s.pending_write_completion && (s.current_operation is Some || next_sendable(s, mode) is Some)
}

pub open spec fn opt_instant_min(a: Option<Instant>, b: Option<Instant>) -> Option<Instant> {
    match (a, b) {
        (Some(x), Some(y)) => if x.nanos < y.nanos { Some(x) } else { Some(y) },
        (Some(x), None) => Some(x),
        (None, y) => y,
    }
}

pub open spec fn opt_le(a: Option<Instant>, b: Instant) -> bool { a matches Some(x) && x.nanos <= b.nanos }

//@fn gneiss-mqtt/src/protocol.rs fold_timepoint props=C08
    ensures r == opt_instant_min(*base, Some(*new)),
//@end

//@fn gneiss-mqtt/src/protocol.rs fold_optional_timepoint_min props=C08
    ensures r == opt_instant_min(*base, *new),
//@end

// ---- ack-timeout records: the real Ord/PartialOrd impls, verified against "ordered by deadline"
impl OrdSpecImpl for OperationTimeoutRecord {
    open spec fn obeys_cmp_spec() -> bool { true }
    open spec fn cmp_spec(&self, other: &OperationTimeoutRecord) -> Ordering {
        if self.timeout.nanos < other.timeout.nanos { Ordering::Less } else if self.timeout.nanos == other.timeout.nanos { Ordering::Equal } else { Ordering::Greater }
    }
}
impl PartialOrdSpecImpl for OperationTimeoutRecord {
    open spec fn obeys_partial_cmp_spec() -> bool { true }
    open spec fn partial_cmp_spec(&self, other: &OperationTimeoutRecord) -> Option<Ordering> {
        Some(if self.timeout.nanos < other.timeout.nanos { Ordering::Less } else if self.timeout.nanos == other.timeout.nanos { Ordering::Equal } else { Ordering::Greater })
    }
}
impl Ord for OperationTimeoutRecord {
//@fn gneiss-mqtt/src/protocol.rs cmp props=C18 impl={Ord for OperationTimeoutRecord}
//@end
}
impl PartialOrd for OperationTimeoutRecord {
//@fn gneiss-mqtt/src/protocol.rs partial_cmp props=C18 impl={PartialOrd for OperationTimeoutRecord}
//@end
}

pub open spec fn earliest_ack_deadline(s: ProtocolState, t: Option<Instant>) -> bool {
    match t {
        Some(d) => (exists|x: Reverse<OperationTimeoutRecord>| heap_view(s.operation_ack_timeouts).count(x) > 0 && x.0.timeout == d)
            && (forall|y: Reverse<OperationTimeoutRecord>| heap_view(s.operation_ack_timeouts).count(y) > 0 ==> d.nanos <= (#[trigger] y.0).timeout.nanos),
        None => heap_view(s.operation_ack_timeouts) == Multiset::<Reverse<OperationTimeoutRecord>>::empty(),
    }
}

impl ProtocolState {
//@fn gneiss-mqtt/src/protocol.rs ProtocolState::does_operation_pass_receive_maximum_flow_control props=C09
    ensures r == !rm_blocked(*self, id),
//@end

//@fn gneiss-mqtt/src/protocol.rs ProtocolState::dequeue_operation props=C08,C09,C10,C07,C01
    ensures
        r == next_sendable(*old(self), mode),
        // exactly the head of the queue it came from is consumed; nothing else moves
        ({
            let pre = *old(self);
            let post = *final(self);
            // (C01: an id leaves a queue only by becoming the operation being written - nothing is dropped on a blocked head)
            &&& r is None ==> post == pre
            &&& r is Some && pre.high_priority_operation_queue@.len() > 0 ==>
                    post.high_priority_operation_queue@ == pre.high_priority_operation_queue@.subrange(1, pre.high_priority_operation_queue@.len() as int)
                    && post == (ProtocolState { high_priority_operation_queue: post.high_priority_operation_queue, ..pre })
            &&& r is Some && pre.high_priority_operation_queue@.len() == 0 && pre.resubmit_operation_queue@.len() > 0 ==>
                    post.resubmit_operation_queue@ == pre.resubmit_operation_queue@.subrange(1, pre.resubmit_operation_queue@.len() as int)
                    && post == (ProtocolState { resubmit_operation_queue: post.resubmit_operation_queue, ..pre })
            &&& r is Some && pre.high_priority_operation_queue@.len() == 0 && pre.resubmit_operation_queue@.len() == 0 ==>
                    post.user_operation_queue@ == pre.user_operation_queue@.subrange(1, pre.user_operation_queue@.len() as int)
                    && post == (ProtocolState { user_operation_queue: post.user_operation_queue, ..pre })
        }),
        // C07: before CONNACK only the high-priority queue is served
        mode == ProtocolQueueServiceMode::HighPriorityOnly && r is Some ==> old(self).high_priority_operation_queue@.len() > 0 && r == Some(old(self).high_priority_operation_queue@[0]),
        // C09: a QoS1+ publish leaves the resubmit/user queue only below the server's Receive Maximum
        (r matches Some(id) && old(self).high_priority_operation_queue@.len() == 0 && old(self).operations@.contains_key(id) && is_qos1plus_publish(*old(self).operations@[id].packet)
            && old(self).current_settings is Some)
            ==> old(self).pending_publish_operations@.len() < old(self).current_settings->Some_0.receive_maximum_from_server,
        // C09: while the one-at-a-time throttle is live and an ack is outstanding nothing but high priority is served
        (r is Some && slow_start_blocked(*old(self))) ==> old(self).high_priority_operation_queue@.len() > 0,
//@end

//@fn gneiss-mqtt/src/protocol.rs ProtocolState::get_next_service_timepoint_protocol_queue props=C08
    ensures
        // no lost wake-up and no idle spinning for the queues: "service me now" <=> a dequeue would succeed
        r == (if has_sendable_work(*self, mode) { Some(self.current_time) } else { None }),
//@end

//@fn gneiss-mqtt/src/protocol.rs ProtocolState::get_next_service_timepoint_disconnected props=C08
    ensures r is None,
//@end

//@fn gneiss-mqtt/src/protocol.rs ProtocolState::get_next_service_timepoint_pending_connack props=C08,C07
    requires self.connack_timeout_timepoint is Some,
    ensures r is Some,
        opt_le(r, self.connack_timeout_timepoint->Some_0),         // the establishment deadline is never slept through
        has_sendable_work(*self, ProtocolQueueServiceMode::HighPriorityOnly) ==> opt_le(r, self.current_time),
        r == opt_instant_min(if has_sendable_work(*self, ProtocolQueueServiceMode::HighPriorityOnly) { Some(self.current_time) } else { None }, self.connack_timeout_timepoint),
//@end

//@fn gneiss-mqtt/src/protocol.rs ProtocolState::get_next_service_timepoint_connected props=C08,C14,C18
    ensures
        self.ping_timeout_timepoint matches Some(t) ==> opt_le(r, t),
        forall|x: Reverse<OperationTimeoutRecord>| #[trigger] heap_view(self.operation_ack_timeouts).count(x) > 0 ==> opt_le(r, x.0.timeout),
        !self.pending_write_completion ==> (self.next_ping_timepoint matches Some(t) ==> opt_le(r, t)),
        has_sendable_work(*self, ProtocolQueueServiceMode::All) ==> opt_le(r, self.current_time),
        // nothing due => no wake-up
        (self.ping_timeout_timepoint is None && heap_view(self.operation_ack_timeouts) == Multiset::<Reverse<OperationTimeoutRecord>>::empty()
            && (self.pending_write_completion || (self.next_ping_timepoint is None && !has_sendable_work(*self, ProtocolQueueServiceMode::All)))) ==> r is None,
        // never earlier than something that is actually due
        r matches Some(t) ==> (self.ping_timeout_timepoint == Some(t) || (!self.pending_write_completion && self.next_ping_timepoint == Some(t))
            || (t == self.current_time && has_sendable_work(*self, ProtocolQueueServiceMode::All))
            || (exists|x: Reverse<OperationTimeoutRecord>| heap_view(self.operation_ack_timeouts).count(x) > 0 && x.0.timeout == t)),
//@@at bodystart
        broadcast use ax_ord_rel_reverse, ax_ord_rel_spec;
//@end

//@fn gneiss-mqtt/src/protocol.rs ProtocolState::get_next_service_timepoint_pending_disconnect props=C08,C18
    ensures
        forall|x: Reverse<OperationTimeoutRecord>| #[trigger] heap_view(self.operation_ack_timeouts).count(x) > 0 ==> opt_le(r, x.0.timeout),
        has_sendable_work(*self, ProtocolQueueServiceMode::HighPriorityOnly) ==> opt_le(r, self.current_time),
//@@at bodystart
        broadcast use ax_ord_rel_reverse, ax_ord_rel_spec;
//@end
}

// =====================================================================================================
// timers: keep-alive, CONNACK deadline, ack timeouts (C14, C18, C07, C11)
// =====================================================================================================

//@fn gneiss-mqtt/src/error.rs fold_mqtt_result props=C18,C11
    ensures new_result is Err ==> r is Err,
        new_result is Ok ==> (r is Err <==> base is Err),
//@end

pub open spec fn op_ack_timeout(op: ClientOperation) -> Option<Duration> {
    match op.options {
        Some(ClientOperationOptions::Unsubscribe(o)) => o.options.ack_timeout,
        Some(ClientOperationOptions::Subscribe(o)) => o.options.ack_timeout,
        Some(ClientOperationOptions::Publish(o)) => o.options.ack_timeout,
        None => None,
    }
}

pub open spec fn hh(h: BinaryHeap<Reverse<OperationTimeoutRecord>>, x: Reverse<OperationTimeoutRecord>) -> bool { heap_view(h).count(x) > 0 }

// C14: the PINGRESP deadline is min(configured ping timeout, K/2) after the PINGREQ, K in seconds
pub open spec fn ping_deadline_nanos(now: Instant, cfg: Duration, k: u16) -> int {
    now.nanos + (if cfg.nanos < k as int * 500000000 { cfg.nanos as int } else { k as int * 500000000 })
}

impl ProtocolState {
//@fn gneiss-mqtt/src/protocol.rs ProtocolState::get_operation_timeout_duration props=C18
    ensures r == op_ack_timeout(*operation),
//@end

//@fn gneiss-mqtt/src/protocol.rs ProtocolState::start_operation_ack_timeout props=C18,C11
    // no precondition: any timeout the builders accept (C11; was finding F-DURATION-OVERFLOW)
    ensures
        *final(self) == (ProtocolState { operation_ack_timeouts: final(self).operation_ack_timeouts, ..*old(self) }),
        // armed iff the operation was submitted with a timeout T whose deadline can be represented, for exactly now + T
        ack_deadline(*old(self), id, now) matches Some(d) ==>
            heap_view(final(self).operation_ack_timeouts) == heap_view(old(self).operation_ack_timeouts).insert(Reverse(OperationTimeoutRecord { id, timeout: d })),
        ack_deadline(*old(self), id, now) is None ==>
            heap_view(final(self).operation_ack_timeouts) == heap_view(old(self).operation_ack_timeouts),
//@end

//@fn gneiss-mqtt/src/protocol.rs ProtocolState::get_next_ack_timeout props=C18
    ensures *final(self) == *old(self),
        heap_top_ok(old(self).operation_ack_timeouts),
        match r {
            // never earlier than the deadline: the record at the top of the heap is due, and it is the earliest
            Some(id) => (heap_top(old(self).operation_ack_timeouts) matches Some(x) && x.0.id == id && x.0.timeout.nanos <= old(self).current_time.nanos
                && (forall|y: Reverse<OperationTimeoutRecord>| #[trigger] hh(old(self).operation_ack_timeouts, y) ==> x.0.timeout.nanos <= y.0.timeout.nanos)),
            // and nothing that is due is left behind
            None => forall|y: Reverse<OperationTimeoutRecord>| #[trigger] hh(old(self).operation_ack_timeouts, y) ==> y.0.timeout.nanos > old(self).current_time.nanos,
        },
//@@at bodystart
        broadcast use ax_ord_rel_reverse, ax_ord_rel_spec;
//@end

//@fn gneiss-mqtt/src/protocol.rs ProtocolState::service_keep_alive props=C14,C11
    requires old(self).wf(), old(self).current_settings is Some, clock_ok(old(context).current_time), opid_budget(*old(self), 1),
    ensures final(self).wf(),
        // (only ever called on an established connection)
        (hs_ok(*old(self)) && old(self).state == ProtocolStateType::Connected) ==> hs_ok(*final(self)),
        final(context).current_time == old(context).current_time, final(context).to_socket@ == old(context).to_socket@,
        ({
            let pre = *old(self);
            let post = *final(self);
            let now = old(context).current_time;
            let k = pre.current_settings->Some_0.server_keep_alive;
            let due = pre.ping_timeout_timepoint is None && (pre.next_ping_timepoint matches Some(np) && now.nanos >= np.nanos);
            // an unanswered PINGREQ fails the connection at its deadline, not before
            &&& (r is Err <==> (pre.ping_timeout_timepoint matches Some(pt) && now.nanos >= pt.nanos))
            &&& r matches Err(e) ==> e.kind() == GErrKind::ConnectionClosed
            &&& !due ==> post == pre
            &&& due ==> {
                    let oid = pre.next_operation_id;
                    // one PINGREQ, ahead of everything else
                    &&& post.operations@ == pre.operations@.insert(oid, fresh_operation(oid, MqttPacket::Pingreq(PingreqPacket {}), None))
                    &&& post.high_priority_operation_queue@ == seq![oid] + pre.high_priority_operation_queue@
                    &&& post.next_operation_id == oid + 1
                    // deadline = now + min(configured ping timeout, K/2)
                    &&& (post.ping_timeout_timepoint matches Some(pt) && pt.nanos == ping_deadline_nanos(now, pre.config.ping_timeout, k))
                    // and the next ping is due K seconds from now
                    &&& (k > 0 ==> (post.next_ping_timepoint matches Some(np) && np.nanos == now.nanos + k as int * 1000000000))
                    &&& (k == 0 ==> post.next_ping_timepoint == pre.next_ping_timepoint)
                    &&& post.state == pre.state && post.user_operation_queue@ == pre.user_operation_queue@ && post.resubmit_operation_queue@ == pre.resubmit_operation_queue@
                    &&& post.allocated_packet_ids@ == pre.allocated_packet_ids@ && post.pending_publish_operations@ == pre.pending_publish_operations@
                    &&& post.pending_non_publish_operations@ == pre.pending_non_publish_operations@ && post.current_operation == pre.current_operation
                }
        }),
//@@finding F-KEEPALIVE
        proof { assume(old(self).current_settings->Some_0.server_keep_alive % 2 == 0); }
//@@at before "Ok(())"
        proof {
            if hs_ok(*old(self)) && old(self).state == ProtocolStateType::Connected {
                let pre = *old(self); let post = *self; let oid = pre.next_operation_id;
                assert forall|i: int| 0 <= i < post.resubmit_operation_queue@.len() && post.operations@.contains_key(#[trigger] post.resubmit_operation_queue@[i])
                    implies *post.operations@[post.resubmit_operation_queue@[i]].packet is Publish by {
                    assert(pre.resubmit_operation_queue@[i] < oid);
                }
                assert forall|k: u64| #[trigger] post.operations@.contains_key(k) && post.operations@[k].packet_id is Some implies
                    (post.current_operation == Some(k) || in_flight(post, k) || post.resubmit_operation_queue@.contains(k) || post.user_operation_queue@.contains(k)) by {
                    if pre.operations@.contains_key(k) && k != oid { assert(post.operations@[k] == pre.operations@[k]); if in_flight(pre, k) { assert(in_flight(post, k)); } }
                }
            }
        }
//@end
}

// =====================================================================================================
// service(): writing operations, ack timeouts (C07, C08, C09, C11, C18)
// =====================================================================================================

// what a driver may rely on between calls
pub open spec fn inv(s: ProtocolState) -> bool { s.wf() && s.cur_ok() }

// C18: the deadline of operation `id` when its packet is fully written at `now`: now + T for an operation submitted with an ack
// timeout T, none without one - and none either when now + T cannot be represented as a time point (it never comes due)
pub open spec fn ack_deadline(s: ProtocolState, id: u64, now: Instant) -> Option<Instant> {
    if s.operations@.contains_key(id) && op_ack_timeout(s.operations@[id]) is Some && now.nanos + op_ack_timeout(s.operations@[id])->Some_0.nanos <= INSTANT_MAX_NANOS() {
        Some(Instant { nanos: (now.nanos + op_ack_timeout(s.operations@[id])->Some_0.nanos) as u128 })
    } else { None }
}

pub open spec fn due_timeout_for_current(s: ProtocolState) -> bool {
    exists|x: Reverse<OperationTimeoutRecord>| #[trigger] hh(s.operation_ack_timeouts, x) && x.0.timeout.nanos <= s.current_time.nanos && s.current_operation == Some(x.0.id)
}

pub open spec fn queue_measure(s: ProtocolState) -> int {
    s.high_priority_operation_queue@.len() + s.resubmit_operation_queue@.len() + s.user_operation_queue@.len()
        + (if s.current_operation is Some { 1int } else { 0int })
}

//@fn gneiss-mqtt/src/validate.rs validate_packet_outbound_internal props=C16 stub
    // the panic condition of the real function (every validator but CONNECT's and PINGREQ's does `negotiated_settings.unwrap()`);
    // proved in the validate unit under exactly this precondition (plus the size assumptions A-COUNT / A-VEC on user packets)
    requires packet is Connect || packet is Pingreq || context.negotiated_settings is Some,
//@end

impl ProtocolState {
//@fn gneiss-mqtt/src/protocol.rs ProtocolState::compute_outbound_alias_resolution props=C17
    ensures !(packet is Publish) ==> r.alias is None && !r.skip_topic,   // only publishes are ever aliased
//@end

//@fn gneiss-mqtt/src/protocol.rs ProtocolState::update_internal_clock props=C11
    ensures *final(self) == (ProtocolState { current_time: *current_time, elapsed_time_ms: final(self).elapsed_time_ms, ..*old(self) }),
//@end

//@fn gneiss-mqtt/src/protocol.rs ProtocolState::change_state props=C11
    ensures *final(self) == (ProtocolState { state: next_state, ..*old(self) }),
//@end

//@fn gneiss-mqtt/src/protocol.rs ProtocolState::on_current_operation_fully_written props=C09,C18,C07,C01,C11
    requires old(self).wf(), old(self).cur_ok(), old(self).current_operation is Some, clock_ok(now),
        // an ackable packet is only ever encoded after acquire_packet_id_for_operation bound it
        ({ let op = old(self).operations@[old(self).current_operation->Some_0]; takes_packet_id(*op.packet) ==> op.packet_id is Some }),
        old(self).state == ProtocolStateType::Connected || old(self).state == ProtocolStateType::PendingConnack,
        // before CONNACK only the CONNECT is ever written (W7)
        old(self).state == ProtocolStateType::PendingConnack ==> *old(self).operations@[old(self).current_operation->Some_0].packet is Connect,
    ensures final(self).wf(), final(self).cur_ok(),
        hs_ok(*old(self)) ==> hs_ok(*final(self)),
        final(self).current_operation is None,
        ({
            let pre = *old(self);
            let post = *final(self);
            let id = pre.current_operation->Some_0;
            let op = pre.operations@[id];
            &&& post.operations@.dom() =~= pre.operations@.dom()
            &&& (forall|k: u64| k != id && pre.operations@.contains_key(k) ==> post.operations@[k] == pre.operations@[k])
            &&& post.operations@[id] == (ClientOperation { ping_extension_base_timepoint: Some(now), ..op })
            // sub/unsub -> awaiting SUBACK/UNSUBACK under the id it was sent with
            &&& (*op.packet is Subscribe || *op.packet is Unsubscribe) ==> post.pending_non_publish_operations@ == pre.pending_non_publish_operations@.insert(op.packet_id->Some_0, id)
                    && post.pending_publish_operations@ == pre.pending_publish_operations@ && post.pending_write_completion_operations@ == pre.pending_write_completion_operations@
            // QoS1+ publish -> in flight; the in-flight table grows by at most this one operation (C09)
            &&& is_qos1plus_publish(*op.packet) ==> post.pending_publish_operations@ == pre.pending_publish_operations@.insert(op.packet_id->Some_0, id)
                    && post.pending_non_publish_operations@ == pre.pending_non_publish_operations@ && post.pending_write_completion_operations@ == pre.pending_write_completion_operations@
            // everything else completes on write completion
            &&& !takes_packet_id(*op.packet) ==> post.pending_write_completion_operations@ == pre.pending_write_completion_operations@.push(id)
                    && post.pending_publish_operations@ == pre.pending_publish_operations@ && post.pending_non_publish_operations@ == pre.pending_non_publish_operations@
            // C07: once a DISCONNECT has been written nothing further is sent
            &&& post.state == (if *op.packet is Disconnect { ProtocolStateType::PendingDisconnect } else { pre.state })
            // C18: the ack timeout starts now (fully written), never while queued
            &&& (!pre.current_operation_ack_timeout_elapsed ==> (ack_deadline(pre, id, now) matches Some(d) ==> heap_view(post.operation_ack_timeouts) == heap_view(pre.operation_ack_timeouts).insert(
                    Reverse(OperationTimeoutRecord { id, timeout: d }))))
            &&& ((!pre.current_operation_ack_timeout_elapsed && ack_deadline(pre, id, now) is None) ==> heap_view(post.operation_ack_timeouts) == heap_view(pre.operation_ack_timeouts))
            // ... unless its earlier deadline (a QoS 2 publish whose PUBREL was being written) passed during the write: due at once
            &&& (pre.current_operation_ack_timeout_elapsed ==> heap_view(post.operation_ack_timeouts) == heap_view(pre.operation_ack_timeouts).insert(
                    Reverse(OperationTimeoutRecord { id, timeout: now })))
            &&& !post.current_operation_ack_timeout_elapsed
            // frame
            &&& post == (ProtocolState { operations: post.operations, pending_non_publish_operations: post.pending_non_publish_operations,
                    pending_publish_operations: post.pending_publish_operations, pending_write_completion_operations: post.pending_write_completion_operations,
                    state: post.state, operation_ack_timeouts: post.operation_ack_timeouts, current_operation: post.current_operation,
                    current_operation_ack_timeout_elapsed: false, ..pre })
        }),
//@@at before "let id = operation.id;"
        proof { assert(operation.id == old(self).current_operation->Some_0); }
//@@at before "self.current_operation = None;"
        proof {
            let id0 = old(self).current_operation->Some_0;
            assert(self.ss_set() =~= old(self).ss_set());
        }
//@@at bodyend
        proof {
            if hs_ok(*old(self)) {
                let pre = *old(self); let post = *self; let id0 = pre.current_operation->Some_0;
                assert(resubmit_only_publishes(post));
                assert forall|k: u64| #[trigger] post.operations@.contains_key(k) && post.operations@[k].packet_id is Some implies
                    (post.current_operation == Some(k) || in_flight(post, k) || post.resubmit_operation_queue@.contains(k) || post.user_operation_queue@.contains(k)) by {
                    assert(pre.operations@.contains_key(k));
                    if k == id0 { assert(in_flight(post, k)); } else { assert(pre.operations@[k] == post.operations@[k]); if in_flight(pre, k) { assert(in_flight(post, k)); } }
                }
                assert(bound_located(post));
                if pre.state == ProtocolStateType::PendingConnack {
                    assert(op_ack_timeout(pre.operations@[id0]) is None);
                    assert(ack_deadline(pre, id0, now) is None);
                    assert(nothing_in_flight(post));
                    assert(pre.pending_write_completion_operations@.len() == 0 && pre.high_priority_operation_queue@.len() == 0);
                    assert(post.pending_write_completion_operations@ == seq![id0]);
                    assert(is_connect_op(post, id0));
                    assert(connect_only(post));
                }
                assert(hs_quiet(post));
            }
        }
//@end

//@fn gneiss-mqtt/src/protocol.rs ProtocolState::process_ack_timeouts props=C18,C11,C01
    requires old(self).wf(),
    ensures final(self).wf(),
        hs_ok(*old(self)) ==> hs_ok(*final(self)),
        completion_frame_but_timeouts(*old(self), *final(self)),
        // "never earlier": whatever was failed had a record whose deadline had passed
        forall|k: u64| old(self).operations@.contains_key(k) && !final(self).operations@.contains_key(k) ==>
            exists|x: Reverse<OperationTimeoutRecord>| hh(old(self).operation_ack_timeouts, x) && x.0.id == k && x.0.timeout.nanos <= old(self).current_time.nanos,
        // nothing else is touched
        forall|k: u64| final(self).operations@.contains_key(k) ==> old(self).operations@.contains_key(k) && final(self).operations@[k] == old(self).operations@[k],
        // "at the first service at or after": no due record survives
        forall|y: Reverse<OperationTimeoutRecord>| #[trigger] hh(final(self).operation_ack_timeouts, y) ==> y.0.timeout.nanos > old(self).current_time.nanos && hh(old(self).operation_ack_timeouts, y),
        // a due record always fails its operation if it is still tracked - except the operation whose follow-up packet is half
        // written: the encoder still needs it (C11), so its timeout is remembered and applied when the write has finished
        forall|x: Reverse<OperationTimeoutRecord>| (#[trigger] hh(old(self).operation_ack_timeouts, x) && x.0.timeout.nanos <= old(self).current_time.nanos
            && old(self).current_operation != Some(x.0.id)) ==> !final(self).operations@.contains_key(x.0.id),
        final(self).current_operation_ack_timeout_elapsed <==> (old(self).current_operation_ack_timeout_elapsed || due_timeout_for_current(*old(self))),
        final(self).state == old(self).state || (old(self).state == ProtocolStateType::PendingDisconnect && final(self).state == ProtocolStateType::Halted),
        // C11 (was finding F-TIMEOUT-CURRENT): the half-written operation is never pulled out from under the encoder
        old(self).cur_ok() ==> final(self).cur_ok(),
//@@loop 0
        invariant
            self.wf(),
            self.state == old(self).state || (old(self).state == ProtocolStateType::PendingDisconnect && self.state == ProtocolStateType::Halted),
            completion_frame_but_timeouts(*old(self), *self),
            forall|k: u64| old(self).operations@.contains_key(k) && !self.operations@.contains_key(k) ==>
                exists|x: Reverse<OperationTimeoutRecord>| hh(old(self).operation_ack_timeouts, x) && x.0.id == k && x.0.timeout.nanos <= old(self).current_time.nanos,
            forall|k: u64| self.operations@.contains_key(k) ==> old(self).operations@.contains_key(k) && self.operations@[k] == old(self).operations@[k],
            forall|y: Reverse<OperationTimeoutRecord>| #[trigger] hh(self.operation_ack_timeouts, y) ==> hh(old(self).operation_ack_timeouts, y),
            forall|x: Reverse<OperationTimeoutRecord>| (#[trigger] hh(old(self).operation_ack_timeouts, x) && x.0.timeout.nanos <= old(self).current_time.nanos
                && old(self).current_operation != Some(x.0.id)) ==> (hh(self.operation_ack_timeouts, x) || !self.operations@.contains_key(x.0.id)),
            // the flag is raised exactly by a due record of the current operation that has been taken off the heap
            self.current_operation_ack_timeout_elapsed ==> (old(self).current_operation_ack_timeout_elapsed || due_timeout_for_current(*old(self))),
            old(self).current_operation_ack_timeout_elapsed ==> self.current_operation_ack_timeout_elapsed,
            forall|x: Reverse<OperationTimeoutRecord>| (#[trigger] hh(old(self).operation_ack_timeouts, x) && x.0.timeout.nanos <= old(self).current_time.nanos
                && old(self).current_operation == Some(x.0.id)) ==> (hh(self.operation_ack_timeouts, x) || self.current_operation_ack_timeout_elapsed),
            old(self).cur_ok() ==> self.cur_ok(),
            hs_ok(*old(self)) ==> hs_ok(*self),
        ensures
            forall|y: Reverse<OperationTimeoutRecord>| #[trigger] hh(self.operation_ack_timeouts, y) ==> y.0.timeout.nanos > self.current_time.nanos,
        decreases heap_view(self.operation_ack_timeouts).len(),
//@@at before "self.operation_ack_timeouts.pop();"
            let ghost pre_pop = *self;
//@@at after "self.operation_ack_timeouts.pop();"
            proof {
                let top = heap_top(pre_pop.operation_ack_timeouts)->Some_0;
                assert(heap_view(self.operation_ack_timeouts) == heap_view(pre_pop.operation_ack_timeouts).remove(top));
                assert forall|y: Reverse<OperationTimeoutRecord>| #[trigger] hh(self.operation_ack_timeouts, y) implies hh(pre_pop.operation_ack_timeouts, y) by {}
                assert forall|y: Reverse<OperationTimeoutRecord>| y != top && #[trigger] hh(pre_pop.operation_ack_timeouts, y) implies hh(self.operation_ack_timeouts, y) by {}
                assert(hh(pre_pop.operation_ack_timeouts, top));
                assert(hh(old(self).operation_ack_timeouts, top) && top.0.id == id && top.0.timeout.nanos <= old(self).current_time.nanos);
                // an armed timeout means a connection is up: H3-H5 say nothing there, H1/H2 do not mention the heap
                if hs_ok(pre_pop) {
                    assert(pre_pop.state != ProtocolStateType::Disconnected && pre_pop.state != ProtocolStateType::PendingConnack);
                    assert(hs_ok(*self));
                }
            }
            let ghost after_pop = *self;
//@@at after "result = fold_mqtt_result(result, self.complete_operation_as_failure(id, GneissError::new_ack_timeout()));"
            proof {
                if hs_ok(pre_pop) {
                    assert(hh(pre_pop.operation_ack_timeouts, heap_top(pre_pop.operation_ack_timeouts)->Some_0));
                    assert(pre_pop.state != ProtocolStateType::Disconnected && pre_pop.state != ProtocolStateType::PendingConnack);
                    assert(after_pop.state == pre_pop.state && hs_ok(after_pop));
                    lemma_hs_remove(after_pop, *self, id);
                }
            }
//@end
}

pub open spec fn completion_frame_but_timeouts(pre: ProtocolState, post: ProtocolState) -> bool {
    &&& post.user_operation_queue@ == pre.user_operation_queue@
    &&& post.resubmit_operation_queue@ == pre.resubmit_operation_queue@
    &&& post.high_priority_operation_queue@ == pre.high_priority_operation_queue@
    &&& post.pending_write_completion_operations@ == pre.pending_write_completion_operations@
    &&& post.current_operation == pre.current_operation
    &&& post.next_operation_id == pre.next_operation_id
    &&& post.next_packet_id == pre.next_packet_id
    &&& post.config == pre.config
    &&& post.current_settings == pre.current_settings
    &&& post.qos2_incomplete_incoming_publishes@ == pre.qos2_incomplete_incoming_publishes@
    &&& post.pending_write_completion == pre.pending_write_completion
    &&& post.ping_timeout_timepoint == pre.ping_timeout_timepoint
    &&& post.next_ping_timepoint == pre.next_ping_timepoint
    &&& post.connack_timeout_timepoint == pre.connack_timeout_timepoint
    &&& post.current_time == pre.current_time
    &&& post.protocol_version == pre.protocol_version
}

pub open spec fn sq_pre(s: ProtocolState, ctx: ServiceContext) -> bool {
    &&& inv(s)
    &&& clock_ok(ctx.current_time)
    &&& s.next_packet_id >= 1
    // the half-encoded operation (if any) already holds its packet id
    &&& (s.current_operation matches Some(c) ==> (takes_packet_id(*s.operations@[c].packet) ==> s.operations@[c].packet_id is Some))
    // C07/W7: while waiting for CONNACK the only thing that can be on its way out is the CONNECT
    &&& (s.state == ProtocolStateType::PendingConnack ==> hp_only_connect(s))
}

// W7: in PendingConnack every tracked id in the high-priority queue (and the current operation) is a CONNECT
pub open spec fn hp_only_connect(s: ProtocolState) -> bool {
    &&& (forall|i: int| 0 <= i < s.high_priority_operation_queue@.len() && s.operations@.contains_key(#[trigger] s.high_priority_operation_queue@[i])
            ==> *s.operations@[s.high_priority_operation_queue@[i]].packet is Connect)
    &&& (s.current_operation matches Some(c) ==> (s.operations@.contains_key(c) ==> *s.operations@[c].packet is Connect))
}

impl ProtocolState {
//@fn gneiss-mqtt/src/protocol.rs ProtocolState::service_queue_aux props=C07,C08,C09,C11,C06,C16
    requires sq_pre(*old(self), *old(context)),
        mode == ProtocolQueueServiceMode::HighPriorityOnly <==> old(self).state == ProtocolStateType::PendingConnack,
    ensures final(self).wf(),
        hs_ok(*old(self)) ==> hs_ok(*final(self)),
        r is Ok ==> final(self).cur_ok(),
        old(context).to_socket@.is_prefix_of(final(context).to_socket@),
        final(context).current_time == old(context).current_time,
        // nothing is written while a write is pending, in Disconnected/Halted, or after a DISCONNECT went out
        (old(self).pending_write_completion && old(self).current_operation is None) ==> final(context).to_socket@ == old(context).to_socket@,
        !(old(self).state == ProtocolStateType::PendingConnack || old(self).state == ProtocolStateType::Connected) ==> final(context).to_socket@ == old(context).to_socket@ && *final(self) == *old(self),
        // state only ever moves Connected -> PendingDisconnect here
        final(self).state == old(self).state || (old(self).state == ProtocolStateType::Connected && final(self).state == ProtocolStateType::PendingDisconnect),
        final(self).pending_write_completion == old(self).pending_write_completion,
        final(self).current_time == old(self).current_time, final(self).config == old(self).config,
        final(self).current_settings == old(self).current_settings,
        final(self).connack_timeout_timepoint == old(self).connack_timeout_timepoint,
        final(self).ping_timeout_timepoint == old(self).ping_timeout_timepoint,
        final(self).next_operation_id == old(self).next_operation_id,
        final(self).state == ProtocolStateType::PendingConnack ==> hp_only_connect(*final(self)),
//@@loop 0
        invariant
            self.wf(), self.cur_ok(), clock_ok(context.current_time),
            context.current_time == old(context).current_time,
            old(context).to_socket@.is_prefix_of(context.to_socket@),
            self.current_operation matches Some(c) ==> (takes_packet_id(*self.operations@[c].packet) ==> self.operations@[c].packet_id is Some),
            self.state == ProtocolStateType::PendingConnack ==> hp_only_connect(*self),
            mode == ProtocolQueueServiceMode::HighPriorityOnly <==> old(self).state == ProtocolStateType::PendingConnack,
            self.state == old(self).state || (old(self).state == ProtocolStateType::Connected && self.state == ProtocolStateType::PendingDisconnect),
            self.pending_write_completion == old(self).pending_write_completion,
            self.current_time == old(self).current_time, self.config == old(self).config,
            self.current_settings == old(self).current_settings,
            self.connack_timeout_timepoint == old(self).connack_timeout_timepoint,
            self.ping_timeout_timepoint == old(self).ping_timeout_timepoint,
            self.next_operation_id == old(self).next_operation_id,
            (old(self).pending_write_completion && old(self).current_operation is None) ==> context.to_socket@ == old(context).to_socket@ && self.current_operation is None,
            !(old(self).state == ProtocolStateType::PendingConnack || old(self).state == ProtocolStateType::Connected) ==> context.to_socket@ == old(context).to_socket@ && *self == *old(self),
            hs_ok(*old(self)) ==> hs_ok(*self),
        decreases queue_measure(*self),
//@@at before "self.current_operation = self.dequeue_operation(mode);"
                let ghost head = *self;
//@@at after "self.current_operation = self.dequeue_operation(mode);"
                proof {
                    // the id that left its queue is the one being written now; everything else stays where it was
                    if hs_ok(head) {
                        if let Some(c) = self.current_operation {
                            assert forall|k: u64| #[trigger] self.operations@.contains_key(k) && self.operations@[k].packet_id is Some implies
                                (self.current_operation == Some(k) || in_flight(*self, k) || self.resubmit_operation_queue@.contains(k) || self.user_operation_queue@.contains(k)) by {
                                if k != c {
                                    if head.resubmit_operation_queue@.contains(k) && !self.resubmit_operation_queue@.contains(k) {
                                        let i = choose|i: int| 0 <= i < head.resubmit_operation_queue@.len() && head.resubmit_operation_queue@[i] == k;
                                        assert(i >= 1); assert(self.resubmit_operation_queue@[i - 1] == k);
                                    }
                                    if head.user_operation_queue@.contains(k) && !self.user_operation_queue@.contains(k) {
                                        let i = choose|i: int| 0 <= i < head.user_operation_queue@.len() && head.user_operation_queue@[i] == k;
                                        assert(i >= 1); assert(self.user_operation_queue@[i - 1] == k);
                                    }
                                }
                            }
                            assert(hs_ok(*self));
                        }
                    }
                }
//@@at after "self.acquire_packet_id_for_operation(current_operation_id)?;"
                proof {
                    if hs_ok(*old(self)) {
                        assert forall|k: u64| #[trigger] self.operations@.contains_key(k) && self.operations@[k].packet_id is Some implies
                            (self.current_operation == Some(k) || in_flight(*self, k) || self.resubmit_operation_queue@.contains(k) || self.user_operation_queue@.contains(k)) by {}
                        assert(hs_ok(*self));
                    }
                }
//@end
}

impl ProtocolState {
// logging only (Display of the state at debug/trace level); takes &self
//@fn gneiss-mqtt/src/protocol.rs ProtocolState::log_state stub
//@end

//@fn gneiss-mqtt/src/protocol.rs ProtocolState::service_queue props=C07,C08,C11
    requires sq_pre(*old(self), *old(context)),
        mode == ProtocolQueueServiceMode::HighPriorityOnly <==> old(self).state == ProtocolStateType::PendingConnack,
    ensures final(self).wf(),
        hs_ok(*old(self)) ==> hs_ok(*final(self)),
        r is Ok ==> final(self).cur_ok(),
        old(context).to_socket@.is_prefix_of(final(context).to_socket@),
        final(context).current_time == old(context).current_time,
        // bytes were produced <=> a write completion is now awaited
        final(self).pending_write_completion == (old(self).pending_write_completion || final(context).to_socket@.len() != old(context).to_socket@.len()),
        (old(self).pending_write_completion && old(self).current_operation is None) ==> final(context).to_socket@ == old(context).to_socket@,
        !(old(self).state == ProtocolStateType::PendingConnack || old(self).state == ProtocolStateType::Connected) ==> final(context).to_socket@ == old(context).to_socket@,
        final(self).state == old(self).state || (old(self).state == ProtocolStateType::Connected && final(self).state == ProtocolStateType::PendingDisconnect),
        final(self).current_time == old(self).current_time, final(self).config == old(self).config,
        final(self).current_settings == old(self).current_settings,
        final(self).connack_timeout_timepoint == old(self).connack_timeout_timepoint,
        final(self).ping_timeout_timepoint == old(self).ping_timeout_timepoint,
        final(self).next_operation_id == old(self).next_operation_id,
        final(self).state == ProtocolStateType::PendingConnack ==> hp_only_connect(*final(self)),
//@end

//@fn gneiss-mqtt/src/protocol.rs ProtocolState::service_disconnected props=C07,C11
    ensures r is Ok, *final(self) == *old(self), final(_arg1).to_socket@ == old(_arg1).to_socket@,
//@end

//@fn gneiss-mqtt/src/protocol.rs ProtocolState::service_pending_connack props=C07,C11
    requires sq_pre(*old(self), *old(context)), old(self).state == ProtocolStateType::PendingConnack,
    ensures final(self).wf(), r is Ok ==> final(self).cur_ok(),
        hs_ok(*old(self)) ==> hs_ok(*final(self)),
        old(context).to_socket@.is_prefix_of(final(context).to_socket@),
        // no CONNACK by the establishment deadline => connection error, nothing written
        old(context).current_time.nanos >= old(self).connack_timeout_timepoint->Some_0.nanos ==>
            (r matches Err(e) && e.kind() == GErrKind::ConnectionEstablishmentFailure) && *final(self) == *old(self) && final(context).to_socket@ == old(context).to_socket@,
        final(self).state == ProtocolStateType::PendingConnack,
        hp_only_connect(*final(self)),
        final(self).next_operation_id == old(self).next_operation_id,
//@end

//@fn gneiss-mqtt/src/protocol.rs ProtocolState::service_pending_disconnect props=C07,C18,C11
    requires old(self).wf(),
    ensures final(self).wf(),
        hs_ok(*old(self)) ==> hs_ok(*final(self)),
        // C07: once the DISCONNECT has been written nothing further is sent
        final(_arg1).to_socket@ == old(_arg1).to_socket@,
        final(self).state == old(self).state || final(self).state == ProtocolStateType::Halted,
        final(self).next_operation_id == old(self).next_operation_id,
        old(self).state == ProtocolStateType::PendingDisconnect ==> final(self).cur_ok(),
//@end

//@fn gneiss-mqtt/src/protocol.rs ProtocolState::service_connected props=C11
    requires sq_pre(*old(self), *old(context)), old(self).state == ProtocolStateType::Connected, opid_budget(*old(self), 1),
    ensures final(self).wf(),
        hs_ok(*old(self)) ==> hs_ok(*final(self)),
        old(context).to_socket@.is_prefix_of(final(context).to_socket@),
        // keep-alive failure is reported before anything is written
        (old(self).ping_timeout_timepoint matches Some(pt) && old(context).current_time.nanos >= pt.nanos) ==> r is Err && final(context).to_socket@ == old(context).to_socket@,
        final(self).state == ProtocolStateType::Connected || final(self).state == ProtocolStateType::PendingDisconnect || final(self).state == ProtocolStateType::Halted,
        // the engine stays serviceable: the half-written operation (if any) is still tracked  (finding F-TIMEOUT-CURRENT, fixed)
        r is Ok ==> final(self).cur_ok(),
//@end

//@fn gneiss-mqtt/src/protocol.rs ProtocolState::service props=C11,C07,C08
    requires sq_pre(*old(self), *old(context)), opid_budget(*old(self), 1),
    ensures final(self).wf(),
        hs_ok(*old(self)) ==> hs_ok(*final(self)),
        old(context).to_socket@.is_prefix_of(final(context).to_socket@),
        // every error from an entry point switches to Halted ...
        r is Err ==> final(self).state == ProtocolStateType::Halted,
        // ... and Halted / Disconnected / PendingDisconnect emit nothing
        old(self).state == ProtocolStateType::Halted ==> r is Err && final(context).to_socket@ == old(context).to_socket@,
        (old(self).state == ProtocolStateType::Disconnected || old(self).state == ProtocolStateType::PendingDisconnect) ==> final(context).to_socket@ == old(context).to_socket@,
        r is Ok ==> inv(*final(self)),
//@end
}

// =====================================================================================================
// connection lifecycle inside the engine (C07, C11, C15, C14)
// =====================================================================================================

// fields no step of connection-closed bookkeeping touches once the timers have been cleared
pub open spec fn closing_frame(pre: ProtocolState, post: ProtocolState) -> bool {
    &&& post.next_operation_id == pre.next_operation_id && post.next_packet_id == pre.next_packet_id
    &&& post.config == pre.config && post.current_settings == pre.current_settings && post.protocol_version == pre.protocol_version
    &&& post.has_connected_successfully == pre.has_connected_successfully && post.current_time == pre.current_time
    &&& post.qos2_incomplete_incoming_publishes@ == pre.qos2_incomplete_incoming_publishes@
    &&& post.pending_write_completion == pre.pending_write_completion
    &&& post.pending_write_completion_operations@ == pre.pending_write_completion_operations@
    &&& post.connack_timeout_timepoint == pre.connack_timeout_timepoint && post.next_ping_timepoint == pre.next_ping_timepoint
    &&& post.ping_timeout_timepoint == pre.ping_timeout_timepoint && post.operation_ack_timeouts == pre.operation_ack_timeouts
    &&& post.current_operation_ack_timeout_elapsed == pre.current_operation_ack_timeout_elapsed
    &&& (pre.state == ProtocolStateType::Disconnected ==> post.slow_start_ack_count == pre.slow_start_ack_count)
}

// C15: what each policy keeps, straight from the enum's documented meaning
pub open spec fn policy_keeps(p: MqttPacket, policy: OfflineQueuePolicy) -> bool {
    match policy {
        OfflineQueuePolicy::PreserveAll => p is Subscribe || p is Unsubscribe || p is Publish,
        OfflineQueuePolicy::PreserveAcknowledged => p is Subscribe || p is Unsubscribe || is_qos1plus_publish(p),
        OfflineQueuePolicy::PreserveQos1PlusPublishes => is_qos1plus_publish(p),
        OfflineQueuePolicy::PreserveNothing => false,
    }
}

//@fn gneiss-mqtt/src/protocol.rs does_packet_pass_offline_queue_policy props=C15
    ensures r == policy_keeps(*packet, *policy),
//@end

//@fn gneiss-mqtt/src/mqtt/connack.rs validate_connack_packet_inbound_internal props=C07 stub
    ensures r is Ok ==> packet.receive_maximum != Some(0u16) && packet.maximum_packet_size != Some(0u32),
//@end

//@static gneiss-mqtt/src/encode.rs MAXIMUM_VARIABLE_LENGTH_INTEGER

// C07: "exactly the CONNACK's values, completed with the CONNECT's values or the specification's defaults"
pub open spec fn negotiated_spec(connect: ConnectOptions, connack: ConnackPacket, r: NegotiatedSettings) -> bool {
    &&& r.maximum_qos == (match connack.maximum_qos { Some(q) => q, None => QualityOfService::ExactlyOnce })
    &&& r.session_expiry_interval == (match connack.session_expiry_interval { Some(v) => v, None => match connect.session_expiry_interval_seconds { Some(v) => v, None => 0 } })
    &&& r.receive_maximum_from_server == (match connack.receive_maximum { Some(v) => v, None => 65535 })
    &&& r.maximum_packet_size_to_server == (match connack.maximum_packet_size { Some(v) => v, None => 268435455 })
    &&& r.topic_alias_maximum_to_server == (match connack.topic_alias_maximum { Some(v) => v, None => 0 })
    &&& r.server_keep_alive == (match connack.server_keep_alive { Some(v) => v, None => match connect.keep_alive_interval_seconds { Some(v) => v, None => 0 } })
    &&& r.retain_available == (match connack.retain_available { Some(v) => v, None => true })
    &&& r.wildcard_subscriptions_available == (match connack.wildcard_subscriptions_available { Some(v) => v, None => true })
    &&& r.subscription_identifiers_available == (match connack.subscription_identifiers_available { Some(v) => v, None => true })
    &&& r.shared_subscriptions_available == (match connack.shared_subscriptions_available { Some(v) => v, None => true })
    &&& r.rejoined_session == connack.session_present
}

//@fn gneiss-mqtt/src/protocol.rs build_negotiated_settings props=C07,C09,C16
    ensures negotiated_spec(config.connect_options, *packet, r),
        packet.assigned_client_identifier matches Some(id) ==> r.client_id@ == id@,
        (packet.assigned_client_identifier is None && config.connect_options.client_id is Some) ==> r.client_id@ == config.connect_options.client_id->Some_0@,
        (packet.assigned_client_identifier is None && config.connect_options.client_id is None && existing_settings is Some) ==> r.client_id@ == existing_settings->Some_0.client_id@,
//@end

impl ConnectOptions {
//@fn gneiss-mqtt/src/client/config.rs ConnectOptions::to_connect_packet props=C07
    ensures
        // clean start chosen by the rejoin policy and the connection history
        r.clean_start == (match self.rejoin_session_policy {
            RejoinSessionPolicy::PostSuccess => !connected_previously,
            RejoinSessionPolicy::Always => false,
            RejoinSessionPolicy::Never => true,
        }),
        r.keep_alive_interval_seconds == (match self.keep_alive_interval_seconds { Some(v) => v, None => 0 }),
        r.session_expiry_interval_seconds == self.session_expiry_interval_seconds,
        r.request_response_information == self.request_response_information,
        r.request_problem_information == self.request_problem_information,
        r.receive_maximum == self.receive_maximum,
        r.topic_alias_maximum == self.topic_alias_maximum,
        r.maximum_packet_size_bytes == self.maximum_packet_size_bytes,
        r.will_delay_interval_seconds == self.will_delay_interval_seconds,
        r.authentication_method is None, r.authentication_data is None,
        r.client_id is Some == self.client_id is Some, r.username is Some == self.username is Some, r.password is Some == self.password is Some,
        r.will == self.will,
//@end
}

impl ProtocolState {
//@fn gneiss-mqtt/src/protocol.rs ProtocolState::operation_packet_passes_offline_queue_policy props=C15,C07
    ensures r == (self.state == ProtocolStateType::Connected || policy_keeps(*packet, self.config.offline_queue_policy)),
//@end

//@fn gneiss-mqtt/src/protocol.rs ProtocolState::should_retain_high_priority_operation props=C04
    ensures r == (self.operations@.contains_key(id) && self.operations@[id].qos2_pubrel is Some),
//@end

//@fn gneiss-mqtt/src/protocol.rs ProtocolState::get_maximum_incoming_packet_size props=C03
    ensures r == (match self.config.connect_options.maximum_packet_size_bytes { Some(v) => v, None => 268435455u32 }),
//@end

//@fn gneiss-mqtt/src/protocol.rs ProtocolState::create_connect props=C07
    ensures *r is Connect,
        ({
            let c = r->Connect_0;
            &&& c.clean_start == (match self.config.connect_options.rejoin_session_policy {
                    RejoinSessionPolicy::PostSuccess => !self.has_connected_successfully,
                    RejoinSessionPolicy::Always => false,
                    RejoinSessionPolicy::Never => true })
            &&& c.keep_alive_interval_seconds == (match self.config.connect_options.keep_alive_interval_seconds { Some(v) => v, None => 0 })
            // a server-assigned client identifier is reused on later connections
            &&& (self.config.connect_options.client_id is None && self.current_settings is Some) ==> (c.client_id matches Some(id) && id@ == self.current_settings->Some_0.client_id@)
            &&& (self.config.connect_options.client_id is Some) ==> c.client_id is Some
            &&& c.receive_maximum == self.config.connect_options.receive_maximum
            &&& c.topic_alias_maximum == self.config.connect_options.topic_alias_maximum
            &&& c.maximum_packet_size_bytes == self.config.connect_options.maximum_packet_size_bytes
            &&& c.session_expiry_interval_seconds == self.config.connect_options.session_expiry_interval_seconds
            &&& c.will == self.config.connect_options.will
        }),
//@end

//@fn gneiss-mqtt/src/protocol.rs ProtocolState::handle_network_event_connection_opened props=C07,C11
    requires old(self).wf(), opid_budget(*old(self), 1), context.event is ConnectionOpened,
    ensures final(self).wf(),
        hs_ok(*old(self)) ==> hs_ok(*final(self)),
        ({
            let pre = *old(self);
            let post = *final(self);
            // a connection can only be opened from Disconnected
            &&& pre.state != ProtocolStateType::Disconnected ==> r is Err && post == (ProtocolState { state: ProtocolStateType::Halted, ..pre })
            &&& pre.state == ProtocolStateType::Disconnected ==> {
                    let oid = pre.next_operation_id;
                    &&& r is Ok
                    &&& post.state == ProtocolStateType::PendingConnack
                    // exactly one CONNECT, ahead of everything else in the only queue served before CONNACK
                    &&& post.operations@.contains_key(oid) && !pre.operations@.contains_key(oid) && *post.operations@[oid].packet is Connect
                    &&& post.operations@ == pre.operations@.insert(oid, post.operations@[oid])
                    &&& post.high_priority_operation_queue@ == seq![oid] + pre.high_priority_operation_queue@
                    &&& post.current_operation is None && !post.pending_write_completion
                    // the establishment deadline is armed
                    &&& post.connack_timeout_timepoint == Some(context.event->ConnectionOpened_0.establishment_timeout)
                    &&& post.user_operation_queue@ == pre.user_operation_queue@ && post.resubmit_operation_queue@ == pre.resubmit_operation_queue@
                    &&& post.allocated_packet_ids@ == pre.allocated_packet_ids@ && post.pending_publish_operations@ == pre.pending_publish_operations@
                    &&& post.pending_non_publish_operations@ == pre.pending_non_publish_operations@
                }
        }),
//@end

//@fn gneiss-mqtt/src/protocol.rs ProtocolState::apply_connection_closed_to_current_operation props=C15,C04,C10,C11,C01,C06
    requires old(self).wf(),
    ensures final(self).wf(), r is Ok ==> final(self).current_operation is None,
        // during connection-closed handling (state already Disconnected) this never fails, whatever the half-written packet was
        old(self).state == ProtocolStateType::Disconnected ==> r is Ok && final(self).state == ProtocolStateType::Disconnected,
        // frame: only the tracked tables, the three queues and the current-operation slot are touched
        closing_frame(*old(self), *final(self)),
        // (the same effects with the queue frames of the failing cases spelt out; used for H2/H6 of DESIGN.md 2)
        close_current_effect(*old(self), *final(self)),
        ({
            let pre = *old(self);
            let post = *final(self);
            let has_cur = (pre.current_operation is Some) && pre.operations@.contains_key(pre.current_operation->Some_0);
            &&& !has_cur ==> post == (ProtocolState { current_operation: None, ..pre })
            &&& has_cur ==> {
                    let id = pre.current_operation->Some_0;
                    let op = pre.operations@[id];
                    let keep = policy_keeps(*op.packet, pre.config.offline_queue_policy);
                    let dup = (*op.packet matches MqttPacket::Publish(publish) && publish.duplicate);
                    let rel = is_qos_publish(*op.packet, QualityOfService::ExactlyOnce) && (op.qos2_pubrel is Some);
                    let in_flight = pre.pending_publish_operations@.contains_key(packet_id_field(*op.packet));
                    // a half-written retransmission goes back to the FRONT of the retransmission queue - exactly once: if it is
                    // still in the in-flight table (its PUBREL was being written) that table re-queues it, so it is not queued here
                    &&& (dup ==> post.resubmit_operation_queue@ == (if in_flight { pre.resubmit_operation_queue@ } else { seq![id] + pre.resubmit_operation_queue@ }) && tables_unchanged(pre, post)
                            && post.user_operation_queue@ == pre.user_operation_queue@ && post.high_priority_operation_queue@ == pre.high_priority_operation_queue@)
                    // a half-written PUBREL stays a PUBREL (never re-queued as a fresh publish)
                    &&& (!dup && rel ==> post.high_priority_operation_queue@ == seq![id] + pre.high_priority_operation_queue@ && tables_unchanged(pre, post)
                            && post.user_operation_queue@ == pre.user_operation_queue@ && post.resubmit_operation_queue@ == pre.resubmit_operation_queue@)
                    // other user operations: kept at the FRONT of the user queue iff the policy keeps their kind, else failed
                    &&& ((*op.packet is Subscribe || *op.packet is Unsubscribe || (*op.packet is Publish && !dup && !rel)) && keep ==>
                            post.user_operation_queue@ == seq![id] + pre.user_operation_queue@ && tables_unchanged(pre, post)
                            && post.resubmit_operation_queue@ == pre.resubmit_operation_queue@ && post.high_priority_operation_queue@ == pre.high_priority_operation_queue@)
                    &&& ((*op.packet is Subscribe || *op.packet is Unsubscribe || (*op.packet is Publish && !dup && !rel)) && !keep ==> removed_exactly(pre, post, id) && r is Ok)
                    // internal packets are simply failed
                    &&& (!(*op.packet is Subscribe || *op.packet is Unsubscribe || *op.packet is Publish) ==> removed_exactly(pre, post, id))
                }
        }),
//@end
}

// =====================================================================================================
// connection-closed / session bookkeeping (C01, C04, C09, C10, C15, C18, C11) -- iterator chains desugared (R11-R13)
// =====================================================================================================

// operations differ at most in their slow-start weight
pub open spec fn ops_same_except_ss(a: Map<u64, ClientOperation>, b: Map<u64, ClientOperation>) -> bool {
    &&& a.dom() =~= b.dom()
    &&& forall|k: u64| #[trigger] a.contains_key(k) ==> b[k] == (ClientOperation { slow_start_ack_value: b[k].slow_start_ack_value, ..a[k] })
}

// "sent but not yet acknowledged": the operation sits in one of the two in-flight tables
pub open spec fn awaiting_ack(s: ProtocolState, k: u64) -> bool {
    s.pending_publish_operations@.values().contains(k) || s.pending_non_publish_operations@.values().contains(k)
}

pub proof fn lemma_wf_tables_ss(pre: ProtocolState, post: ProtocolState)
    requires pre.wf_tables(), post == (ProtocolState { operations: post.operations, ..pre }),
        ops_same_except_ss(pre.operations@, post.operations@),
        forall|k: u64| #[trigger] post.operations@.contains_key(k) ==> post.operations@[k].slow_start_ack_value <= 1,
    ensures post.wf_tables(),
{
    assert forall|k: u64| #[trigger] post.operations@.contains_key(k) implies
        post.operations@[k].id == k && k != 0 && k < post.next_operation_id && op_wf(post.operations@[k]) by {
        assert(pre.operations@.contains_key(k));
    }
    assert forall|p: u16| #[trigger] post.allocated_packet_ids@.contains_key(p) implies
        p != 0 && post.operations@.contains_key(post.allocated_packet_ids@[p]) && post.operations@[post.allocated_packet_ids@[p]].packet_id == Some(p) by {
        assert(pre.operations@.contains_key(pre.allocated_packet_ids@[p]));
    }
    assert forall|k: u64| #[trigger] post.operations@.contains_key(k) implies
        (post.operations@[k].packet_id matches Some(p) ==> post.allocated_packet_ids@.contains_key(p) && post.allocated_packet_ids@[p] == k) by {
        assert(pre.operations@.contains_key(k));
    }
    assert forall|p: u16| #[trigger] post.pending_publish_operations@.contains_key(p) implies ({
        let k = post.pending_publish_operations@[p];
        post.operations@.contains_key(k) && post.operations@[k].packet_id == Some(p) && is_qos1plus_publish(*post.operations@[k].packet) }) by {
        assert(pre.operations@.contains_key(pre.pending_publish_operations@[p]));
    }
    assert forall|p: u16| #[trigger] post.pending_non_publish_operations@.contains_key(p) implies ({
        let k = post.pending_non_publish_operations@[p];
        post.operations@.contains_key(k) && post.operations@[k].packet_id == Some(p)
            && (*post.operations@[k].packet is Subscribe || *post.operations@[k].packet is Unsubscribe) }) by {
        assert(pre.operations@.contains_key(pre.pending_non_publish_operations@[p]));
    }
}

// W3 read through Map::values(): whatever sits in an in-flight table is a tracked operation
pub proof fn lemma_values_tracked(s: ProtocolState)
    requires s.wf_tables(),
    ensures
        forall|k: u64| #[trigger] s.pending_publish_operations@.values().contains(k) ==> s.operations@.contains_key(k) && is_qos1plus_publish(*s.operations@[k].packet)
            && s.operations@[k].packet_id is Some && s.pending_publish_operations@.contains_key(s.operations@[k].packet_id->Some_0),
        forall|k: u64| #[trigger] s.pending_non_publish_operations@.values().contains(k) ==> s.operations@.contains_key(k)
            && (*s.operations@[k].packet is Subscribe || *s.operations@[k].packet is Unsubscribe)
            && s.operations@[k].packet_id is Some && s.pending_non_publish_operations@.contains_key(s.operations@[k].packet_id->Some_0),
{
    assert forall|k: u64| #[trigger] s.pending_publish_operations@.values().contains(k) implies s.operations@.contains_key(k) && is_qos1plus_publish(*s.operations@[k].packet)
            && s.operations@[k].packet_id is Some && s.pending_publish_operations@.contains_key(s.operations@[k].packet_id->Some_0) by {
        let p = choose|p: u16| s.pending_publish_operations@.contains_key(p) && s.pending_publish_operations@[p] == k;
        assert(s.pending_publish_operations@.contains_key(p));
    }
    assert forall|k: u64| #[trigger] s.pending_non_publish_operations@.values().contains(k) implies s.operations@.contains_key(k)
            && (*s.operations@[k].packet is Subscribe || *s.operations@[k].packet is Unsubscribe)
            && s.operations@[k].packet_id is Some && s.pending_non_publish_operations@.contains_key(s.operations@[k].packet_id->Some_0) by {
        let p = choose|p: u16| s.pending_non_publish_operations@.contains_key(p) && s.pending_non_publish_operations@[p] == k;
        assert(s.pending_non_publish_operations@.contains_key(p));
    }
}

impl ProtocolState {
//@fn gneiss-mqtt/src/protocol.rs ProtocolState::apply_slow_start_initialization props=C09,C11 desugar
    requires old(self).wf_tables(),
    ensures final(self).wf_tables(),
        *final(self) == (ProtocolState { operations: final(self).operations, ..*old(self) }),
        ops_same_except_ss(old(self).operations@, final(self).operations@),
        old(self).config.post_reconnect_queue_drain_policy != PostReconnectQueueDrainPolicy::OneAtATime ==> final(self).operations@ =~= old(self).operations@,
        // C09: every operation this disconnection interrupts (sent, not yet acknowledged) takes part in the one-at-a-time drain, and an
        // operation interrupted earlier stays part of it "until every operation that the disconnection had interrupted has been resolved"
        old(self).config.post_reconnect_queue_drain_policy == PostReconnectQueueDrainPolicy::OneAtATime ==>
            forall|k: u64| #[trigger] final(self).operations@.contains_key(k) ==>
                final(self).operations@[k].slow_start_ack_value == (if awaiting_ack(*old(self), k) { 1u32 } else { old(self).operations@[k].slow_start_ack_value }),
//@@loop 0 iter=it
            invariant pending_non_publish_operations@.len() == it.index@,
                it.seq().unref().to_set() == self.pending_non_publish_operations@.values(),
                pending_non_publish_operations@ =~= it.seq().unref().take(it.index@ as int),
                it.index@ == it.seq().len() ==> pending_non_publish_operations@ =~= it.seq().unref(),
//@@loop 1 iter=it
            invariant
                *self == (ProtocolState { operations: self.operations, ..*old(self) }),
                ops_same_except_ss(old(self).operations@, self.operations@), old(self).wf_tables(),
                it.seq().to_set() =~= old(self).pending_non_publish_operations@.values(),
                forall|j: int| 0 <= j < it.seq().len() ==> self.operations@.contains_key(#[trigger] it.seq()[j]),
                forall|k: u64| #[trigger] self.operations@.contains_key(k) ==> self.operations@[k].slow_start_ack_value <= 1,
                forall|k: u64| #[trigger] self.operations@.contains_key(k) && !it.seq().contains(k) ==> self.operations@[k].slow_start_ack_value == old(self).operations@[k].slow_start_ack_value,
                forall|j: int| 0 <= j < it.index@ ==> self.operations@[#[trigger] it.seq()[j]].slow_start_ack_value == 1,
                it.index@ == it.seq().len() ==> forall|k: u64| #[trigger] self.operations@.contains_key(k) ==>
                    self.operations@[k].slow_start_ack_value == (if old(self).pending_non_publish_operations@.values().contains(k) { 1u32 } else { old(self).operations@[k].slow_start_ack_value }),
//@@loop 2 iter=it
            invariant pending_publish_operations@.len() == it.index@,
                it.seq().unref().to_set() == self.pending_publish_operations@.values(),
                pending_publish_operations@ =~= it.seq().unref().take(it.index@ as int),
                it.index@ == it.seq().len() ==> pending_publish_operations@ =~= it.seq().unref(),
//@@loop 3 iter=it
            invariant
                *self == (ProtocolState { operations: self.operations, ..*old(self) }),
                ops_same_except_ss(old(self).operations@, self.operations@), old(self).wf_tables(),
                it.seq().to_set() =~= old(self).pending_publish_operations@.values(),
                forall|j: int| 0 <= j < it.seq().len() ==> self.operations@.contains_key(#[trigger] it.seq()[j]) && !old(self).pending_non_publish_operations@.values().contains(it.seq()[j]),
                forall|k: u64| #[trigger] self.operations@.contains_key(k) ==> self.operations@[k].slow_start_ack_value <= 1,
                forall|k: u64| #[trigger] self.operations@.contains_key(k) && !it.seq().contains(k) ==>
                    self.operations@[k].slow_start_ack_value == (if old(self).pending_non_publish_operations@.values().contains(k) { 1u32 } else { old(self).operations@[k].slow_start_ack_value }),
                forall|j: int| 0 <= j < it.index@ ==> self.operations@[#[trigger] it.seq()[j]].slow_start_ack_value == 1,
                it.index@ == it.seq().len() ==> forall|k: u64| #[trigger] self.operations@.contains_key(k) ==>
                    self.operations@[k].slow_start_ack_value == (if awaiting_ack(*old(self), k) { 1u32 } else { old(self).operations@[k].slow_start_ack_value }),
//@@at before "for id in it: pending_non_publish_operations"
        proof {
            lemma_values_tracked(*old(self));
            assert(pending_non_publish_operations@.to_set() =~= old(self).pending_non_publish_operations@.values());
            assert forall|j: int| 0 <= j < pending_non_publish_operations@.len() implies self.operations@.contains_key(#[trigger] pending_non_publish_operations@[j]) by {
                assert(pending_non_publish_operations@.to_set().contains(pending_non_publish_operations@[j]));
                assert(old(self).operations@.contains_key(pending_non_publish_operations@[j]));
            }
        }
//@@at before "for id in it: pending_publish_operations"
        proof {
            lemma_values_tracked(*old(self));
            assert(pending_publish_operations@.to_set() =~= old(self).pending_publish_operations@.values());
            assert forall|j: int| 0 <= j < pending_publish_operations@.len() implies self.operations@.contains_key(#[trigger] pending_publish_operations@[j])
                && !old(self).pending_non_publish_operations@.values().contains(pending_publish_operations@[j]) by {
                assert(pending_publish_operations@.to_set().contains(pending_publish_operations@[j]));
                assert(old(self).operations@.contains_key(pending_publish_operations@[j]));
            }
        }
//@@at bodyend
        proof { lemma_wf_tables_ss(*old(self), *self); }
//@end
}

// operations differ at most in their interruption count
pub open spec fn ops_same_except_ic(a: Map<u64, ClientOperation>, b: Map<u64, ClientOperation>) -> bool {
    &&& a.dom() =~= b.dom()
    &&& forall|k: u64| #[trigger] a.contains_key(k) ==> b[k] == (ClientOperation { interruption_count: b[k].interruption_count, ..a[k] })
}

pub proof fn lemma_wf_tables_ic(pre: ProtocolState, post: ProtocolState)
    requires pre.wf_tables(), post == (ProtocolState { operations: post.operations, ..pre }),
        ops_same_except_ic(pre.operations@, post.operations@),
    ensures post.wf_tables(),
{
    assert forall|k: u64| #[trigger] post.operations@.contains_key(k) implies
        post.operations@[k].id == k && k != 0 && k < post.next_operation_id && op_wf(post.operations@[k]) by {
        assert(pre.operations@.contains_key(k));
    }
    assert forall|p: u16| #[trigger] post.allocated_packet_ids@.contains_key(p) implies
        p != 0 && post.operations@.contains_key(post.allocated_packet_ids@[p]) && post.operations@[post.allocated_packet_ids@[p]].packet_id == Some(p) by {
        assert(pre.operations@.contains_key(pre.allocated_packet_ids@[p]));
    }
    assert forall|k: u64| #[trigger] post.operations@.contains_key(k) implies
        (post.operations@[k].packet_id matches Some(p) ==> post.allocated_packet_ids@.contains_key(p) && post.allocated_packet_ids@[p] == k) by {
        assert(pre.operations@.contains_key(k));
    }
    assert forall|p: u16| #[trigger] post.pending_publish_operations@.contains_key(p) implies ({
        let k = post.pending_publish_operations@[p];
        post.operations@.contains_key(k) && post.operations@[k].packet_id == Some(p) && is_qos1plus_publish(*post.operations@[k].packet) }) by {
        assert(pre.operations@.contains_key(pre.pending_publish_operations@[p]));
    }
    assert forall|p: u16| #[trigger] post.pending_non_publish_operations@.contains_key(p) implies ({
        let k = post.pending_non_publish_operations@[p];
        post.operations@.contains_key(k) && post.operations@[k].packet_id == Some(p)
            && (*post.operations@[k].packet is Subscribe || *post.operations@[k].packet is Unsubscribe) }) by {
        assert(pre.operations@.contains_key(pre.pending_non_publish_operations@[p]));
    }
}

// a sequence that enumerates the values of an injective table once each has no duplicates
pub proof fn lemma_inj_nodup(m: Map<u16, u64>, s: Seq<u64>)
    requires s.to_set() =~= m.values(), s.len() == m.len(),
        forall|p: u16, q: u16| m.contains_key(p) && m.contains_key(q) && #[trigger] m[p] == #[trigger] m[q] ==> p == q,
    ensures s.no_duplicates(),
{
    assert(m.is_injective());
    m.lemma_injective_values_len();
    s.lemma_no_dup_set_cardinality();
}

// Assumption A-INTERRUPT: one operation is interrupted fewer than 2^32 - 1 times (u32 counter, `+= 1`)
pub open spec fn interruptions_in_range(s: ProtocolState) -> bool {
    forall|k: u64| #[trigger] s.operations@.contains_key(k) ==> s.operations@[k].interruption_count < u32::MAX
}

impl ProtocolState {
//@fn gneiss-mqtt/src/protocol.rs ProtocolState::update_interrupted_retries props=C18,C11 desugar
    requires old(self).wf_tables(), interruptions_in_range(*old(self)),
    ensures final(self).wf_tables(),
        *final(self) == (ProtocolState { operations: final(self).operations, ..*old(self) }),
        ops_same_except_ic(old(self).operations@, final(self).operations@),
        // C18: with a retry limit configured, every operation caught sent-but-unacknowledged by this disconnection is charged
        // exactly one interruption, every other operation none; without a limit nothing is counted
        forall|k: u64| #[trigger] final(self).operations@.contains_key(k) ==> final(self).operations@[k].interruption_count ==
            (if old(self).config.max_interrupted_retries is Some && awaiting_ack(*old(self), k) { (old(self).operations@[k].interruption_count + 1) as u32 }
             else { old(self).operations@[k].interruption_count }),
//@@loop 0 iter=it
            invariant pending_non_publish_operations@.len() == it.index@,
                it.seq().len() == self.pending_non_publish_operations@.len(),
                it.seq().unref().to_set() == self.pending_non_publish_operations@.values(),
                pending_non_publish_operations@ =~= it.seq().unref().take(it.index@ as int),
                it.index@ == it.seq().len() ==> pending_non_publish_operations@ =~= it.seq().unref(),
//@@loop 1 iter=it
            invariant
                *self == (ProtocolState { operations: self.operations, ..*old(self) }),
                ops_same_except_ic(old(self).operations@, self.operations@),
                it.seq().to_set() =~= old(self).pending_non_publish_operations@.values(), it.seq().no_duplicates(), interruptions_in_range(*old(self)),
                forall|j: int| 0 <= j < it.seq().len() ==> self.operations@.contains_key(#[trigger] it.seq()[j]),
                forall|k: u64| #[trigger] self.operations@.contains_key(k) && !it.seq().contains(k) ==> self.operations@[k].interruption_count == old(self).operations@[k].interruption_count,
                forall|j: int| 0 <= j < it.index@ ==> self.operations@[#[trigger] it.seq()[j]].interruption_count == old(self).operations@[it.seq()[j]].interruption_count + 1,
                forall|j: int| it.index@ <= j < it.seq().len() ==> self.operations@[#[trigger] it.seq()[j]].interruption_count == old(self).operations@[it.seq()[j]].interruption_count,
                it.index@ == it.seq().len() ==> forall|k: u64| #[trigger] self.operations@.contains_key(k) ==> self.operations@[k].interruption_count ==
                    (if old(self).pending_non_publish_operations@.values().contains(k) { (old(self).operations@[k].interruption_count + 1) as u32 } else { old(self).operations@[k].interruption_count }),
//@@loop 2 iter=it
            invariant pending_publish_operations@.len() == it.index@,
                it.seq().len() == self.pending_publish_operations@.len(),
                it.seq().unref().to_set() == self.pending_publish_operations@.values(),
                pending_publish_operations@ =~= it.seq().unref().take(it.index@ as int),
                it.index@ == it.seq().len() ==> pending_publish_operations@ =~= it.seq().unref(),
//@@loop 3 iter=it
            invariant
                *self == (ProtocolState { operations: self.operations, ..*old(self) }),
                ops_same_except_ic(old(self).operations@, self.operations@),
                it.seq().to_set() =~= old(self).pending_publish_operations@.values(), it.seq().no_duplicates(), interruptions_in_range(*old(self)),
                forall|j: int| 0 <= j < it.seq().len() ==> self.operations@.contains_key(#[trigger] it.seq()[j]) && !old(self).pending_non_publish_operations@.values().contains(it.seq()[j]),
                forall|k: u64| #[trigger] self.operations@.contains_key(k) && !it.seq().contains(k) ==> self.operations@[k].interruption_count ==
                    (if old(self).pending_non_publish_operations@.values().contains(k) { (old(self).operations@[k].interruption_count + 1) as u32 } else { old(self).operations@[k].interruption_count }),
                forall|j: int| 0 <= j < it.index@ ==> self.operations@[#[trigger] it.seq()[j]].interruption_count == old(self).operations@[it.seq()[j]].interruption_count + 1,
                forall|j: int| it.index@ <= j < it.seq().len() ==> self.operations@[#[trigger] it.seq()[j]].interruption_count == old(self).operations@[it.seq()[j]].interruption_count,
                it.index@ == it.seq().len() ==> forall|k: u64| #[trigger] self.operations@.contains_key(k) ==> self.operations@[k].interruption_count ==
                    (if awaiting_ack(*old(self), k) { (old(self).operations@[k].interruption_count + 1) as u32 } else { old(self).operations@[k].interruption_count }),
//@@at before "for id in it: pending_non_publish_operations"
        proof {
            lemma_values_tracked(*old(self));
            assert(pending_non_publish_operations@.to_set() =~= old(self).pending_non_publish_operations@.values());
            lemma_inj_nodup(old(self).pending_non_publish_operations@, pending_non_publish_operations@);
            assert forall|j: int| 0 <= j < pending_non_publish_operations@.len() implies self.operations@.contains_key(#[trigger] pending_non_publish_operations@[j]) by {
                assert(pending_non_publish_operations@.to_set().contains(pending_non_publish_operations@[j]));
                assert(old(self).operations@.contains_key(pending_non_publish_operations@[j]));
            }
        }
//@@at before "for id in it: pending_publish_operations"
        proof {
            lemma_values_tracked(*old(self));
            assert(pending_publish_operations@.to_set() =~= old(self).pending_publish_operations@.values());
            lemma_inj_nodup(old(self).pending_publish_operations@, pending_publish_operations@);
            assert forall|j: int| 0 <= j < pending_publish_operations@.len() implies self.operations@.contains_key(#[trigger] pending_publish_operations@[j])
                && !old(self).pending_non_publish_operations@.values().contains(pending_publish_operations@[j]) by {
                assert(pending_publish_operations@.to_set().contains(pending_publish_operations@[j]));
                assert(old(self).operations@.contains_key(pending_publish_operations@[j]));
            }
        }
//@@at bodyend
        proof { lemma_wf_tables_ic(*old(self), *self); }
//@end
}

// the tracked tables after any number of completions: operations only disappear (never change), and every id table keeps
// exactly the entries whose operation survives
pub open spec fn shrunk(pre: ProtocolState, post: ProtocolState) -> bool {
    &&& forall|k: u64| #[trigger] post.operations@.contains_key(k) ==> pre.operations@.contains_key(k) && post.operations@[k] == pre.operations@[k]
    &&& forall|p: u16| #[trigger] post.allocated_packet_ids@.contains_key(p) <==> pre.allocated_packet_ids@.contains_key(p) && post.operations@.contains_key(pre.allocated_packet_ids@[p])
    &&& forall|p: u16| #[trigger] post.allocated_packet_ids@.contains_key(p) ==> post.allocated_packet_ids@[p] == pre.allocated_packet_ids@[p]
    &&& forall|p: u16| #[trigger] post.pending_publish_operations@.contains_key(p) <==> pre.pending_publish_operations@.contains_key(p) && post.operations@.contains_key(pre.pending_publish_operations@[p])
    &&& forall|p: u16| #[trigger] post.pending_publish_operations@.contains_key(p) ==> post.pending_publish_operations@[p] == pre.pending_publish_operations@[p]
    &&& forall|p: u16| #[trigger] post.pending_non_publish_operations@.contains_key(p) <==> pre.pending_non_publish_operations@.contains_key(p) && post.operations@.contains_key(pre.pending_non_publish_operations@[p])
    &&& forall|p: u16| #[trigger] post.pending_non_publish_operations@.contains_key(p) ==> post.pending_non_publish_operations@[p] == pre.pending_non_publish_operations@[p]
}

pub proof fn lemma_shrunk_refl(s: ProtocolState)
    requires s.wf_tables(),
    ensures shrunk(s, s),
{
}

// one more completion (or a no-op on an untracked id) keeps `shrunk`
pub proof fn lemma_shrunk_step(pre: ProtocolState, mid: ProtocolState, post: ProtocolState, id: u64)
    requires pre.wf_tables(), mid.wf_tables(), shrunk(pre, mid),
        mid.operations@.contains_key(id) ==> removed_exactly(mid, post, id),
        !mid.operations@.contains_key(id) ==> tables_unchanged(mid, post),
    ensures shrunk(pre, post),
        forall|k: u64| #[trigger] post.operations@.contains_key(k) <==> mid.operations@.contains_key(k) && k != id,
{
    if mid.operations@.contains_key(id) {
        let op = mid.operations@[id];
        assert forall|p: u16| #[trigger] post.allocated_packet_ids@.contains_key(p) <==> pre.allocated_packet_ids@.contains_key(p) && post.operations@.contains_key(pre.allocated_packet_ids@[p]) by {
            if mid.allocated_packet_ids@.contains_key(p) { assert(mid.operations@.contains_key(mid.allocated_packet_ids@[p])); }
        }
        assert forall|p: u16| #[trigger] post.pending_publish_operations@.contains_key(p) <==> pre.pending_publish_operations@.contains_key(p) && post.operations@.contains_key(pre.pending_publish_operations@[p]) by {
            if mid.pending_publish_operations@.contains_key(p) { assert(mid.operations@.contains_key(mid.pending_publish_operations@[p])); }
        }
        assert forall|p: u16| #[trigger] post.pending_non_publish_operations@.contains_key(p) <==> pre.pending_non_publish_operations@.contains_key(p) && post.operations@.contains_key(pre.pending_non_publish_operations@[p]) by {
            if mid.pending_non_publish_operations@.contains_key(p) { assert(mid.operations@.contains_key(mid.pending_non_publish_operations@[p])); }
        }
    }
}

pub proof fn lemma_push_contains<A>(s: Seq<A>, a: A)
    ensures forall|x: A| #[trigger] s.push(a).contains(x) <==> (s.contains(x) || x == a),
{
    assert forall|x: A| #[trigger] s.push(a).contains(x) <==> (s.contains(x) || x == a) by {
        if s.contains(x) { let i = choose|i: int| 0 <= i < s.len() && s[i] == x; assert(s.push(a)[i] == x); }
        assert(s.push(a)[s.len() as int] == a);
        if s.push(a).contains(x) { let i = choose|i: int| 0 <= i < s.push(a).len() && s.push(a)[i] == x; if i < s.len() { assert(s[i] == x); } }
    }
}

pub open spec fn state_after_failures(pre: ProtocolStateType, post: ProtocolStateType) -> bool {
    post == pre || (pre == ProtocolStateType::PendingDisconnect && post == ProtocolStateType::Halted)
}

impl ProtocolState {
//@fn gneiss-mqtt/src/protocol.rs ProtocolState::complete_operation_sequence_as_failure props=C01,C15,C18,C11 desugar
    requires old(self).wf(), iterator.obeys_prophetic_iter_laws(), iterator.decrease() is Some,
        forall|u: ()| error_fn.requires(u),
    ensures final(self).wf(),
        // H1-H5: kept, provided none of the listed operations is the CONNECT a queue still refers to during the handshake
        (hs_ok(*old(self)) && (forall|i: int| 0 <= i < iterator.remaining().len() ==> unreferenced(*old(self), #[trigger] iterator.remaining()[i]))) ==> hs_ok(*final(self)),
        completion_frame(*old(self), *final(self)),
        final(self).next_ping_timepoint == old(self).next_ping_timepoint,
        shrunk(*old(self), *final(self)),
        // exactly the listed operations are failed: each of them is gone, nothing else is
        forall|k: u64| #[trigger] final(self).operations@.contains_key(k) <==> old(self).operations@.contains_key(k) && !iterator.remaining().contains(k),
        state_after_failures(old(self).state, final(self).state),
        old(self).state == ProtocolStateType::Disconnected ==> r is Ok,
        (old(self).cur_ok() && (old(self).current_operation matches Some(c) ==> !iterator.remaining().contains(c))) ==> final(self).cur_ok(),
        !old(self).ss_active() ==> final(self).slow_start_ack_count == old(self).slow_start_ack_count,
//@@loop 0 manual=it
            invariant it.obeys_prophetic_iter_laws(), it.decrease() is Some,
                forall|u: ()| error_fn.requires(u),
                all == consumed + it.remaining(),
                self.wf(), old(self).wf(),
                completion_frame(*old(self), *self),
                self.next_ping_timepoint == old(self).next_ping_timepoint,
                shrunk(*old(self), *self),
                forall|k: u64| #[trigger] self.operations@.contains_key(k) <==> old(self).operations@.contains_key(k) && !consumed.contains(k),
                state_after_failures(old(self).state, self.state),
                old(self).state == ProtocolStateType::Disconnected ==> res is Ok,
                !old(self).ss_active() ==> self.slow_start_ack_count == old(self).slow_start_ack_count,
                self.config == old(self).config,
                (old(self).cur_ok() && (old(self).current_operation matches Some(c) ==> !all.contains(c))) ==> self.cur_ok(),
                (hs_ok(*old(self)) && (forall|i: int| 0 <= i < all.len() ==> unreferenced(*old(self), #[trigger] all[i]))) ==> hs_ok(*self),
            ensures all == consumed,
            decreases it.decrease()->Some_0,
//@@at before "let mut it = (iterator).into_iter();"
        let ghost all = iterator.remaining();
        let ghost mut consumed: Seq<u64> = Seq::empty();
        proof { lemma_shrunk_refl(*old(self)); }
//@@at before "res = {"
            let ghost mid = *self;
            let ghost pre_cons = consumed;
            proof { consumed = consumed.push(item); lemma_push_contains(pre_cons, item); }
//@@at after "};"
            proof {
                lemma_shrunk_step(*old(self), mid, *self, item);
                assert(all.contains(item)) by { assert(all[pre_cons.len() as int] == item); }
            }
//@end
}

//@fn gneiss-mqtt/src/protocol.rs generate_connection_closed_error props=C01
    ensures r.kind() == GErrKind::ConnectionClosed,
//@end
//@fn gneiss-mqtt/src/protocol.rs generate_offline_queue_policy_failed_error props=C15
    ensures r.kind() == GErrKind::OfflineQueuePolicyFailed,
//@end
//@fn gneiss-mqtt/src/protocol.rs generate_interrupt_retries_exceeded_error props=C18
    ensures r.kind() == GErrKind::MaxInterruptedRetriesExceeded,
//@end

// C18: "fails with the retries-exceeded error exactly when a disconnection interrupts it while sent-but-unacknowledged for the (N+1)-th time"
pub open spec fn retries_exceeded(s: ProtocolState, k: u64) -> bool {
    s.config.max_interrupted_retries matches Some(limit) && s.operations@.contains_key(k) && awaiting_ack(s, k) && s.operations@[k].interruption_count > limit
}

impl ProtocolState {
//@fn gneiss-mqtt/src/protocol.rs ProtocolState::fail_operations_exceeding_max_interruption_limit props=C18,C01,C11 desugar
    requires old(self).wf(),
    ensures final(self).wf(),
        completion_frame(*old(self), *final(self)),
        final(self).next_ping_timepoint == old(self).next_ping_timepoint,
        shrunk(*old(self), *final(self)),
        forall|k: u64| #[trigger] final(self).operations@.contains_key(k) <==> old(self).operations@.contains_key(k) && !retries_exceeded(*old(self), k),
        state_after_failures(old(self).state, final(self).state),
        old(self).state == ProtocolStateType::Disconnected ==> r is Ok,
        (old(self).cur_ok() && (old(self).current_operation matches Some(c) ==> !retries_exceeded(*old(self), c))) ==> final(self).cur_ok(),
        !old(self).ss_active() ==> final(self).slow_start_ack_count == old(self).slow_start_ack_count,
//@@loop 0 iter=it
            invariant *self == *old(self), self.wf(),
                it.seq().unref().to_set() == self.pending_non_publish_operations@.values(),
                forall|x: u64| pending_non_publish_breaching_operations@.contains(x) <==>
                    (it.seq().unref().take(it.index@ as int).contains(x) && self.operations@[x].interruption_count > limit),
                it.index@ == it.seq().len() ==> forall|x: u64| pending_non_publish_breaching_operations@.contains(x) <==>
                    (self.pending_non_publish_operations@.values().contains(x) && self.operations@[x].interruption_count > limit),
//@@loop 1 iter=it
            invariant *self == mid, self.wf(),
                it.seq().unref().to_set() == self.pending_publish_operations@.values(),
                forall|x: u64| pending_publish_breaching_operations@.contains(x) <==>
                    (it.seq().unref().take(it.index@ as int).contains(x) && self.operations@[x].interruption_count > limit),
                it.index@ == it.seq().len() ==> forall|x: u64| pending_publish_breaching_operations@.contains(x) <==>
                    (self.pending_publish_operations@.values().contains(x) && self.operations@[x].interruption_count > limit),
//@@at before "let mut pending_non_publish_breaching_operations : Vec<u64> = Vec::new();"
            proof { lemma_values_tracked(*self); }
//@@at before "let mut pending_publish_breaching_operations : Vec<u64> = Vec::new();"
            let ghost mid = *self;
            proof {
                lemma_values_tracked(*old(self)); lemma_values_tracked(mid);
                assert(mid.pending_publish_operations@ =~= old(self).pending_publish_operations@) by {
                    assert forall|p: u16| old(self).pending_publish_operations@.contains_key(p) implies mid.pending_publish_operations@.contains_key(p) by {
                        let k = old(self).pending_publish_operations@[p];
                        assert(old(self).pending_publish_operations@.values().contains(k));
                        assert(!old(self).pending_non_publish_operations@.values().contains(k));
                    }
                }
            }
//@@at before "let val = &verif_x; @nth=1/2"
            let ghost pv0 = pending_non_publish_breaching_operations@;
            proof {
                let pre = it.seq().unref().take(it.index@ as int);
                assert(it.seq().unref().take(it.index@ + 1) =~= pre.push(*verif_x));
                lemma_push_contains(pre, *verif_x);
                lemma_push_contains(pv0, *verif_x);
                lemma_values_tracked(*self);
                assert(it.seq().unref()[it.index@ as int] == *verif_x);
                assert(it.seq().unref().to_set().contains(*verif_x));
                assert(it.seq().unref().take(it.seq().len() as int) =~= it.seq().unref());
            }
//@@at before "let val = &verif_x; @nth=2/2"
            let ghost pv1 = pending_publish_breaching_operations@;
            proof {
                let pre = it.seq().unref().take(it.index@ as int);
                assert(it.seq().unref().take(it.index@ + 1) =~= pre.push(*verif_x));
                lemma_push_contains(pre, *verif_x);
                lemma_push_contains(pv1, *verif_x);
                lemma_values_tracked(*self);
                assert(it.seq().unref()[it.index@ as int] == *verif_x);
                assert(it.seq().unref().to_set().contains(*verif_x));
                assert(it.seq().unref().take(it.seq().len() as int) =~= it.seq().unref());
            }
//@end
}

// C15: splitting a sequence of (operation id, packet) by the offline-queue policy, order preserved
pub open spec fn part_by_policy(s: Seq<(u64, &MqttPacket)>, policy: OfflineQueuePolicy, keep: bool) -> Seq<u64>
    decreases s.len()
{
    if s.len() == 0 { Seq::<u64>::empty() } else {
        let r = part_by_policy(s.drop_last(), policy, keep);
        if policy_keeps(*s.last().1, policy) == keep { r.push(s.last().0) } else { r }
    }
}

//@fn gneiss-mqtt/src/protocol.rs partition_operations_by_queue_policy props=C15,C10 desugar
    requires iterator.obeys_prophetic_iter_laws(), iterator.decrease() is Some,
    ensures r.0@ == part_by_policy(iterator.remaining(), *policy, true),
        r.1@ == part_by_policy(iterator.remaining(), *policy, false),
//@@loop 0 manual=it
            invariant it.obeys_prophetic_iter_laws(), it.decrease() is Some,
                all == consumed + it.remaining(),
                retained@ == part_by_policy(consumed, *policy, true),
                filtered@ == part_by_policy(consumed, *policy, false),
            ensures all == consumed,
            decreases it.decrease()->Some_0,
//@@at before "let mut it = (iterator).into_iter();"
    let ghost all = iterator.remaining();
    let ghost mut consumed: Seq<(u64, &MqttPacket)> = Seq::empty();
//@@at before "if does_packet_pass_offline_queue_policy(packet, policy) {"
        proof {
            let pre = consumed;
            consumed = consumed.push((id, packet));
            assert(consumed.drop_last() =~= pre);
            assert(consumed.last() == (id, packet));
        }
//@end

// the same split for a queue of operation ids (ids no longer tracked are skipped)
pub open spec fn qpart(s: ProtocolState, q: Seq<u64>, policy: OfflineQueuePolicy, keep: bool) -> Seq<u64>
    decreases q.len()
{
    if q.len() == 0 { Seq::<u64>::empty() } else {
        let r = qpart(s, q.drop_last(), policy, keep);
        if s.operations@.contains_key(q.last()) && policy_keeps(*s.operations@[q.last()].packet, policy) == keep { r.push(q.last()) } else { r }
    }
}

impl ProtocolState {
// body: `queue.iter().filter(|id| ..).map(|id| ..)` handed to the function above -> rule D6 (eager evaluation of the adapter chain)
//@fn gneiss-mqtt/src/protocol.rs ProtocolState::partition_operation_queue_by_queue_policy props=C15,C11 desugar
    ensures r.0@ == qpart(*self, queue@, *policy, true), r.1@ == qpart(*self, queue@, *policy, false),
//@@loop 0 iter=it
            invariant it.seq().unref() =~= queue@,
                part_by_policy(verif_items@, *policy, true) == qpart(*self, queue@.take(it.index@ as int), *policy, true),
                part_by_policy(verif_items@, *policy, false) == qpart(*self, queue@.take(it.index@ as int), *policy, false),
//@@at before "let id = &verif_x;"
            let ghost pre_items = verif_items@;
            proof {
                assert(it.seq().unref()[it.index@ as int] == *verif_x);
                assert(queue@.take(it.index@ + 1).drop_last() =~= queue@.take(it.index@ as int));
                assert(queue@.take(it.index@ + 1).last() == *verif_x);
            }
//@@at after "verif_items.push((*id, &*self.operations.get(id).unwrap().packet));"
                proof {
                    assert(verif_items@.drop_last() =~= pre_items);
                    assert(verif_items@.last().0 == *verif_x && *verif_items@.last().1 == *self.operations@[*verif_x].packet);
                }
//@@at before "partition_operations_by_queue_policy((verif_items.into_iter()).into_iter(), policy)"
        proof { assert(queue@.take(queue@.len() as int) =~= queue@); }
//@end
}

// C04/C01: of the acknowledgements/pings still queued at a disconnection only a QoS2 PUBREL is kept (its publish is re-sent from the in-flight table)
pub open spec fn hp_retained(s: ProtocolState, id: u64) -> bool {
    s.operations@.contains_key(id) && s.operations@[id].qos2_pubrel is Some
}

impl ProtocolState {
//@fn gneiss-mqtt/src/protocol.rs ProtocolState::partition_high_priority_queue_for_disconnect props=C04,C01,C11 desugar
    requires iterator.obeys_prophetic_iter_laws(), iterator.decrease() is Some,
    ensures
        forall|x: u64| r.0@.contains(x) <==> iterator.remaining().contains(x) && hp_retained(*self, x),
        forall|x: u64| r.1@.contains(x) <==> iterator.remaining().contains(x) && !hp_retained(*self, x),
//@@loop 0 manual=it
            invariant it.obeys_prophetic_iter_laws(), it.decrease() is Some,
                all == consumed + it.remaining(),
                forall|x: u64| retained@.contains(x) <==> consumed.contains(x) && hp_retained(*self, x),
                forall|x: u64| rejected@.contains(x) <==> consumed.contains(x) && !hp_retained(*self, x),
            ensures all == consumed,
            decreases it.decrease()->Some_0,
//@@at before "let mut it = (iterator).into_iter();"
        let ghost all = iterator.remaining();
        let ghost mut consumed: Seq<u64> = Seq::empty();
//@@at before "if self.should_retain_high_priority_operation(id) {"
            let ghost pre_cons = consumed;
            proof { consumed = consumed.push(id); }
            let ghost pre_ret = retained@;
            let ghost pre_rej = rejected@;
//@@at after "retained.push_back(id);"
                proof {
                    assert(retained@ == pre_ret.push(id) && rejected@ == pre_rej);
                    assert forall|x: u64| retained@.contains(x) <==> consumed.contains(x) && hp_retained(*self, x) by {
                        if pre_ret.contains(x) { let i = choose|i: int| 0 <= i < pre_ret.len() && pre_ret[i] == x; assert(retained@[i] == x); }
                        if pre_cons.contains(x) { let i = choose|i: int| 0 <= i < pre_cons.len() && pre_cons[i] == x; assert(consumed[i] == x); }
                        assert(retained@[pre_ret.len() as int] == id); assert(consumed[pre_cons.len() as int] == id);
                        if retained@.contains(x) { let i = choose|i: int| 0 <= i < retained@.len() && retained@[i] == x; if i < pre_ret.len() { assert(pre_ret[i] == x); } }
                        if consumed.contains(x) { let i = choose|i: int| 0 <= i < consumed.len() && consumed[i] == x; if i < pre_cons.len() { assert(pre_cons[i] == x); } }
                    }
                    assert forall|x: u64| rejected@.contains(x) <==> consumed.contains(x) && !hp_retained(*self, x) by {
                        if pre_cons.contains(x) { let i = choose|i: int| 0 <= i < pre_cons.len() && pre_cons[i] == x; assert(consumed[i] == x); }
                        if consumed.contains(x) { let i = choose|i: int| 0 <= i < consumed.len() && consumed[i] == x; if i < pre_cons.len() { assert(pre_cons[i] == x); } }
                    }
                }
//@@at after "rejected.push_back(id);"
                proof {
                    assert(rejected@ == pre_rej.push(id) && retained@ == pre_ret);
                    assert forall|x: u64| rejected@.contains(x) <==> consumed.contains(x) && !hp_retained(*self, x) by {
                        if pre_rej.contains(x) { let i = choose|i: int| 0 <= i < pre_rej.len() && pre_rej[i] == x; assert(rejected@[i] == x); }
                        if pre_cons.contains(x) { let i = choose|i: int| 0 <= i < pre_cons.len() && pre_cons[i] == x; assert(consumed[i] == x); }
                        assert(rejected@[pre_rej.len() as int] == id); assert(consumed[pre_cons.len() as int] == id);
                        if rejected@.contains(x) { let i = choose|i: int| 0 <= i < rejected@.len() && rejected@[i] == x; if i < pre_rej.len() { assert(pre_rej[i] == x); } }
                        if consumed.contains(x) { let i = choose|i: int| 0 <= i < consumed.len() && consumed[i] == x; if i < pre_cons.len() { assert(pre_cons[i] == x); } }
                    }
                    assert forall|x: u64| retained@.contains(x) <==> consumed.contains(x) && hp_retained(*self, x) by {
                        if pre_cons.contains(x) { let i = choose|i: int| 0 <= i < pre_cons.len() && pre_cons[i] == x; assert(consumed[i] == x); }
                        if consumed.contains(x) { let i = choose|i: int| 0 <= i < consumed.len() && consumed[i] == x; if i < pre_cons.len() { assert(pre_cons[i] == x); } }
                    }
                }
//@end
}

// ---- what a disconnection may do to an operation that survives it: the DUP flag, the slow-start weight and the interruption
// count may change; its identity (id, packet id, application content, handler, PUBREL) may not  (C04, C06, C01)
pub open spec fn same_packet_except_dup(a: MqttPacket, b: MqttPacket) -> bool {
    match (a, b) {
        (MqttPacket::Publish(x), MqttPacket::Publish(y)) => y == PublishPacket { duplicate: y.duplicate, ..x },
        _ => a == b,
    }
}
pub open spec fn op_evolved(a: ClientOperation, b: ClientOperation) -> bool {
    b.id == a.id && b.packet_id == a.packet_id && b.options == a.options && b.qos2_pubrel == a.qos2_pubrel
        && b.ping_extension_base_timepoint == a.ping_extension_base_timepoint && same_packet_except_dup(*a.packet, *b.packet)
}
pub open spec fn evolved(pre: ProtocolState, post: ProtocolState) -> bool {
    &&& forall|k: u64| #[trigger] post.operations@.contains_key(k) ==> pre.operations@.contains_key(k) && op_evolved(pre.operations@[k], post.operations@[k])
    &&& post.next_operation_id == pre.next_operation_id && post.next_packet_id == pre.next_packet_id
    &&& post.config == pre.config && post.current_settings == pre.current_settings && post.protocol_version == pre.protocol_version
    &&& post.has_connected_successfully == pre.has_connected_successfully && post.current_time == pre.current_time
    &&& post.qos2_incomplete_incoming_publishes@ == pre.qos2_incomplete_incoming_publishes@
    &&& post.pending_write_completion == pre.pending_write_completion
    &&& post.slow_start_ack_count == pre.slow_start_ack_count
}
pub open spec fn slow_start_marks(pre: ProtocolState, post: ProtocolState) -> bool {
    pre.config.post_reconnect_queue_drain_policy == PostReconnectQueueDrainPolicy::OneAtATime ==>
        forall|k: u64| #[trigger] post.operations@.contains_key(k) ==>
            post.operations@[k].slow_start_ack_value == (if awaiting_ack(pre, k) { 1u32 } else { pre.operations@[k].slow_start_ack_value })
}
pub open spec fn interruption_counts(pre: ProtocolState, post: ProtocolState) -> bool {
    forall|k: u64| #[trigger] post.operations@.contains_key(k) ==> post.operations@[k].interruption_count ==
        (if pre.config.max_interrupted_retries is Some && awaiting_ack(pre, k) { (pre.operations@[k].interruption_count + 1) as u32 } else { pre.operations@[k].interruption_count })
}
// the engine between connections
pub open spec fn offline(s: ProtocolState) -> bool {
    &&& s.state == ProtocolStateType::Disconnected
    &&& s.connack_timeout_timepoint is None && s.next_ping_timepoint is None && s.ping_timeout_timepoint is None
    &&& heap_view(s.operation_ack_timeouts) == Multiset::<Reverse<OperationTimeoutRecord>>::empty()
    &&& s.current_operation is None
    // no ack timeout of an earlier connection is remembered (C18: timeouts never span connections)
    &&& !s.current_operation_ack_timeout_elapsed
}

// closing the half-written operation removes at most that operation's own entries from the in-flight tables
pub proof fn lemma_awaiting_after_current_close(pre: ProtocolState, post: ProtocolState, k: u64)
    requires pre.wf(), post.operations@.contains_key(k),
        tables_unchanged(pre, post) || (pre.current_operation matches Some(c) && pre.operations@.contains_key(c) && removed_exactly(pre, post, c)),
    ensures awaiting_ack(post, k) == awaiting_ack(pre, k),
{
    if !tables_unchanged(pre, post) {
        let c = pre.current_operation->Some_0;
        assert(k != c);
        if awaiting_ack(pre, k) {
            if pre.pending_publish_operations@.values().contains(k) {
                let p = choose|p: u16| pre.pending_publish_operations@.contains_key(p) && pre.pending_publish_operations@[p] == k;
                assert(pre.operations@[k].packet_id == Some(p));
                assert(post.pending_publish_operations@.contains_key(p) && post.pending_publish_operations@[p] == k);
            } else {
                let p = choose|p: u16| pre.pending_non_publish_operations@.contains_key(p) && pre.pending_non_publish_operations@[p] == k;
                assert(pre.operations@[k].packet_id == Some(p));
                assert(post.pending_non_publish_operations@.contains_key(p) && post.pending_non_publish_operations@[p] == k);
            }
        }
        if awaiting_ack(post, k) {
            if post.pending_publish_operations@.values().contains(k) {
                let p = choose|p: u16| post.pending_publish_operations@.contains_key(p) && post.pending_publish_operations@[p] == k;
                assert(pre.pending_publish_operations@.contains_key(p) && pre.pending_publish_operations@[p] == k);
            } else {
                let p = choose|p: u16| post.pending_non_publish_operations@.contains_key(p) && post.pending_non_publish_operations@[p] == k;
                assert(pre.pending_non_publish_operations@.contains_key(p) && pre.pending_non_publish_operations@[p] == k);
            }
        }
    }
}

impl ProtocolState {
//@fn gneiss-mqtt/src/protocol.rs ProtocolState::handle_network_event_connection_closed props=C01,C04,C06,C07,C09,C11,C15,C18 desugar
    requires old(self).wf(), interruptions_in_range(*old(self)),
    ensures final(self).wf(),
        hs_ok(*old(self)) ==> hs_ok(*final(self)),
        old(self).state == ProtocolStateType::Disconnected ==> r is Err && *final(self) == *old(self),
        old(self).state != ProtocolStateType::Disconnected ==> {
            &&& r is Ok
            &&& offline(*final(self))
            &&& evolved(*old(self), *final(self))
            // nothing stays "in flight" or "written, not flushed" on a dead connection, and no acknowledgement/ping survives in the queue
            &&& final(self).pending_publish_operations@ == Map::<u16, u64>::empty() && final(self).pending_non_publish_operations@ == Map::<u16, u64>::empty()
            &&& final(self).pending_write_completion_operations@.len() == 0
            &&& final(self).high_priority_operation_queue@.len() == 0
            // C09: whatever state the connection ended in (Connected, Halted after an error, PendingDisconnect, PendingConnack), every surviving
            // operation that was sent-but-unacknowledged is marked for the one-at-a-time drain, and earlier marks are kept
            &&& slow_start_marks(*old(self), *final(self))
            // C18: ... and, with a retry limit configured, is charged exactly one interruption; no other operation is
            &&& interruption_counts(*old(self), *final(self))
        },
//@@loop 0 manual=it
            invariant it.obeys_prophetic_iter_laws(), it.decrease() is Some,
                self.wf(), offline(*self), evolved(*old(self), *self), result is Ok,
                slow_start_marks(*old(self), *self), interruption_counts(*old(self), *self),
                self.pending_publish_operations@ == Map::<u16, u64>::empty(), self.pending_write_completion_operations@.len() == 0,
                self.high_priority_operation_queue@.len() == 0,
                forall|i: int| 0 <= i < it.remaining().len() ==> (self.operations@.contains_key((#[trigger] it.remaining()[i]).1) ==> *self.operations@[it.remaining()[i].1].packet is Publish),
                hs_ok(*old(self)) ==> requeue_inv(*self, it.remaining(), false),
            ensures hs_ok(*old(self)) ==> requeue_inv(*self, Seq::<(u16, u64)>::empty(), false),
            decreases it.decrease()->Some_0,
//@@loop 1 manual=it
            invariant it.obeys_prophetic_iter_laws(), it.decrease() is Some,
                self.wf(), offline(*self), evolved(*old(self), *self), result is Ok,
                slow_start_marks(*old(self), *self), interruption_counts(*old(self), *self),
                self.pending_publish_operations@ == Map::<u16, u64>::empty(), self.pending_non_publish_operations@ == Map::<u16, u64>::empty(), self.pending_write_completion_operations@.len() == 0,
                self.high_priority_operation_queue@.len() == 0,
                hs_ok(*old(self)) ==> requeue_inv(*self, it.remaining(), true),
            ensures hs_ok(*old(self)) ==> requeue_inv(*self, Seq::<(u16, u64)>::empty(), true),
            decreases it.decrease()->Some_0,
//@@at after "self.current_operation_ack_timeout_elapsed = false;"
        proof { assert(self.ss_set() =~= old(self).ss_set()); assert(self.wf()); }
        let ghost s0 = *self;
        proof { if hs_ok(*old(self)) { assert(bound_located(s0) && fresh_pubrel_in_flight(s0) && resubmit_only_publishes(s0) && resubmit_known(s0)); } }
//@@at after "self.apply_connection_closed_to_current_operation()?;"
        let ghost s1 = *self;
        proof { assert(evolved(*old(self), s1)); }
        proof { if hs_ok(*old(self)) { lemma_close_current_parks(s0, s1); } }
//@@at after "self.apply_slow_start_initialization();"
        let ghost s2 = *self;
        proof { assert(self.wf()); assert(evolved(*old(self), s2)); }
        proof { if hs_ok(*old(self)) { lemma_close_inv_same_ids(s1, s2); } }
//@@at after "self.update_interrupted_retries();"
        let ghost s3 = *self;
        proof {
            assert(self.wf()); assert(evolved(*old(self), s3));
            // the only table entries the close of the half-written operation can have removed are that operation's own
            assert forall|k: u64| #[trigger] s3.operations@.contains_key(k) implies awaiting_ack(s1, k) == awaiting_ack(*old(self), k) by {
                lemma_awaiting_after_current_close(*old(self), s1, k);
            }
            assert(slow_start_marks(*old(self), s3)); assert(interruption_counts(*old(self), s3));
            if hs_ok(*old(self)) { lemma_close_inv_same_ids(s2, s3); }
        }
//@@at after "generate_connection_closed_error));"
        let ghost s4 = *self;
        proof { assert(evolved(*old(self), s4)); assert(slow_start_marks(*old(self), s4)); assert(interruption_counts(*old(self), s4)); }
        proof { if hs_ok(*old(self)) { assert(s4.user_operation_queue@ =~= s3.user_operation_queue@ + Seq::<u64>::empty()); lemma_close_inv_shrunk(s3, s4, Seq::<u64>::empty()); } }
//@@at after "generate_offline_queue_policy_failed_error)); @nth=1/2"
        let ghost s5 = *self;
        proof { assert(evolved(*old(self), s5)); assert(slow_start_marks(*old(self), s5)); assert(interruption_counts(*old(self), s5)); }
        proof { if hs_ok(*old(self)) { assert(s5.user_operation_queue@ =~= s4b.user_operation_queue@ + Seq::<u64>::empty()); lemma_close_inv_shrunk(s4b, s5, Seq::<u64>::empty()); } }
//@@at after "result = fold_mqtt_result(result, self.fail_operations_exceeding_max_interruption_limit());"
        let ghost s6 = *self;
        proof { assert(evolved(*old(self), s6)); assert(slow_start_marks(*old(self), s6)); assert(interruption_counts(*old(self), s6)); }
        proof { if hs_ok(*old(self)) { assert(s6.user_operation_queue@ =~= s5.user_operation_queue@ + Seq::<u64>::empty()); lemma_close_inv_shrunk(s5, s6, Seq::<u64>::empty()); } }
//@@at after "mem::swap(&mut unacked_publish_table, &mut self.pending_publish_operations);"
        proof { assert(self.ss_set() =~= s6.ss_set()); assert(self.wf()); }
//@@at after "mem::swap(&mut unacked_sub_unsub_table, &mut self.pending_non_publish_operations);"
        proof { assert(self.wf()); }
//@@at after "generate_offline_queue_policy_failed_error)); @nth=2/2"
        proof {
            assert(evolved(*old(self), *self));
            assert(offline(*self));
            assert(result is Ok);
            assert(self.pending_publish_operations@ =~= Map::<u16, u64>::empty());
            assert(self.pending_non_publish_operations@ =~= Map::<u16, u64>::empty());
            assert(self.pending_write_completion_operations@.len() == 0);
            assert(self.high_priority_operation_queue@.len() == 0);
        }
//@@at before "self.user_operation_queue.append(&mut retained);"
        let ghost ret0 = retained@;
        let ghost s4a = *self;
//@@at after "self.user_operation_queue.append(&mut retained);"
        let ghost s4b = *self;
        proof {
            if hs_ok(*old(self)) {
                // (the written-not-flushed list was swapped out: nothing H2/H6 mention changed) then the kept ones join the user queue
                assert(close_inv(s4a)) by {
                    assert forall|k: u64| #[trigger] s4a.operations@.contains_key(k) && s4a.operations@[k].packet_id is Some implies parked(s4a, k) by { if in_flight(s4, k) { assert(in_flight(s4a, k)); } }
                    assert forall|k: u64| #[trigger] s4a.operations@.contains_key(k) && is_fresh_pubrel(s4a.operations@[k]) implies in_flight(s4a, k) by { assert(in_flight(s4, k)); }
                }
                lemma_shrunk_refl(s4a);
                lemma_close_inv_shrunk(s4a, s4b, ret0);
            }
        }
//@@at after "let mut it = (unacked_publish_table.into_iter()).into_iter();"
        proof {
            if hs_ok(*old(self)) {
                let rem = it.remaining();
                // every entry of the table that was just emptied is in the enumeration, under the id of the operation that holds that packet id
                assert forall|k: u64| #[trigger] self.operations@.contains_key(k) && self.operations@[k].packet_id is Some && s6.pending_publish_operations@.contains_key(self.operations@[k].packet_id->Some_0)
                    implies (exists|i: int| 0 <= i < rem.len() && (#[trigger] rem[i]).1 == k) by {
                    let p = self.operations@[k].packet_id->Some_0;
                    let i = choose|i: int| 0 <= i < rem.len() && (#[trigger] rem[i]).0 == p;
                    assert(s6.pending_publish_operations@.contains_pair(rem[i].0, rem[i].1));
                    s6.lemma_bound_ids_unique(s6.pending_publish_operations@[p], k);
                    assert(rem[i].1 == k);
                }
                assert forall|i: int| 0 <= i < rem.len() implies (#[trigger] rem[i]).1 < self.next_operation_id by {
                    assert(s6.pending_publish_operations@.contains_pair(rem[i].0, rem[i].1));
                    assert(s6.operations@.contains_key(s6.pending_publish_operations@[rem[i].0]));
                }
                assert forall|k: u64| #[trigger] self.operations@.contains_key(k) && is_fresh_pubrel(self.operations@[k]) implies
                    (exists|i: int| 0 <= i < rem.len() && (#[trigger] rem[i]).1 == k) by {
                    assert(in_flight(s6, k));
                    let p = s6.operations@[k].packet_id->Some_0;
                    if s6.pending_non_publish_operations@.contains_key(p) { s6.lemma_bound_ids_unique(s6.pending_non_publish_operations@[p], k); }
                    assert(s6.pending_publish_operations@.contains_key(p));
                }
                assert(requeue_inv(*self, rem, false));
            }
        }
//@@at before "match it.next() { @nth=1/2"
            let ghost rem_pre = it.remaining();
            let ghost b0 = *self;
//@@at after "self.resubmit_operation_queue.push_back(id);"
            proof {
                if hs_ok(*old(self)) {
                    assert(rem_pre.len() > 0 && rem_pre[0].1 == id && it.remaining() =~= rem_pre.skip(1));
                    lemma_requeue_step_pub(b0, *self, rem_pre, id);
                }
            }
//@@at after "let mut it = (unacked_sub_unsub_table.into_iter()).into_iter();"
        proof {
            if hs_ok(*old(self)) {
                let rem = it.remaining();
                assert forall|k: u64| #[trigger] self.operations@.contains_key(k) && self.operations@[k].packet_id is Some && after_pub.pending_non_publish_operations@.contains_key(self.operations@[k].packet_id->Some_0)
                    implies (exists|i: int| 0 <= i < rem.len() && (#[trigger] rem[i]).1 == k) by {
                    let p = self.operations@[k].packet_id->Some_0;
                    let i = choose|i: int| 0 <= i < rem.len() && (#[trigger] rem[i]).0 == p;
                    assert(after_pub.pending_non_publish_operations@.contains_pair(rem[i].0, rem[i].1));
                    after_pub.lemma_bound_ids_unique(after_pub.pending_non_publish_operations@[p], k);
                    assert(rem[i].1 == k);
                }
                assert forall|i: int| 0 <= i < rem.len() implies (#[trigger] rem[i]).1 < self.next_operation_id by {
                    assert(after_pub.pending_non_publish_operations@.contains_pair(rem[i].0, rem[i].1));
                    assert(after_pub.operations@.contains_key(after_pub.pending_non_publish_operations@[rem[i].0]));
                }
                assert(requeue_inv(*self, rem, true));
            }
        }
//@@at before "match it.next() { @nth=2/2"
            let ghost rem_pre = it.remaining();
            let ghost b0 = *self;
//@@at after "self.user_operation_queue.push_front(id);"
            proof {
                if hs_ok(*old(self)) {
                    assert(rem_pre.len() > 0 && rem_pre[0].1 == id && it.remaining() =~= rem_pre.skip(1));
                    lemma_requeue_step_nonpub(b0, *self, rem_pre, id);
                }
            }
//@@at before "let mut unacked_sub_unsub_table = HashMap::new();"
        let ghost after_pub = *self;
        proof { if hs_ok(*old(self)) { assert(requeue_inv(after_pub, Seq::<(u16, u64)>::empty(), false)); assert(requeue_inv(after_pub, Seq::<(u16, u64)>::empty(), true)); } }
//@@at before "let mut user_move : VecDeque<u64> = VecDeque::new();"
        let ghost t1 = *self;
//@@at after "let (mut retained_user, rejected_user) = self.partition_operation_queue_by_queue_policy(&user_move, &self.config.offline_queue_policy);"
        let ghost t2 = *self;
        let ghost ru0 = retained_user@;
        let ghost rj0 = rejected_user@;
//@@at after "self.user_operation_queue.append(&mut retained_user);"
        proof {
            if hs_ok(*old(self)) {
                let fin = *self;
                lemma_qpart_contains(t2, t1.user_operation_queue@, t2.config.offline_queue_policy, true);
                lemma_qpart_contains(t2, t1.user_operation_queue@, t2.config.offline_queue_policy, false);
                lemma_concat_contains(Seq::<u64>::empty(), ru0);
                assert(requeue_inv(t1, Seq::<(u16, u64)>::empty(), true));
                assert forall|k: u64| #[trigger] fin.operations@.contains_key(k) && fin.operations@[k].packet_id is Some implies
                    (fin.current_operation == Some(k) || in_flight(fin, k) || fin.resubmit_operation_queue@.contains(k) || fin.user_operation_queue@.contains(k)) by {
                    assert(t2.operations@.contains_key(k) && t1.operations@.contains_key(k));
                    assert(fin.operations@[k] == t2.operations@[k]);
                    if !t1.resubmit_operation_queue@.contains(k) {
                        assert(t1.user_operation_queue@.contains(k));
                        assert(!rj0.contains(k));
                        assert(ru0.contains(k));
                    }
                }
                assert forall|k: u64| #[trigger] fin.operations@.contains_key(k) && is_fresh_pubrel(fin.operations@[k]) implies in_flight(fin, k) by {
                    assert(t1.operations@.contains_key(k)); assert(fin.operations@[k] == t1.operations@[k]);
                }
                assert forall|i: int| 0 <= i < fin.resubmit_operation_queue@.len() && fin.operations@.contains_key(#[trigger] fin.resubmit_operation_queue@[i])
                    implies *fin.operations@[fin.resubmit_operation_queue@[i]].packet is Publish by {
                    let x = fin.resubmit_operation_queue@[i]; assert(t1.operations@.contains_key(x)); assert(fin.operations@[x] == t1.operations@[x]);
                }
                assert(hs_quiet(fin));
                assert(hs_ok(fin));
            }
        }
//@end
}

// =====================================================================================================
// entry points (C11, C07, C15, C01)
// =====================================================================================================

pub open spec fn sorted_ids(q: Seq<u64>) -> bool { forall|i: int, j: int| 0 <= i < j < q.len() ==> q[i] <= q[j] }

// (body: VecDeque::rotate_right / as_mut_slices / slice::sort - no Verus specifications) -> assumed contract, examined by E-B
// (sort_operation_deque_all_small_layouts: every ring layout up to 16 slots)
//@fn gneiss-mqtt/src/protocol.rs sort_operation_deque props=C10 stub
    ensures final(operations)@.to_multiset() == old(operations)@.to_multiset(), sorted_ids(final(operations)@),
//@end

impl InboundAliasResolver {
//@fn gneiss-mqtt/src/alias.rs InboundAliasResolver::reset_for_new_connection props=C17
    ensures final(self).current_aliases@ == Map::<u16, String>::empty(), final(self).maximum_alias_value == old(self).maximum_alias_value,
//@end
}

// ---- W9 at CONNACK: counting the operations that take part in the one-at-a-time drain
pub open spec fn is_marked(m: Map<u64, ClientOperation>) -> spec_fn(u64) -> bool { |k: u64| m[k].slow_start_ack_value != 0 }

// sum of the slow-start weights of the first n keys of an enumeration
pub open spec fn marked_prefix(m: Map<u64, ClientOperation>, s: Seq<u64>, n: int) -> int
    decreases n
{
    if n <= 0 { 0 } else { marked_prefix(m, s, n - 1) + m[s[n - 1]].slow_start_ack_value as int }
}

pub proof fn lemma_marked_prefix(m: Map<u64, ClientOperation>, s: Seq<u64>, n: int)
    requires 0 <= n <= s.len(), s.no_duplicates(),
        forall|i: int| 0 <= i < s.len() ==> m.contains_key(#[trigger] s[i]) && m[s[i]].slow_start_ack_value <= 1,
    ensures marked_prefix(m, s, n) == s.take(n).to_set().filter(is_marked(m)).len(), 0 <= marked_prefix(m, s, n) <= n,
    decreases n
{
    if n > 0 {
        lemma_marked_prefix(m, s, n - 1);
        let sa = s.take(n - 1);
        let sb = s.take(n);
        let a = sa.to_set();
        let b = sb.to_set();
        let x = s[n - 1];
        assert(sb =~= sa.push(x));
        assert(b =~= a.insert(x)) by {
            assert forall|k: u64| b.contains(k) <==> a.insert(x).contains(k) by {
                if sb.contains(k) { let i = choose|i: int| 0 <= i < sb.len() && sb[i] == k; if i < n - 1 { assert(sa[i] == k); } }
                if sa.contains(k) { let i = choose|i: int| 0 <= i < sa.len() && sa[i] == k; assert(sb[i] == k); }
                assert(sb[n - 1] == x);
            }
        }
        assert(!a.contains(x)) by { if sa.contains(x) { let i = choose|i: int| 0 <= i < sa.len() && sa[i] == x; assert(s[i] == s[n - 1]); } }
        let f = is_marked(m);
        assert(f(x) == (m[x].slow_start_ack_value != 0));
        if m[x].slow_start_ack_value != 0 {
            assert(b.filter(f) =~= a.filter(f).insert(x));
            assert(!a.filter(f).contains(x));
            assert(b.filter(f).len() == a.filter(f).len() + 1);
        } else { assert(b.filter(f) =~= a.filter(f)); }
    } else {
        assert(s.take(0).to_set() =~= Set::<u64>::empty());
        assert(s.take(0).to_set().filter(is_marked(m)) =~= Set::<u64>::empty());
    }
}

// once the enumeration of the keys is complete the running sum is the number of marked operations (W9)
pub proof fn lemma_marked_all(s: ProtocolState, refs: Seq<&u64>, idx: int)
    requires s.wf_tables(), refs.no_duplicates(), refs.unref().to_set() == s.operations@.dom(), 0 <= idx <= refs.len(),
    ensures idx == refs.len() ==> marked_prefix(s.operations@, refs.unref(), idx) == s.ss_set().len(),
{
    let ks = refs.unref();
    if idx == ks.len() {
        assert(ks.no_duplicates()) by {
            assert forall|i: int, j: int| 0 <= i < ks.len() && 0 <= j < ks.len() && i != j implies ks[i] != ks[j] by { assert(refs[i] != refs[j]); }
        }
        assert forall|i: int| 0 <= i < ks.len() implies s.operations@.contains_key(#[trigger] ks[i]) && s.operations@[ks[i]].slow_start_ack_value <= 1 by {
            assert(ks.to_set().contains(ks[i])); assert(op_wf(s.operations@[ks[i]]));
        }
        lemma_marked_prefix(s.operations@, ks, ks.len() as int);
        assert(ks.take(ks.len() as int) =~= ks);
        assert(s.ss_set() =~= ks.to_set().filter(is_marked(s.operations@)));
    }
}

// C11 "CONNACK before the CONNECT was flushed": the CONNECT of this connection is still queued, half-written, or written but not flushed
pub open spec fn is_connect_op(s: ProtocolState, id: u64) -> bool { s.operations@.contains_key(id) && *s.operations@[id].packet is Connect }
pub open spec fn connect_unsent(s: ProtocolState) -> bool {
    ||| (s.current_operation matches Some(c) && is_connect_op(s, c))
    ||| exists|i: int| 0 <= i < s.pending_write_completion_operations@.len() && is_connect_op(s, #[trigger] s.pending_write_completion_operations@[i])
    ||| exists|i: int| 0 <= i < s.high_priority_operation_queue@.len() && is_connect_op(s, #[trigger] s.high_priority_operation_queue@[i])
}

// ---- CONNACK session handling (C04, C05, C06, C10, C15)
pub open spec fn handshake_quiet(s: ProtocolState) -> bool {
    &&& s.high_priority_operation_queue@.len() == 0
    &&& s.pending_publish_operations@ == Map::<u16, u64>::empty() && s.pending_non_publish_operations@ == Map::<u16, u64>::empty()
    &&& heap_view(s.operation_ack_timeouts) == Multiset::<Reverse<OperationTimeoutRecord>>::empty()
    &&& s.pending_write_completion_operations@.len() == 0
}
pub open spec fn resubmit_only_publishes(s: ProtocolState) -> bool {
    forall|i: int| 0 <= i < s.resubmit_operation_queue@.len() && s.operations@.contains_key(#[trigger] s.resubmit_operation_queue@[i])
        ==> *s.operations@[s.resubmit_operation_queue@[i]].packet is Publish
}
pub open spec fn bound_ops_queued(s: ProtocolState) -> bool {
    forall|k: u64| #[trigger] s.operations@.contains_key(k) && s.operations@[k].packet_id is Some
        ==> s.resubmit_operation_queue@.contains(k) || s.user_operation_queue@.contains(k)
}
pub open spec fn asp_frame(pre: ProtocolState, post: ProtocolState) -> bool {
    &&& post.state == pre.state && post.current_settings == pre.current_settings && post.config == pre.config
    &&& post.next_ping_timepoint == pre.next_ping_timepoint && post.ping_timeout_timepoint == pre.ping_timeout_timepoint
    &&& post.connack_timeout_timepoint == pre.connack_timeout_timepoint && post.has_connected_successfully == pre.has_connected_successfully
    &&& post.current_operation == pre.current_operation && post.next_operation_id == pre.next_operation_id && post.next_packet_id == pre.next_packet_id
    &&& post.pending_write_completion == pre.pending_write_completion && post.current_time == pre.current_time && post.protocol_version == pre.protocol_version
    &&& post.inbound_alias_resolver == pre.inbound_alias_resolver
}

pub proof fn lemma_concat_contains<A>(a: Seq<A>, b: Seq<A>)
    ensures forall|x: A| #[trigger] (a + b).contains(x) <==> (a.contains(x) || b.contains(x)),
{
    assert forall|x: A| #[trigger] (a + b).contains(x) <==> (a.contains(x) || b.contains(x)) by {
        if a.contains(x) { let i = choose|i: int| 0 <= i < a.len() && a[i] == x; assert((a + b)[i] == x); }
        if b.contains(x) { let i = choose|i: int| 0 <= i < b.len() && b[i] == x; assert((a + b)[a.len() + i] == x); }
        if (a + b).contains(x) { let i = choose|i: int| 0 <= i < (a + b).len() && (a + b)[i] == x; if i < a.len() { assert(a[i] == x); } else { assert(b[i - a.len()] == x); } }
    }
}

pub proof fn lemma_qpart_contains(s: ProtocolState, q: Seq<u64>, policy: OfflineQueuePolicy, keep: bool)
    ensures forall|x: u64| #[trigger] qpart(s, q, policy, keep).contains(x) <==>
        (q.contains(x) && s.operations@.contains_key(x) && policy_keeps(*s.operations@[x].packet, policy) == keep),
    decreases q.len()
{
    if q.len() > 0 {
        let q0 = q.drop_last();
        lemma_qpart_contains(s, q0, policy, keep);
        lemma_push_contains(q0, q.last());
        assert(q0.push(q.last()) =~= q);
        lemma_push_contains(qpart(s, q0, policy, keep), q.last());
    }
}

// after the user queue has been walked (each id unbound and its QoS2 state cleared) the representation invariant holds again
pub proof fn lemma_restart_wf(sd: ProtocolState, fin: ProtocolState, done: Set<u64>)
    requires sd.wf_x(),
        forall|k: u64| #[trigger] sd.operations@.contains_key(k) && !done.contains(k) ==> sd.alloc_dir2_for(k),
        sd.pending_publish_operations@ == Map::<u16, u64>::empty(), sd.pending_non_publish_operations@ == Map::<u16, u64>::empty(),
        fin == (ProtocolState { operations: fin.operations, allocated_packet_ids: fin.allocated_packet_ids, user_operation_queue: fin.user_operation_queue,
            resubmit_operation_queue: fin.resubmit_operation_queue, ..sd }),
        fin.operations@.dom() =~= sd.operations@.dom(),
        forall|k: u64| #[trigger] fin.operations@.contains_key(k) ==> fin.operations@[k] == (if done.contains(k) { restarted_op(sd.operations@[k]) } else { sd.operations@[k] }),
        forall|p: u16| #[trigger] fin.allocated_packet_ids@.contains_key(p) <==> sd.allocated_packet_ids@.contains_key(p) && !done.contains(sd.allocated_packet_ids@[p]),
        forall|p: u16| #[trigger] fin.allocated_packet_ids@.contains_key(p) ==> fin.allocated_packet_ids@[p] == sd.allocated_packet_ids@[p],
    ensures fin.wf(),
{
    assert(fin.ss_set() =~= sd.ss_set());
    assert forall|k: u64| #[trigger] fin.operations@.contains_key(k) implies
        fin.operations@[k].id == k && k != 0 && k < fin.next_operation_id && op_wf(fin.operations@[k]) by {
        assert(sd.operations@.contains_key(k));
    }
    assert forall|p: u16| #[trigger] fin.allocated_packet_ids@.contains_key(p) implies
        p != 0 && fin.operations@.contains_key(fin.allocated_packet_ids@[p]) && fin.operations@[fin.allocated_packet_ids@[p]].packet_id == Some(p) by {
        assert(sd.allocated_packet_ids@.contains_key(p));
    }
    assert forall|k: u64| #[trigger] fin.operations@.contains_key(k) implies
        (fin.operations@[k].packet_id matches Some(p) ==> fin.allocated_packet_ids@.contains_key(p) && fin.allocated_packet_ids@[p] == k) by {
        assert(sd.operations@.contains_key(k));
        if fin.operations@[k].packet_id is Some { assert(!done.contains(k)); assert(sd.alloc_dir2_for(k)); }
    }
    assert forall|i: int| 0 <= i < fin.pending_write_completion_operations@.len() implies ({
            let k = #[trigger] fin.pending_write_completion_operations@[i];
            k < fin.next_operation_id && (fin.operations@.contains_key(k) ==> !takes_packet_id(*fin.operations@[k].packet))
        }) by {
        let k = sd.pending_write_completion_operations@[i];
        if fin.operations@.contains_key(k) { assert(sd.operations@.contains_key(k)); assert(takes_packet_id(*restarted_op(sd.operations@[k]).packet) == takes_packet_id(*sd.operations@[k].packet)); }
    }
}

impl ProtocolState {
// ---- assumed contracts for the closure/iterator functions outside Verus; each is examined by E-B (bounded)
//@fn gneiss-mqtt/src/protocol.rs ProtocolState::complete_operation_sequence_as_empty_success props=C01,C11 desugar
    requires old(self).wf(), iterator.obeys_prophetic_iter_laws(), iterator.decrease() is Some,
        // W14 for the listed ids: what completes "empty" needs no response packet (otherwise `completion_result.unwrap()` panics)
        forall|i: int| 0 <= i < iterator.remaining().len() ==> (old(self).operations@.contains_key(#[trigger] iterator.remaining()[i])
            ==> !takes_packet_id(*old(self).operations@[iterator.remaining()[i]].packet)),
    ensures final(self).wf(),
        // H1-H5: kept, provided none of the listed operations is the CONNECT a queue still refers to during the handshake
        (hs_ok(*old(self)) && (forall|i: int| 0 <= i < iterator.remaining().len() ==> unreferenced(*old(self), #[trigger] iterator.remaining()[i]))) ==> hs_ok(*final(self)),
        completion_frame(*old(self), *final(self)),
        shrunk(*old(self), *final(self)),
        // exactly the listed operations are completed: each of them is gone, nothing else is
        forall|k: u64| #[trigger] final(self).operations@.contains_key(k) <==> old(self).operations@.contains_key(k) && !iterator.remaining().contains(k),
        state_after_failures(old(self).state, final(self).state),
        (old(self).cur_ok() && (old(self).current_operation matches Some(c) ==> !iterator.remaining().contains(c))) ==> final(self).cur_ok(),
        !old(self).ss_active() ==> final(self).slow_start_ack_count == old(self).slow_start_ack_count,
//@@loop 0 manual=it
            invariant it.obeys_prophetic_iter_laws(), it.decrease() is Some,
                all == consumed + it.remaining(),
                self.wf(), old(self).wf(),
                forall|i: int| 0 <= i < all.len() ==> (old(self).operations@.contains_key(#[trigger] all[i]) ==> !takes_packet_id(*old(self).operations@[all[i]].packet)),
                completion_frame(*old(self), *self),
                shrunk(*old(self), *self),
                forall|k: u64| #[trigger] self.operations@.contains_key(k) <==> old(self).operations@.contains_key(k) && !consumed.contains(k),
                state_after_failures(old(self).state, self.state),
                !old(self).ss_active() ==> self.slow_start_ack_count == old(self).slow_start_ack_count,
                self.config == old(self).config,
                (old(self).cur_ok() && (old(self).current_operation matches Some(c) ==> !all.contains(c))) ==> self.cur_ok(),
                (hs_ok(*old(self)) && (forall|i: int| 0 <= i < all.len() ==> unreferenced(*old(self), #[trigger] all[i]))) ==> hs_ok(*self),
            ensures all == consumed,
            decreases it.decrease()->Some_0,
//@@at before "let mut it = (iterator).into_iter();"
        let ghost all = iterator.remaining();
        let ghost mut consumed: Seq<u64> = Seq::empty();
        proof { lemma_shrunk_refl(*old(self)); }
//@@at before "res = {"
            let ghost mid = *self;
            let ghost pre_cons = consumed;
            proof {
                consumed = consumed.push(item); lemma_push_contains(pre_cons, item);
                assert(all[pre_cons.len() as int] == item);
            }
//@@at after "};"
            proof {
                lemma_shrunk_step(*old(self), mid, *self, item);
                assert(all.contains(item)) by { assert(all[pre_cons.len() as int] == item); }
            }
//@end


}
//@fn gneiss-mqtt/src/validate.rs validate_packet_inbound_internal stub
//@end
impl InboundAliasResolver {
//@fn gneiss-mqtt/src/alias.rs InboundAliasResolver::resolve_topic_alias stub
    ensures final(self).maximum_alias_value == old(self).maximum_alias_value,
//@end
}
impl ProtocolState {
//@fn gneiss-mqtt/src/protocol.rs ProtocolState::handle_network_event_incoming_data props=C11,C05 desugar
// by-value iteration of the local list: `for x in Q` is `for x in Q.into_iter()` by definition; written out so that rule R14 applies
//@@rewrite "for mut packet in decoded_packets {" => "for mut packet in decoded_packets.into_iter() {"
    requires old(self).wf(), clock_ok(old(context).current_time),
        // A-OPID: at most one operation (an acknowledgement) is created per decoded packet, at most one packet ends per byte
        opid_budget(*old(self), data@.len() as int),
        // H1-H6 (DESIGN.md 2) instead of the former assumption A-HANDSHAKE; A-OPS stays: fewer than 2^32 operations tracked at once
        hs_ok(*old(self)), old(self).operations@.len() < u32::MAX,
    ensures final(self).wf(), hs_ok(*final(self)),
        (old(self).state == ProtocolStateType::Disconnected || old(self).state == ProtocolStateType::Halted) ==> r is Err && *final(self) == *old(self),
        final(context).current_time == old(context).current_time,
        // C07/C11: nothing the server sends is looked at before the CONNECT has left the queue
        (old(self).state == ProtocolStateType::PendingConnack && connect_unsent(*old(self))) ==> r is Err && final(self).state == ProtocolStateType::Halted,
//@@loop 0 manual=it
            invariant it.obeys_prophetic_iter_laws(), it.decrease() is Some,
                self.wf(), clock_ok(context.current_time), context.current_time == old(context).current_time,
                self.next_operation_id as int + it.remaining().len() <= old(self).next_operation_id + data@.len(),
                opid_budget(*old(self), data@.len() as int),
                self.state == ProtocolStateType::PendingConnack ==> connack_ready(*self),
                hs_ok(*self),
                old(self).state != ProtocolStateType::Disconnected && old(self).state != ProtocolStateType::Halted,
                !(old(self).state == ProtocolStateType::PendingConnack && connect_unsent(*old(self))),
            decreases it.decrease()->Some_0,
//@@at before "let mut decoded_packets = VecDeque::new();"
        proof {
            // the CONNECT has left the queue: H1-H5 give what session handling needs when the CONNACK is accepted
            if self.state == ProtocolStateType::PendingConnack { lemma_hs_gives_handshake(*self); }
        }
//@end

//@fn gneiss-mqtt/src/protocol.rs ProtocolState::initialize_slow_start props=C09,C11
    requires old(self).wf_tables(), old(self).state == ProtocolStateType::Connected,
        // A-OPS: fewer than 2^32 operations are tracked at once (the counter is a u32)
        old(self).operations@.len() < u32::MAX,
    ensures final(self).wf_core(),
        *final(self) == (ProtocolState { slow_start_ack_count: final(self).slow_start_ack_count, ..*old(self) }),
//@@loop 0 iter=it
            invariant *self == *old(self), self.wf_tables(),
                it.seq().unref().to_set() == self.operations@.dom(), it.seq().no_duplicates(), it.seq().len() == self.operations@.len(),
                slow_start_ack_count as int == marked_prefix(self.operations@, it.seq().unref(), it.index@ as int),
                slow_start_ack_count as int <= it.index@,
                self.operations@.len() < u32::MAX,
                // the enumeration is the whole key set, once each: at the end the sum of the 0/1 weights is the number of marked operations
                it.index@ == it.seq().len() ==> slow_start_ack_count as nat == self.ss_set().len(),
//@@at before "for id in it: self.operations.keys()"
        proof {
            if self.operations@.dom().len() == 0 { self.operations@.dom().lemma_len0_is_empty(); assert(self.ss_set() =~= Set::<u64>::empty()); }
        }
//@@at before "let operation = self.operations.get(id).unwrap();"
            proof {
                assert(it.seq().unref()[it.index@ as int] == *id);
                assert(it.seq().unref().to_set().contains(*id));
                assert(self.operations@.contains_key(*id));
                assert(op_wf(self.operations@[*id]));
            }
//@@at after "slow_start_ack_count += operation.slow_start_ack_value;"
            proof {
                lemma_marked_all(*self, it.seq(), it.index@ + 1);
            }
//@end

//@fn gneiss-mqtt/src/protocol.rs ProtocolState::apply_session_present_to_connection props=C04,C05,C06,C10,C15,C11,C01 desugar
    requires old(self).wf(), old(self).state == ProtocolStateType::Connected,
        // A-HANDSHAKE (examined by E-B at every CONNACK it explores): nothing but the CONNECT was written on this connection ...
        handshake_quiet(*old(self)),
        // ... the retransmission queue holds publishes only, and every operation that still holds a packet id is queued
        resubmit_only_publishes(*old(self)),
        !session_present ==> bound_ops_queued(*old(self)),
    ensures final(self).wf(), handshake_quiet(*final(self)),
        hs_ok(*old(self)) ==> hs_ok(*final(self)),
        asp_frame(*old(self), *final(self)),
        // C10: submission order is re-established in both queues
        sorted_ids(final(self).user_operation_queue@), sorted_ids(final(self).resubmit_operation_queue@),
        forall|k: u64| #[trigger] final(self).operations@.contains_key(k) ==> old(self).operations@.contains_key(k),
        // session resumed: in-flight publishes stay as they are (same id, DUP) and are retransmitted first; whatever waits in the user queue starts over
        session_present ==> {
            &&& final(self).resubmit_operation_queue@.to_multiset() == old(self).resubmit_operation_queue@.to_multiset()
            &&& final(self).user_operation_queue@.to_multiset() == old(self).user_operation_queue@.to_multiset()
            &&& final(self).qos2_incomplete_incoming_publishes@ == old(self).qos2_incomplete_incoming_publishes@
            &&& final(self).operations@.dom() =~= old(self).operations@.dom()
            &&& forall|k: u64| #[trigger] final(self).operations@.contains_key(k) ==> final(self).operations@[k] ==
                    (if old(self).user_operation_queue@.contains(k) { restarted_op(old(self).operations@[k]) } else { old(self).operations@[k] })
        },
        // session lost: nothing is retransmitted; the offline policy decides which interrupted publishes start over as fresh ones (DUP=0, no id);
        // the inbound QoS2 ids are forgotten and no packet id stays reserved
        !session_present ==> {
            &&& final(self).resubmit_operation_queue@.len() == 0
            &&& final(self).qos2_incomplete_incoming_publishes@ == Set::<u16>::empty()
            &&& final(self).allocated_packet_ids@ == Map::<u16, u64>::empty()
            &&& forall|k: u64| #[trigger] final(self).operations@.contains_key(k) ==> final(self).operations@[k].packet_id is None && final(self).operations@[k].qos2_pubrel is None
            &&& forall|k: u64| old(self).resubmit_operation_queue@.contains(k) && #[trigger] old(self).operations@.contains_key(k) ==>
                    (final(self).operations@.contains_key(k) <==> policy_keeps(*old(self).operations@[k].packet, old(self).config.offline_queue_policy))
            &&& forall|k: u64| old(self).resubmit_operation_queue@.contains(k) && #[trigger] final(self).operations@.contains_key(k) ==>
                    (*final(self).operations@[k].packet matches MqttPacket::Publish(publish) && !publish.duplicate)
            &&& forall|k: u64| !old(self).resubmit_operation_queue@.contains(k) && #[trigger] old(self).operations@.contains_key(k) ==> final(self).operations@.contains_key(k)
        },
//@@at bodystart
        let ghost mut sa = *self;
        let ghost mut sb = *self;
        let ghost mut sc = *self;
        let ghost mut retained0 = Seq::<u64>::empty();
        let ghost mut rejected0 = Seq::<u64>::empty();
//@@loop 0 iter=it
                invariant self.wf(), old(self).wf(), self.state == ProtocolStateType::Connected,
                    it.seq().unref() =~= retained@,
                    *self == (ProtocolState { operations: self.operations, ..sa }),
                    self.operations@.dom() =~= sa.operations@.dom(),
                    // only the DUP flag of walked publishes changes
                    forall|k: u64| #[trigger] self.operations@.contains_key(k) ==> op_evolved(sa.operations@[k], self.operations@[k])
                        && self.operations@[k].slow_start_ack_value == sa.operations@[k].slow_start_ack_value
                        && self.operations@[k].interruption_count == sa.operations@[k].interruption_count,
                    forall|j: int| 0 <= j < it.index@ && self.operations@.contains_key(*#[trigger] it.seq()[j]) ==>
                        (*self.operations@[*it.seq()[j]].packet matches MqttPacket::Publish(publish) && !publish.duplicate),
                    forall|j: int| 0 <= j < retained@.len() && sa.operations@.contains_key(#[trigger] retained@[j]) ==> *sa.operations@[retained@[j]].packet is Publish,
//@@loop 1 iter=it
            invariant
                it.seq().unref() =~= user_queue@,
                *self == (ProtocolState { operations: self.operations, allocated_packet_ids: self.allocated_packet_ids, ..sd }),
                self.operations@.dom() =~= sd.operations@.dom(),
                sd.wf_x(), sd.allocated_packet_ids@ == Map::<u16, u64>::empty() || sd.wf_alloc(),
                forall|k: u64| #[trigger] self.operations@.contains_key(k) ==> self.operations@[k] ==
                    (if it.seq().unref().take(it.index@ as int).contains(k) { restarted_op(sd.operations@[k]) } else { sd.operations@[k] }),
                forall|p: u16| #[trigger] self.allocated_packet_ids@.contains_key(p) <==> sd.allocated_packet_ids@.contains_key(p)
                    && !it.seq().unref().take(it.index@ as int).contains(sd.allocated_packet_ids@[p]),
                forall|p: u16| #[trigger] self.allocated_packet_ids@.contains_key(p) ==> self.allocated_packet_ids@[p] == sd.allocated_packet_ids@[p],
                it.index@ == it.seq().len() ==> it.seq().unref().take(it.index@ as int) =~= user_queue@,
//@@at after "std::mem::swap(&mut resubmit, &mut self.resubmit_operation_queue);"
            proof { sa = *self; assert(self.ss_set() =~= old(self).ss_set()); assert(self.wf()); }
//@@at after "let (mut retained, rejected) = self.partition_operation_queue_by_queue_policy(&resubmit, &self.config.offline_queue_policy);"
            proof {
                lemma_qpart_contains(sa, resubmit@, sa.config.offline_queue_policy, true);
                lemma_qpart_contains(sa, resubmit@, sa.config.offline_queue_policy, false);
                assert forall|j: int| 0 <= j < retained@.len() && sa.operations@.contains_key(#[trigger] retained@[j]) implies *sa.operations@[retained@[j]].packet is Publish by {
                    assert(retained@.contains(retained@[j]));
                    assert(resubmit@.contains(retained@[j]));
                    let i = choose|i: int| 0 <= i < resubmit@.len() && resubmit@[i] == retained@[j];
                    assert(old(self).resubmit_operation_queue@[i] == retained@[j]);
                }
            }
            proof { retained0 = retained@; rejected0 = rejected@; }
//@@at before "self.set_publish_duplicate_flag(*id, false)"
                proof {
                    assert(it.seq().unref()[it.index@ as int] == *id);
                    assert(retained@[it.index@ as int] == *id);
                    if self.operations@.contains_key(*id) { assert(op_evolved(sa.operations@[*id], self.operations@[*id])); }
                }
//@@at after "self.user_operation_queue.append(&mut retained);"
            proof { sb = *self; }
//@@at after "generate_offline_queue_policy_failed_error);"
            proof {
                sc = *self;
                assert(self.pending_publish_operations@ =~= Map::<u16, u64>::empty());
                assert(self.pending_non_publish_operations@ =~= Map::<u16, u64>::empty());
            }
//@@at after "self.allocated_packet_ids.clear();"
            proof {
                assert(self.ss_set() =~= sc.ss_set());
                assert(self.wf_x());
            }
//@@at after "std::mem::swap(&mut user_queue, &mut self.user_operation_queue);"
        let ghost sd = *self;
        proof {
            assert(self.ss_set() =~= old(self).ss_set() || !session_present);
            assert(sd.wf_x());
        }
//@@at before "self.unbind_operation_packet_id(*id);"
            let ghost pre_step = *self;
            proof {
                let done = it.seq().unref().take(it.index@ as int);
                assert(it.seq().unref()[it.index@ as int] == *id);
                assert(it.seq().unref().take(it.index@ + 1) =~= done.push(*id));
                lemma_push_contains(done, *id);
                if self.operations@.contains_key(*id) {
                    assert(sd.operations@.contains_key(*id));
                    assert(op_wf(sd.operations@[*id]));
                }
            }
//@@at after "self.clear_qos2_state(*id);"
            proof {
                let done = it.seq().unref().take(it.index@ as int);
                if pre_step.operations@.contains_key(*id) {
                    let o0 = sd.operations@[*id];
                    assert(op_wf(o0));
                    assert(restarted_op(restarted_op(o0)) == restarted_op(o0));
                    assert(self.operations@[*id] == restarted_op(o0));
                    if pre_step.operations@[*id].packet_id is Some {
                        let p0 = pre_step.operations@[*id].packet_id->Some_0;
                        assert(!done.contains(*id));
                        assert(o0.packet_id == Some(p0));
                        if sd.allocated_packet_ids@.contains_key(p0) { assert(sd.allocated_packet_ids@[p0] == *id); }
                    }
                }
            }
//@@at after "self.user_operation_queue = user_queue;"
        proof {
            let done = self.user_operation_queue@.to_set();
            if !session_present {
                lemma_concat_contains(old(self).user_operation_queue@, retained0);
                assert(self.user_operation_queue@ =~= old(self).user_operation_queue@ + retained0);
            }
            assert forall|k: u64| #[trigger] sd.operations@.contains_key(k) && !done.contains(k) implies sd.alloc_dir2_for(k) by {
                if !session_present {
                    // every operation that still held an id was queued: in the old user queue, or in the retransmission queue - and then it was
                    // either moved to the user queue (kept by the policy) or failed (rejected)
                    if sd.operations@[k].packet_id is Some {
                        assert(sc.operations@.contains_key(k));
                        assert(sb.operations@.contains_key(k) && !rejected0.contains(k));
                        assert(sa.operations@.contains_key(k));
                        assert(op_evolved(sa.operations@[k], sb.operations@[k]));
                        assert(old(self).operations@[k].packet_id is Some);
                        assert(old(self).resubmit_operation_queue@.contains(k) || old(self).user_operation_queue@.contains(k));
                        if old(self).resubmit_operation_queue@.contains(k) {
                            assert(retained0.contains(k) || rejected0.contains(k));
                        }
                        assert(self.user_operation_queue@.contains(k));
                        assert(false);
                    }
                }
            }
            lemma_restart_wf(sd, *self, done);
        }
//@@at before "assert!(self.high_priority_operation_queue.is_empty());"
        proof {
            sd.resubmit_operation_queue@.to_multiset_ensures();
            self.resubmit_operation_queue@.to_multiset_ensures();
            assert(self.ss_set() =~= sd.ss_set() || true);
            if !session_present {
                assert(self.resubmit_operation_queue@.len() == 0);
                assert(self.qos2_incomplete_incoming_publishes@ == Set::<u16>::empty());
                assert forall|k: u64| !old(self).resubmit_operation_queue@.contains(k) && #[trigger] old(self).operations@.contains_key(k) implies self.operations@.contains_key(k) by {
                    assert(sa.operations@.contains_key(k)); assert(sb.operations@.contains_key(k));
                    assert(!rejected0.contains(k));
                    assert(sc.operations@.contains_key(k));
                }
                assert(self.allocated_packet_ids@ =~= Map::<u16, u64>::empty());
                assert forall|k: u64| #[trigger] self.operations@.contains_key(k) implies self.operations@[k].packet_id is None && self.operations@[k].qos2_pubrel is None by {
                    assert(sd.operations@.contains_key(k)); assert(op_wf(sd.operations@[k]));
                }
                assert forall|k: u64| old(self).resubmit_operation_queue@.contains(k) && #[trigger] old(self).operations@.contains_key(k) implies
                    (self.operations@.contains_key(k) <==> policy_keeps(*old(self).operations@[k].packet, old(self).config.offline_queue_policy)) by {
                    assert(sa.operations@.contains_key(k));
                    assert(retained0.contains(k) || rejected0.contains(k));
                }
                assert forall|k: u64| old(self).resubmit_operation_queue@.contains(k) && #[trigger] self.operations@.contains_key(k) implies
                    (*self.operations@[k].packet matches MqttPacket::Publish(publish) && !publish.duplicate) by {
                    assert(sd.operations@.contains_key(k)); assert(sb.operations@.contains_key(k)); assert(sa.operations@.contains_key(k));
                    assert(retained0.contains(k));
                    let j = choose|j: int| 0 <= j < retained0.len() && retained0[j] == k;
                    assert(*sb.operations@[k].packet matches MqttPacket::Publish(publish) && !publish.duplicate);
                }
            }
        }
//@@at after "assert!(self.pending_write_completion_operations.is_empty());"
        proof {
            if hs_ok(*old(self)) {
                old(self).resubmit_operation_queue@.to_multiset_ensures();
                self.resubmit_operation_queue@.to_multiset_ensures();
                if session_present {
                    assert(self.resubmit_operation_queue@.to_multiset() == old(self).resubmit_operation_queue@.to_multiset());
                    assert forall|k: u64| self.resubmit_operation_queue@.contains(k) <==> old(self).resubmit_operation_queue@.contains(k) by {
                        assert(self.resubmit_operation_queue@.to_multiset().count(k) == old(self).resubmit_operation_queue@.to_multiset().count(k));
                        assert(self.resubmit_operation_queue@.contains(k) <==> self.resubmit_operation_queue@.to_multiset().count(k) > 0);
                        assert(old(self).resubmit_operation_queue@.contains(k) <==> old(self).resubmit_operation_queue@.to_multiset().count(k) > 0);
                    }
                    assert forall|i: int| 0 <= i < self.resubmit_operation_queue@.len() implies #[trigger] self.resubmit_operation_queue@[i] < self.next_operation_id by {
                        let k = self.resubmit_operation_queue@[i];
                        assert(self.resubmit_operation_queue@.contains(k));
                        let i0 = choose|i0: int| 0 <= i0 < old(self).resubmit_operation_queue@.len() && old(self).resubmit_operation_queue@[i0] == k;
                    }
                    assert forall|i: int| 0 <= i < self.resubmit_operation_queue@.len() && self.operations@.contains_key(#[trigger] self.resubmit_operation_queue@[i])
                        implies *self.operations@[self.resubmit_operation_queue@[i]].packet is Publish by {
                        let k = self.resubmit_operation_queue@[i];
                        assert(self.resubmit_operation_queue@.contains(k));
                        let i0 = choose|i0: int| 0 <= i0 < old(self).resubmit_operation_queue@.len() && old(self).resubmit_operation_queue@[i0] == k;
                        assert(old(self).operations@.contains_key(k));
                    }
                    assert forall|k: u64| #[trigger] self.operations@.contains_key(k) && self.operations@[k].packet_id is Some implies
                        (self.current_operation == Some(k) || in_flight(*self, k) || self.resubmit_operation_queue@.contains(k) || self.user_operation_queue@.contains(k)) by {
                        assert(old(self).operations@.contains_key(k));
                        assert(!old(self).user_operation_queue@.contains(k));
                        assert(self.operations@[k] == old(self).operations@[k]);
                        assert(!in_flight(*old(self), k));
                    }
                } else {
                    assert(self.resubmit_operation_queue@.len() == 0);
                }
                assert(hs_ok(*self));
            }
        }
//@end

// (body uses `completions.iter().copied()`: Iterator::copied on vec_deque::Iter is outside Verus) -> assumed, E-B
//@fn gneiss-mqtt/src/protocol.rs ProtocolState::handle_network_event_write_completion props=C11,C01 desugar
// the iterator over copies of the swapped-out list is replaced by the by-value iterator over the same list (same ids, same order; the
// list is a local that is not used afterwards) - Verus has no specification for `Iterator::copied`; the second into_iter is rule R14
//@@rewrite "completions.iter().copied()" => "(completions.into_iter()).into_iter()"
    requires old(self).wf(),
    ensures final(self).wf(),
        hs_ok(*old(self)) ==> hs_ok(*final(self)),
        // a write completion nobody is waiting for, or in a state that writes nothing, is an error
        (old(self).state == ProtocolStateType::Halted || old(self).state == ProtocolStateType::Disconnected) ==> r is Err && *final(self) == *old(self),
        (old(self).state != ProtocolStateType::Halted && old(self).state != ProtocolStateType::Disconnected && !old(self).pending_write_completion)
            ==> r is Err && *final(self) == (ProtocolState { state: ProtocolStateType::Halted, ..*old(self) }),
        (old(self).state != ProtocolStateType::Halted && old(self).state != ProtocolStateType::Disconnected && old(self).pending_write_completion)
            ==> {
                &&& !final(self).pending_write_completion && final(self).pending_write_completion_operations@.len() == 0
                &&& final(self).current_operation == old(self).current_operation
                // C01: exactly the operations whose packets were in the flushed buffer complete (QoS 0 publishes, DISCONNECT, acks, pings); nothing else does
                &&& forall|k: u64| #[trigger] final(self).operations@.contains_key(k) <==> old(self).operations@.contains_key(k) && !old(self).pending_write_completion_operations@.contains(k)
                &&& shrunk(*old(self), *final(self))
                &&& state_after_failures(old(self).state, final(self).state)
                &&& final(self).user_operation_queue@ == old(self).user_operation_queue@ && final(self).resubmit_operation_queue@ == old(self).resubmit_operation_queue@
                &&& final(self).high_priority_operation_queue@ == old(self).high_priority_operation_queue@
                &&& ((old(self).cur_ok() && (old(self).current_operation matches Some(c) ==> !old(self).pending_write_completion_operations@.contains(c))) ==> final(self).cur_ok())
            },
//@end

}

// =====================================================================================================
// "where things are" (discharges A-HANDSHAKE): an entry-point invariant next to wf, kept OUT of wf because the close handler and
// session handling break it on purpose in mid-flight (they empty a table and then re-queue its operations one by one).
//   H1  the retransmission queue holds only publishes
//   H2  an operation that holds a packet id is the one being written, in flight, or waiting in the retransmission / user queue
//   H3  between connections and during the handshake nothing is in flight and no ack timeout is armed
//   H4  between connections nothing is queued for writing ahead of user operations, nothing awaits a flush, nothing is half written
//   H5  during the handshake the only thing written, half written or awaiting its flush is the CONNECT
// =====================================================================================================
pub open spec fn in_flight(s: ProtocolState, k: u64) -> bool {
    s.operations@[k].packet_id matches Some(p) && (s.pending_publish_operations@.contains_key(p) || s.pending_non_publish_operations@.contains_key(p))
}
pub open spec fn bound_located(s: ProtocolState) -> bool {
    forall|k: u64| #[trigger] s.operations@.contains_key(k) && s.operations@[k].packet_id is Some ==>
        s.current_operation == Some(k) || in_flight(s, k) || s.resubmit_operation_queue@.contains(k) || s.user_operation_queue@.contains(k)
}
pub open spec fn connect_only(s: ProtocolState) -> bool {
    let n_hp = s.high_priority_operation_queue@.len();
    let n_wc = s.pending_write_completion_operations@.len();
    let n_cur: nat = if s.current_operation is Some { 1 } else { 0 };
    // the CONNECT is in at most one place, and nothing else is in any of them
    &&& n_hp + n_wc + n_cur <= 1
    &&& (n_hp == 1 ==> is_connect_op(s, s.high_priority_operation_queue@[0]))
    &&& (n_wc == 1 ==> is_connect_op(s, s.pending_write_completion_operations@[0]))
    &&& (s.current_operation matches Some(c) ==> is_connect_op(s, c))
}
pub open spec fn nothing_in_flight(s: ProtocolState) -> bool {
    &&& s.pending_publish_operations@ == Map::<u16, u64>::empty() && s.pending_non_publish_operations@ == Map::<u16, u64>::empty()
    &&& heap_view(s.operation_ack_timeouts) == Multiset::<Reverse<OperationTimeoutRecord>>::empty()
}
pub open spec fn hs_quiet(s: ProtocolState) -> bool {
    &&& ((s.state == ProtocolStateType::Disconnected || s.state == ProtocolStateType::PendingConnack) ==> nothing_in_flight(s) && !s.current_operation_ack_timeout_elapsed)
    &&& (s.state == ProtocolStateType::Disconnected ==> s.high_priority_operation_queue@.len() == 0 && s.pending_write_completion_operations@.len() == 0 && s.current_operation is None)
    &&& (s.state == ProtocolStateType::PendingConnack ==> connect_only(s))
}
// (ids waiting for retransmission were handed out earlier: a new operation can never collide with a stale entry)
pub open spec fn resubmit_known(s: ProtocolState) -> bool {
    forall|i: int| 0 <= i < s.resubmit_operation_queue@.len() ==> #[trigger] s.resubmit_operation_queue@[i] < s.next_operation_id
}
//   H6  a QoS 2 publish that has its PUBREC (PUBREL set) and was not yet interrupted (DUP = 0) is still in the in-flight table
pub open spec fn fresh_pubrel_in_flight(s: ProtocolState) -> bool {
    forall|k: u64| #[trigger] s.operations@.contains_key(k) && s.operations@[k].qos2_pubrel is Some
        && (*s.operations@[k].packet matches MqttPacket::Publish(publish) && !publish.duplicate) ==> in_flight(s, k)
}
pub open spec fn hs_ok(s: ProtocolState) -> bool { resubmit_only_publishes(s) && resubmit_known(s) && bound_located(s) && hs_quiet(s) && fresh_pubrel_in_flight(s) }
// the same with one operation exempt from H2 (an operation that has just left its place and is about to be completed)
pub open spec fn hs_ok_but(s: ProtocolState, x: u64) -> bool {
    &&& resubmit_only_publishes(s) && resubmit_known(s) && hs_quiet(s) && fresh_pubrel_in_flight(s)
    &&& forall|k: u64| k != x && #[trigger] s.operations@.contains_key(k) && s.operations@[k].packet_id is Some ==>
            s.current_operation == Some(k) || in_flight(s, k) || s.resubmit_operation_queue@.contains(k) || s.user_operation_queue@.contains(k)
}
// during the handshake the operation being removed must not be the CONNECT a queue still refers to
pub open spec fn unreferenced(s: ProtocolState, id: u64) -> bool {
    s.state == ProtocolStateType::PendingConnack ==> !s.high_priority_operation_queue@.contains(id) && !s.pending_write_completion_operations@.contains(id)
        && s.current_operation != Some(id)
}

// H1-H5 give the three preconditions of session handling once the CONNECT has left the queue
pub proof fn lemma_hs_gives_handshake(s: ProtocolState)
    requires s.wf(), hs_ok(s), s.state == ProtocolStateType::PendingConnack, !connect_unsent(s),
    ensures handshake_quiet(s), resubmit_only_publishes(s), bound_ops_queued(s),
{
    if s.high_priority_operation_queue@.len() == 1 { assert(is_connect_op(s, s.high_priority_operation_queue@[0])); }
    if s.pending_write_completion_operations@.len() == 1 { assert(is_connect_op(s, s.pending_write_completion_operations@[0])); }
}

// completing / failing one operation keeps H1-H5 (during the handshake: unless it is the CONNECT still referenced by a queue)
pub proof fn lemma_hs_remove(pre: ProtocolState, post: ProtocolState, id: u64)
    requires pre.wf(), hs_ok_but(pre, id),
        pre.operations@.contains_key(id) ==> removed_exactly(pre, post, id),
        !pre.operations@.contains_key(id) ==> tables_unchanged(pre, post),
        post.user_operation_queue@ == pre.user_operation_queue@, post.resubmit_operation_queue@ == pre.resubmit_operation_queue@,
        post.high_priority_operation_queue@ == pre.high_priority_operation_queue@,
        post.pending_write_completion_operations@ == pre.pending_write_completion_operations@,
        post.current_operation == pre.current_operation, post.next_operation_id == pre.next_operation_id,
        post.state == pre.state || post.state == ProtocolStateType::Halted,
        (pre.state == ProtocolStateType::Disconnected || pre.state == ProtocolStateType::PendingConnack) ==>
            post.operation_ack_timeouts == pre.operation_ack_timeouts && post.current_operation_ack_timeout_elapsed == pre.current_operation_ack_timeout_elapsed,
        unreferenced(pre, id),
    ensures hs_ok(post),
{
    if pre.operations@.contains_key(id) {
        assert forall|k: u64| #[trigger] post.operations@.contains_key(k) && post.operations@[k].packet_id is Some implies
            (post.current_operation == Some(k) || in_flight(post, k) || post.resubmit_operation_queue@.contains(k) || post.user_operation_queue@.contains(k)) by {
            assert(pre.operations@.contains_key(k) && k != id);
            if in_flight(pre, k) {
                let p = pre.operations@[k].packet_id->Some_0;
                // ids are unique (W2): the removed operation's id is a different one
                if pre.operations@[id].packet_id == Some(p) { pre.lemma_bound_ids_unique(k, id); }
                assert(in_flight(post, k));
            }
        }
        assert forall|i: int| 0 <= i < post.resubmit_operation_queue@.len() && post.operations@.contains_key(#[trigger] post.resubmit_operation_queue@[i])
            implies *post.operations@[post.resubmit_operation_queue@[i]].packet is Publish by {
            assert(pre.operations@.contains_key(pre.resubmit_operation_queue@[i]));
        }
        if post.state == ProtocolStateType::Disconnected || post.state == ProtocolStateType::PendingConnack {
            assert(post.pending_publish_operations@ =~= Map::<u16, u64>::empty());
            assert(post.pending_non_publish_operations@ =~= Map::<u16, u64>::empty());
        }
        if post.state == ProtocolStateType::PendingConnack {
            if pre.high_priority_operation_queue@.len() == 1 { assert(pre.high_priority_operation_queue@.contains(pre.high_priority_operation_queue@[0])); }
            if pre.pending_write_completion_operations@.len() == 1 { assert(pre.pending_write_completion_operations@.contains(pre.pending_write_completion_operations@[0])); }
        }
    }
}

// ---- H2/H6 through the close handler: with nothing being written, an id-holding operation is "parked"
pub open spec fn parked(s: ProtocolState, k: u64) -> bool {
    in_flight(s, k) || s.resubmit_operation_queue@.contains(k) || s.user_operation_queue@.contains(k)
}
pub open spec fn all_parked(s: ProtocolState) -> bool {
    forall|k: u64| #[trigger] s.operations@.contains_key(k) && s.operations@[k].packet_id is Some ==> parked(s, k)
}
pub open spec fn is_fresh_pubrel(op: ClientOperation) -> bool {
    op.qos2_pubrel is Some && (*op.packet matches MqttPacket::Publish(publish) && !publish.duplicate)
}
// operations only disappear; queues untouched: parked operations stay parked, fresh PUBRELs stay in flight
pub proof fn lemma_parked_shrunk(pre: ProtocolState, post: ProtocolState)
    requires pre.wf(), all_parked(pre), fresh_pubrel_in_flight(pre), shrunk(pre, post),
        post.resubmit_operation_queue@ == pre.resubmit_operation_queue@, post.user_operation_queue@ == pre.user_operation_queue@,
    ensures all_parked(post), fresh_pubrel_in_flight(post),
{
    assert forall|k: u64| #[trigger] post.operations@.contains_key(k) && post.operations@[k].packet_id is Some implies parked(post, k) by {
        assert(pre.operations@.contains_key(k));
        if in_flight(pre, k) { lemma_in_flight_survives(pre, post, k); }
    }
    assert forall|k: u64| #[trigger] post.operations@.contains_key(k) && is_fresh_pubrel(post.operations@[k]) implies in_flight(post, k) by {
        assert(pre.operations@.contains_key(k));
        lemma_in_flight_survives(pre, post, k);
    }
}
pub proof fn lemma_in_flight_survives(pre: ProtocolState, post: ProtocolState, k: u64)
    requires pre.wf(), shrunk(pre, post), post.operations@.contains_key(k), pre.operations@.contains_key(k), in_flight(pre, k),
    ensures in_flight(post, k),
{
    let p = pre.operations@[k].packet_id->Some_0;
    if pre.pending_publish_operations@.contains_key(p) {
        let k2 = pre.pending_publish_operations@[p];
        pre.lemma_bound_ids_unique(k2, k);
        assert(post.pending_publish_operations@.contains_key(p));
    } else {
        let k2 = pre.pending_non_publish_operations@[p];
        pre.lemma_bound_ids_unique(k2, k);
        assert(post.pending_non_publish_operations@.contains_key(p));
    }
}

// the effect of apply_connection_closed_to_current_operation (its postcondition, restated) keeps every id-holding operation parked:
// the half-written operation went back to the front of a queue, is still in its in-flight table (H6 for a first PUBREL), or was failed
pub open spec fn close_current_effect(pre: ProtocolState, post: ProtocolState) -> bool {
    let has_cur = (pre.current_operation is Some) && pre.operations@.contains_key(pre.current_operation->Some_0);
    &&& !has_cur ==> post == (ProtocolState { current_operation: None, ..pre })
    &&& has_cur ==> {
            let id = pre.current_operation->Some_0;
            let op = pre.operations@[id];
            let keep = policy_keeps(*op.packet, pre.config.offline_queue_policy);
            let dup = (*op.packet matches MqttPacket::Publish(publish) && publish.duplicate);
            let rel = is_qos_publish(*op.packet, QualityOfService::ExactlyOnce) && (op.qos2_pubrel is Some);
            let in_fl = pre.pending_publish_operations@.contains_key(packet_id_field(*op.packet));
            &&& (dup ==> post.resubmit_operation_queue@ == (if in_fl { pre.resubmit_operation_queue@ } else { seq![id] + pre.resubmit_operation_queue@ }) && tables_unchanged(pre, post)
                    && post.user_operation_queue@ == pre.user_operation_queue@)
            &&& (!dup && rel ==> tables_unchanged(pre, post) && post.user_operation_queue@ == pre.user_operation_queue@ && post.resubmit_operation_queue@ == pre.resubmit_operation_queue@)
            &&& ((*op.packet is Subscribe || *op.packet is Unsubscribe || (*op.packet is Publish && !dup && !rel)) && keep ==>
                    post.user_operation_queue@ == seq![id] + pre.user_operation_queue@ && tables_unchanged(pre, post) && post.resubmit_operation_queue@ == pre.resubmit_operation_queue@)
            &&& ((*op.packet is Subscribe || *op.packet is Unsubscribe || (*op.packet is Publish && !dup && !rel)) && !keep ==> removed_exactly(pre, post, id)
                    && post.user_operation_queue@ == pre.user_operation_queue@ && post.resubmit_operation_queue@ == pre.resubmit_operation_queue@)
            &&& (!(*op.packet is Subscribe || *op.packet is Unsubscribe || *op.packet is Publish) ==> removed_exactly(pre, post, id)
                    && post.user_operation_queue@ == pre.user_operation_queue@ && post.resubmit_operation_queue@ == pre.resubmit_operation_queue@)
        }
}
pub proof fn lemma_close_current_parks(pre: ProtocolState, post: ProtocolState)
    requires pre.wf(), bound_located(pre), fresh_pubrel_in_flight(pre), resubmit_only_publishes(pre), resubmit_known(pre), close_current_effect(pre, post),
        post.next_operation_id == pre.next_operation_id,
    ensures close_inv(post),
{
    let has_cur = (pre.current_operation is Some) && pre.operations@.contains_key(pre.current_operation->Some_0);
    if has_cur {
        let id = pre.current_operation->Some_0;
        let op = pre.operations@[id];
        lemma_concat_contains(seq![id], pre.resubmit_operation_queue@);
        lemma_concat_contains(seq![id], pre.user_operation_queue@);
        assert(seq![id].contains(id)) by { assert(seq![id][0] == id); }
        if tables_unchanged(pre, post) {
            assert forall|k: u64| #[trigger] post.operations@.contains_key(k) && post.operations@[k].packet_id is Some implies parked(post, k) by {
                if k == id {
                    let dup = (*op.packet matches MqttPacket::Publish(publish) && publish.duplicate);
                    let rel = is_qos_publish(*op.packet, QualityOfService::ExactlyOnce) && (op.qos2_pubrel is Some);
                    if !dup && rel { assert(in_flight(pre, id)); assert(in_flight(post, id)); }
                    if dup && pre.pending_publish_operations@.contains_key(packet_id_field(*op.packet)) { assert(in_flight(post, id)); }
                } else {
                    if in_flight(pre, k) { assert(in_flight(post, k)); }
                }
            }
            assert forall|i: int| 0 <= i < post.resubmit_operation_queue@.len() && post.operations@.contains_key(#[trigger] post.resubmit_operation_queue@[i])
                implies *post.operations@[post.resubmit_operation_queue@[i]].packet is Publish by {
                let x = post.resubmit_operation_queue@[i];
                assert(post.resubmit_operation_queue@.contains(x));
                if x != id { assert(pre.resubmit_operation_queue@.contains(x)); let i0 = choose|i0: int| 0 <= i0 < pre.resubmit_operation_queue@.len() && pre.resubmit_operation_queue@[i0] == x; }
                else if !pre.resubmit_operation_queue@.contains(x) { }
                else { let i0 = choose|i0: int| 0 <= i0 < pre.resubmit_operation_queue@.len() && pre.resubmit_operation_queue@[i0] == x; }
            }
            assert forall|i: int| 0 <= i < post.resubmit_operation_queue@.len() implies #[trigger] post.resubmit_operation_queue@[i] < post.next_operation_id by {
                let x = post.resubmit_operation_queue@[i];
                assert(post.resubmit_operation_queue@.contains(x));
                if pre.resubmit_operation_queue@.contains(x) { let i0 = choose|i0: int| 0 <= i0 < pre.resubmit_operation_queue@.len() && pre.resubmit_operation_queue@[i0] == x; }
            }
            assert forall|k: u64| #[trigger] post.operations@.contains_key(k) && is_fresh_pubrel(post.operations@[k]) implies in_flight(post, k) by { assert(in_flight(pre, k)); }
        } else {
            assert(removed_exactly(pre, post, id));
            assert forall|k: u64| #[trigger] post.operations@.contains_key(k) && post.operations@[k].packet_id is Some implies parked(post, k) by {
                assert(k != id && pre.operations@.contains_key(k));
                if in_flight(pre, k) { if pre.operations@[id].packet_id == pre.operations@[k].packet_id { pre.lemma_bound_ids_unique(id, k); } assert(in_flight(post, k)); }
            }
            assert forall|k: u64| #[trigger] post.operations@.contains_key(k) && is_fresh_pubrel(post.operations@[k]) implies in_flight(post, k) by {
                assert(in_flight(pre, k));
                if pre.operations@[id].packet_id == pre.operations@[k].packet_id { pre.lemma_bound_ids_unique(id, k); }
            }
            assert forall|i: int| 0 <= i < post.resubmit_operation_queue@.len() && post.operations@.contains_key(#[trigger] post.resubmit_operation_queue@[i])
                implies *post.operations@[post.resubmit_operation_queue@[i]].packet is Publish by { assert(pre.operations@.contains_key(pre.resubmit_operation_queue@[i])); }
        }
    } else {
        assert forall|k: u64| #[trigger] post.operations@.contains_key(k) && post.operations@[k].packet_id is Some implies parked(post, k) by {
            if in_flight(pre, k) { assert(in_flight(post, k)); }
        }
        assert forall|k: u64| #[trigger] post.operations@.contains_key(k) && is_fresh_pubrel(post.operations@[k]) implies in_flight(post, k) by { assert(in_flight(pre, k)); }
    }
}

// four facts carried through the close handler, stage by stage
pub open spec fn close_inv(s: ProtocolState) -> bool { all_parked(s) && fresh_pubrel_in_flight(s) && resubmit_only_publishes(s) && resubmit_known(s) }

// only bookkeeping fields of operations change (slow-start weight, interruption count): nothing moves
pub proof fn lemma_close_inv_same_ids(pre: ProtocolState, post: ProtocolState)
    requires close_inv(pre), post == (ProtocolState { operations: post.operations, ..pre }), post.operations@.dom() =~= pre.operations@.dom(),
        forall|k: u64| #[trigger] pre.operations@.contains_key(k) ==> post.operations@[k].packet_id == pre.operations@[k].packet_id
            && post.operations@[k].qos2_pubrel == pre.operations@[k].qos2_pubrel && post.operations@[k].packet == pre.operations@[k].packet,
    ensures close_inv(post),
{
    assert forall|k: u64| #[trigger] post.operations@.contains_key(k) && post.operations@[k].packet_id is Some implies parked(post, k) by {
        assert(pre.operations@.contains_key(k)); if in_flight(pre, k) { assert(in_flight(post, k)); }
    }
    assert forall|k: u64| #[trigger] post.operations@.contains_key(k) && is_fresh_pubrel(post.operations@[k]) implies in_flight(post, k) by {
        assert(pre.operations@.contains_key(k)); assert(in_flight(pre, k));
    }
    assert forall|i: int| 0 <= i < post.resubmit_operation_queue@.len() && post.operations@.contains_key(#[trigger] post.resubmit_operation_queue@[i])
        implies *post.operations@[post.resubmit_operation_queue@[i]].packet is Publish by { assert(pre.operations@.contains_key(pre.resubmit_operation_queue@[i])); }
}
// operations are failed (removed); the retransmission queue is untouched, the user queue may have grown at its end
pub proof fn lemma_close_inv_shrunk(pre: ProtocolState, post: ProtocolState, appended: Seq<u64>)
    requires pre.wf(), close_inv(pre), shrunk(pre, post), post.next_operation_id == pre.next_operation_id,
        post.resubmit_operation_queue@ == pre.resubmit_operation_queue@, post.user_operation_queue@ == pre.user_operation_queue@ + appended,
    ensures close_inv(post),
{
    lemma_concat_contains(pre.user_operation_queue@, appended);
    let mid = ProtocolState { user_operation_queue: pre.user_operation_queue, ..post };
    assert forall|k: u64| #[trigger] post.operations@.contains_key(k) && post.operations@[k].packet_id is Some implies parked(post, k) by {
        assert(pre.operations@.contains_key(k));
        if in_flight(pre, k) { lemma_in_flight_survives(pre, post, k); }
    }
    assert forall|k: u64| #[trigger] post.operations@.contains_key(k) && is_fresh_pubrel(post.operations@[k]) implies in_flight(post, k) by {
        assert(pre.operations@.contains_key(k)); lemma_in_flight_survives(pre, post, k);
    }
    assert forall|i: int| 0 <= i < post.resubmit_operation_queue@.len() && post.operations@.contains_key(#[trigger] post.resubmit_operation_queue@[i])
        implies *post.operations@[post.resubmit_operation_queue@[i]].packet is Publish by { assert(pre.operations@.contains_key(pre.resubmit_operation_queue@[i])); }
}

// while an in-flight table is being re-queued entry by entry: an id-holding operation is queued, or still in the other table, or among
// the entries not yet walked; a fresh PUBREL (H6) is among the entries not yet walked
pub open spec fn requeue_inv(s: ProtocolState, rem: Seq<(u16, u64)>, fresh_done: bool) -> bool {
    &&& forall|k: u64| #[trigger] s.operations@.contains_key(k) && s.operations@[k].packet_id is Some ==>
            s.resubmit_operation_queue@.contains(k) || s.user_operation_queue@.contains(k)
            || s.pending_non_publish_operations@.contains_key(s.operations@[k].packet_id->Some_0)
            || exists|i: int| 0 <= i < rem.len() && (#[trigger] rem[i]).1 == k
    &&& forall|k: u64| #[trigger] s.operations@.contains_key(k) && is_fresh_pubrel(s.operations@[k]) ==>
            !fresh_done && exists|i: int| 0 <= i < rem.len() && (#[trigger] rem[i]).1 == k
    &&& resubmit_only_publishes(s) && resubmit_known(s)
    &&& forall|i: int| 0 <= i < rem.len() ==> (#[trigger] rem[i]).1 < s.next_operation_id
}

// one entry of the in-flight PUBLISH table is re-queued: DUP is set, the id goes to the end of the retransmission queue
pub proof fn lemma_requeue_step_pub(pre: ProtocolState, post: ProtocolState, rem: Seq<(u16, u64)>, id: u64)
    requires requeue_inv(pre, rem, false), rem.len() > 0, rem[0].1 == id,
        pre.operations@.contains_key(id) ==> *pre.operations@[id].packet is Publish,
        post.operations@.dom() =~= pre.operations@.dom(),
        forall|k: u64| k != id && pre.operations@.contains_key(k) ==> post.operations@[k] == pre.operations@[k],
        pre.operations@.contains_key(id) ==> post.operations@[id].packet_id == pre.operations@[id].packet_id && post.operations@[id].qos2_pubrel == pre.operations@[id].qos2_pubrel
            && (*post.operations@[id].packet matches MqttPacket::Publish(publish) && publish.duplicate),
        post.resubmit_operation_queue@ == pre.resubmit_operation_queue@.push(id), post.user_operation_queue@ == pre.user_operation_queue@,
        post.pending_non_publish_operations@ == pre.pending_non_publish_operations@, post.next_operation_id == pre.next_operation_id,
    ensures requeue_inv(post, rem.skip(1), false),
{
    let rem2 = rem.skip(1);
    lemma_push_contains(pre.resubmit_operation_queue@, id);
    assert forall|k: u64| #[trigger] post.operations@.contains_key(k) && post.operations@[k].packet_id is Some implies
        (post.resubmit_operation_queue@.contains(k) || post.user_operation_queue@.contains(k)
        || post.pending_non_publish_operations@.contains_key(post.operations@[k].packet_id->Some_0)
        || exists|i: int| 0 <= i < rem2.len() && (#[trigger] rem2[i]).1 == k) by {
        assert(pre.operations@.contains_key(k));
        if k != id && !pre.resubmit_operation_queue@.contains(k) && !pre.user_operation_queue@.contains(k) && !pre.pending_non_publish_operations@.contains_key(pre.operations@[k].packet_id->Some_0) {
            let i = choose|i: int| 0 <= i < rem.len() && (#[trigger] rem[i]).1 == k;
            assert(i >= 1); assert(rem2[i - 1].1 == k);
        }
    }
    assert forall|k: u64| #[trigger] post.operations@.contains_key(k) && is_fresh_pubrel(post.operations@[k]) implies
        (exists|i: int| 0 <= i < rem2.len() && (#[trigger] rem2[i]).1 == k) by {
        assert(k != id); assert(pre.operations@.contains_key(k));
        let i = choose|i: int| 0 <= i < rem.len() && (#[trigger] rem[i]).1 == k;
        assert(i >= 1); assert(rem2[i - 1].1 == k);
    }
    assert forall|i: int| 0 <= i < post.resubmit_operation_queue@.len() && post.operations@.contains_key(#[trigger] post.resubmit_operation_queue@[i])
        implies *post.operations@[post.resubmit_operation_queue@[i]].packet is Publish by {
        if i < pre.resubmit_operation_queue@.len() { let x = pre.resubmit_operation_queue@[i]; assert(pre.operations@.contains_key(x)); if x != id { assert(post.operations@[x] == pre.operations@[x]); } }
    }
    assert forall|i: int| 0 <= i < post.resubmit_operation_queue@.len() implies #[trigger] post.resubmit_operation_queue@[i] < post.next_operation_id by {
        if i < pre.resubmit_operation_queue@.len() { assert(pre.resubmit_operation_queue@[i] < pre.next_operation_id); } else { assert(rem[0].1 < pre.next_operation_id); }
    }
    assert forall|i: int| 0 <= i < rem2.len() implies (#[trigger] rem2[i]).1 < post.next_operation_id by { assert(rem[i + 1].1 < pre.next_operation_id); }
}
// one entry of the in-flight SUBSCRIBE/UNSUBSCRIBE table is re-queued at the front of the user queue
pub proof fn lemma_requeue_step_nonpub(pre: ProtocolState, post: ProtocolState, rem: Seq<(u16, u64)>, id: u64)
    requires requeue_inv(pre, rem, true), rem.len() > 0, rem[0].1 == id,
        post == (ProtocolState { user_operation_queue: post.user_operation_queue, ..pre }), post.user_operation_queue@ == seq![id] + pre.user_operation_queue@,
    ensures requeue_inv(post, rem.skip(1), true),
{
    let rem2 = rem.skip(1);
    lemma_concat_contains(seq![id], pre.user_operation_queue@);
    assert(seq![id].contains(id)) by { assert(seq![id][0] == id); }
    assert forall|k: u64| #[trigger] post.operations@.contains_key(k) && post.operations@[k].packet_id is Some implies
        (post.resubmit_operation_queue@.contains(k) || post.user_operation_queue@.contains(k)
        || post.pending_non_publish_operations@.contains_key(post.operations@[k].packet_id->Some_0)
        || exists|i: int| 0 <= i < rem2.len() && (#[trigger] rem2[i]).1 == k) by {
        if k != id && !pre.resubmit_operation_queue@.contains(k) && !pre.user_operation_queue@.contains(k) && !pre.pending_non_publish_operations@.contains_key(pre.operations@[k].packet_id->Some_0) {
            let i = choose|i: int| 0 <= i < rem.len() && (#[trigger] rem[i]).1 == k;
            assert(i >= 1); assert(rem2[i - 1].1 == k);
        }
    }
    assert forall|i: int| 0 <= i < rem2.len() implies (#[trigger] rem2[i]).1 < post.next_operation_id by { assert(rem[i + 1].1 < pre.next_operation_id); }
}

// what must be true of the engine when a CONNACK is accepted (A-HANDSHAKE; see apply_session_present_to_connection)
pub open spec fn connack_ready(s: ProtocolState) -> bool {
    handshake_quiet(s) && resubmit_only_publishes(s) && bound_ops_queued(s)
        // A-OPS: fewer than 2^32 operations tracked at once (the slow-start counter is a u32)
        && s.operations@.len() < u32::MAX
}

//@fn gneiss-mqtt/src/mqtt/mod.rs convert_protocol_mode_to_protocol_version props=C11
//@end
impl InboundAliasResolver {
//@fn gneiss-mqtt/src/alias.rs InboundAliasResolver::new props=C17
    ensures r.current_aliases@ == Map::<u16, String>::empty(), r.maximum_alias_value == maximum_alias_value,
//@end
}

impl ProtocolState {
//@fn gneiss-mqtt/src/protocol.rs ProtocolState::handle_connack props=C07,C14,C11,C17
    requires old(self).wf(), *packet is Connack, clock_ok(old(context).current_time),
        old(self).state == ProtocolStateType::PendingConnack ==> connack_ready(*old(self)),
    ensures final(self).wf(),
        hs_ok(*old(self)) ==> hs_ok(*final(self)),
        final(self).next_operation_id == old(self).next_operation_id,
        final(context).current_time == old(context).current_time,
        ({
            let connack = packet->Connack_0;
            let pre = *old(self);
            let post = *final(self);
            let now = old(context).current_time;
            // a repeated or unsolicited CONNACK is a protocol error
            &&& pre.state != ProtocolStateType::PendingConnack ==> r is Err && post == pre && final(context).packet_events@ == old(context).packet_events@
            // a failing CONNACK yields a connection error (and is surfaced), never a connected state
            &&& (pre.state == ProtocolStateType::PendingConnack && connack.reason_code != ConnectReasonCode::Success) ==>
                    (r matches Err(e) && e.kind() == GErrKind::ConnectionEstablishmentFailure) && post == pre
                    && final(context).packet_events@ == old(context).packet_events@.push(PacketEvent::Connack(connack))
            &&& r is Ok ==> {
                    &&& pre.state == ProtocolStateType::PendingConnack && connack.reason_code == ConnectReasonCode::Success
                    &&& post.state == ProtocolStateType::Connected && post.has_connected_successfully
                    &&& post.connack_timeout_timepoint is None
                    // negotiated settings reported to the application
                    &&& (post.current_settings matches Some(st) && negotiated_spec(pre.config.connect_options, connack, st))
                    // C14: first ping K seconds from CONNACK iff K > 0 (server's value overriding the client's)
                    &&& post.ping_timeout_timepoint is None
                    &&& ({ let k = post.current_settings->Some_0.server_keep_alive;
                           if k > 0 { post.next_ping_timepoint matches Some(np) && np.nanos == now.nanos + k as int * 1000000000 } else { post.next_ping_timepoint is None } })
                    &&& final(context).packet_events@ == old(context).packet_events@.push(PacketEvent::Connack(connack))
                    // C17: inbound alias bindings never survive a reconnect - whether or not the session is resumed
                    &&& post.inbound_alias_resolver.current_aliases@ == Map::<u16, String>::empty()
                }
            &&& post.state == pre.state || post.state == ProtocolStateType::Connected
        }),
//@end

//@fn gneiss-mqtt/src/protocol.rs ProtocolState::handle_packet props=C11,C01,C05
    requires old(self).wf(), opid_budget(*old(self), 1), clock_ok(old(context).current_time),
        (*packet is Connack && old(self).state == ProtocolStateType::PendingConnack) ==> connack_ready(*old(self)),
    ensures final(self).wf(),
        hs_ok(*old(self)) ==> hs_ok(*final(self)),
        final(context).current_time == old(context).current_time,
        // packets a server may never send, and AUTH, are connection errors
        !(*packet is Connack || *packet is Publish || *packet is Pingresp || *packet is Disconnect || *packet is Suback || *packet is Unsuback
            || *packet is Puback || *packet is Pubcomp || *packet is Pubrel || *packet is Pubrec) ==> r is Err && *final(self) == *old(self),
        *packet is Disconnect ==> r is Err,
        // nothing but a CONNACK is acceptable before the connection is established
        (!accepts_acks(old(self).state) && !(*packet is Connack)) ==> r is Err,
        // at most one operation (the acknowledgement of an inbound publish) is created; a handled packet never leaves the engine waiting for a CONNACK
        old(self).next_operation_id <= final(self).next_operation_id <= old(self).next_operation_id + 1,
        r is Ok ==> final(self).state != ProtocolStateType::PendingConnack,
//@end

//@fn gneiss-mqtt/src/protocol.rs ProtocolState::handle_network_event props=C11,C07
    requires old(self).wf(), opid_budget(*old(self), 1), clock_ok(old(context).current_time), interruptions_in_range(*old(self)),
        // A-OPID for a batch of inbound packets (at most one acknowledgement operation per packet, at most one packet per byte)
        old(context).event matches NetworkEvent::IncomingData(d) ==> opid_budget(*old(self), d@.len() as int),
        // H1-H6 (DESIGN.md 2): established by reset(), kept by all three entry points; A-OPS: fewer than 2^32 operations tracked at once
        hs_ok(*old(self)), old(self).operations@.len() < u32::MAX,
    ensures final(self).wf(), hs_ok(*final(self)),
        // every error from an entry point switches to Halted ...
        r is Err ==> final(self).state == ProtocolStateType::Halted,
        // ... and a halted engine accepts no more traffic for that connection (only the close notification)
        (old(self).state == ProtocolStateType::Halted && !(old(context).event is ConnectionClosed)) ==> r is Err,
        (old(self).state == ProtocolStateType::Disconnected && (old(context).event is IncomingData || old(context).event is WriteCompletion || old(context).event is ConnectionClosed)) ==> r is Err,
//@end

//@fn gneiss-mqtt/src/protocol.rs ProtocolState::handle_user_event props=C15,C10,C01,C11,C07
    requires old(self).wf(), opid_budget(*old(self), 1),
        match context.event {
            UserEvent::Publish(p, o) => *p is Publish && o.response_handler is Some,
            UserEvent::Subscribe(p, o) => *p is Subscribe && o.response_handler is Some,
            UserEvent::Unsubscribe(p, o) => *p is Unsubscribe && o.response_handler is Some,
            UserEvent::Disconnect(p) => *p is Disconnect,
        },
    ensures final(self).wf(),
        hs_ok(*old(self)) ==> hs_ok(*final(self)),
        old(self).cur_ok() ==> final(self).cur_ok(),
        ({
            let pre = *old(self);
            let post = *final(self);
            let oid = pre.next_operation_id;
            let pk = match context.event {
                UserEvent::Publish(p, o) => *p, UserEvent::Subscribe(p, o) => *p, UserEvent::Unsubscribe(p, o) => *p, UserEvent::Disconnect(p) => *p };
            let accepted = pre.state == ProtocolStateType::Connected || policy_keeps(pk, pre.config.offline_queue_policy);
            &&& post.next_operation_id == oid + 1
            // kept: tracked under a fresh id and queued behind every earlier user operation (DISCONNECT: ahead of everything)
            &&& accepted ==> post.operations@.contains_key(oid) && *post.operations@[oid].packet == pk && post.operations@ == pre.operations@.insert(oid, post.operations@[oid])
                    && (if pk is Disconnect { post.high_priority_operation_queue@ == seq![oid] + pre.high_priority_operation_queue@ && post.user_operation_queue@ == pre.user_operation_queue@ }
                        else { post.user_operation_queue@ == pre.user_operation_queue@.push(oid) && post.high_priority_operation_queue@ == pre.high_priority_operation_queue@ })
            // rejected by the offline policy: failed at once, never queued, never tracked
            &&& !accepted ==> post.operations@ =~= pre.operations@ && post.user_operation_queue@ == pre.user_operation_queue@
                    && post.high_priority_operation_queue@ == pre.high_priority_operation_queue@
            &&& post.resubmit_operation_queue@ == pre.resubmit_operation_queue@
            &&& post.allocated_packet_ids@ == pre.allocated_packet_ids@ && post.pending_publish_operations@ == pre.pending_publish_operations@
            &&& post.pending_non_publish_operations@ == pre.pending_non_publish_operations@
            &&& post.current_operation == pre.current_operation
        }),
//@@at after "assert_ne!(op_id, 0);"
        let ghost created = *self;
        proof {
            if hs_ok(*old(self)) {
                let pre = *old(self);
                assert(op_id == pre.next_operation_id && !pre.operations@.contains_key(op_id));
                assert forall|i: int| 0 <= i < self.resubmit_operation_queue@.len() && self.operations@.contains_key(#[trigger] self.resubmit_operation_queue@[i])
                    implies *self.operations@[self.resubmit_operation_queue@[i]].packet is Publish by {
                    assert(pre.resubmit_operation_queue@[i] < op_id);
                }
                assert forall|k: u64| #[trigger] self.operations@.contains_key(k) && self.operations@[k].packet_id is Some implies
                    (self.current_operation == Some(k) || in_flight(*self, k) || self.resubmit_operation_queue@.contains(k) || self.user_operation_queue@.contains(k)) by {
                    if k != op_id { assert(self.operations@[k] == pre.operations@[k]); if in_flight(pre, k) { assert(in_flight(*self, k)); } }
                }
                if pre.state == ProtocolStateType::PendingConnack {
                    if pre.high_priority_operation_queue@.len() == 1 { assert(is_connect_op(pre, pre.high_priority_operation_queue@[0])); }
                    if pre.pending_write_completion_operations@.len() == 1 { assert(is_connect_op(pre, pre.pending_write_completion_operations@[0])); }
                    assert(connect_only(*self));
                    assert(unreferenced(*self, op_id)) by {
                        if self.high_priority_operation_queue@.contains(op_id) { assert(self.high_priority_operation_queue@[0] == op_id); }
                        if self.pending_write_completion_operations@.contains(op_id) { assert(self.pending_write_completion_operations@[0] == op_id); }
                    }
                }
                assert(hs_ok(*self));
            }
        }
//@@at before "self.enqueue_operation(op_id, queue, position);"
        proof {
            if hs_ok(*old(self)) {
                assert(*self == created);
            }
        }
//@@at after "self.enqueue_operation(op_id, queue, position);"
        proof {
            if hs_ok(*old(self)) {
                assert forall|k: u64| #[trigger] self.operations@.contains_key(k) && self.operations@[k].packet_id is Some implies
                    (self.current_operation == Some(k) || in_flight(*self, k) || self.resubmit_operation_queue@.contains(k) || self.user_operation_queue@.contains(k)) by {
                    if created.user_operation_queue@.contains(k) {
                        let i = choose|i: int| 0 <= i < created.user_operation_queue@.len() && created.user_operation_queue@[i] == k;
                        if queue == ProtocolQueueType::User { assert(self.user_operation_queue@[i] == k); }
                    }
                    if in_flight(created, k) { assert(in_flight(*self, k)); }
                }
                assert(hs_ok(*self));
            }
        }
//@end

//@fn gneiss-mqtt/src/protocol.rs ProtocolState::is_connect_packet props=C11,C07
    ensures r == (self.operations@.contains_key(id) && *self.operations@[id].packet is Connect),
//@end

//@fn gneiss-mqtt/src/protocol.rs ProtocolState::is_connect_in_queue props=C11,C07 desugar
    ensures r == connect_unsent(*self),
//@@loop 0 manual=it
                invariant_except_break !verif_any0,
                    forall|j: int| 0 <= j < k0 ==> !is_connect_op(*self, #[trigger] all0[j]),
                invariant it.obeys_prophetic_iter_laws(), it.decrease() is Some,
                    0 <= k0 <= all0.len(), all0 == self.pending_write_completion_operations@, it.remaining().unref() =~= all0.skip(k0), it.remaining().len() + k0 == all0.len(),
                ensures verif_any0 <==> exists|i: int| 0 <= i < all0.len() && is_connect_op(*self, #[trigger] all0[i]),
                decreases it.decrease()->Some_0,
//@@loop 1 manual=it
                invariant_except_break !verif_any1,
                    forall|j: int| 0 <= j < k1 ==> !is_connect_op(*self, #[trigger] all1[j]),
                invariant it.obeys_prophetic_iter_laws(), it.decrease() is Some,
                    0 <= k1 <= all1.len(), all1 == self.high_priority_operation_queue@, it.remaining().unref() =~= all1.skip(k1), it.remaining().len() + k1 == all1.len(),
                ensures verif_any1 <==> exists|i: int| 0 <= i < all1.len() && is_connect_op(*self, #[trigger] all1[i]),
                decreases it.decrease()->Some_0,
//@@at before "if { let mut verif_any0 = false;"
        let ghost all0 = self.pending_write_completion_operations@;
        let ghost mut k0: int = 0;
        let ghost all1 = self.high_priority_operation_queue@;
        let ghost mut k1: int = 0;
//@@at before "match it.next() { @nth=1/2"
            let ghost rem0 = it.remaining();
//@@at before "if self.is_connect_packet(*id) { @nth=1/2"
            proof {
                assert(rem0.len() > 0 && it.remaining() == rem0.drop_first());
                assert(*id == *rem0[0]);
                assert(rem0.unref()[0] == *rem0[0]);
                assert(rem0.unref()[0] == all0.skip(k0)[0]);
                assert(*id == all0[k0]);
                assert(it.remaining().unref() =~= all0.skip(k0 + 1)) by {
                    assert forall|j: int| 0 <= j < it.remaining().len() implies it.remaining().unref()[j] == all0.skip(k0 + 1)[j] by {
                        assert(it.remaining()[j] == rem0[j + 1]); assert(it.remaining().unref()[j] == *it.remaining()[j]); assert(rem0.unref()[j + 1] == *rem0[j + 1]); assert(rem0.unref()[j + 1] == all0.skip(k0)[j + 1]);
                    }
                }
                k0 = k0 + 1;
            }
//@@at before "match it.next() { @nth=2/2"
            let ghost rem1 = it.remaining();
//@@at before "if self.is_connect_packet(*id) { @nth=2/2"
            proof {
                assert(rem1.len() > 0 && it.remaining() == rem1.drop_first());
                assert(*id == *rem1[0]);
                assert(rem1.unref()[0] == *rem1[0]);
                assert(rem1.unref()[0] == all1.skip(k1)[0]);
                assert(*id == all1[k1]);
                assert(it.remaining().unref() =~= all1.skip(k1 + 1)) by {
                    assert forall|j: int| 0 <= j < it.remaining().len() implies it.remaining().unref()[j] == all1.skip(k1 + 1)[j] by {
                        assert(it.remaining()[j] == rem1[j + 1]); assert(it.remaining().unref()[j] == *it.remaining()[j]); assert(rem1.unref()[j + 1] == *rem1[j + 1]); assert(rem1.unref()[j + 1] == all1.skip(k1)[j + 1]);
                    }
                }
                k1 = k1 + 1;
            }
//@end

//@fn gneiss-mqtt/src/protocol.rs ProtocolState::new props=C11,C06,C01
// the outbound resolver (Arc<dyn Fn> factory, RefCell) is an opaque shim in this unit; everything else of the constructor is the real text
//@@rewrite "let outbound_resolver = config.outbound_alias_resolver.take().unwrap_or((OutboundAliasResolverFactory::new_null_factory())());" => "let outbound_resolver = verif_resolver_cell();"
//@@rewrite "outbound_alias_resolver: RefCell::new(outbound_resolver)," => "outbound_alias_resolver: outbound_resolver,"
    // a new engine satisfies the representation invariant and H1-H6: the induction over all histories of entry-point calls starts here
    ensures r.wf(), r.cur_ok(), hs_ok(r), r.state == ProtocolStateType::Disconnected,
        r.operations@ == Map::<u64, ClientOperation>::empty(), r.allocated_packet_ids@ == Map::<u16, u64>::empty(),
//@end

//@fn gneiss-mqtt/src/protocol.rs ProtocolState::reset props=C01,C06,C11 desugar
    requires old(self).wf(),
    ensures final(self).wf(),
        // a reset engine satisfies H1-H6 outright (this also shows the invariant is satisfiable)
        hs_ok(*final(self)),
        // C01: "when the engine is reset (client closed) ... nothing stays tracked"; C06: no identifier stays reserved
        final(self).operations@ == Map::<u64, ClientOperation>::empty(),
        final(self).allocated_packet_ids@ == Map::<u16, u64>::empty(),
        final(self).pending_publish_operations@ == Map::<u16, u64>::empty(), final(self).pending_non_publish_operations@ == Map::<u16, u64>::empty(),
        final(self).user_operation_queue@.len() == 0, final(self).resubmit_operation_queue@.len() == 0, final(self).high_priority_operation_queue@.len() == 0,
        final(self).pending_write_completion_operations@.len() == 0, final(self).current_operation is None, !final(self).pending_write_completion,
        heap_view(final(self).operation_ack_timeouts) == Multiset::<Reverse<OperationTimeoutRecord>>::empty(),
        final(self).qos2_incomplete_incoming_publishes@ == Set::<u16>::empty(),
        final(self).current_settings is None, final(self).next_packet_id == 1, !final(self).has_connected_successfully,
        final(self).next_ping_timepoint is None && final(self).ping_timeout_timepoint is None && final(self).connack_timeout_timepoint is None,
        // a closed client neither connects nor emits: Disconnected stays Disconnected, every other state ends Halted
        final(self).state == (if old(self).state == ProtocolStateType::Disconnected { ProtocolStateType::Disconnected } else { ProtocolStateType::Halted }),
//@@loop 0 iter=it
            invariant operations@.len() == it.index@,
                operations@ =~= it.seq().unref().take(it.index@ as int),
//@@loop 1 iter=it
            invariant self.wf(),
                self.state == (if old(self).state == ProtocolStateType::Disconnected { ProtocolStateType::Disconnected } else { ProtocolStateType::Halted }),
//@@at after "self.update_internal_clock(current_time);"
        let ghost s0 = *self;
//@@at before "let mut operations : Vec<u64> = Vec::new();"
        proof { assert(self.ss_set() =~= s0.ss_set()); assert(self.wf()); }
//@@at after "self.connack_timeout_timepoint = None;"
        proof { assert(self.ss_set() =~= Set::<u64>::empty()); }
//@end

//@fn gneiss-mqtt/src/protocol.rs ProtocolState::get_next_service_timepoint props=C08
    requires old(self).wf(),
    ensures
        *final(self) == (ProtocolState { current_time: *current_time, elapsed_time_ms: final(self).elapsed_time_ms, ..*old(self) }),
        (old(self).state == ProtocolStateType::Halted || old(self).state == ProtocolStateType::Disconnected) ==> r is None,
        // a sendable operation => "service me now" (Connected) / before CONNACK for the CONNECT
        (old(self).state == ProtocolStateType::Connected && has_sendable_work(*final(self), ProtocolQueueServiceMode::All)) ==> opt_le(r, *current_time),
        (old(self).state == ProtocolStateType::PendingConnack && has_sendable_work(*final(self), ProtocolQueueServiceMode::HighPriorityOnly)) ==> opt_le(r, *current_time),
        (old(self).state == ProtocolStateType::Connected && old(self).ping_timeout_timepoint is Some) ==> opt_le(r, old(self).ping_timeout_timepoint->Some_0),
        (old(self).state == ProtocolStateType::Connected && !old(self).pending_write_completion && old(self).next_ping_timepoint is Some) ==> opt_le(r, old(self).next_ping_timepoint->Some_0),
        (old(self).state == ProtocolStateType::PendingConnack) ==> opt_le(r, old(self).connack_timeout_timepoint->Some_0),
//@end
}
} // verus!
fn main() {}
