// U-client: reconnect back-off arithmetic and the lifecycle decision function (client/mod.rs, client/config.rs)
//@include base.vt.rs
//@include types_mqtt.vt.rs
verus! {

// ---- trusted shim for the `rand` crate (rand 0.8 docs: gen_range "Panics if the range is empty";
// the result lies in the range)
pub struct ThreadRng { pub x: u8 }
pub mod rand {
    use super::*;
    #[verifier::external_body]
    pub fn thread_rng() -> ThreadRng { unimplemented!() }
}
pub trait UniformRange { spec fn lo(&self) -> int; spec fn hi_excl(&self) -> int; }
impl UniformRange for core::ops::Range<u128> {
    open spec fn lo(&self) -> int { self.start as int }
    open spec fn hi_excl(&self) -> int { self.end as int }
}
impl ThreadRng {
    #[verifier::external_body]
    pub fn gen_range<R: UniformRange>(&mut self, range: R) -> (r: u128)
        requires range.lo() < range.hi_excl(),
        ensures range.lo() <= r < range.hi_excl(),
    { unimplemented!() }
}
impl Duration {
    #[verifier::external_body]
    pub fn from_nanos(nanos: u64) -> (r: Duration) ensures r.nanos == nanos, r.wf() { unimplemented!() }
    #[verifier::external_body]
    pub fn as_nanos(&self) -> (r: u128) ensures r == self.nanos { unimplemented!() }
    // std: "Saturating Duration multiplication. Computes self * other, returning Duration::MAX if overflow occurred."
    #[verifier::external_body]
    pub fn saturating_mul(self, rhs: u32) -> (r: Duration)
        ensures r.nanos == (if self.nanos * rhs <= DURATION_MAX_NANOS() { self.nanos * rhs } else { DURATION_MAX_NANOS() }), r.wf()
    { unimplemented!() }
}

//@enum gneiss-mqtt/src/client/config.rs ExponentialBackoffJitterType
//@struct gneiss-mqtt/src/client/config.rs ReconnectOptions
//@enum gneiss-mqtt/src/client/mod.rs ClientImplState
//@struct gneiss-mqtt/src/client/mod.rs StopOptionsInternal noderive=Default
//@struct gneiss-mqtt/src/client/mod.rs MqttClientImpl keep=current_state,desired_state,desired_stop_options,next_reconnect_period,reconnect_options

pub open spec fn dmin(a: Duration, b: Duration) -> Duration { if a.nanos <= b.nanos { a } else { b } }

pub open spec fn ro_wf(o: ReconnectOptions) -> bool {
    o.base_reconnect_period.wf() && o.max_reconnect_period.wf() && o.reconnect_stability_reset_period.wf()
}

// C19: "a maximum below one second is raised to one second, base > max is swapped"
pub open spec fn normalized(o: ReconnectOptions) -> bool {
    o.base_reconnect_period.nanos <= o.max_reconnect_period.nanos && o.max_reconnect_period.nanos >= 1000000000
}

impl ReconnectOptions {
//@fn gneiss-mqtt/src/client/config.rs ReconnectOptions::normalize props=C19,C11
    requires ro_wf(*old(self)),
    ensures ro_wf(*final(self)), normalized(*final(self)),
        ({
            let b = old(self).base_reconnect_period; let m = old(self).max_reconnect_period;
            let lo = dmin(b, m); let hi = if b.nanos > m.nanos { b } else { m };
            &&& final(self).base_reconnect_period == lo
            &&& final(self).max_reconnect_period == (if hi.nanos < 1000000000 { Duration { nanos: 1000000000 } } else { hi })
        }),
        final(self).reconnect_period_jitter == old(self).reconnect_period_jitter,
        final(self).reconnect_stability_reset_period == old(self).reconnect_stability_reset_period,
//@end
}

// the wait sequence of C19 without jitter: w(0) = min(base, max), w(k+1) = min(2 w(k), max)
pub open spec fn backoff_wait(base: int, max: int, k: nat) -> int
    decreases k
{
    if k == 0 { if base <= max { base } else { max } }
    else { let p = 2 * backoff_wait(base, max, (k - 1) as nat); if p <= max { p } else { max } }
}
pub open spec fn pow2(k: nat) -> int decreases k { if k == 0 { 1 } else { 2 * pow2((k - 1) as nat) } }

//@lemma lemma_backoff_closed_form props=C19
// closed form of the property statement: the k-th consecutive wait is min(base * 2^k, max)
pub proof fn lemma_backoff_closed_form(base: int, max: int, k: nat)
    requires 0 <= base, 0 <= max,
    ensures backoff_wait(base, max, k) == (if base * pow2(k) <= max { base * pow2(k) } else { max }),
        0 <= backoff_wait(base, max, k) <= max,
    decreases k
{
    if k > 0 {
        lemma_backoff_closed_form(base, max, (k - 1) as nat);
        assert(pow2(k) == 2 * pow2((k - 1) as nat));
        assert(base * pow2(k) == 2 * (base * pow2((k - 1) as nat))) by (nonlinear_arith)
            requires pow2(k) == 2 * pow2((k - 1) as nat);
        assert(pow2((k - 1) as nat) >= 1) by { lemma_pow2_pos((k - 1) as nat); }
        assert(base * pow2((k - 1) as nat) >= 0) by (nonlinear_arith) requires base >= 0, pow2((k - 1) as nat) >= 1;
    }
}
pub proof fn lemma_pow2_pos(k: nat) ensures pow2(k) >= 1 decreases k { if k > 0 { lemma_pow2_pos((k - 1) as nat); } }

// C11: deadlines computed from configured durations (connect timeout, reconnect wait) never overflow.
// A-CLOCK-30Y: the platform's monotonic clock is at least 30 years below its largest representable value.
pub open spec fn FAR_FUTURE_NANOS() -> int { 946080000int * 1000000000 }
//@fn gneiss-mqtt/src/client/mod.rs add_duration_saturating props=C11,C19
    requires base.nanos + FAR_FUTURE_NANOS() <= INSTANT_MAX_NANOS(),
    // no precondition on `duration`: any value the builders accept
    ensures
        base.nanos + duration.nanos <= INSTANT_MAX_NANOS() ==> r.nanos == base.nanos + duration.nanos,
        base.nanos + duration.nanos > INSTANT_MAX_NANOS() ==> r.nanos == base.nanos + FAR_FUTURE_NANOS(),
        r.nanos >= base.nanos,
//@end

impl MqttClientImpl {
//@fn gneiss-mqtt/src/client/mod.rs MqttClientImpl::clamp_reconnect_period props=C19
    ensures r == dmin(reconnect_period, self.reconnect_options.max_reconnect_period),
//@end

//@fn gneiss-mqtt/src/client/mod.rs MqttClientImpl::compute_uniform_jitter_period props=C19,C11
    // no precondition: computing the wait must not fail for any accepted configuration (max_nanos == 0 included)
    ensures r.nanos <= max_nanos,
//@end

//@fn gneiss-mqtt/src/client/mod.rs MqttClientImpl::advance_reconnect_period props=C19,C11
    requires old(self).next_reconnect_period.wf(), ro_wf(old(self).reconnect_options),
        // NO further precondition: any accepted configuration (zero, huge, ...) must be fine
    ensures
        // without jitter the wait is the current period; with uniform jitter it lies in [0, current period]
        old(self).reconnect_options.reconnect_period_jitter == ExponentialBackoffJitterType::None ==> r == old(self).next_reconnect_period,
        r.nanos <= old(self).next_reconnect_period.nanos,
        // the period doubles up to the maximum
        final(self).next_reconnect_period.nanos == (if 2 * old(self).next_reconnect_period.nanos <= old(self).reconnect_options.max_reconnect_period.nanos
            { 2 * old(self).next_reconnect_period.nanos } else { old(self).reconnect_options.max_reconnect_period.nanos as int }),
        final(self).next_reconnect_period.wf(),
        *final(self) == (MqttClientImpl { next_reconnect_period: final(self).next_reconnect_period, ..*old(self) }),
//@end

//@fn gneiss-mqtt/src/client/mod.rs MqttClientImpl::compute_optional_state_transition props=C12
    ensures
        ({
            let cur = self.current_state; let want = self.desired_state;
            let stop_with_disconnect = self.desired_stop_options matches Some(o) && o.disconnect is Some;
            // table written from the property text
            &&& (cur == ClientImplState::Stopped && want == ClientImplState::Connected) ==> r == Some(ClientImplState::Connecting)      // start remains possible
            &&& (cur == ClientImplState::Stopped && want == ClientImplState::Shutdown) ==> r == Some(ClientImplState::Shutdown)        // close is terminal
            &&& (cur == ClientImplState::Stopped && want != ClientImplState::Connected && want != ClientImplState::Shutdown) ==> r is None   // no attempts while stopped
            // a stop/close request is honoured at once while connecting or waiting to reconnect
            &&& ((cur == ClientImplState::Connecting || cur == ClientImplState::PendingReconnect) && want != ClientImplState::Connected) ==> r == Some(ClientImplState::Stopped)
            &&& ((cur == ClientImplState::Connecting || cur == ClientImplState::PendingReconnect) && want == ClientImplState::Connected) ==> r is None
            // connected: leave at once unless a user DISCONNECT still has to be written
            &&& (cur == ClientImplState::Connected && want != ClientImplState::Connected && !stop_with_disconnect) ==> r == Some(ClientImplState::Stopped)
            &&& (cur == ClientImplState::Connected && (want == ClientImplState::Connected || stop_with_disconnect)) ==> r is None
            &&& cur == ClientImplState::Shutdown ==> r is None
        }),
//@end
}

} // verus!
fn main() {}
