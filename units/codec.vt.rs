// U-codec: variable-length integers and the incremental frame decoder (encode.rs, decode.rs) - C02, C03
//@include base.vt.rs
//@include types_mqtt.vt.rs
verus! {

//@static gneiss-mqtt/src/encode.rs MAXIMUM_VARIABLE_LENGTH_INTEGER

// OASIS MQTT 5.0 section 1.5.5 Variable Byte Integer: 7 data bits per byte, least significant group first,
// bit 7 = "more bytes follow"; at most 4 bytes (maximum 268 435 455).
pub open spec fn vli(x: nat) -> Seq<u8>
    decreases x
{
    if x < 128 { seq![x as u8] } else { seq![((x % 128) + 128) as u8] + vli(x / 128) }
}

pub proof fn lemma_vli_len(x: nat)
    ensures vli(x).len() == (if x < 128 { 1nat } else if x < 16384 { 2nat } else if x < 2097152 { 3nat } else if x < 268435456 { 4nat } else { vli(x).len() }),
        vli(x).len() >= 1,
    decreases x
{
    if x >= 128 {
        lemma_vli_len(x / 128);
    }
}

//@fn gneiss-mqtt/src/encode.rs compute_variable_length_integer_encode_size props=C02,C16
    ensures
        r is Err <==> value > 268435455,
        r matches Ok(n) ==> n == vli(value as nat).len() && 1 <= n <= 4,
//@@at bodystart
        proof {
            lemma_vli_len(value as nat);
            assert(1usize << 7 == 128) by (bit_vector);
            assert(1usize << 14 == 16384) by (bit_vector);
            assert(1usize << 21 == 2097152) by (bit_vector);
            assert(1usize << 28 == 268435456) by (bit_vector);
        }
//@end

// ---- the step interpreter's slice writer (encode.rs): a string / payload that does not fit the space left is split, and the split loses and repeats nothing
// Vec capacity is not modelled by vstd: vcap() is an uninterpreted view; the std guarantee "no reallocation while len + additional <= capacity" is the assumed
// specification of extend_from_slice below (A-VEC-CAPACITY).
pub uninterp spec fn vcap<T, A: std::alloc::Allocator>(v: &Vec<T, A>) -> nat;
pub assume_specification<T, A: std::alloc::Allocator> [Vec::<T, A>::capacity] (v: &Vec<T, A>) -> (r: usize)
    ensures r == vcap(v), v@.len() <= r, r <= isize::MAX;   // std: a Vec never holds more than isize::MAX bytes
// std type invariant of Vec: len <= capacity <= isize::MAX
#[verifier::external_body] pub proof fn axiom_vec_capacity(v: &Vec<u8>) ensures v@.len() <= vcap(v) <= isize::MAX { }
#[verifier::external_body]
pub fn verif_extend_within_capacity(dest: &mut Vec<u8>, s: &[u8])
    ensures final(dest)@ == old(dest)@ + s@,
        old(dest)@.len() + s@.len() <= vcap(old(dest)) ==> vcap(final(dest)) == vcap(old(dest)),
{ dest.extend_from_slice(s) }
#[verifier::external_body]
pub fn verif_slice_get_range<'a>(bytes: &'a [u8], from: usize, to: usize) -> (r: Option<&'a [u8]>)
    ensures (from <= to <= bytes@.len()) ==> (r matches Some(s) && s@ == bytes@.subrange(from as int, to as int)),
        !(from <= to <= bytes@.len()) ==> r is None,
{ bytes.get(from..to) }

//@fn gneiss-mqtt/src/encode.rs process_byte_slice_encoding props=C02,C13,C11
//@@rewrite "bytes.get(offset..end_offset)" => "verif_slice_get_range(bytes, offset, end_offset)"
//@@rewrite "dest.extend_from_slice(encodable_slice);" => "verif_extend_within_capacity(dest, encodable_slice);"
    requires
        offset <= bytes@.len(),
    ensures
        // exactly the next min(space, remaining) bytes of the slice are appended, in order
        ({ let n = if vcap(old(dest)) - old(dest)@.len() < bytes@.len() - offset { vcap(old(dest)) - old(dest)@.len() } else { bytes@.len() - offset };
           &&& final(dest)@ == old(dest)@ + bytes@.subrange(offset as int, offset + n)
           &&& (r == 0 <==> (offset + n == bytes@.len() || (offset == 0 && n == 0)))
           &&& (r != 0 ==> r == offset + n) }),
        // the buffer is never grown
        vcap(final(dest)) == vcap(old(dest)),
        // nothing is dropped: a zero result with bytes left over needs a full buffer AND a zero offset (the caller's loop keeps 4 bytes free)
        (vcap(old(dest)) > old(dest)@.len() && r == 0) ==> final(dest)@ == old(dest)@ + bytes@.subrange(offset as int, bytes@.len() as int),
        // a non-zero result is the offset to continue from: progress was made and bytes remain
        (vcap(old(dest)) > old(dest)@.len() && r != 0) ==> (offset < r < bytes@.len() && final(dest)@.len() == vcap(final(dest))),
//@end

// ---- the step interpreter (encode.rs): Encoder::encode writes the pending steps into whatever room the caller's buffer has; what the proofs below decide is
// that the bytes appended over any number of calls, with any buffer sizes >= 4, are exactly flat(steps) - nothing lost, repeated or reordered at a buffer boundary.
// R16: the fn-pointer fields of EncodingStep are opaque handles; a call through one is an assumed deterministic function of (handle, packet[, index])
// (A-GETTER-PURE: the getters are pure field accessors).
#[verifier::external_body] #[derive(Clone, Copy)] pub struct FnP_MqttPacket__str(usize);   // placeholder field: the unit is verified, never run
#[verifier::external_body] #[derive(Clone, Copy)] pub struct FnP_MqttPacket__bytes(usize);   // placeholder field: the unit is verified, never run
#[verifier::external_body] #[derive(Clone, Copy)] pub struct FnP_MqttPacket_usize__str(usize);   // placeholder field: the unit is verified, never run
#[verifier::external_body] #[derive(Clone, Copy)] pub struct FnP_MqttPacket_usize__UserProperty(usize);   // placeholder field: the unit is verified, never run
pub uninterp spec fn g_str(g: FnP_MqttPacket__str, p: MqttPacket) -> Seq<u8>;
pub uninterp spec fn g_bytes(g: FnP_MqttPacket__bytes, p: MqttPacket) -> Seq<u8>;
pub uninterp spec fn g_istr(g: FnP_MqttPacket_usize__str, p: MqttPacket, i: usize) -> Seq<u8>;
pub uninterp spec fn g_upname(g: FnP_MqttPacket_usize__UserProperty, p: MqttPacket, i: usize) -> Seq<u8>;
pub uninterp spec fn g_upvalue(g: FnP_MqttPacket_usize__UserProperty, p: MqttPacket, i: usize) -> Seq<u8>;
#[verifier::external_body] pub fn verif_call_str<'a>(g: FnP_MqttPacket__str, p: &'a MqttPacket) -> (r: &'a [u8]) ensures r@ == g_str(g, *p) { unimplemented!() }
#[verifier::external_body] pub fn verif_call_bytes<'a>(g: FnP_MqttPacket__bytes, p: &'a MqttPacket) -> (r: &'a [u8]) ensures r@ == g_bytes(g, *p) { unimplemented!() }
#[verifier::external_body] pub fn verif_call_istr<'a>(g: FnP_MqttPacket_usize__str, p: &'a MqttPacket, i: usize) -> (r: &'a [u8]) ensures r@ == g_istr(g, *p, i) { unimplemented!() }
#[verifier::external_body] pub fn verif_call_upname<'a>(g: FnP_MqttPacket_usize__UserProperty, p: &'a MqttPacket, i: usize) -> (r: &'a [u8]) ensures r@ == g_upname(g, *p, i) { unimplemented!() }
#[verifier::external_body] pub fn verif_call_upvalue<'a>(g: FnP_MqttPacket_usize__UserProperty, p: &'a MqttPacket, i: usize) -> (r: &'a [u8]) ensures r@ == g_upvalue(g, *p, i) { unimplemented!() }
#[verifier::external_body]
pub fn verif_push_within_capacity(dest: &mut Vec<u8>, b: u8)
    ensures final(dest)@ == old(dest)@.push(b),
        old(dest)@.len() + 1 <= vcap(old(dest)) ==> vcap(final(dest)) == vcap(old(dest)),
{ dest.push(b) }
pub open spec fn be16_bytes(v: u16) -> Seq<u8> { seq![(v / 256) as u8, (v % 256) as u8] }
pub open spec fn be32_bytes(v: u32) -> Seq<u8> { seq![(v / 16777216) as u8, ((v / 65536) % 256) as u8, ((v / 256) % 256) as u8, (v % 256) as u8] }
pub trait VerifBe: Sized {
    spec fn be(self) -> Seq<u8>;
    fn verif_extend_be(self, dest: &mut Vec<u8>)
        ensures final(dest)@ == old(dest)@ + self.be(),
            old(dest)@.len() + self.be().len() <= vcap(old(dest)) ==> vcap(final(dest)) == vcap(old(dest));
}
impl VerifBe for u16 {
    open spec fn be(self) -> Seq<u8> { be16_bytes(self) }
    #[verifier::external_body] fn verif_extend_be(self, dest: &mut Vec<u8>) { dest.extend_from_slice(&self.to_be_bytes()) }
}
impl VerifBe for u32 {
    open spec fn be(self) -> Seq<u8> { be32_bytes(self) }
    #[verifier::external_body] fn verif_extend_be(self, dest: &mut Vec<u8>) { dest.extend_from_slice(&self.to_be_bytes()) }
}

//@enum gneiss-mqtt/src/encode.rs EncodingStep fnptr_opaque
//@enum gneiss-mqtt/src/encode.rs EncodeResult
//@struct gneiss-mqtt/src/encode.rs Encoder

// the whole byte string a step stands for, and what is left of it from its offset
pub open spec fn step_whole(s: EncodingStep, p: MqttPacket) -> Seq<u8> {
    match s {
        EncodingStep::Uint8(v) => seq![v],
        EncodingStep::Uint16(v) => be16_bytes(v),
        EncodingStep::Uint32(v) => be32_bytes(v),
        EncodingStep::Vli(v) => vli(v as nat),
        EncodingStep::StringSlice(g, _) => g_str(g, p),
        EncodingStep::BytesSlice(g, _) => g_bytes(g, p),
        EncodingStep::IndexedString(g, i, _) => g_istr(g, p, i),
        EncodingStep::UserPropertyName(g, i, _) => g_upname(g, p, i),
        EncodingStep::UserPropertyValue(g, i, _) => g_upvalue(g, p, i),
    }
}
pub open spec fn step_off(s: EncodingStep) -> int {
    match s {
        EncodingStep::StringSlice(_, o) => o as int,
        EncodingStep::BytesSlice(_, o) => o as int,
        EncodingStep::IndexedString(_, _, o) => o as int,
        EncodingStep::UserPropertyName(_, _, o) => o as int,
        EncodingStep::UserPropertyValue(_, _, o) => o as int,
        _ => 0,
    }
}
pub open spec fn step_wf(s: EncodingStep, p: MqttPacket) -> bool { 0 <= step_off(s) <= step_whole(s, p).len() }
pub open spec fn step_bytes(s: EncodingStep, p: MqttPacket) -> Seq<u8> { step_whole(s, p).subrange(step_off(s), step_whole(s, p).len() as int) }
pub open spec fn steps_wf(s: Seq<EncodingStep>, p: MqttPacket) -> bool { forall|i: int| 0 <= i < s.len() ==> step_wf(#[trigger] s[i], p) }
pub open spec fn flat(s: Seq<EncodingStep>, p: MqttPacket) -> Seq<u8>
    decreases s.len()
{
    if s.len() == 0 { Seq::<u8>::empty() } else { step_bytes(s[0], p) + flat(s.subrange(1, s.len() as int), p) }
}
pub proof fn lemma_flat_cons(x: EncodingStep, s: Seq<EncodingStep>, p: MqttPacket)
    ensures flat(seq![x] + s, p) == step_bytes(x, p) + flat(s, p),
{
    let t = seq![x] + s;
    assert(t.subrange(1, t.len() as int) =~= s);
}

//@fn gneiss-mqtt/src/encode.rs process_encoding_step props=C02,C13,C11
//@@rewrite "getter(packet).as_bytes()" => "verif_call_str(getter, packet)"
//@@rewrite "= getter(packet);" => "= verif_call_bytes(getter, packet);"
//@@rewrite "getter(packet, index).as_bytes()" => "verif_call_istr(getter, packet, index)"
//@@rewrite "getter(packet, index).name.as_bytes()" => "verif_call_upname(getter, packet, index)"
//@@rewrite "getter(packet, index).value.as_bytes()" => "verif_call_upvalue(getter, packet, index)"
//@@rewrite "dest.push(val);" => "verif_push_within_capacity(dest, val);"
//@@rewrite "dest.extend_from_slice(&val.to_be_bytes());" => "val.verif_extend_be(dest);"
    requires
        step_wf(step, *packet),
        steps_wf(old(steps)@, *packet),
        old(dest)@.len() + 4 <= vcap(old(dest)),
    ensures
        r is Ok ==> final(dest)@ + flat(final(steps)@, *packet) == old(dest)@ + step_bytes(step, *packet) + flat(old(steps)@, *packet),
        r is Ok ==> steps_wf(final(steps)@, *packet),
        r is Ok ==> vcap(final(dest)) == vcap(old(dest)),
        // either the step is finished, or the rest of it is put back at the FRONT and the buffer is full
        r is Ok ==> (final(steps)@ == old(steps)@ || (final(steps)@.len() == old(steps)@.len() + 1 && final(dest)@.len() == vcap(final(dest)))),
        r is Err ==> (step matches EncodingStep::Vli(v) && v > 268435455),
//@@at bodystart
    let ghost steps0 = steps@;
    proof {
        assert(step_off(step) == 0 ==> step_bytes(step, *packet) =~= step_whole(step, *packet));
        lemma_vli_len(match step { EncodingStep::Vli(v) => v as nat, _ => 0nat });
    }
//@@at after "if end_offset > 0 { @nth=1/5"
                proof {
                    lemma_flat_cons(EncodingStep::StringSlice(getter, end_offset), steps0, *packet);
                    assert(slice@.subrange(offset as int, slice@.len() as int) =~= slice@.subrange(offset as int, end_offset as int) + slice@.subrange(end_offset as int, slice@.len() as int));
                }
//@@at after "if end_offset > 0 { @nth=2/5"
                proof {
                    lemma_flat_cons(EncodingStep::BytesSlice(getter, end_offset), steps0, *packet);
                    assert(slice@.subrange(offset as int, slice@.len() as int) =~= slice@.subrange(offset as int, end_offset as int) + slice@.subrange(end_offset as int, slice@.len() as int));
                }
//@@at after "if end_offset > 0 { @nth=3/5"
                proof {
                    lemma_flat_cons(EncodingStep::IndexedString(getter, index, end_offset), steps0, *packet);
                    assert(slice@.subrange(offset as int, slice@.len() as int) =~= slice@.subrange(offset as int, end_offset as int) + slice@.subrange(end_offset as int, slice@.len() as int));
                }
//@@at after "if end_offset > 0 { @nth=4/5"
                proof {
                    lemma_flat_cons(EncodingStep::UserPropertyName(getter, index, end_offset), steps0, *packet);
                    assert(slice@.subrange(offset as int, slice@.len() as int) =~= slice@.subrange(offset as int, end_offset as int) + slice@.subrange(end_offset as int, slice@.len() as int));
                }
//@@at after "if end_offset > 0 { @nth=5/5"
                proof {
                    lemma_flat_cons(EncodingStep::UserPropertyValue(getter, index, end_offset), steps0, *packet);
                    assert(slice@.subrange(offset as int, slice@.len() as int) =~= slice@.subrange(offset as int, end_offset as int) + slice@.subrange(end_offset as int, slice@.len() as int));
                }
//@end

impl Encoder {
//@fn gneiss-mqtt/src/encode.rs Encoder::encode props=C02,C13,C11
    requires
        steps_wf(old(self).steps@, *packet),
        vcap(old(dest)) >= 4,       // the function panics otherwise, by design ("target buffer too small")
    ensures
        r matches Ok(EncodeResult::Complete) ==> final(dest)@ == old(dest)@ + flat(old(self).steps@, *packet) && final(self).steps@.len() == 0,
        r matches Ok(EncodeResult::Full) ==> final(dest)@ + flat(final(self).steps@, *packet) == old(dest)@ + flat(old(self).steps@, *packet)
            && final(self).steps@.len() > 0 && final(dest)@.len() + 4 > vcap(final(dest)),
        r is Ok ==> steps_wf(final(self).steps@, *packet) && vcap(final(dest)) == vcap(old(dest)),
//@@loop 0
        invariant
            steps_wf(self.steps@, *packet),
            vcap(dest) == capacity,
            dest@.len() <= vcap(dest) <= isize::MAX,
            dest@ + flat(self.steps@, *packet) == old(dest)@ + flat(old(self).steps@, *packet),
        decreases self.steps@.len() + (if dest@.len() + 4 <= vcap(dest) { 1int } else { 0int }),
//@@at after "process_encoding_step(&mut self.steps, step, packet, dest)?;"
            proof { axiom_vec_capacity(dest); }
//@end
}

//@fn gneiss-mqtt/src/encode.rs encode_vli props=C02
//@@rewrite "dest.push(byte);" => "verif_push_within_capacity(dest, byte);"
    ensures
        r is Err <==> value > 268435455,
        r is Ok ==> final(dest)@ == old(dest)@ + vli(value as nat),
        r is Err ==> final(dest)@ == old(dest)@,
        // with room for 4 bytes the buffer is never grown
        old(dest)@.len() + 4 <= vcap(old(dest)) ==> vcap(final(dest)) == vcap(old(dest)),
//@@at before "let mut done = false;"
    proof { lemma_vli_len(value as nat); }
//@@loop 0
        invariant
            val <= value,
            value <= 268435455,
            vli(value as nat).len() <= 4,
            old(dest)@.len() + 4 <= vcap(old(dest)) ==> vcap(dest) == vcap(old(dest)),
            !done ==> old(dest)@ + vli(value as nat) == dest@ + vli(val as nat),
            done ==> dest@ == old(dest)@ + vli(value as nat),
        decreases (if done { 0int } else { val as int + 1 }),
//@@at after "let mut byte: u8 = (val & 0x7F) as u8;"
            proof {
                let v0 = val;
                assert((v0 & 0x7F) as u8 == (v0 % 128) as u8) by (bit_vector);
                assert((v0 & 0x7F) < 128) by (bit_vector);
            }
            let ghost val0 = val;
            let ghost dest0 = dest@;
//@@at after "byte |= 128;"
            proof {
                let b0 = (val0 % 128) as u8;
                assert(b0 < 128 ==> (b0 | 128u8) == (b0 + 128) as u8) by (bit_vector);
            }
//@@at after "verif_push_within_capacity(dest, byte);"
            proof {
                if val0 < 128 {
                    assert(vli(val0 as nat) =~= seq![val0 as u8]);
                    assert(dest@ =~= dest0 + vli(val0 as nat));
                } else {
                    assert(vli(val0 as nat) =~= seq![((val0 % 128) + 128) as u8] + vli((val0 / 128) as nat));
                    assert(dest@ + vli(val as nat) =~= dest0 + vli(val0 as nat));
                }
            }
//@end

// value of the first n VBI bytes of s
pub open spec fn vli_val(s: Seq<u8>, n: nat) -> nat
    decreases n
{
    if n == 0 { 0 } else { vli_val(s, (n - 1) as nat) + ((s[n - 1] % 128) as nat) * pow128((n - 1) as nat) }
}
pub open spec fn pow128(n: nat) -> nat decreases n { if n == 0 { 1 } else { 128 * pow128((n - 1) as nat) } }

//@enum gneiss-mqtt/src/decode.rs DecodeVliResult noderive=PartialEq,Eq

//@fn gneiss-mqtt/src/decode.rs decode_vli props=C03,C11
    ensures
        match r {
            // waits for more data only while every byte seen says "more follows" and fewer than 4 were seen
            Ok(DecodeVliResult::InsufficientData) => buffer@.len() < 4 && forall|j: int| 0 <= j < buffer@.len() ==> buffer@[j] >= 128,
            // framing: consumes exactly the bytes up to and including the first one without the continuation bit
            Ok(DecodeVliResult::Value(v, rest)) => exists|n: int| 1 <= n <= 4 && n <= buffer@.len() && buffer@[n - 1] < 128
                && (forall|j: int| 0 <= j < n - 1 ==> buffer@[j] >= 128) && rest@ == buffer@.subrange(n, buffer@.len() as int)
                && v == vli_val(buffer@, n as nat),
            // a fifth byte is never consumed: four continuation bytes are a malformed integer
            Err(_) => buffer@.len() >= 4 && forall|j: int| 0 <= j < 4 ==> buffer@[j] >= 128,
        },
//@@loop 0 iter=it
        invariant
            data_len == buffer@.len(),
            shift == 7 * i,
            forall|j: int| 0 <= j < i ==> buffer@[j] >= 128,
            i <= data_len || i == 0,
            value == vli_val(buffer@, i as nat),
            value < pow128(i as nat),
//@@at after "let byte = buffer[i];"
            proof {
                let sh = shift;
                let vv = value;
                let b = byte;
                lemma_pow128(i as nat);
                assert((b & 0x7F) as u32 == (b % 128) as u32) by (bit_vector);
                assert((b & 0x80) != 0 <==> b >= 128) by (bit_vector);
                if sh == 0 { assert(vv == 0 ==> (vv | (((b & 0x7F) as u32) << 0u32)) == vv + ((b % 128) as u32) * 1) by (bit_vector); }
                if sh == 7 { assert(vv < 128 ==> (vv | (((b & 0x7F) as u32) << 7u32)) == vv + ((b % 128) as u32) * 128) by (bit_vector); }
                if sh == 14 { assert(vv < 16384 ==> (vv | (((b & 0x7F) as u32) << 14u32)) == vv + ((b % 128) as u32) * 16384) by (bit_vector); }
                if sh == 21 { assert(vv < 2097152 ==> (vv | (((b & 0x7F) as u32) << 21u32)) == vv + ((b % 128) as u32) * 2097152) by (bit_vector); }
            }
//@end

// =====================================================================================================
// bounds-checked primitive readers (C03: "never panics", truncated input is an error, a second occurrence of a
// non-repeatable property is an error, the value is the big-endian integer the specification defines in 1.5.2/1.5.3)
// =====================================================================================================
pub open spec fn be16(b: Seq<u8>) -> int { b[0] as int * 256 + b[1] as int }
pub open spec fn be32(b: Seq<u8>) -> int { ((b[0] as int * 256 + b[1] as int) * 256 + b[2] as int) * 256 + b[3] as int }

// R6 shims for `uN::from_be_bytes(SLICE.try_into().unwrap())` (Verus cannot match the anonymous array-length constant of
// from_be_bytes in an assume_specification). The precondition IS the panic condition of `<[u8; N]>::try_from(slice).unwrap()`.
#[verifier::external_body]
pub fn verif_be16(b: &[u8]) -> (r: u16)
    requires b@.len() == 2,
    ensures r as int == be16(b@),
{ u16::from_be_bytes(b.try_into().unwrap()) }
#[verifier::external_body]
pub fn verif_be32(b: &[u8]) -> (r: u32)
    requires b@.len() == 4,
    ensures r as int == be32(b@),
{ u32::from_be_bytes(b.try_into().unwrap()) }

// std docs: `impl<T: Clone> From<&[T]> for Vec<T>` "allocates a Vec<T> and fills it by cloning the slice's items" (used on u8 only:
// Clone of u8 is a copy)
pub assume_specification<'a, T: Clone> [<Vec<T> as From<&'a [T]>>::from] (s: &[T]) -> (r: Vec<T>)
    ensures r@.len() == s@.len(), (forall|i: int| 0 <= i < s@.len() ==> vstd::pervasive::cloned(s@[i], #[trigger] r@[i]));

// the common shape: n bytes consumed, the rest handed back
pub open spec fn took(bytes: &[u8], r: GneissResult<&[u8]>, n: int) -> bool {
    r matches Ok(rest) && n <= bytes@.len() && rest@ == bytes@.subrange(n, bytes@.len() as int)
}

//@fn gneiss-mqtt/src/decode.rs decode_u16 props=C03,C11
//@@rewrite "u16::from_be_bytes(bytes[..2].try_into().unwrap())" => "verif_be16(&bytes[..2])"
    ensures
        bytes@.len() < 2 ==> r is Err && *final(value) == *old(value),
        bytes@.len() >= 2 ==> took(bytes, r, 2) && *final(value) as int == be16(bytes@),
//@end

//@fn gneiss-mqtt/src/decode.rs decode_optional_u16 props=C03,C11
//@@rewrite "u16::from_be_bytes(bytes[..2].try_into().unwrap())" => "verif_be16(&bytes[..2])"
    ensures
        (bytes@.len() < 2 || *old(value) is Some) ==> r is Err && *final(value) == *old(value),
        (bytes@.len() >= 2 && *old(value) is None) ==> took(bytes, r, 2) && (*final(value) matches Some(v) && v as int == be16(bytes@)),
//@end

//@fn gneiss-mqtt/src/decode.rs decode_optional_u32 props=C03,C11
//@@rewrite "u32::from_be_bytes(bytes[..4].try_into().unwrap())" => "verif_be32(&bytes[..4])"
    ensures
        (bytes@.len() < 4 || *old(value) is Some) ==> r is Err && *final(value) == *old(value),
        (bytes@.len() >= 4 && *old(value) is None) ==> took(bytes, r, 4) && (*final(value) matches Some(v) && v as int == be32(bytes@)),
//@end

//@fn gneiss-mqtt/src/decode.rs decode_optional_u8_as_bool props=C03,C11
    ensures
        (bytes@.len() < 1 || *old(value) is Some || bytes@[0] > 1) ==> r is Err,
        (bytes@.len() >= 1 && *old(value) is None && bytes@[0] <= 1) ==> took(bytes, r, 1) && *final(value) == Some(bytes@[0] == 1),
        r is Err ==> *final(value) == *old(value),
//@end

//@fn gneiss-mqtt/src/decode.rs decode_optional_length_prefixed_bytes props=C03,C11
//@@rewrite "u16::from_be_bytes(bytes[..2].try_into().unwrap())" => "verif_be16(&bytes[..2])"
    ensures
        (bytes@.len() < 2 || *old(value) is Some || bytes@.len() < 2 + be16(bytes@)) ==> r is Err && *final(value) == *old(value),
        (bytes@.len() >= 2 && *old(value) is None && bytes@.len() >= 2 + be16(bytes@)) ==> took(bytes, r, 2 + be16(bytes@))
            && (*final(value) matches Some(v) && v@ == bytes@.subrange(2, 2 + be16(bytes@))),
//@@at after "*value = Some(Vec::from(&mutable_bytes[..value_length]));"
    proof {
        assert(mutable_bytes@ == bytes@.subrange(2, bytes@.len() as int));
        assert(value->Some_0@ =~= mutable_bytes@.subrange(0, value_length as int));
        assert(mutable_bytes@.subrange(0, value_length as int) =~= bytes@.subrange(2, 2 + be16(bytes@)));
        assert(mutable_bytes@.subrange(value_length as int, mutable_bytes@.len() as int) =~= bytes@.subrange(2 + be16(bytes@), bytes@.len() as int));
    }
//@end

// UTF-8 (R6 shim for `std::str::from_utf8(SLICE)?`): validity and the decoded text are uninterpreted functions of the bytes; the `?`
// conversion `From<Utf8Error> for GneissError` (error.rs: new_decoding_failure) is folded into the shim's error value.
pub uninterp spec fn utf8_valid(b: Seq<u8>) -> bool;
pub uninterp spec fn utf8_text(b: Seq<u8>) -> Seq<char>;
#[verifier::external_body]
pub fn verif_from_utf8<'a>(b: &'a [u8]) -> (r: Result<&'a str, GneissError>)
    ensures r matches Ok(s) ==> utf8_valid(b@) && s@ == utf8_text(b@),
        r matches Err(e) ==> !utf8_valid(b@) && e.kind() == GErrKind::DecodingFailure,
{ unimplemented!() }

// a two-byte length, then that many bytes of valid UTF-8
pub open spec fn lp_string_ok(bytes: Seq<u8>) -> bool {
    bytes.len() >= 2 && bytes.len() >= 2 + be16(bytes) && utf8_valid(bytes.subrange(2, 2 + be16(bytes)))
}
pub open spec fn lp_string_text(bytes: Seq<u8>) -> Seq<char> { utf8_text(bytes.subrange(2, 2 + be16(bytes))) }

//@fn gneiss-mqtt/src/decode.rs decode_length_prefixed_string props=C03,C11
//@@rewrite "u16::from_be_bytes(bytes[..2].try_into().unwrap())" => "verif_be16(&bytes[..2])"
//@@rewrite "std::str::from_utf8(&mutable_bytes[..value_length])?" => "verif_from_utf8(&mutable_bytes[..value_length])?"
    ensures
        !lp_string_ok(bytes@) ==> r is Err && *final(value) == *old(value),
        lp_string_ok(bytes@) ==> took(bytes, r, 2 + be16(bytes@)) && final(value)@ == lp_string_text(bytes@),
//@@at before "let decode_utf8_result = verif_from_utf8(&mutable_bytes[..value_length])?;"
    proof {
        assert(mutable_bytes@.subrange(0, value_length as int) =~= bytes@.subrange(2, 2 + be16(bytes@)));
        assert(mutable_bytes@.subrange(value_length as int, mutable_bytes@.len() as int) =~= bytes@.subrange(2 + be16(bytes@), bytes@.len() as int));
    }
//@end

//@fn gneiss-mqtt/src/decode.rs decode_optional_length_prefixed_string props=C03,C11
//@@rewrite "u16::from_be_bytes(bytes[..2].try_into().unwrap())" => "verif_be16(&bytes[..2])"
//@@rewrite "std::str::from_utf8(&mutable_bytes[..value_length])?" => "verif_from_utf8(&mutable_bytes[..value_length])?"
    ensures
        (!lp_string_ok(bytes@) || *old(value) is Some) ==> r is Err && *final(value) == *old(value),
        (lp_string_ok(bytes@) && *old(value) is None) ==> took(bytes, r, 2 + be16(bytes@)) && (*final(value) matches Some(v) && v@ == lp_string_text(bytes@)),
//@@at before "let decode_utf8_result = verif_from_utf8(&mutable_bytes[..value_length])?;"
    proof {
        assert(mutable_bytes@.subrange(0, value_length as int) =~= bytes@.subrange(2, 2 + be16(bytes@)));
        assert(mutable_bytes@.subrange(value_length as int, mutable_bytes@.len() as int) =~= bytes@.subrange(2 + be16(bytes@), bytes@.len() as int));
    }
//@end

//@fn gneiss-mqtt/src/decode.rs decode_u8_as_enum props=C03,C11 desugar
    requires forall|b: u8| call_requires(converter, (b,)),
    ensures
        bytes@.len() == 0 ==> r is Err,
        r is Ok ==> took(bytes, r, 1) && call_ensures(converter, (bytes@[0],), Ok(*final(value))),
        // the byte is judged by the table alone
        (bytes@.len() >= 1 && r is Err) ==> exists|e: GneissError| call_ensures(converter, (bytes@[0],), Err(e)),
//@end

//@fn gneiss-mqtt/src/decode.rs decode_optional_u8_as_enum props=C03,C11 desugar
    requires forall|b: u8| call_requires(converter, (b,)),
    ensures
        (bytes@.len() == 0 || *old(value) is Some) ==> r is Err,
        r is Ok ==> took(bytes, r, 1) && *old(value) is None && (*final(value) matches Some(v) && call_ensures(converter, (bytes@[0],), Ok(v))),
        (bytes@.len() >= 1 && *old(value) is None && r is Err) ==> exists|e: GneissError| call_ensures(converter, (bytes@[0],), Err(e)),
//@end

// a user property is two length-prefixed strings; properties accumulate in wire order
//@fn gneiss-mqtt/src/decode.rs decode_user_property props=C03,C11
    ensures
        ({
            let n1 = 2 + be16(bytes@);
            let rest1 = bytes@.subrange(n1, bytes@.len() as int);
            let ok = lp_string_ok(bytes@) && lp_string_ok(rest1);
            &&& !ok ==> r is Err && *final(properties) == *old(properties)
            &&& ok ==> {
                let prev = match *old(properties) { Some(v) => v@, None => Seq::<UserProperty>::empty() };
                &&& took(bytes, r, n1 + 2 + be16(rest1))
                &&& *final(properties) matches Some(v)
                &&& v@.len() == prev.len() + 1 && v@.subrange(0, prev.len() as int) == prev
                &&& v@[prev.len() as int].name@ == lp_string_text(bytes@) && v@[prev.len() as int].value@ == lp_string_text(rest1)
            }
        }),
//@@at before "Ok(mutable_bytes)"
    proof {
        let n1 = 2 + be16(bytes@);
        let rest1 = bytes@.subrange(n1, bytes@.len() as int);
        let prev = match *old(properties) { Some(v) => v@, None => Seq::<UserProperty>::empty() };
        assert(mutable_bytes@ =~= bytes@.subrange(n1 + 2 + be16(rest1), bytes@.len() as int));
        assert(properties->Some_0@ =~= prev.push(property));
        assert(properties->Some_0@.subrange(0, prev.len() as int) =~= prev);
    }
//@end

//@fn gneiss-mqtt/src/decode.rs decode_vli_into_mutable props=C03,C11
    ensures
        match r {
            Ok(rest) => exists|n: int| 1 <= n <= 4 && n <= buffer@.len() && buffer@[n - 1] < 128
                && (forall|j: int| 0 <= j < n - 1 ==> buffer@[j] >= 128) && rest@ == buffer@.subrange(n, buffer@.len() as int)
                && *final(value) == vli_val(buffer@, n as nat),
            // here (inside a packet body whose length is known) running out of bytes is an error, not "wait"
            Err(_) => *final(value) == *old(value) && forall|j: int| 0 <= j < 4 && j < buffer@.len() ==> buffer@[j] >= 128,
        },
//@end

// =====================================================================================================
// CONNACK decoding (C03): the property section against the table of OASIS 3.2.2.3, written here from the standard
// =====================================================================================================
//@const gneiss-mqtt/src/mqtt/utils.rs PACKET_TYPE_CONNACK
//@const gneiss-mqtt/src/mqtt/utils.rs PROPERTY_KEY_SESSION_EXPIRY_INTERVAL
//@const gneiss-mqtt/src/mqtt/utils.rs PROPERTY_KEY_RECEIVE_MAXIMUM
//@const gneiss-mqtt/src/mqtt/utils.rs PROPERTY_KEY_MAXIMUM_QOS
//@const gneiss-mqtt/src/mqtt/utils.rs PROPERTY_KEY_RETAIN_AVAILABLE
//@const gneiss-mqtt/src/mqtt/utils.rs PROPERTY_KEY_MAXIMUM_PACKET_SIZE
//@const gneiss-mqtt/src/mqtt/utils.rs PROPERTY_KEY_ASSIGNED_CLIENT_IDENTIFIER
//@const gneiss-mqtt/src/mqtt/utils.rs PROPERTY_KEY_TOPIC_ALIAS_MAXIMUM
//@const gneiss-mqtt/src/mqtt/utils.rs PROPERTY_KEY_REASON_STRING
//@const gneiss-mqtt/src/mqtt/utils.rs PROPERTY_KEY_USER_PROPERTY
//@const gneiss-mqtt/src/mqtt/utils.rs PROPERTY_KEY_WILDCARD_SUBSCRIPTIONS_AVAILABLE
//@const gneiss-mqtt/src/mqtt/utils.rs PROPERTY_KEY_SUBSCRIPTION_IDENTIFIERS_AVAILABLE
//@const gneiss-mqtt/src/mqtt/utils.rs PROPERTY_KEY_SHARED_SUBSCRIPTIONS_AVAILABLE
//@const gneiss-mqtt/src/mqtt/utils.rs PROPERTY_KEY_SERVER_KEEP_ALIVE
//@const gneiss-mqtt/src/mqtt/utils.rs PROPERTY_KEY_RESPONSE_INFORMATION
//@const gneiss-mqtt/src/mqtt/utils.rs PROPERTY_KEY_SERVER_REFERENCE
//@const gneiss-mqtt/src/mqtt/utils.rs PROPERTY_KEY_AUTHENTICATION_METHOD
//@const gneiss-mqtt/src/mqtt/utils.rs PROPERTY_KEY_AUTHENTICATION_DATA

impl QualityOfService {
//@fn gneiss-mqtt/src/mqtt/mod.rs try_from props=C03 impl={TryFrom<u8> for QualityOfService} as=try_from
    ensures value <= 2 ==> (r matches Ok(q) && q as u8 == value), value > 2 ==> r is Err,
//@end
}

// CONNACK reason codes (OASIS 3.2.2.2, table 3.1): name -> value, written from the standard
pub open spec fn connect_reason_value(c: ConnectReasonCode) -> u8 {
    match c {
        ConnectReasonCode::Success => 0u8,
        ConnectReasonCode::UnspecifiedError => 128u8,
        ConnectReasonCode::MalformedPacket => 129u8,
        ConnectReasonCode::ProtocolError => 130u8,
        ConnectReasonCode::ImplementationSpecificError => 131u8,
        ConnectReasonCode::UnsupportedProtocolVersion => 132u8,
        ConnectReasonCode::ClientIdentifierNotValid => 133u8,
        ConnectReasonCode::BadUsernameOrPassword => 134u8,
        ConnectReasonCode::NotAuthorized => 135u8,
        ConnectReasonCode::ServerUnavailable => 136u8,
        ConnectReasonCode::ServerBusy => 137u8,
        ConnectReasonCode::Banned => 138u8,
        ConnectReasonCode::BadAuthenticationMethod => 140u8,
        ConnectReasonCode::TopicNameInvalid => 144u8,
        ConnectReasonCode::PacketTooLarge => 149u8,
        ConnectReasonCode::QuotaExceeded => 151u8,
        ConnectReasonCode::PayloadFormatInvalid => 153u8,
        ConnectReasonCode::RetainNotSupported => 154u8,
        ConnectReasonCode::QosNotSupported => 155u8,
        ConnectReasonCode::UseAnotherServer => 156u8,
        ConnectReasonCode::ServerMoved => 157u8,
        ConnectReasonCode::ConnectionRateExceeded => 159u8,
    }
}
pub open spec fn connect_reason_legal(v: u8) -> bool {
    v == 0 || (128 <= v <= 138) || v == 140 || v == 144 || v == 149 || v == 151 || (153 <= v <= 157) || v == 159
}
impl ConnectReasonCode {
//@fn gneiss-mqtt/src/mqtt/mod.rs try_from props=C03 impl={TryFrom<u8> for ConnectReasonCode} as=try_from
    ensures connect_reason_legal(value) ==> (r matches Ok(c) && connect_reason_value(c) == value), !connect_reason_legal(value) ==> r is Err,
//@end
}

// Variable Byte Integer at the head of a byte string (OASIS 1.5.5): how many bytes it takes - at most four, the last one without the continuation bit
pub open spec fn vbi_len(s: Seq<u8>) -> Option<int> {
    if s.len() >= 1 && s[0] < 128 { Some(1int) }
    else if s.len() >= 2 && s[0] >= 128 && s[1] < 128 { Some(2int) }
    else if s.len() >= 3 && s[0] >= 128 && s[1] >= 128 && s[2] < 128 { Some(3int) }
    else if s.len() >= 4 && s[0] >= 128 && s[1] >= 128 && s[2] >= 128 && s[3] < 128 { Some(4int) }
    else { None }
}
pub proof fn lemma_vbi_len_char(s: Seq<u8>)
    ensures
        forall|n: int| 1 <= n <= 4 && n <= s.len() && s[n - 1] < 128 && (forall|j: int| 0 <= j < n - 1 ==> s[j] >= 128) ==> vbi_len(s) == Some(n),
        (forall|j: int| 0 <= j < 4 && j < s.len() ==> s[j] >= 128) ==> vbi_len(s) is None,
{
    assert forall|n: int| 1 <= n <= 4 && n <= s.len() && s[n - 1] < 128 && (forall|j: int| 0 <= j < n - 1 ==> s[j] >= 128) implies vbi_len(s) == Some(n) by {
        if n >= 2 { assert(s[0] >= 128); } if n >= 3 { assert(s[1] >= 128); } if n >= 4 { assert(s[2] >= 128); }
    }
}
// ---- MQTT 5 property sections, written from OASIS MQTT 5.0 section 2.2.2.2 (identifier -> data type); nothing here is repository code
pub enum PropType { Byte, TwoByte, FourByte, Vbi, Str, Bin, StrPair, Unknown }
pub open spec fn prop_type(id: u8) -> PropType {
    if id == 0x01 || id == 0x17 || id == 0x19 || id == 0x24 || id == 0x25 || id == 0x28 || id == 0x29 || id == 0x2A { PropType::Byte }
    else if id == 0x13 || id == 0x21 || id == 0x22 || id == 0x23 { PropType::TwoByte }
    else if id == 0x02 || id == 0x11 || id == 0x18 || id == 0x27 { PropType::FourByte }
    else if id == 0x0B { PropType::Vbi }
    else if id == 0x03 || id == 0x08 || id == 0x12 || id == 0x15 || id == 0x1A || id == 0x1C || id == 0x1F { PropType::Str }
    else if id == 0x09 || id == 0x16 { PropType::Bin }
    else if id == 0x26 { PropType::StrPair }
    else { PropType::Unknown }
}
// what a property section says: one value per identifier (a second occurrence is a protocol error), user properties in wire order
pub struct PropBag {
    pub bytes: Map<u8, u8>, pub u16s: Map<u8, u16>, pub u32s: Map<u8, u32>,
    pub strs: Map<u8, Seq<char>>, pub bins: Map<u8, Seq<u8>>, pub users: Seq<(Seq<char>, Seq<char>)>,
    pub subids: Seq<u32>,      // Subscription Identifier (0x0B) may occur several times in a PUBLISH
}
// byte-valued properties are 0/1 flags, except Maximum QoS (0x24): the standard allows 0 and 1 there, this client also accepts 2
// (over-acceptance noted in DESIGN.md 4, not a C03 violation)
pub open spec fn byte_value_ok(id: u8, v: u8) -> bool { if id == 0x24 { v <= 2 } else { v <= 1 } }

pub open spec fn parse_props(b: Seq<u8>, allowed: Set<u8>, bag: PropBag) -> Option<PropBag>
    decreases b.len()
{
    if b.len() == 0 { Some(bag) } else {
        let id = b[0];
        let rest = b.subrange(1, b.len() as int);
        if !allowed.contains(id) { None } else {
            match prop_type(id) {
                PropType::Byte => if rest.len() >= 1 && !bag.bytes.contains_key(id) && byte_value_ok(id, rest[0])
                    { parse_props(rest.subrange(1, rest.len() as int), allowed, PropBag { bytes: bag.bytes.insert(id, rest[0]), ..bag }) } else { None },
                PropType::TwoByte => if rest.len() >= 2 && !bag.u16s.contains_key(id)
                    { parse_props(rest.subrange(2, rest.len() as int), allowed, PropBag { u16s: bag.u16s.insert(id, be16(rest) as u16), ..bag }) } else { None },
                PropType::FourByte => if rest.len() >= 4 && !bag.u32s.contains_key(id)
                    { parse_props(rest.subrange(4, rest.len() as int), allowed, PropBag { u32s: bag.u32s.insert(id, be32(rest) as u32), ..bag }) } else { None },
                PropType::Str => if lp_string_ok(rest) && !bag.strs.contains_key(id)
                    { parse_props(rest.subrange(2 + be16(rest), rest.len() as int), allowed, PropBag { strs: bag.strs.insert(id, lp_string_text(rest)), ..bag }) } else { None },
                PropType::Bin => if rest.len() >= 2 && rest.len() >= 2 + be16(rest) && !bag.bins.contains_key(id)
                    { parse_props(rest.subrange(2 + be16(rest), rest.len() as int), allowed, PropBag { bins: bag.bins.insert(id, rest.subrange(2, 2 + be16(rest))), ..bag }) } else { None },
                PropType::StrPair => {
                    let rest1 = rest.subrange(2 + be16(rest), rest.len() as int);
                    if lp_string_ok(rest) && lp_string_ok(rest1)
                        { parse_props(rest1.subrange(2 + be16(rest1), rest1.len() as int), allowed, PropBag { users: bag.users.push((lp_string_text(rest), lp_string_text(rest1))), ..bag }) } else { None }
                },
                // (a Subscription Identifier of 0 is a protocol error by the standard; this client accepts it - noted over-acceptance)
                PropType::Vbi => match vbi_len(rest) {
                    Some(n) => parse_props(rest.subrange(n, rest.len() as int), allowed, PropBag { subids: bag.subids.push(vli_val(rest, n as nat) as u32), ..bag }),
                    None => None,
                },
                _ => None,
            }
        }
    }
}

pub open spec fn put<V>(m: Map<u8, V>, id: u8, o: Option<V>) -> Map<u8, V> { match o { Some(v) => m.insert(id, v), None => m } }
pub open spec fn flag(o: Option<bool>) -> Option<u8> { match o { Some(b) => Some(if b { 1u8 } else { 0u8 }), None => None } }
pub open spec fn qos_byte(o: Option<QualityOfService>) -> Option<u8> {
    match o { Some(QualityOfService::AtMostOnce) => Some(0u8), Some(QualityOfService::AtLeastOnce) => Some(1u8), Some(QualityOfService::ExactlyOnce) => Some(2u8), None => None }
}
pub open spec fn text(o: Option<String>) -> Option<Seq<char>> { match o { Some(s) => Some(s@), None => None } }
pub open spec fn blob(o: Option<Vec<u8>>) -> Option<Seq<u8>> { match o { Some(v) => Some(v@), None => None } }
pub open spec fn user_seq(o: Option<Vec<UserProperty>>) -> Seq<(Seq<char>, Seq<char>)> {
    match o { Some(v) => Seq::new(v@.len(), |i: int| (v@[i].name@, v@[i].value@)), None => Seq::empty() }
}

// CONNACK (OASIS 3.2.2.3): the identifiers a CONNACK may carry, and where this client keeps each value
pub open spec fn connack_ids() -> Set<u8> {
    set![0x11u8, 0x21u8, 0x24u8, 0x25u8, 0x27u8, 0x12u8, 0x22u8, 0x1Fu8, 0x26u8, 0x28u8, 0x29u8, 0x2Au8, 0x13u8, 0x1Au8, 0x1Cu8, 0x15u8, 0x16u8]
}
pub open spec fn connack_bag(p: ConnackPacket) -> PropBag {
    PropBag {
        bytes: put(put(put(put(put(Map::<u8, u8>::empty(), 0x24u8, qos_byte(p.maximum_qos)), 0x25u8, flag(p.retain_available)), 0x28u8, flag(p.wildcard_subscriptions_available)),
                    0x29u8, flag(p.subscription_identifiers_available)), 0x2Au8, flag(p.shared_subscriptions_available)),
        u16s: put(put(put(Map::<u8, u16>::empty(), 0x21u8, p.receive_maximum), 0x22u8, p.topic_alias_maximum), 0x13u8, p.server_keep_alive),
        u32s: put(put(Map::<u8, u32>::empty(), 0x11u8, p.session_expiry_interval), 0x27u8, p.maximum_packet_size),
        strs: put(put(put(put(put(Map::<u8, Seq<char>>::empty(), 0x12u8, text(p.assigned_client_identifier)), 0x1Fu8, text(p.reason_string)), 0x1Au8, text(p.response_information)),
                    0x1Cu8, text(p.server_reference)), 0x15u8, text(p.authentication_method)),
        bins: put(Map::<u8, Seq<u8>>::empty(), 0x16u8, blob(p.authentication_data)),
        users: user_seq(p.user_properties),
        subids: Seq::empty(),
    }
}
pub open spec fn bag_eq(a: PropBag, b: PropBag) -> bool {
    a.bytes =~= b.bytes && a.u16s =~= b.u16s && a.u32s =~= b.u32s && a.strs =~= b.strs && a.bins =~= b.bins && a.users =~= b.users && a.subids =~= b.subids
}

//@fn gneiss-mqtt/src/mqtt/connack.rs decode_connack_properties props=C03,C11
    ensures
        final(packet).session_present == old(packet).session_present, final(packet).reason_code == old(packet).reason_code,
        // exactly the section the standard's tables describe: every legal section is decoded to its content, in any property order; an unknown or
        // not-allowed identifier, a truncated value, a second occurrence of a non-repeatable property is an error
        match parse_props(property_bytes@, connack_ids(), connack_bag(*old(packet))) {
            Some(bag) => r is Ok && bag_eq(connack_bag(*final(packet)), bag),
            None => r is Err,
        },
//@@loop 0
        invariant
            packet.session_present == old(packet).session_present, packet.reason_code == old(packet).reason_code,
            parse_props(property_bytes@, connack_ids(), connack_bag(*old(packet))) == parse_props(mutable_property_bytes@, connack_ids(), connack_bag(*packet)),
        decreases mutable_property_bytes@.len(),
//@@bodyend_of_loop 0
            proof {
                let rest = b0.subrange(1, b0.len() as int);
                let bag0 = connack_bag(pk0); let bag1 = connack_bag(*packet); let id = b0[0];
                assert(rest_view == rest);
                if id == 0x11u8 { let x = PropBag { u32s: bag0.u32s.insert(id, be32(rest) as u32), ..bag0 }; assert(bag_eq(bag1, x)); assert(bag1 == x); assert(mutable_property_bytes@ =~= rest.subrange(4, rest.len() as int)); }
                if id == 0x27u8 { let x = PropBag { u32s: bag0.u32s.insert(id, be32(rest) as u32), ..bag0 }; assert(bag_eq(bag1, x)); assert(bag1 == x); assert(mutable_property_bytes@ =~= rest.subrange(4, rest.len() as int)); }
                if id == 0x21u8 { let x = PropBag { u16s: bag0.u16s.insert(id, be16(rest) as u16), ..bag0 }; assert(bag_eq(bag1, x)); assert(bag1 == x); assert(mutable_property_bytes@ =~= rest.subrange(2, rest.len() as int)); }
                if id == 0x22u8 { let x = PropBag { u16s: bag0.u16s.insert(id, be16(rest) as u16), ..bag0 }; assert(bag_eq(bag1, x)); assert(bag1 == x); assert(mutable_property_bytes@ =~= rest.subrange(2, rest.len() as int)); }
                if id == 0x13u8 { let x = PropBag { u16s: bag0.u16s.insert(id, be16(rest) as u16), ..bag0 }; assert(bag_eq(bag1, x)); assert(bag1 == x); assert(mutable_property_bytes@ =~= rest.subrange(2, rest.len() as int)); }
                if id == 0x25u8 { let x = PropBag { bytes: bag0.bytes.insert(id, rest[0]), ..bag0 }; assert(bag_eq(bag1, x)); assert(bag1 == x); assert(mutable_property_bytes@ =~= rest.subrange(1, rest.len() as int)); }
                if id == 0x28u8 { let x = PropBag { bytes: bag0.bytes.insert(id, rest[0]), ..bag0 }; assert(bag_eq(bag1, x)); assert(bag1 == x); assert(mutable_property_bytes@ =~= rest.subrange(1, rest.len() as int)); }
                if id == 0x29u8 { let x = PropBag { bytes: bag0.bytes.insert(id, rest[0]), ..bag0 }; assert(bag_eq(bag1, x)); assert(bag1 == x); assert(mutable_property_bytes@ =~= rest.subrange(1, rest.len() as int)); }
                if id == 0x2Au8 { let x = PropBag { bytes: bag0.bytes.insert(id, rest[0]), ..bag0 }; assert(bag_eq(bag1, x)); assert(bag1 == x); assert(mutable_property_bytes@ =~= rest.subrange(1, rest.len() as int)); }
                if id == 0x24u8 { let x = PropBag { bytes: bag0.bytes.insert(id, rest[0]), ..bag0 }; assert(bag_eq(bag1, x)); assert(bag1 == x); assert(mutable_property_bytes@ =~= rest.subrange(1, rest.len() as int)); }
                if id == 0x12u8 { let x = PropBag { strs: bag0.strs.insert(id, lp_string_text(rest)), ..bag0 }; assert(bag_eq(bag1, x)); assert(bag1 == x); assert(mutable_property_bytes@ =~= rest.subrange(2 + be16(rest), rest.len() as int)); }
                if id == 0x1Fu8 { let x = PropBag { strs: bag0.strs.insert(id, lp_string_text(rest)), ..bag0 }; assert(bag_eq(bag1, x)); assert(bag1 == x); assert(mutable_property_bytes@ =~= rest.subrange(2 + be16(rest), rest.len() as int)); }
                if id == 0x1Au8 { let x = PropBag { strs: bag0.strs.insert(id, lp_string_text(rest)), ..bag0 }; assert(bag_eq(bag1, x)); assert(bag1 == x); assert(mutable_property_bytes@ =~= rest.subrange(2 + be16(rest), rest.len() as int)); }
                if id == 0x1Cu8 { let x = PropBag { strs: bag0.strs.insert(id, lp_string_text(rest)), ..bag0 }; assert(bag_eq(bag1, x)); assert(bag1 == x); assert(mutable_property_bytes@ =~= rest.subrange(2 + be16(rest), rest.len() as int)); }
                if id == 0x15u8 { let x = PropBag { strs: bag0.strs.insert(id, lp_string_text(rest)), ..bag0 }; assert(bag_eq(bag1, x)); assert(bag1 == x); assert(mutable_property_bytes@ =~= rest.subrange(2 + be16(rest), rest.len() as int)); }
                if id == 0x16u8 { let x = PropBag { bins: bag0.bins.insert(id, rest.subrange(2, 2 + be16(rest))), ..bag0 }; assert(bag_eq(bag1, x)); assert(bag1 == x); assert(mutable_property_bytes@ =~= rest.subrange(2 + be16(rest), rest.len() as int)); }
                if id == 0x26u8 {
                    let rest1 = rest.subrange(2 + be16(rest), rest.len() as int);
                    let x = PropBag { users: bag0.users.push((lp_string_text(rest), lp_string_text(rest1))), ..bag0 };
                    assert(bag1.users =~= x.users); assert(bag_eq(bag1, x)); assert(bag1 == x);
                    assert(mutable_property_bytes@ =~= rest1.subrange(2 + be16(rest1), rest1.len() as int));
                }
            }
//@@at before "let property_key = mutable_property_bytes[0];"
        let ghost b0 = mutable_property_bytes@;
        let ghost pk0 = *packet;
//@@at after "mutable_property_bytes = &mutable_property_bytes[1..];"
        let ghost rest_view = mutable_property_bytes@;
//@end


// MQTT 3.1.1 CONNACK return codes (OASIS 3.1.1 table 3.1) and the MQTT 5 reason each is reported as
pub open spec fn connack311_reason(v: u8) -> Option<ConnectReasonCode> {
    if v == 0 { Some(ConnectReasonCode::Success) } else if v == 1 { Some(ConnectReasonCode::UnsupportedProtocolVersion) }
    else if v == 2 { Some(ConnectReasonCode::ClientIdentifierNotValid) } else if v == 3 { Some(ConnectReasonCode::ServerUnavailable) }
    else if v == 4 { Some(ConnectReasonCode::BadUsernameOrPassword) } else if v == 5 { Some(ConnectReasonCode::NotAuthorized) } else { None }
}
//@fn gneiss-mqtt/src/mqtt/mod.rs convert_311_encoding_to_connect_reason_code props=C03
    ensures match connack311_reason(value) { Some(c) => r == Ok::<ConnectReasonCode, GneissError>(c), None => r is Err },
//@end

pub open spec fn empty_bag() -> PropBag {
    PropBag { bytes: Map::empty(), u16s: Map::empty(), u32s: Map::empty(), strs: Map::empty(), bins: Map::empty(), users: Seq::empty(), subids: Seq::empty() }
}
// MQTT 5 CONNACK (OASIS 3.2): fixed header 0x20; Connect Acknowledge Flags (only bit 0 may be set); reason code from table 3.1; a property
// length that accounts for exactly the rest of the packet; the property section
pub open spec fn connack5_spec(first_byte: u8, body: Seq<u8>) -> Option<(bool, u8, PropBag)> {
    if first_byte != 0x20 || body.len() < 2 || body[0] > 1 || !connect_reason_legal(body[1]) { None } else {
        let tail = body.subrange(2, body.len() as int);
        match vbi_len(tail) {
            None => None,
            Some(n) => {
                let props = tail.subrange(n, tail.len() as int);
                if vli_val(tail, n as nat) != props.len() { None } else {
                    match parse_props(props, connack_ids(), empty_bag()) { Some(bag) => Some((body[0] == 1, body[1], bag)), None => None }
                }
            }
        }
    }
}

//@fn gneiss-mqtt/src/mqtt/connack.rs decode_connack_packet5 props=C03,C11
// `Box::as_mut()` is `&mut **self` (std source); Verus has no specification for the AsMut impl of Box (its `T: ?Sized` cannot be compared)
//@@rewrite "box_packet.as_mut()" => "&mut *box_packet"
    ensures
        match connack5_spec(first_byte, packet_body@) {
            Some((sp, rc, bag)) => r matches Ok(b) && (*b matches MqttPacket::Connack(p) && p.session_present == sp && connect_reason_value(p.reason_code) == rc && bag_eq(connack_bag(p), bag)),
            None => r is Err,
        },
//@@at bodystart
    proof { assert(2u8 << 4u8 == 32u8) by (bit_vector); assert(PACKET_TYPE_CONNACK == 2u8); }
//@@at before "mutable_body = decode_vli_into_mutable(mutable_body, &mut properties_length)?;"
        let ghost tail = mutable_body@;
        proof {
            assert(tail =~= packet_body@.subrange(2, packet_body@.len() as int));
            lemma_vbi_len_char(tail);
            assert(connack_bag(*packet) == empty_bag()) by { assert(bag_eq(connack_bag(*packet), empty_bag())); }
        }
//@@at after "mutable_body = decode_vli_into_mutable(mutable_body, &mut properties_length)?;"
        proof {
            let n = vbi_len(tail)->Some_0;
            assert(vbi_len(tail) is Some);
            assert(mutable_body@ =~= tail.subrange(n, tail.len() as int));
            assert(properties_length == vli_val(tail, n as nat));
        }
//@end

//@fn gneiss-mqtt/src/mqtt/connack.rs decode_connack_packet311 props=C03,C11
//@@rewrite "box_packet.as_mut()" => "&mut *box_packet"
    // MQTT 3.1.1 CONNACK (OASIS 3.1.1 section 3.2): fixed header 0x20, exactly two bytes: flags (only bit 0), return code 0..5; no properties
    ensures
        (first_byte == 0x20 && packet_body@.len() == 2 && packet_body@[0] <= 1 && connack311_reason(packet_body@[1]) is Some) ==>
            (r matches Ok(b) && (*b matches MqttPacket::Connack(p) && p.session_present == (packet_body@[0] == 1) && Some(p.reason_code) == connack311_reason(packet_body@[1])
                && bag_eq(connack_bag(p), empty_bag()))),
        !(first_byte == 0x20 && packet_body@.len() == 2 && packet_body@[0] <= 1 && connack311_reason(packet_body@[1]) is Some) ==> r is Err,
//@@at bodystart
    proof { assert(2u8 << 4u8 == 32u8) by (bit_vector); assert(PACKET_TYPE_CONNACK == 2u8); }
//@end

// =====================================================================================================
// PUBLISH decoding (C03): property section per OASIS 3.3.2.3, packet layout per 3.3
// =====================================================================================================
//@const gneiss-mqtt/src/mqtt/utils.rs PROPERTY_KEY_PAYLOAD_FORMAT_INDICATOR
//@const gneiss-mqtt/src/mqtt/utils.rs PROPERTY_KEY_MESSAGE_EXPIRY_INTERVAL
//@const gneiss-mqtt/src/mqtt/utils.rs PROPERTY_KEY_TOPIC_ALIAS
//@const gneiss-mqtt/src/mqtt/utils.rs PROPERTY_KEY_RESPONSE_TOPIC
//@const gneiss-mqtt/src/mqtt/utils.rs PROPERTY_KEY_CORRELATION_DATA
//@const gneiss-mqtt/src/mqtt/utils.rs PROPERTY_KEY_SUBSCRIPTION_IDENTIFIER
//@const gneiss-mqtt/src/mqtt/utils.rs PROPERTY_KEY_CONTENT_TYPE
//@const gneiss-mqtt/src/mqtt/utils.rs PUBLISH_PACKET_FIXED_HEADER_DUPLICATE_FLAG
//@const gneiss-mqtt/src/mqtt/utils.rs PUBLISH_PACKET_FIXED_HEADER_RETAIN_FLAG
//@const gneiss-mqtt/src/mqtt/utils.rs QOS_MASK

impl PayloadFormatIndicator {
//@fn gneiss-mqtt/src/mqtt/mod.rs try_from props=C03 impl={TryFrom<u8> for PayloadFormatIndicator} as=try_from
    ensures value <= 1 ==> (r matches Ok(f) && pfi_byte(Some(f)) == Some(value)), value > 1 ==> r is Err,
//@end
}
pub open spec fn pfi_byte(o: Option<PayloadFormatIndicator>) -> Option<u8> {
    match o { Some(PayloadFormatIndicator::Bytes) => Some(0u8), Some(PayloadFormatIndicator::Utf8) => Some(1u8), None => None }
}
pub open spec fn publish_ids() -> Set<u8> { set![0x01u8, 0x02u8, 0x23u8, 0x08u8, 0x09u8, 0x0Bu8, 0x26u8, 0x03u8] }
pub open spec fn publish_bag(p: PublishPacket) -> PropBag {
    PropBag {
        bytes: put(Map::<u8, u8>::empty(), 0x01u8, pfi_byte(p.payload_format)),
        u16s: put(Map::<u8, u16>::empty(), 0x23u8, p.topic_alias),
        u32s: put(Map::<u8, u32>::empty(), 0x02u8, p.message_expiry_interval_seconds),
        strs: put(put(Map::<u8, Seq<char>>::empty(), 0x08u8, text(p.response_topic)), 0x03u8, text(p.content_type)),
        bins: put(Map::<u8, Seq<u8>>::empty(), 0x09u8, blob(p.correlation_data)),
        users: user_seq(p.user_properties),
        subids: match p.subscription_identifiers { Some(v) => v@, None => Seq::empty() },
    }
}
// the fields of a PUBLISH that are not properties
pub open spec fn publish_header_same(a: PublishPacket, b: PublishPacket) -> bool {
    a.packet_id == b.packet_id && a.topic@ == b.topic@ && a.qos == b.qos && a.duplicate == b.duplicate && a.retain == b.retain && blob(a.payload) == blob(b.payload)
}

//@fn gneiss-mqtt/src/mqtt/publish.rs decode_publish_properties props=C03,C11
    ensures
        publish_header_same(*old(packet), *final(packet)),
        match parse_props(property_bytes@, publish_ids(), publish_bag(*old(packet))) {
            Some(bag) => r is Ok && bag_eq(publish_bag(*final(packet)), bag),
            None => r is Err,
        },
//@@loop 0
        invariant
            publish_header_same(*old(packet), *packet),
            parse_props(property_bytes@, publish_ids(), publish_bag(*old(packet))) == parse_props(mutable_property_bytes@, publish_ids(), publish_bag(*packet)),
        decreases mutable_property_bytes@.len(),
//@@bodyend_of_loop 0
            proof {
                let rest = b0.subrange(1, b0.len() as int);
                let bag0 = publish_bag(pk0); let bag1 = publish_bag(*packet); let id = b0[0];
                assert(rest_view == rest);
                if id == 0x01u8 { let x = PropBag { bytes: bag0.bytes.insert(id, rest[0]), ..bag0 }; assert(bag_eq(bag1, x)); assert(bag1 == x); assert(mutable_property_bytes@ =~= rest.subrange(1, rest.len() as int)); }
                if id == 0x02u8 { let x = PropBag { u32s: bag0.u32s.insert(id, be32(rest) as u32), ..bag0 }; assert(bag_eq(bag1, x)); assert(bag1 == x); assert(mutable_property_bytes@ =~= rest.subrange(4, rest.len() as int)); }
                if id == 0x23u8 { let x = PropBag { u16s: bag0.u16s.insert(id, be16(rest) as u16), ..bag0 }; assert(bag_eq(bag1, x)); assert(bag1 == x); assert(mutable_property_bytes@ =~= rest.subrange(2, rest.len() as int)); }
                if id == 0x08u8 || id == 0x03u8 { let x = PropBag { strs: bag0.strs.insert(id, lp_string_text(rest)), ..bag0 }; assert(bag_eq(bag1, x)); assert(bag1 == x); assert(mutable_property_bytes@ =~= rest.subrange(2 + be16(rest), rest.len() as int)); }
                if id == 0x09u8 { let x = PropBag { bins: bag0.bins.insert(id, rest.subrange(2, 2 + be16(rest))), ..bag0 }; assert(bag_eq(bag1, x)); assert(bag1 == x); assert(mutable_property_bytes@ =~= rest.subrange(2 + be16(rest), rest.len() as int)); }
                if id == 0x26u8 {
                    let rest1 = rest.subrange(2 + be16(rest), rest.len() as int);
                    let x = PropBag { users: bag0.users.push((lp_string_text(rest), lp_string_text(rest1))), ..bag0 };
                    assert(bag1.users =~= x.users); assert(bag_eq(bag1, x)); assert(bag1 == x);
                    assert(mutable_property_bytes@ =~= rest1.subrange(2 + be16(rest1), rest1.len() as int));
                }
                if id == 0x0Bu8 {
                    lemma_vbi_len_char(rest);
                    let n = vbi_len(rest)->Some_0;
                    let x = PropBag { subids: bag0.subids.push(vli_val(rest, n as nat) as u32), ..bag0 };
                    assert(bag1.subids =~= x.subids); assert(bag_eq(bag1, x)); assert(bag1 == x);
                    assert(mutable_property_bytes@ =~= rest.subrange(n, rest.len() as int));
                }
            }
//@@at before "let property_key = mutable_property_bytes[0];"
        let ghost b0 = mutable_property_bytes@;
        let ghost pk0 = *packet;
//@@at after "mutable_property_bytes = &mutable_property_bytes[1..];"
        let ghost rest_view = mutable_property_bytes@;
        proof { lemma_vbi_len_char(rest_view); }
//@end

// std docs: slice::to_vec copies the slice into a new Vec (used on u8 only: Clone of u8 is a copy)
pub assume_specification<T: Clone> [<[T]>::to_vec] (s: &[T]) -> (r: Vec<T>)
    ensures r@.len() == s@.len(), (forall|i: int| 0 <= i < s@.len() ==> vstd::pervasive::cloned(s@[i], #[trigger] r@[i]));

// what a PUBLISH says (OASIS 3.3): flags of the fixed header, topic name, packet identifier (QoS > 0 only), properties, payload
pub struct PubView { pub dup: bool, pub qos: u8, pub retain: bool, pub topic: Seq<char>, pub packet_id: int, pub bag: PropBag, pub payload: Seq<u8> }
pub open spec fn publish_spec(first_byte: u8, body: Seq<u8>, v5: bool) -> Option<PubView> {
    let qos = (first_byte >> 1u8) & 3u8;
    if qos == 3 || !lp_string_ok(body) { None } else {
        let r1 = body.subrange(2 + be16(body), body.len() as int);
        if qos > 0 && r1.len() < 2 { None } else {
            let pid = if qos > 0 { be16(r1) } else { 0int };
            let r2 = if qos > 0 { r1.subrange(2, r1.len() as int) } else { r1 };
            let head = PubView { dup: (first_byte & 8u8) != 0, qos, retain: (first_byte & 1u8) != 0, topic: lp_string_text(body), packet_id: pid, bag: empty_bag(), payload: r2 };
            if !v5 { Some(head) } else {
                match vbi_len(r2) {
                    None => None,
                    Some(n) => {
                        let r3 = r2.subrange(n, r2.len() as int);
                        let plen = vli_val(r2, n as nat) as int;
                        if plen > r3.len() { None } else {
                            match parse_props(r3.subrange(0, plen), publish_ids(), empty_bag()) {
                                Some(bag) => Some(PubView { bag, payload: r3.subrange(plen, r3.len() as int), ..head }),
                                None => None,
                            }
                        }
                    }
                }
            }
        }
    }
}
pub open spec fn publish_matches(p: PublishPacket, v: PubView) -> bool {
    &&& p.duplicate == v.dup && p.retain == v.retain && qos_byte(Some(p.qos)) == Some(v.qos)
    &&& p.topic@ == v.topic && p.packet_id as int == v.packet_id
    &&& bag_eq(publish_bag(p), v.bag)
    // an empty payload is reported as "no payload"
    &&& blob(p.payload) == (if v.payload.len() == 0 { None::<Seq<u8>> } else { Some(v.payload) })
}

//@fn gneiss-mqtt/src/mqtt/publish.rs decode_publish_packet5 props=C03,C11
//@@rewrite "box_packet.as_mut()" => "&mut *box_packet"
    ensures
        match publish_spec(first_byte, packet_body@, true) {
            Some(v) => r matches Ok(b) && (*b matches MqttPacket::Publish(p) && publish_matches(p, v)),
            None => r is Err,
        },
//@@at bodystart
    proof {
        assert(((first_byte >> 1u8) & 3u8) <= 3u8) by (bit_vector);
        assert(QOS_MASK == 3u8 && PUBLISH_PACKET_FIXED_HEADER_DUPLICATE_FLAG == 8u8 && PUBLISH_PACKET_FIXED_HEADER_RETAIN_FLAG == 1u8);
    }
//@@at before "packet.qos = QualityOfService::try_from((first_byte >> 1) & QOS_MASK)?;"
        let ghost p_init = *packet;
        proof { assert(bag_eq(publish_bag(p_init), empty_bag())); }
//@@at before "mutable_body = decode_length_prefixed_string(mutable_body, &mut packet.topic)?;"
        let ghost qosb = (first_byte >> 1u8) & 3u8;
        proof { assert(qos_byte(Some(packet.qos)) == Some(qosb)); }
//@@at after "mutable_body = decode_length_prefixed_string(mutable_body, &mut packet.topic)?;"
        let ghost r1 = mutable_body@;
        proof { assert(r1 =~= packet_body@.subrange(2 + be16(packet_body@), packet_body@.len() as int)); }
//@@at before "mutable_body = decode_vli_into_mutable(mutable_body, &mut properties_length)?;"
        let ghost r2 = mutable_body@;
        proof {
            assert(r2 =~= (if qosb > 0 { r1.subrange(2, r1.len() as int) } else { r1 }));
            lemma_vbi_len_char(r2);
            assert(publish_bag(*packet) == empty_bag()) by { assert(bag_eq(publish_bag(*packet), empty_bag())); }
        }
//@@at after "mutable_body = decode_vli_into_mutable(mutable_body, &mut properties_length)?;"
        let ghost r3 = mutable_body@;
        proof {
            let n = vbi_len(r2)->Some_0;
            assert(vbi_len(r2) is Some);
            assert(r3 =~= r2.subrange(n, r2.len() as int));
            assert(properties_length == vli_val(r2, n as nat));
        }
//@@at after "let payload_bytes = &mutable_body[properties_length..];"
        proof {
            assert(properties_bytes@ =~= r3.subrange(0, properties_length as int));
            assert(payload_bytes@ =~= r3.subrange(properties_length as int, r3.len() as int));
        }
//@@at before "return Ok(box_packet);"
        proof {
            let v = publish_spec(first_byte, packet_body@, true)->Some_0;
            assert(publish_spec(first_byte, packet_body@, true) is Some);
            if payload_bytes@.len() > 0 { assert(packet.payload->Some_0@ =~= payload_bytes@); }
            assert(publish_matches(*packet, v));
        }
//@end

//@fn gneiss-mqtt/src/mqtt/publish.rs decode_publish_packet311 props=C03,C11
//@@rewrite "box_packet.as_mut()" => "&mut *box_packet"
    ensures
        match publish_spec(first_byte, packet_body@, false) {
            Some(v) => r matches Ok(b) && (*b matches MqttPacket::Publish(p) && publish_matches(p, v)),
            None => r is Err,
        },
//@@at bodystart
    proof {
        assert(((first_byte >> 1u8) & 3u8) <= 3u8) by (bit_vector);
        assert(QOS_MASK == 3u8 && PUBLISH_PACKET_FIXED_HEADER_DUPLICATE_FLAG == 8u8 && PUBLISH_PACKET_FIXED_HEADER_RETAIN_FLAG == 1u8);
    }
//@@at before "packet.qos = QualityOfService::try_from((first_byte >> 1) & QOS_MASK)?;"
        let ghost p_init = *packet;
        proof { assert(bag_eq(publish_bag(p_init), empty_bag())); }
//@@at before "mutable_body = decode_length_prefixed_string(mutable_body, &mut packet.topic)?;"
        let ghost qosb = (first_byte >> 1u8) & 3u8;
        proof { assert(qos_byte(Some(packet.qos)) == Some(qosb)); }
//@@at after "mutable_body = decode_length_prefixed_string(mutable_body, &mut packet.topic)?;"
        let ghost r1 = mutable_body@;
        proof { assert(r1 =~= packet_body@.subrange(2 + be16(packet_body@), packet_body@.len() as int)); }
//@@at before "if !mutable_body.is_empty() {"
        let ghost r2 = mutable_body@;
        proof { assert(r2 =~= (if qosb > 0 { r1.subrange(2, r1.len() as int) } else { r1 })); }
//@@at before "return Ok(box_packet);"
        proof {
            let v = publish_spec(first_byte, packet_body@, false)->Some_0;
            assert(publish_spec(first_byte, packet_body@, false) is Some);
            if r2.len() > 0 { assert(packet.payload->Some_0@ =~= r2); }
            assert(publish_matches(*packet, v));
        }
//@end

// =====================================================================================================
// SUBACK decoding (C03, C01: one reason code per byte of the payload): OASIS 3.9
// =====================================================================================================
//@const gneiss-mqtt/src/mqtt/utils.rs PACKET_TYPE_SUBACK
//@const gneiss-mqtt/src/mqtt/utils.rs SUBACK_FIRST_BYTE
pub open spec fn suback_reason_value(c: SubackReasonCode) -> u8 {
    match c {
        SubackReasonCode::GrantedQos0 => 0u8,
        SubackReasonCode::GrantedQos1 => 1u8,
        SubackReasonCode::GrantedQos2 => 2u8,
        SubackReasonCode::UnspecifiedError => 128u8,
        SubackReasonCode::ImplementationSpecificError => 131u8,
        SubackReasonCode::NotAuthorized => 135u8,
        SubackReasonCode::TopicFilterInvalid => 143u8,
        SubackReasonCode::PacketIdentifierInUse => 145u8,
        SubackReasonCode::QuotaExceeded => 151u8,
        SubackReasonCode::SharedSubscriptionsNotSupported => 158u8,
        SubackReasonCode::SubscriptionIdentifiersNotSupported => 161u8,
        SubackReasonCode::WildcardSubscriptionsNotSupported => 162u8,
    }
}
pub open spec fn suback_reason_legal(v: u8) -> bool { v <= 2 || v == 128 || v == 131 || v == 135 || v == 143 || v == 145 || v == 151 || v == 158 || v == 161 || v == 162 }
impl SubackReasonCode {
//@fn gneiss-mqtt/src/mqtt/mod.rs try_from props=C03 impl={TryFrom<u8> for SubackReasonCode} as=try_from
    ensures suback_reason_legal(value) ==> (r matches Ok(c) && suback_reason_value(c) == value), !suback_reason_legal(value) ==> r is Err,
//@end
}
// MQTT 3.1.1 SUBACK return codes (OASIS 3.1.1 section 3.9.3): 0, 1, 2, 0x80
//@fn gneiss-mqtt/src/mqtt/mod.rs convert_311_encoding_to_suback_reason_code props=C03
    ensures (value <= 2 || value == 128) ==> (r matches Ok(c) && suback_reason_value(c) == value), !(value <= 2 || value == 128) ==> r is Err,
//@end

pub open spec fn suback_ids() -> Set<u8> { set![0x1Fu8, 0x26u8] }
pub open spec fn suback_bag(p: SubackPacket) -> PropBag {
    PropBag { strs: put(Map::<u8, Seq<char>>::empty(), 0x1Fu8, text(p.reason_string)), users: user_seq(p.user_properties), ..empty_bag() }
}

//@fn gneiss-mqtt/src/mqtt/suback.rs decode_suback_properties props=C03,C11
    ensures
        final(packet).packet_id == old(packet).packet_id, final(packet).reason_codes@ == old(packet).reason_codes@,
        match parse_props(property_bytes@, suback_ids(), suback_bag(*old(packet))) {
            Some(bag) => r is Ok && bag_eq(suback_bag(*final(packet)), bag),
            None => r is Err,
        },
//@@loop 0
        invariant
            packet.packet_id == old(packet).packet_id, packet.reason_codes@ == old(packet).reason_codes@,
            parse_props(property_bytes@, suback_ids(), suback_bag(*old(packet))) == parse_props(mutable_property_bytes@, suback_ids(), suback_bag(*packet)),
        decreases mutable_property_bytes@.len(),
//@@bodyend_of_loop 0
            proof {
                let rest = b0.subrange(1, b0.len() as int);
                let bag0 = suback_bag(pk0); let bag1 = suback_bag(*packet); let id = b0[0];
                assert(rest_view == rest);
                if id == 0x1Fu8 { let x = PropBag { strs: bag0.strs.insert(id, lp_string_text(rest)), ..bag0 }; assert(bag_eq(bag1, x)); assert(bag1 == x); assert(mutable_property_bytes@ =~= rest.subrange(2 + be16(rest), rest.len() as int)); }
                if id == 0x26u8 {
                    let rest1 = rest.subrange(2 + be16(rest), rest.len() as int);
                    let x = PropBag { users: bag0.users.push((lp_string_text(rest), lp_string_text(rest1))), ..bag0 };
                    assert(bag1.users =~= x.users); assert(bag_eq(bag1, x)); assert(bag1 == x);
                    assert(mutable_property_bytes@ =~= rest1.subrange(2 + be16(rest1), rest1.len() as int));
                }
            }
//@@at before "let property_key = mutable_property_bytes[0];"
        let ghost b0 = mutable_property_bytes@;
        let ghost pk0 = *packet;
//@@at after "mutable_property_bytes = &mutable_property_bytes[1..];"
        let ghost rest_view = mutable_property_bytes@;
//@end

// what a SUBACK says (OASIS 3.9): packet identifier, properties (MQTT 5), one reason code per payload byte
pub struct SubackView { pub packet_id: int, pub bag: PropBag, pub codes: Seq<u8> }
// everything but the legality of the individual reason codes
pub open spec fn suback_head(first_byte: u8, body: Seq<u8>, v5: bool) -> Option<SubackView> {
    if first_byte != 0x90 || body.len() < 2 { None } else {
        let r2 = body.subrange(2, body.len() as int);
        if !v5 { Some(SubackView { packet_id: be16(body), bag: empty_bag(), codes: r2 }) } else {
            match vbi_len(r2) {
                None => None,
                Some(n) => {
                    let r3 = r2.subrange(n, r2.len() as int);
                    let plen = vli_val(r2, n as nat) as int;
                    if plen > r3.len() { None } else {
                        match parse_props(r3.subrange(0, plen), suback_ids(), empty_bag()) {
                            Some(bag) => Some(SubackView { packet_id: be16(body), bag, codes: r3.subrange(plen, r3.len() as int) }),
                            None => None,
                        }
                    }
                }
            }
        }
    }
}
pub open spec fn suback_code_legal(v: u8, v5: bool) -> bool { if v5 { suback_reason_legal(v) } else { v <= 2 || v == 128 } }
pub open spec fn suback_spec(first_byte: u8, body: Seq<u8>, v5: bool) -> Option<SubackView> {
    match suback_head(first_byte, body, v5) {
        Some(h) => if forall|i: int| 0 <= i < h.codes.len() ==> suback_code_legal(#[trigger] h.codes[i], v5) { Some(h) } else { None },
        None => None,
    }
}
pub open spec fn suback_matches(p: SubackPacket, v: SubackView) -> bool {
    &&& p.packet_id as int == v.packet_id && bag_eq(suback_bag(p), v.bag)
    // C01: "holding one reason code per requested entry" starts here - one decoded code per payload byte, in order
    &&& p.reason_codes@.len() == v.codes.len()
    &&& forall|i: int| 0 <= i < v.codes.len() ==> suback_reason_value(#[trigger] p.reason_codes@[i]) == v.codes[i]
}

//@fn gneiss-mqtt/src/mqtt/suback.rs decode_suback_packet5 props=C03,C11,C01 desugar
//@@rewrite "box_packet.as_mut()" => "&mut *box_packet"
    ensures
        match suback_spec(first_byte, packet_body@, true) {
            Some(v) => r matches Ok(b) && (*b matches MqttPacket::Suback(p) && suback_matches(p, v)),
            None => r is Err,
        },
//@@loop 0 iter=it
            invariant it.seq().unref() =~= payload_bytes@, reason_code_count == payload_bytes@.len(), verif_taken0 == it.index@,
                suback_head(first_byte, packet_body@, true) matches Some(h) && h.codes == payload_bytes@,
                packet.reason_codes@.len() == it.index@,
                forall|j: int| 0 <= j < it.index@ ==> suback_reason_legal(#[trigger] payload_bytes@[j]),
                forall|j: int| 0 <= j < it.index@ ==> suback_reason_value(#[trigger] packet.reason_codes@[j]) == payload_bytes@[j],
                it.index@ == it.seq().len() ==> (packet.reason_codes@.len() == payload_bytes@.len()
                    && (forall|j: int| 0 <= j < payload_bytes@.len() ==> suback_reason_legal(#[trigger] payload_bytes@[j]))
                    && (forall|j: int| 0 <= j < payload_bytes@.len() ==> suback_reason_value(#[trigger] packet.reason_codes@[j]) == payload_bytes@[j])),
                packet.packet_id == pk1.packet_id, packet.reason_string == pk1.reason_string, packet.user_properties == pk1.user_properties,
//@@at bodystart
    proof { assert(9u8 << 4u8 == 0x90u8) by (bit_vector); assert(PACKET_TYPE_SUBACK == 9u8 && SUBACK_FIRST_BYTE == 0x90u8); }
//@@at before "mutable_body = decode_vli_into_mutable(mutable_body, &mut properties_length)?;"
        let ghost r2 = mutable_body@;
        proof {
            assert(r2 =~= packet_body@.subrange(2, packet_body@.len() as int));
            lemma_vbi_len_char(r2);
            assert(suback_bag(*packet) == empty_bag()) by { assert(bag_eq(suback_bag(*packet), empty_bag())); }
        }
//@@at after "mutable_body = decode_vli_into_mutable(mutable_body, &mut properties_length)?;"
        let ghost r3 = mutable_body@;
        proof {
            let n = vbi_len(r2)->Some_0;
            assert(vbi_len(r2) is Some);
            assert(r3 =~= r2.subrange(n, r2.len() as int));
            assert(properties_length == vli_val(r2, n as nat));
        }
//@@at after "let payload_bytes = &mutable_body[properties_length..];"
        proof {
            assert(properties_bytes@ =~= r3.subrange(0, properties_length as int));
            assert(payload_bytes@ =~= r3.subrange(properties_length as int, r3.len() as int));
        }
//@@at after "packet.reason_codes.reserve(reason_code_count);"
        let ghost pk1 = *packet;
        proof {
            let n = vbi_len(r2)->Some_0;
            assert(first_byte == 0x90 && packet_body@.len() >= 2);
            assert(vbi_len(r2) is Some && r3 == r2.subrange(n, r2.len() as int) && properties_length as int == vli_val(r2, n as nat) as int);
            assert(parse_props(r3.subrange(0, properties_length as int), suback_ids(), empty_bag()) is Some);
            assert(suback_head(first_byte, packet_body@, true) is Some);
            assert(suback_head(first_byte, packet_body@, true)->Some_0.codes == payload_bytes@);
        }
//@@at before "return Ok(box_packet);"
        proof {
            let n = vbi_len(r2)->Some_0;
            let codes = r3.subrange(properties_length as int, r3.len() as int);
            assert(first_byte == 0x90 && packet_body@.len() >= 2);
            assert(vbi_len(r2) is Some && r3 == r2.subrange(n, r2.len() as int) && properties_length as int == vli_val(r2, n as nat) as int);
            assert(codes == payload_bytes@);
            assert(parse_props(r3.subrange(0, properties_length as int), suback_ids(), empty_bag()) is Some);
            assert forall|i: int| 0 <= i < codes.len() implies suback_code_legal(#[trigger] codes[i], true) by { assert(suback_reason_legal(payload_bytes@[i])); }
            let v = suback_spec(first_byte, packet_body@, true)->Some_0;
            assert(suback_spec(first_byte, packet_body@, true) is Some);
            assert(packet.packet_id as int == be16(packet_body@));
            assert(bag_eq(suback_bag(*packet), v.bag));
            assert(suback_matches(*packet, v));
        }
//@@at before "packet.reason_codes.push(SubackReasonCode::try_from(*payload_byte)?);"
            let ghost codes_pre = packet.reason_codes@;
            proof {
                let i0 = it.index@ as int;
                assert(it.seq().unref()[i0] == *payload_byte);
                assert(payload_bytes@[i0] == *payload_byte);
            }
//@@at after "packet.reason_codes.push(SubackReasonCode::try_from(*payload_byte)?);"
            proof {
                let i0 = it.index@ as int;
                assert(packet.reason_codes@ == codes_pre.push(packet.reason_codes@[i0]));
                assert(suback_reason_value(packet.reason_codes@[i0]) == *payload_byte);
                assert forall|j: int| 0 <= j < i0 + 1 implies suback_reason_value(#[trigger] packet.reason_codes@[j]) == payload_bytes@[j] by {
                    if j < i0 { assert(packet.reason_codes@[j] == codes_pre[j]); assert(suback_reason_value(codes_pre[j]) == payload_bytes@[j]); }
                }
            }
//@end

//@fn gneiss-mqtt/src/mqtt/suback.rs decode_suback_packet311 props=C03,C11,C01 desugar
//@@rewrite "box_packet.as_mut()" => "&mut *box_packet"
    ensures
        match suback_spec(first_byte, packet_body@, false) {
            Some(v) => r matches Ok(b) && (*b matches MqttPacket::Suback(p) && suback_matches(p, v)),
            None => r is Err,
        },
//@@loop 0 iter=it
            invariant it.seq().unref() =~= mutable_body@, reason_code_count == mutable_body@.len(), verif_taken0 == it.index@,
                suback_head(first_byte, packet_body@, false) matches Some(h) && h.codes == mutable_body@,
                packet.reason_codes@.len() == it.index@,
                forall|j: int| 0 <= j < it.index@ ==> (#[trigger] mutable_body@[j] <= 2 || mutable_body@[j] == 128),
                forall|j: int| 0 <= j < it.index@ ==> suback_reason_value(#[trigger] packet.reason_codes@[j]) == mutable_body@[j],
                it.index@ == it.seq().len() ==> (packet.reason_codes@.len() == mutable_body@.len()
                    && (forall|j: int| 0 <= j < mutable_body@.len() ==> (#[trigger] mutable_body@[j] <= 2 || mutable_body@[j] == 128))
                    && (forall|j: int| 0 <= j < mutable_body@.len() ==> suback_reason_value(#[trigger] packet.reason_codes@[j]) == mutable_body@[j])),
                packet.packet_id == pk1.packet_id, packet.reason_string == pk1.reason_string, packet.user_properties == pk1.user_properties,
//@@at bodystart
    proof { assert(9u8 << 4u8 == 0x90u8) by (bit_vector); assert(PACKET_TYPE_SUBACK == 9u8 && SUBACK_FIRST_BYTE == 0x90u8); }
//@@at after "packet.reason_codes.reserve(reason_code_count);"
        let ghost pk1 = *packet;
        proof { assert(mutable_body@ =~= packet_body@.subrange(2, packet_body@.len() as int)); assert(bag_eq(suback_bag(*packet), empty_bag())); }
//@@at before "return Ok(box_packet);"
        proof {
            let r2 = packet_body@.subrange(2, packet_body@.len() as int);
            assert(first_byte == 0x90 && packet_body@.len() >= 2);
            assert(r2 == mutable_body@);
            assert forall|i: int| 0 <= i < r2.len() implies suback_code_legal(#[trigger] r2[i], false) by { assert(mutable_body@[i] <= 2 || mutable_body@[i] == 128); }
            let v = suback_spec(first_byte, packet_body@, false)->Some_0;
            assert(suback_spec(first_byte, packet_body@, false) is Some);
            assert(packet.packet_id as int == be16(packet_body@));
            assert(bag_eq(suback_bag(*packet), v.bag));
            assert(suback_matches(*packet, v));
        }
//@@at before "packet.reason_codes.push(convert_311_encoding_to_suback_reason_code(*payload_byte)?);"
            let ghost codes_pre = packet.reason_codes@;
            proof {
                let i0 = it.index@ as int;
                assert(it.seq().unref()[i0] == *payload_byte);
                assert(mutable_body@[i0] == *payload_byte);
            }
//@@at after "packet.reason_codes.push(convert_311_encoding_to_suback_reason_code(*payload_byte)?);"
            proof {
                let i0 = it.index@ as int;
                assert(packet.reason_codes@ == codes_pre.push(packet.reason_codes@[i0]));
                assert(suback_reason_value(packet.reason_codes@[i0]) == *payload_byte);
                assert forall|j: int| 0 <= j < i0 + 1 implies suback_reason_value(#[trigger] packet.reason_codes@[j]) == mutable_body@[j] by {
                    if j < i0 { assert(packet.reason_codes@[j] == codes_pre[j]); assert(suback_reason_value(codes_pre[j]) == mutable_body@[j]); }
                }
            }
//@end

// =====================================================================================================
// UNSUBACK decoding (C03, C01: one reason code per byte of the payload): OASIS 3.11
// =====================================================================================================
//@const gneiss-mqtt/src/mqtt/utils.rs PACKET_TYPE_UNSUBACK
//@const gneiss-mqtt/src/mqtt/utils.rs UNSUBACK_FIRST_BYTE
pub open spec fn unsuback_reason_value(c: UnsubackReasonCode) -> u8 {
    match c {
        UnsubackReasonCode::Success => 0u8,
        UnsubackReasonCode::NoSubscriptionExisted => 17u8,
        UnsubackReasonCode::UnspecifiedError => 128u8,
        UnsubackReasonCode::ImplementationSpecificError => 131u8,
        UnsubackReasonCode::NotAuthorized => 135u8,
        UnsubackReasonCode::TopicFilterInvalid => 143u8,
        UnsubackReasonCode::TopicNameInvalid => 144u8,
        UnsubackReasonCode::PacketIdentifierInUse => 145u8,
    }
}
// OASIS 3.11.3 lists 0x00, 0x11, 0x80, 0x83, 0x87, 0x8F, 0x91; this client also accepts 0x90 (Topic Name Invalid) - noted over-acceptance
pub open spec fn unsuback_reason_legal(v: u8) -> bool { v == 0 || v == 17 || v == 128 || v == 131 || v == 135 || v == 143 || v == 144 || v == 145 }
impl UnsubackReasonCode {
//@fn gneiss-mqtt/src/mqtt/mod.rs try_from props=C03 impl={TryFrom<u8> for UnsubackReasonCode} as=try_from
    ensures unsuback_reason_legal(value) ==> (r matches Ok(c) && unsuback_reason_value(c) == value), !unsuback_reason_legal(value) ==> r is Err,
//@end
}
pub open spec fn unsuback_ids() -> Set<u8> { set![0x1Fu8, 0x26u8] }
pub open spec fn unsuback_bag(p: UnsubackPacket) -> PropBag {
    PropBag { strs: put(Map::<u8, Seq<char>>::empty(), 0x1Fu8, text(p.reason_string)), users: user_seq(p.user_properties), ..empty_bag() }
}

//@fn gneiss-mqtt/src/mqtt/unsuback.rs decode_unsuback_properties props=C03,C11
    ensures
        final(packet).packet_id == old(packet).packet_id, final(packet).reason_codes@ == old(packet).reason_codes@,
        match parse_props(property_bytes@, unsuback_ids(), unsuback_bag(*old(packet))) {
            Some(bag) => r is Ok && bag_eq(unsuback_bag(*final(packet)), bag),
            None => r is Err,
        },
//@@loop 0
        invariant
            packet.packet_id == old(packet).packet_id, packet.reason_codes@ == old(packet).reason_codes@,
            parse_props(property_bytes@, unsuback_ids(), unsuback_bag(*old(packet))) == parse_props(mutable_property_bytes@, unsuback_ids(), unsuback_bag(*packet)),
        decreases mutable_property_bytes@.len(),
//@@bodyend_of_loop 0
            proof {
                let rest = b0.subrange(1, b0.len() as int);
                let bag0 = unsuback_bag(pk0); let bag1 = unsuback_bag(*packet); let id = b0[0];
                assert(rest_view == rest);
                if id == 0x1Fu8 { let x = PropBag { strs: bag0.strs.insert(id, lp_string_text(rest)), ..bag0 }; assert(bag_eq(bag1, x)); assert(bag1 == x); assert(mutable_property_bytes@ =~= rest.subrange(2 + be16(rest), rest.len() as int)); }
                if id == 0x26u8 {
                    let rest1 = rest.subrange(2 + be16(rest), rest.len() as int);
                    let x = PropBag { users: bag0.users.push((lp_string_text(rest), lp_string_text(rest1))), ..bag0 };
                    assert(bag1.users =~= x.users); assert(bag_eq(bag1, x)); assert(bag1 == x);
                    assert(mutable_property_bytes@ =~= rest1.subrange(2 + be16(rest1), rest1.len() as int));
                }
            }
//@@at before "let property_key = mutable_property_bytes[0];"
        let ghost b0 = mutable_property_bytes@;
        let ghost pk0 = *packet;
//@@at after "mutable_property_bytes = &mutable_property_bytes[1..];"
        let ghost rest_view = mutable_property_bytes@;
//@end

// what a SUBACK says (OASIS 3.9): packet identifier, properties (MQTT 5), one reason code per payload byte
pub struct UnsubackView { pub packet_id: int, pub bag: PropBag, pub codes: Seq<u8> }
// everything but the legality of the individual reason codes
pub open spec fn unsuback_head(first_byte: u8, body: Seq<u8>, v5: bool) -> Option<UnsubackView> {
    if first_byte != 0xB0 || body.len() < 2 { None } else {
        let r2 = body.subrange(2, body.len() as int);
        if !v5 { if body.len() == 2 { Some(UnsubackView { packet_id: be16(body), bag: empty_bag(), codes: Seq::empty() }) } else { None } } else {
            match vbi_len(r2) {
                None => None,
                Some(n) => {
                    let r3 = r2.subrange(n, r2.len() as int);
                    let plen = vli_val(r2, n as nat) as int;
                    if plen > r3.len() { None } else {
                        match parse_props(r3.subrange(0, plen), unsuback_ids(), empty_bag()) {
                            Some(bag) => Some(UnsubackView { packet_id: be16(body), bag, codes: r3.subrange(plen, r3.len() as int) }),
                            None => None,
                        }
                    }
                }
            }
        }
    }
}
pub open spec fn unsuback_code_legal(v: u8, v5: bool) -> bool { unsuback_reason_legal(v) }
pub open spec fn unsuback_spec(first_byte: u8, body: Seq<u8>, v5: bool) -> Option<UnsubackView> {
    match unsuback_head(first_byte, body, v5) {
        Some(h) => if forall|i: int| 0 <= i < h.codes.len() ==> unsuback_code_legal(#[trigger] h.codes[i], v5) { Some(h) } else { None },
        None => None,
    }
}
pub open spec fn unsuback_matches(p: UnsubackPacket, v: UnsubackView) -> bool {
    &&& p.packet_id as int == v.packet_id && bag_eq(unsuback_bag(p), v.bag)
    // C01: "holding one reason code per requested entry" starts here - one decoded code per payload byte, in order
    &&& p.reason_codes@.len() == v.codes.len()
    &&& forall|i: int| 0 <= i < v.codes.len() ==> unsuback_reason_value(#[trigger] p.reason_codes@[i]) == v.codes[i]
}

//@fn gneiss-mqtt/src/mqtt/unsuback.rs decode_unsuback_packet5 props=C03,C11,C01 desugar
//@@rewrite "box_packet.as_mut()" => "&mut *box_packet"
    ensures
        match unsuback_spec(first_byte, packet_body@, true) {
            Some(v) => r matches Ok(b) && (*b matches MqttPacket::Unsuback(p) && unsuback_matches(p, v)),
            None => r is Err,
        },
//@@loop 0 iter=it
            invariant it.seq().unref() =~= payload_bytes@, reason_code_count == payload_bytes@.len(), verif_taken0 == it.index@,
                unsuback_head(first_byte, packet_body@, true) matches Some(h) && h.codes == payload_bytes@,
                packet.reason_codes@.len() == it.index@,
                forall|j: int| 0 <= j < it.index@ ==> unsuback_reason_legal(#[trigger] payload_bytes@[j]),
                forall|j: int| 0 <= j < it.index@ ==> unsuback_reason_value(#[trigger] packet.reason_codes@[j]) == payload_bytes@[j],
                it.index@ == it.seq().len() ==> (packet.reason_codes@.len() == payload_bytes@.len()
                    && (forall|j: int| 0 <= j < payload_bytes@.len() ==> unsuback_reason_legal(#[trigger] payload_bytes@[j]))
                    && (forall|j: int| 0 <= j < payload_bytes@.len() ==> unsuback_reason_value(#[trigger] packet.reason_codes@[j]) == payload_bytes@[j])),
                packet.packet_id == pk1.packet_id, packet.reason_string == pk1.reason_string, packet.user_properties == pk1.user_properties,
//@@at bodystart
    proof { assert(11u8 << 4u8 == 0xB0u8) by (bit_vector); assert(PACKET_TYPE_UNSUBACK == 11u8 && UNSUBACK_FIRST_BYTE == 0xB0u8); }
//@@at before "mutable_body = decode_vli_into_mutable(mutable_body, &mut properties_length)?;"
        let ghost r2 = mutable_body@;
        proof {
            assert(r2 =~= packet_body@.subrange(2, packet_body@.len() as int));
            lemma_vbi_len_char(r2);
            assert(unsuback_bag(*packet) == empty_bag()) by { assert(bag_eq(unsuback_bag(*packet), empty_bag())); }
        }
//@@at after "mutable_body = decode_vli_into_mutable(mutable_body, &mut properties_length)?;"
        let ghost r3 = mutable_body@;
        proof {
            let n = vbi_len(r2)->Some_0;
            assert(vbi_len(r2) is Some);
            assert(r3 =~= r2.subrange(n, r2.len() as int));
            assert(properties_length == vli_val(r2, n as nat));
        }
//@@at after "let payload_bytes = &mutable_body[properties_length..];"
        proof {
            assert(properties_bytes@ =~= r3.subrange(0, properties_length as int));
            assert(payload_bytes@ =~= r3.subrange(properties_length as int, r3.len() as int));
        }
//@@at after "packet.reason_codes.reserve(reason_code_count);"
        let ghost pk1 = *packet;
        proof {
            let n = vbi_len(r2)->Some_0;
            assert(first_byte == 0xB0 && packet_body@.len() >= 2);
            assert(vbi_len(r2) is Some && r3 == r2.subrange(n, r2.len() as int) && properties_length as int == vli_val(r2, n as nat) as int);
            assert(parse_props(r3.subrange(0, properties_length as int), unsuback_ids(), empty_bag()) is Some);
            assert(unsuback_head(first_byte, packet_body@, true) is Some);
            assert(unsuback_head(first_byte, packet_body@, true)->Some_0.codes == payload_bytes@);
        }
//@@at before "return Ok(box_packet);"
        proof {
            let n = vbi_len(r2)->Some_0;
            let codes = r3.subrange(properties_length as int, r3.len() as int);
            assert(first_byte == 0xB0 && packet_body@.len() >= 2);
            assert(vbi_len(r2) is Some && r3 == r2.subrange(n, r2.len() as int) && properties_length as int == vli_val(r2, n as nat) as int);
            assert(codes == payload_bytes@);
            assert(parse_props(r3.subrange(0, properties_length as int), unsuback_ids(), empty_bag()) is Some);
            assert forall|i: int| 0 <= i < codes.len() implies unsuback_code_legal(#[trigger] codes[i], true) by { assert(unsuback_reason_legal(payload_bytes@[i])); }
            let v = unsuback_spec(first_byte, packet_body@, true)->Some_0;
            assert(unsuback_spec(first_byte, packet_body@, true) is Some);
            assert(packet.packet_id as int == be16(packet_body@));
            assert(bag_eq(unsuback_bag(*packet), v.bag));
            assert(unsuback_matches(*packet, v));
        }
//@@at before "packet.reason_codes.push(UnsubackReasonCode::try_from(*payload_byte)?);"
            let ghost codes_pre = packet.reason_codes@;
            proof {
                let i0 = it.index@ as int;
                assert(it.seq().unref()[i0] == *payload_byte);
                assert(payload_bytes@[i0] == *payload_byte);
            }
//@@at after "packet.reason_codes.push(UnsubackReasonCode::try_from(*payload_byte)?);"
            proof {
                let i0 = it.index@ as int;
                assert(packet.reason_codes@ == codes_pre.push(packet.reason_codes@[i0]));
                assert(unsuback_reason_value(packet.reason_codes@[i0]) == *payload_byte);
                assert forall|j: int| 0 <= j < i0 + 1 implies unsuback_reason_value(#[trigger] packet.reason_codes@[j]) == payload_bytes@[j] by {
                    if j < i0 { assert(packet.reason_codes@[j] == codes_pre[j]); assert(unsuback_reason_value(codes_pre[j]) == payload_bytes@[j]); }
                }
            }
//@end

//@fn gneiss-mqtt/src/mqtt/unsuback.rs decode_unsuback_packet311 props=C03,C11,C01 desugar
//@@rewrite "box_packet.as_mut()" => "&mut *box_packet"
    // MQTT 3.1.1 UNSUBACK (OASIS 3.1.1 section 3.11): fixed header 0xB0, exactly the two bytes of the packet identifier
    ensures
        match unsuback_spec(first_byte, packet_body@, false) {
            Some(v) => r matches Ok(b) && (*b matches MqttPacket::Unsuback(p) && unsuback_matches(p, v)),
            None => r is Err,
        },
//@@at bodystart
    proof { assert(11u8 << 4u8 == 0xB0u8) by (bit_vector); assert(PACKET_TYPE_UNSUBACK == 11u8 && UNSUBACK_FIRST_BYTE == 0xB0u8); }
//@@at before "return Ok(box_packet);"
        proof { assert(bag_eq(unsuback_bag(*packet), empty_bag())); assert(packet.reason_codes@.len() == 0); }
//@end

// =====================================================================================================
// DISCONNECT decoding (C03): OASIS 3.14 (reason codes table 3.14.2.1, properties 3.14.2.2)
// =====================================================================================================
//@const gneiss-mqtt/src/mqtt/utils.rs PACKET_TYPE_DISCONNECT
pub open spec fn disconnect_reason_value(c: DisconnectReasonCode) -> u8 {
    match c {
        DisconnectReasonCode::NormalDisconnection => 0u8,
        DisconnectReasonCode::DisconnectWithWillMessage => 4u8,
        DisconnectReasonCode::UnspecifiedError => 128u8,
        DisconnectReasonCode::MalformedPacket => 129u8,
        DisconnectReasonCode::ProtocolError => 130u8,
        DisconnectReasonCode::ImplementationSpecificError => 131u8,
        DisconnectReasonCode::NotAuthorized => 135u8,
        DisconnectReasonCode::ServerBusy => 137u8,
        DisconnectReasonCode::ServerShuttingDown => 139u8,
        DisconnectReasonCode::KeepAliveTimeout => 141u8,
        DisconnectReasonCode::SessionTakenOver => 142u8,
        DisconnectReasonCode::TopicFilterInvalid => 143u8,
        DisconnectReasonCode::TopicNameInvalid => 144u8,
        DisconnectReasonCode::ReceiveMaximumExceeded => 147u8,
        DisconnectReasonCode::TopicAliasInvalid => 148u8,
        DisconnectReasonCode::PacketTooLarge => 149u8,
        DisconnectReasonCode::MessageRateTooHigh => 150u8,
        DisconnectReasonCode::QuotaExceeded => 151u8,
        DisconnectReasonCode::AdministrativeAction => 152u8,
        DisconnectReasonCode::PayloadFormatInvalid => 153u8,
        DisconnectReasonCode::RetainNotSupported => 154u8,
        DisconnectReasonCode::QosNotSupported => 155u8,
        DisconnectReasonCode::UseAnotherServer => 156u8,
        DisconnectReasonCode::ServerMoved => 157u8,
        DisconnectReasonCode::SharedSubscriptionsNotSupported => 158u8,
        DisconnectReasonCode::ConnectionRateExceeded => 159u8,
        DisconnectReasonCode::MaximumConnectTime => 160u8,
        DisconnectReasonCode::SubscriptionIdentifiersNotSupported => 161u8,
        DisconnectReasonCode::WildcardSubscriptionsNotSupported => 162u8,
    }
}
pub open spec fn disconnect_reason_legal(v: u8) -> bool {
    v == 0 || v == 4 || (128 <= v <= 131) || v == 135 || v == 137 || v == 139 || (141 <= v <= 144) || (147 <= v <= 162)
}
impl DisconnectReasonCode {
//@fn gneiss-mqtt/src/mqtt/mod.rs try_from props=C03 impl={TryFrom<u8> for DisconnectReasonCode} as=try_from
    ensures disconnect_reason_legal(value) ==> (r matches Ok(c) && disconnect_reason_value(c) == value), !disconnect_reason_legal(value) ==> r is Err,
//@end
}
pub open spec fn disconnect_ids() -> Set<u8> { set![0x11u8, 0x1Fu8, 0x26u8, 0x1Cu8] }
pub open spec fn disconnect_bag(p: DisconnectPacket) -> PropBag {
    PropBag {
        u32s: put(Map::<u8, u32>::empty(), 0x11u8, p.session_expiry_interval_seconds),
        strs: put(put(Map::<u8, Seq<char>>::empty(), 0x1Fu8, text(p.reason_string)), 0x1Cu8, text(p.server_reference)),
        users: user_seq(p.user_properties), ..empty_bag()
    }
}

//@fn gneiss-mqtt/src/mqtt/disconnect.rs decode_disconnect_properties props=C03,C11
    ensures
        final(packet).reason_code == old(packet).reason_code,
        match parse_props(property_bytes@, disconnect_ids(), disconnect_bag(*old(packet))) {
            Some(bag) => r is Ok && bag_eq(disconnect_bag(*final(packet)), bag),
            None => r is Err,
        },
//@@loop 0
        invariant
            packet.reason_code == old(packet).reason_code,
            parse_props(property_bytes@, disconnect_ids(), disconnect_bag(*old(packet))) == parse_props(mutable_property_bytes@, disconnect_ids(), disconnect_bag(*packet)),
        decreases mutable_property_bytes@.len(),
//@@bodyend_of_loop 0
            proof {
                let rest = b0.subrange(1, b0.len() as int);
                let bag0 = disconnect_bag(pk0); let bag1 = disconnect_bag(*packet); let id = b0[0];
                assert(rest_view == rest);
                if id == 0x11u8 { let x = PropBag { u32s: bag0.u32s.insert(id, be32(rest) as u32), ..bag0 }; assert(bag_eq(bag1, x)); assert(bag1 == x); assert(mutable_property_bytes@ =~= rest.subrange(4, rest.len() as int)); }
                if id == 0x1Fu8 || id == 0x1Cu8 { let x = PropBag { strs: bag0.strs.insert(id, lp_string_text(rest)), ..bag0 }; assert(bag_eq(bag1, x)); assert(bag1 == x); assert(mutable_property_bytes@ =~= rest.subrange(2 + be16(rest), rest.len() as int)); }
                if id == 0x26u8 {
                    let rest1 = rest.subrange(2 + be16(rest), rest.len() as int);
                    let x = PropBag { users: bag0.users.push((lp_string_text(rest), lp_string_text(rest1))), ..bag0 };
                    assert(bag1.users =~= x.users); assert(bag_eq(bag1, x)); assert(bag1 == x);
                    assert(mutable_property_bytes@ =~= rest1.subrange(2 + be16(rest1), rest1.len() as int));
                }
            }
//@@at before "let property_key = mutable_property_bytes[0];"
        let ghost b0 = mutable_property_bytes@;
        let ghost pk0 = *packet;
//@@at after "mutable_property_bytes = &mutable_property_bytes[1..];"
        let ghost rest_view = mutable_property_bytes@;
//@end

// MQTT 5 DISCONNECT (OASIS 3.14): fixed header 0xE0; an empty body means reason 0x00 and no properties; one byte: the reason code; otherwise
// the reason code, a property length that accounts for exactly the rest, and the property section
pub open spec fn disconnect5_spec(first_byte: u8, body: Seq<u8>) -> Option<(u8, PropBag)> {
    if first_byte != 0xE0 { None }
    else if body.len() == 0 { Some((0u8, empty_bag())) }
    else if !disconnect_reason_legal(body[0]) { None }
    else if body.len() == 1 { Some((body[0], empty_bag())) }
    else {
        let tail = body.subrange(1, body.len() as int);
        match vbi_len(tail) {
            None => None,
            Some(n) => {
                let props = tail.subrange(n, tail.len() as int);
                if vli_val(tail, n as nat) != props.len() { None } else {
                    match parse_props(props, disconnect_ids(), empty_bag()) { Some(bag) => Some((body[0], bag)), None => None }
                }
            }
        }
    }
}

//@fn gneiss-mqtt/src/mqtt/disconnect.rs decode_disconnect_packet5 props=C03,C11 desugar
//@@rewrite "box_packet.as_mut()" => "&mut *box_packet"
    ensures
        match disconnect5_spec(first_byte, packet_body@) {
            Some((rc, bag)) => r matches Ok(b) && (*b matches MqttPacket::Disconnect(p) && disconnect_reason_value(p.reason_code) == rc && bag_eq(disconnect_bag(p), bag)),
            None => r is Err,
        },
//@@at bodystart
    proof { assert(14u8 << 4u8 == 0xE0u8) by (bit_vector); assert(PACKET_TYPE_DISCONNECT == 14u8); }
//@@at before "mutable_body = decode_u8_as_enum(mutable_body, &mut packet.reason_code, DisconnectReasonCode::try_from)?;"
        proof { assert(bag_eq(disconnect_bag(*packet), empty_bag())); assert(disconnect_reason_value(packet.reason_code) == 0); }
//@@at before "mutable_body = decode_vli_into_mutable(mutable_body, &mut properties_length)?;"
        let ghost tail = mutable_body@;
        proof {
            assert(tail =~= packet_body@.subrange(1, packet_body@.len() as int));
            lemma_vbi_len_char(tail);
            assert(disconnect_bag(*packet) == empty_bag()) by { assert(bag_eq(disconnect_bag(*packet), empty_bag())); }
        }
//@@at after "mutable_body = decode_vli_into_mutable(mutable_body, &mut properties_length)?;"
        proof {
            let n = vbi_len(tail)->Some_0;
            assert(vbi_len(tail) is Some);
            assert(mutable_body@ =~= tail.subrange(n, tail.len() as int));
            assert(properties_length == vli_val(tail, n as nat));
        }
//@end

//@fn gneiss-mqtt/src/mqtt/disconnect.rs decode_disconnect_packet311 props=C03,C11
    // MQTT 3.1.1 DISCONNECT has no variable header and no payload
    ensures
        (first_byte == 0xE0 && packet_body@.len() == 0) ==> (r matches Ok(b) && (*b matches MqttPacket::Disconnect(p) && disconnect_reason_value(p.reason_code) == 0 && bag_eq(disconnect_bag(p), empty_bag()))),
        !(first_byte == 0xE0 && packet_body@.len() == 0) ==> r is Err,
//@@at bodystart
    proof { assert(14u8 << 4u8 == 0xE0u8) by (bit_vector); assert(PACKET_TYPE_DISCONNECT == 14u8); }
//@end

// =====================================================================================================
// PUBACK / PUBREC / PUBREL / PUBCOMP decoding (C03, C01): OASIS 3.4 - 3.7. The eight decoders and four property functions are generated
// by three macro_rules! of decode.rs; the extractor expands the invocations (rule R7b) and the expansions are verified like any function.
// =====================================================================================================
pub open spec fn ack_ids() -> Set<u8> { set![0x1Fu8, 0x26u8] }
// packet identifier; reason code (absent = 0x00 Success); properties (absent when the remaining length is below 4)
pub open spec fn ack5_spec(first_byte: u8, body: Seq<u8>, fixed: u8, legal: spec_fn(u8) -> bool) -> Option<(int, u8, PropBag)> {
    if first_byte != fixed || body.len() < 2 { None }
    else if body.len() == 2 { Some((be16(body), 0u8, empty_bag())) }
    else if !legal(body[2]) { None }
    else if body.len() == 3 { Some((be16(body), body[2], empty_bag())) }
    else {
        let tail = body.subrange(3, body.len() as int);
        match vbi_len(tail) {
            None => None,
            Some(n) => {
                let props = tail.subrange(n, tail.len() as int);
                if vli_val(tail, n as nat) != props.len() { None } else {
                    match parse_props(props, ack_ids(), empty_bag()) { Some(bag) => Some((be16(body), body[2], bag)), None => None }
                }
            }
        }
    }
}

//@const gneiss-mqtt/src/mqtt/utils.rs PACKET_TYPE_PUBACK
//@const gneiss-mqtt/src/mqtt/utils.rs PUBACK_FIRST_BYTE
pub open spec fn puback_reason_value(c: PubackReasonCode) -> u8 {
    match c {
        PubackReasonCode::Success => 0u8,
        PubackReasonCode::NoMatchingSubscribers => 16u8,
        PubackReasonCode::UnspecifiedError => 128u8,
        PubackReasonCode::ImplementationSpecificError => 131u8,
        PubackReasonCode::NotAuthorized => 135u8,
        PubackReasonCode::TopicNameInvalid => 144u8,
        PubackReasonCode::PacketIdentifierInUse => 145u8,
        PubackReasonCode::QuotaExceeded => 151u8,
        PubackReasonCode::PayloadFormatInvalid => 153u8,
    }
}
pub open spec fn puback_reason_legal(v: u8) -> bool { v == 0 || v == 16 || v == 128 || v == 131 || v == 135 || v == 144 || v == 145 || v == 151 || v == 153 }
impl PubackReasonCode {
//@fn gneiss-mqtt/src/mqtt/mod.rs try_from props=C03 impl={TryFrom<u8> for PubackReasonCode} as=try_from
    ensures puback_reason_legal(value) ==> (r matches Ok(c) && puback_reason_value(c) == value), !puback_reason_legal(value) ==> r is Err,
//@end
}
pub open spec fn puback_bag(p: PubackPacket) -> PropBag {
    PropBag { strs: put(Map::<u8, Seq<char>>::empty(), 0x1Fu8, text(p.reason_string)), users: user_seq(p.user_properties), ..empty_bag() }
}

//@fn gneiss-mqtt/src/mqtt/puback.rs decode_puback_properties props=C03,C11 via=gneiss-mqtt/src/decode.rs:define_ack_packet_decode_properties_function
    ensures
        final(packet).packet_id == old(packet).packet_id, final(packet).reason_code == old(packet).reason_code,
        match parse_props(property_bytes@, ack_ids(), puback_bag(*old(packet))) {
            Some(bag) => r is Ok && bag_eq(puback_bag(*final(packet)), bag),
            None => r is Err,
        },
//@@loop 0
        invariant
            packet.packet_id == old(packet).packet_id, packet.reason_code == old(packet).reason_code,
            parse_props(property_bytes@, ack_ids(), puback_bag(*old(packet))) == parse_props(mutable_property_bytes@, ack_ids(), puback_bag(*packet)),
        decreases mutable_property_bytes@.len(),
//@@bodyend_of_loop 0
            proof {
                let rest = b0.subrange(1, b0.len() as int);
                let bag0 = puback_bag(pk0); let bag1 = puback_bag(*packet); let id = b0[0];
                assert(rest_view == rest);
                if id == 0x1Fu8 { let x = PropBag { strs: bag0.strs.insert(id, lp_string_text(rest)), ..bag0 }; assert(bag_eq(bag1, x)); assert(bag1 == x); assert(mutable_property_bytes@ =~= rest.subrange(2 + be16(rest), rest.len() as int)); }
                if id == 0x26u8 {
                    let rest1 = rest.subrange(2 + be16(rest), rest.len() as int);
                    let x = PropBag { users: bag0.users.push((lp_string_text(rest), lp_string_text(rest1))), ..bag0 };
                    assert(bag1.users =~= x.users); assert(bag_eq(bag1, x)); assert(bag1 == x);
                    assert(mutable_property_bytes@ =~= rest1.subrange(2 + be16(rest1), rest1.len() as int));
                }
            }
//@@at before "let property_key = mutable_property_bytes[0];"
        let ghost b0 = mutable_property_bytes@;
        let ghost pk0 = *packet;
//@@at after "mutable_property_bytes = &mutable_property_bytes[1..];"
        let ghost rest_view = mutable_property_bytes@;
//@end

//@fn gneiss-mqtt/src/mqtt/puback.rs decode_puback_packet5 props=C03,C11,C01 via=gneiss-mqtt/src/decode.rs:define_ack_packet_decode_function5 desugar
//@@rewrite "box_packet.as_mut()" => "&mut *box_packet"
    ensures
        match ack5_spec(first_byte, packet_body@, 0x40u8, |v: u8| puback_reason_legal(v)) {
            Some((pid, rc, bag)) => r matches Ok(b) && (*b matches MqttPacket::Puback(p) && p.packet_id as int == pid && puback_reason_value(p.reason_code) == rc && bag_eq(puback_bag(p), bag)),
            None => r is Err,
        },
//@@at bodystart
    proof { assert((4u8 << 4u8) == 0x40u8) by (bit_vector); assert((0x40u8 | 2u8) == (0x40u8 + 2u8)) by (bit_vector); assert(PACKET_TYPE_PUBACK == 4u8 && PUBACK_FIRST_BYTE == 0x40u8); }
//@@at before "mutable_body = decode_u8_as_enum(mutable_body, &mut packet.reason_code, PubackReasonCode::try_from)?;"
        proof { assert(bag_eq(puback_bag(*packet), empty_bag())); assert(puback_reason_value(packet.reason_code) == 0); assert(mutable_body@ =~= packet_body@.subrange(2, packet_body@.len() as int)); }
//@@at before "mutable_body = decode_vli_into_mutable(mutable_body, &mut properties_length)?;"
        let ghost tail = mutable_body@;
        proof {
            assert(tail =~= packet_body@.subrange(3, packet_body@.len() as int));
            lemma_vbi_len_char(tail);
            assert(puback_bag(*packet) == empty_bag()) by { assert(bag_eq(puback_bag(*packet), empty_bag())); }
        }
//@@at after "mutable_body = decode_vli_into_mutable(mutable_body, &mut properties_length)?;"
        proof {
            let n = vbi_len(tail)->Some_0;
            assert(vbi_len(tail) is Some);
            assert(mutable_body@ =~= tail.subrange(n, tail.len() as int));
            assert(properties_length == vli_val(tail, n as nat));
        }
//@end

//@fn gneiss-mqtt/src/mqtt/puback.rs decode_puback_packet311 props=C03,C11,C01 via=gneiss-mqtt/src/decode.rs:define_ack_packet_decode_function311
//@@rewrite "box_packet.as_mut()" => "&mut *box_packet"
    // MQTT 3.1.1: exactly the two bytes of the packet identifier
    ensures
        (first_byte == 0x40u8 && packet_body@.len() == 2) ==> (r matches Ok(b) && (*b matches MqttPacket::Puback(p) && p.packet_id as int == be16(packet_body@) && puback_reason_value(p.reason_code) == 0 && bag_eq(puback_bag(p), empty_bag()))),
        !(first_byte == 0x40u8 && packet_body@.len() == 2) ==> r is Err,
//@@at bodystart
    proof { assert((4u8 << 4u8) == 0x40u8) by (bit_vector); assert((0x40u8 | 2u8) == (0x40u8 + 2u8)) by (bit_vector); assert(PACKET_TYPE_PUBACK == 4u8 && PUBACK_FIRST_BYTE == 0x40u8); }
//@end

//@const gneiss-mqtt/src/mqtt/utils.rs PACKET_TYPE_PUBREC
//@const gneiss-mqtt/src/mqtt/utils.rs PUBREC_FIRST_BYTE
pub open spec fn pubrec_reason_value(c: PubrecReasonCode) -> u8 {
    match c {
        PubrecReasonCode::Success => 0u8,
        PubrecReasonCode::NoMatchingSubscribers => 16u8,
        PubrecReasonCode::UnspecifiedError => 128u8,
        PubrecReasonCode::ImplementationSpecificError => 131u8,
        PubrecReasonCode::NotAuthorized => 135u8,
        PubrecReasonCode::TopicNameInvalid => 144u8,
        PubrecReasonCode::PacketIdentifierInUse => 145u8,
        PubrecReasonCode::QuotaExceeded => 151u8,
        PubrecReasonCode::PayloadFormatInvalid => 153u8,
    }
}
pub open spec fn pubrec_reason_legal(v: u8) -> bool { v == 0 || v == 16 || v == 128 || v == 131 || v == 135 || v == 144 || v == 145 || v == 151 || v == 153 }
impl PubrecReasonCode {
//@fn gneiss-mqtt/src/mqtt/mod.rs try_from props=C03 impl={TryFrom<u8> for PubrecReasonCode} as=try_from
    ensures pubrec_reason_legal(value) ==> (r matches Ok(c) && pubrec_reason_value(c) == value), !pubrec_reason_legal(value) ==> r is Err,
//@end
}
pub open spec fn pubrec_bag(p: PubrecPacket) -> PropBag {
    PropBag { strs: put(Map::<u8, Seq<char>>::empty(), 0x1Fu8, text(p.reason_string)), users: user_seq(p.user_properties), ..empty_bag() }
}

//@fn gneiss-mqtt/src/mqtt/pubrec.rs decode_pubrec_properties props=C03,C11 via=gneiss-mqtt/src/decode.rs:define_ack_packet_decode_properties_function
    ensures
        final(packet).packet_id == old(packet).packet_id, final(packet).reason_code == old(packet).reason_code,
        match parse_props(property_bytes@, ack_ids(), pubrec_bag(*old(packet))) {
            Some(bag) => r is Ok && bag_eq(pubrec_bag(*final(packet)), bag),
            None => r is Err,
        },
//@@loop 0
        invariant
            packet.packet_id == old(packet).packet_id, packet.reason_code == old(packet).reason_code,
            parse_props(property_bytes@, ack_ids(), pubrec_bag(*old(packet))) == parse_props(mutable_property_bytes@, ack_ids(), pubrec_bag(*packet)),
        decreases mutable_property_bytes@.len(),
//@@bodyend_of_loop 0
            proof {
                let rest = b0.subrange(1, b0.len() as int);
                let bag0 = pubrec_bag(pk0); let bag1 = pubrec_bag(*packet); let id = b0[0];
                assert(rest_view == rest);
                if id == 0x1Fu8 { let x = PropBag { strs: bag0.strs.insert(id, lp_string_text(rest)), ..bag0 }; assert(bag_eq(bag1, x)); assert(bag1 == x); assert(mutable_property_bytes@ =~= rest.subrange(2 + be16(rest), rest.len() as int)); }
                if id == 0x26u8 {
                    let rest1 = rest.subrange(2 + be16(rest), rest.len() as int);
                    let x = PropBag { users: bag0.users.push((lp_string_text(rest), lp_string_text(rest1))), ..bag0 };
                    assert(bag1.users =~= x.users); assert(bag_eq(bag1, x)); assert(bag1 == x);
                    assert(mutable_property_bytes@ =~= rest1.subrange(2 + be16(rest1), rest1.len() as int));
                }
            }
//@@at before "let property_key = mutable_property_bytes[0];"
        let ghost b0 = mutable_property_bytes@;
        let ghost pk0 = *packet;
//@@at after "mutable_property_bytes = &mutable_property_bytes[1..];"
        let ghost rest_view = mutable_property_bytes@;
//@end

//@fn gneiss-mqtt/src/mqtt/pubrec.rs decode_pubrec_packet5 props=C03,C11,C01 via=gneiss-mqtt/src/decode.rs:define_ack_packet_decode_function5 desugar
//@@rewrite "box_packet.as_mut()" => "&mut *box_packet"
    ensures
        match ack5_spec(first_byte, packet_body@, 0x50u8, |v: u8| pubrec_reason_legal(v)) {
            Some((pid, rc, bag)) => r matches Ok(b) && (*b matches MqttPacket::Pubrec(p) && p.packet_id as int == pid && pubrec_reason_value(p.reason_code) == rc && bag_eq(pubrec_bag(p), bag)),
            None => r is Err,
        },
//@@at bodystart
    proof { assert((5u8 << 4u8) == 0x50u8) by (bit_vector); assert((0x50u8 | 2u8) == (0x50u8 + 2u8)) by (bit_vector); assert(PACKET_TYPE_PUBREC == 5u8 && PUBREC_FIRST_BYTE == 0x50u8); }
//@@at before "mutable_body = decode_u8_as_enum(mutable_body, &mut packet.reason_code, PubrecReasonCode::try_from)?;"
        proof { assert(bag_eq(pubrec_bag(*packet), empty_bag())); assert(pubrec_reason_value(packet.reason_code) == 0); assert(mutable_body@ =~= packet_body@.subrange(2, packet_body@.len() as int)); }
//@@at before "mutable_body = decode_vli_into_mutable(mutable_body, &mut properties_length)?;"
        let ghost tail = mutable_body@;
        proof {
            assert(tail =~= packet_body@.subrange(3, packet_body@.len() as int));
            lemma_vbi_len_char(tail);
            assert(pubrec_bag(*packet) == empty_bag()) by { assert(bag_eq(pubrec_bag(*packet), empty_bag())); }
        }
//@@at after "mutable_body = decode_vli_into_mutable(mutable_body, &mut properties_length)?;"
        proof {
            let n = vbi_len(tail)->Some_0;
            assert(vbi_len(tail) is Some);
            assert(mutable_body@ =~= tail.subrange(n, tail.len() as int));
            assert(properties_length == vli_val(tail, n as nat));
        }
//@end

//@fn gneiss-mqtt/src/mqtt/pubrec.rs decode_pubrec_packet311 props=C03,C11,C01 via=gneiss-mqtt/src/decode.rs:define_ack_packet_decode_function311
//@@rewrite "box_packet.as_mut()" => "&mut *box_packet"
    // MQTT 3.1.1: exactly the two bytes of the packet identifier
    ensures
        (first_byte == 0x50u8 && packet_body@.len() == 2) ==> (r matches Ok(b) && (*b matches MqttPacket::Pubrec(p) && p.packet_id as int == be16(packet_body@) && pubrec_reason_value(p.reason_code) == 0 && bag_eq(pubrec_bag(p), empty_bag()))),
        !(first_byte == 0x50u8 && packet_body@.len() == 2) ==> r is Err,
//@@at bodystart
    proof { assert((5u8 << 4u8) == 0x50u8) by (bit_vector); assert((0x50u8 | 2u8) == (0x50u8 + 2u8)) by (bit_vector); assert(PACKET_TYPE_PUBREC == 5u8 && PUBREC_FIRST_BYTE == 0x50u8); }
//@end

//@const gneiss-mqtt/src/mqtt/utils.rs PACKET_TYPE_PUBREL
//@const gneiss-mqtt/src/mqtt/utils.rs PUBREL_FIRST_BYTE
pub open spec fn pubrel_reason_value(c: PubrelReasonCode) -> u8 {
    match c {
        PubrelReasonCode::Success => 0u8,
        PubrelReasonCode::PacketIdentifierNotFound => 146u8,
    }
}
pub open spec fn pubrel_reason_legal(v: u8) -> bool { v == 0 || v == 146 }
impl PubrelReasonCode {
//@fn gneiss-mqtt/src/mqtt/mod.rs try_from props=C03 impl={TryFrom<u8> for PubrelReasonCode} as=try_from
    ensures pubrel_reason_legal(value) ==> (r matches Ok(c) && pubrel_reason_value(c) == value), !pubrel_reason_legal(value) ==> r is Err,
//@end
}
pub open spec fn pubrel_bag(p: PubrelPacket) -> PropBag {
    PropBag { strs: put(Map::<u8, Seq<char>>::empty(), 0x1Fu8, text(p.reason_string)), users: user_seq(p.user_properties), ..empty_bag() }
}

//@fn gneiss-mqtt/src/mqtt/pubrel.rs decode_pubrel_properties props=C03,C11 via=gneiss-mqtt/src/decode.rs:define_ack_packet_decode_properties_function
    ensures
        final(packet).packet_id == old(packet).packet_id, final(packet).reason_code == old(packet).reason_code,
        match parse_props(property_bytes@, ack_ids(), pubrel_bag(*old(packet))) {
            Some(bag) => r is Ok && bag_eq(pubrel_bag(*final(packet)), bag),
            None => r is Err,
        },
//@@loop 0
        invariant
            packet.packet_id == old(packet).packet_id, packet.reason_code == old(packet).reason_code,
            parse_props(property_bytes@, ack_ids(), pubrel_bag(*old(packet))) == parse_props(mutable_property_bytes@, ack_ids(), pubrel_bag(*packet)),
        decreases mutable_property_bytes@.len(),
//@@bodyend_of_loop 0
            proof {
                let rest = b0.subrange(1, b0.len() as int);
                let bag0 = pubrel_bag(pk0); let bag1 = pubrel_bag(*packet); let id = b0[0];
                assert(rest_view == rest);
                if id == 0x1Fu8 { let x = PropBag { strs: bag0.strs.insert(id, lp_string_text(rest)), ..bag0 }; assert(bag_eq(bag1, x)); assert(bag1 == x); assert(mutable_property_bytes@ =~= rest.subrange(2 + be16(rest), rest.len() as int)); }
                if id == 0x26u8 {
                    let rest1 = rest.subrange(2 + be16(rest), rest.len() as int);
                    let x = PropBag { users: bag0.users.push((lp_string_text(rest), lp_string_text(rest1))), ..bag0 };
                    assert(bag1.users =~= x.users); assert(bag_eq(bag1, x)); assert(bag1 == x);
                    assert(mutable_property_bytes@ =~= rest1.subrange(2 + be16(rest1), rest1.len() as int));
                }
            }
//@@at before "let property_key = mutable_property_bytes[0];"
        let ghost b0 = mutable_property_bytes@;
        let ghost pk0 = *packet;
//@@at after "mutable_property_bytes = &mutable_property_bytes[1..];"
        let ghost rest_view = mutable_property_bytes@;
//@end

//@fn gneiss-mqtt/src/mqtt/pubrel.rs decode_pubrel_packet5 props=C03,C11,C01 via=gneiss-mqtt/src/decode.rs:define_ack_packet_decode_function5 desugar
//@@rewrite "box_packet.as_mut()" => "&mut *box_packet"
    ensures
        match ack5_spec(first_byte, packet_body@, 0x62u8, |v: u8| pubrel_reason_legal(v)) {
            Some((pid, rc, bag)) => r matches Ok(b) && (*b matches MqttPacket::Pubrel(p) && p.packet_id as int == pid && pubrel_reason_value(p.reason_code) == rc && bag_eq(pubrel_bag(p), bag)),
            None => r is Err,
        },
//@@at bodystart
    proof { assert((6u8 << 4u8) == 0x60u8) by (bit_vector); assert((0x60u8 | 2u8) == (0x60u8 + 2u8)) by (bit_vector); assert(PACKET_TYPE_PUBREL == 6u8 && PUBREL_FIRST_BYTE == 0x62u8); }
//@@at before "mutable_body = decode_u8_as_enum(mutable_body, &mut packet.reason_code, PubrelReasonCode::try_from)?;"
        proof { assert(bag_eq(pubrel_bag(*packet), empty_bag())); assert(pubrel_reason_value(packet.reason_code) == 0); assert(mutable_body@ =~= packet_body@.subrange(2, packet_body@.len() as int)); }
//@@at before "mutable_body = decode_vli_into_mutable(mutable_body, &mut properties_length)?;"
        let ghost tail = mutable_body@;
        proof {
            assert(tail =~= packet_body@.subrange(3, packet_body@.len() as int));
            lemma_vbi_len_char(tail);
            assert(pubrel_bag(*packet) == empty_bag()) by { assert(bag_eq(pubrel_bag(*packet), empty_bag())); }
        }
//@@at after "mutable_body = decode_vli_into_mutable(mutable_body, &mut properties_length)?;"
        proof {
            let n = vbi_len(tail)->Some_0;
            assert(vbi_len(tail) is Some);
            assert(mutable_body@ =~= tail.subrange(n, tail.len() as int));
            assert(properties_length == vli_val(tail, n as nat));
        }
//@end

//@fn gneiss-mqtt/src/mqtt/pubrel.rs decode_pubrel_packet311 props=C03,C11,C01 via=gneiss-mqtt/src/decode.rs:define_ack_packet_decode_function311
//@@rewrite "box_packet.as_mut()" => "&mut *box_packet"
    // MQTT 3.1.1: exactly the two bytes of the packet identifier
    ensures
        (first_byte == 0x62u8 && packet_body@.len() == 2) ==> (r matches Ok(b) && (*b matches MqttPacket::Pubrel(p) && p.packet_id as int == be16(packet_body@) && pubrel_reason_value(p.reason_code) == 0 && bag_eq(pubrel_bag(p), empty_bag()))),
        !(first_byte == 0x62u8 && packet_body@.len() == 2) ==> r is Err,
//@@at bodystart
    proof { assert((6u8 << 4u8) == 0x60u8) by (bit_vector); assert((0x60u8 | 2u8) == (0x60u8 + 2u8)) by (bit_vector); assert(PACKET_TYPE_PUBREL == 6u8 && PUBREL_FIRST_BYTE == 0x62u8); }
//@end

//@const gneiss-mqtt/src/mqtt/utils.rs PACKET_TYPE_PUBCOMP
//@const gneiss-mqtt/src/mqtt/utils.rs PUBCOMP_FIRST_BYTE
pub open spec fn pubcomp_reason_value(c: PubcompReasonCode) -> u8 {
    match c {
        PubcompReasonCode::Success => 0u8,
        PubcompReasonCode::PacketIdentifierNotFound => 146u8,
    }
}
pub open spec fn pubcomp_reason_legal(v: u8) -> bool { v == 0 || v == 146 }
impl PubcompReasonCode {
//@fn gneiss-mqtt/src/mqtt/mod.rs try_from props=C03 impl={TryFrom<u8> for PubcompReasonCode} as=try_from
    ensures pubcomp_reason_legal(value) ==> (r matches Ok(c) && pubcomp_reason_value(c) == value), !pubcomp_reason_legal(value) ==> r is Err,
//@end
}
pub open spec fn pubcomp_bag(p: PubcompPacket) -> PropBag {
    PropBag { strs: put(Map::<u8, Seq<char>>::empty(), 0x1Fu8, text(p.reason_string)), users: user_seq(p.user_properties), ..empty_bag() }
}

//@fn gneiss-mqtt/src/mqtt/pubcomp.rs decode_pubcomp_properties props=C03,C11 via=gneiss-mqtt/src/decode.rs:define_ack_packet_decode_properties_function
    ensures
        final(packet).packet_id == old(packet).packet_id, final(packet).reason_code == old(packet).reason_code,
        match parse_props(property_bytes@, ack_ids(), pubcomp_bag(*old(packet))) {
            Some(bag) => r is Ok && bag_eq(pubcomp_bag(*final(packet)), bag),
            None => r is Err,
        },
//@@loop 0
        invariant
            packet.packet_id == old(packet).packet_id, packet.reason_code == old(packet).reason_code,
            parse_props(property_bytes@, ack_ids(), pubcomp_bag(*old(packet))) == parse_props(mutable_property_bytes@, ack_ids(), pubcomp_bag(*packet)),
        decreases mutable_property_bytes@.len(),
//@@bodyend_of_loop 0
            proof {
                let rest = b0.subrange(1, b0.len() as int);
                let bag0 = pubcomp_bag(pk0); let bag1 = pubcomp_bag(*packet); let id = b0[0];
                assert(rest_view == rest);
                if id == 0x1Fu8 { let x = PropBag { strs: bag0.strs.insert(id, lp_string_text(rest)), ..bag0 }; assert(bag_eq(bag1, x)); assert(bag1 == x); assert(mutable_property_bytes@ =~= rest.subrange(2 + be16(rest), rest.len() as int)); }
                if id == 0x26u8 {
                    let rest1 = rest.subrange(2 + be16(rest), rest.len() as int);
                    let x = PropBag { users: bag0.users.push((lp_string_text(rest), lp_string_text(rest1))), ..bag0 };
                    assert(bag1.users =~= x.users); assert(bag_eq(bag1, x)); assert(bag1 == x);
                    assert(mutable_property_bytes@ =~= rest1.subrange(2 + be16(rest1), rest1.len() as int));
                }
            }
//@@at before "let property_key = mutable_property_bytes[0];"
        let ghost b0 = mutable_property_bytes@;
        let ghost pk0 = *packet;
//@@at after "mutable_property_bytes = &mutable_property_bytes[1..];"
        let ghost rest_view = mutable_property_bytes@;
//@end

//@fn gneiss-mqtt/src/mqtt/pubcomp.rs decode_pubcomp_packet5 props=C03,C11,C01 via=gneiss-mqtt/src/decode.rs:define_ack_packet_decode_function5 desugar
//@@rewrite "box_packet.as_mut()" => "&mut *box_packet"
    ensures
        match ack5_spec(first_byte, packet_body@, 0x70u8, |v: u8| pubcomp_reason_legal(v)) {
            Some((pid, rc, bag)) => r matches Ok(b) && (*b matches MqttPacket::Pubcomp(p) && p.packet_id as int == pid && pubcomp_reason_value(p.reason_code) == rc && bag_eq(pubcomp_bag(p), bag)),
            None => r is Err,
        },
//@@at bodystart
    proof { assert((7u8 << 4u8) == 0x70u8) by (bit_vector); assert((0x70u8 | 2u8) == (0x70u8 + 2u8)) by (bit_vector); assert(PACKET_TYPE_PUBCOMP == 7u8 && PUBCOMP_FIRST_BYTE == 0x70u8); }
//@@at before "mutable_body = decode_u8_as_enum(mutable_body, &mut packet.reason_code, PubcompReasonCode::try_from)?;"
        proof { assert(bag_eq(pubcomp_bag(*packet), empty_bag())); assert(pubcomp_reason_value(packet.reason_code) == 0); assert(mutable_body@ =~= packet_body@.subrange(2, packet_body@.len() as int)); }
//@@at before "mutable_body = decode_vli_into_mutable(mutable_body, &mut properties_length)?;"
        let ghost tail = mutable_body@;
        proof {
            assert(tail =~= packet_body@.subrange(3, packet_body@.len() as int));
            lemma_vbi_len_char(tail);
            assert(pubcomp_bag(*packet) == empty_bag()) by { assert(bag_eq(pubcomp_bag(*packet), empty_bag())); }
        }
//@@at after "mutable_body = decode_vli_into_mutable(mutable_body, &mut properties_length)?;"
        proof {
            let n = vbi_len(tail)->Some_0;
            assert(vbi_len(tail) is Some);
            assert(mutable_body@ =~= tail.subrange(n, tail.len() as int));
            assert(properties_length == vli_val(tail, n as nat));
        }
//@end

//@fn gneiss-mqtt/src/mqtt/pubcomp.rs decode_pubcomp_packet311 props=C03,C11,C01 via=gneiss-mqtt/src/decode.rs:define_ack_packet_decode_function311
//@@rewrite "box_packet.as_mut()" => "&mut *box_packet"
    // MQTT 3.1.1: exactly the two bytes of the packet identifier
    ensures
        (first_byte == 0x70u8 && packet_body@.len() == 2) ==> (r matches Ok(b) && (*b matches MqttPacket::Pubcomp(p) && p.packet_id as int == be16(packet_body@) && pubcomp_reason_value(p.reason_code) == 0 && bag_eq(pubcomp_bag(p), empty_bag()))),
        !(first_byte == 0x70u8 && packet_body@.len() == 2) ==> r is Err,
//@@at bodystart
    proof { assert((7u8 << 4u8) == 0x70u8) by (bit_vector); assert((0x70u8 | 2u8) == (0x70u8 + 2u8)) by (bit_vector); assert(PACKET_TYPE_PUBCOMP == 7u8 && PUBCOMP_FIRST_BYTE == 0x70u8); }
//@end

// =====================================================================================================
// PINGRESP and the dispatch on the packet type (C03): the high nibble of the first byte selects the decoder (OASIS 2.1.2)
// =====================================================================================================
//@const gneiss-mqtt/src/mqtt/utils.rs PACKET_TYPE_CONNECT
//@const gneiss-mqtt/src/mqtt/utils.rs PACKET_TYPE_PUBLISH
//@const gneiss-mqtt/src/mqtt/utils.rs PACKET_TYPE_SUBSCRIBE
//@const gneiss-mqtt/src/mqtt/utils.rs PACKET_TYPE_UNSUBSCRIBE
//@const gneiss-mqtt/src/mqtt/utils.rs PACKET_TYPE_PINGREQ
//@const gneiss-mqtt/src/mqtt/utils.rs PACKET_TYPE_PINGRESP
//@const gneiss-mqtt/src/mqtt/utils.rs PACKET_TYPE_AUTH
//@const gneiss-mqtt/src/mqtt/pingresp.rs PINGRESP_FIRST_BYTE
//@fn gneiss-mqtt/src/mqtt/pingresp.rs decode_pingresp_packet props=C03,C11
    ensures (first_byte == 0xD0u8 && packet_body@.len() == 0) ==> (r matches Ok(b) && *b is Pingresp), !(first_byte == 0xD0u8 && packet_body@.len() == 0) ==> r is Err,
//@@at bodystart
    proof { assert(13u8 << 4u8 == 0xD0u8) by (bit_vector); assert(PACKET_TYPE_PINGRESP == 13u8 && PINGRESP_FIRST_BYTE == 0xD0u8); }
//@end
// decoders of packets only a server receives (each exists twice in the crate: a cfg(test) version and a cfg(not(test)) version that returns
// an "unimplemented" error): signature-only stubs, no contract, nothing assumed about them
#[verifier::external_body] pub fn decode_connect_packet5(first_byte: u8, packet_body: &[u8]) -> GneissResult<Box<MqttPacket>> { unimplemented!() }
#[verifier::external_body] pub fn decode_connect_packet311(first_byte: u8, packet_body: &[u8]) -> GneissResult<Box<MqttPacket>> { unimplemented!() }
#[verifier::external_body] pub fn decode_subscribe_packet5(first_byte: u8, packet_body: &[u8]) -> GneissResult<Box<MqttPacket>> { unimplemented!() }
#[verifier::external_body] pub fn decode_subscribe_packet311(first_byte: u8, packet_body: &[u8]) -> GneissResult<Box<MqttPacket>> { unimplemented!() }
#[verifier::external_body] pub fn decode_unsubscribe_packet5(first_byte: u8, packet_body: &[u8]) -> GneissResult<Box<MqttPacket>> { unimplemented!() }
#[verifier::external_body] pub fn decode_unsubscribe_packet311(first_byte: u8, packet_body: &[u8]) -> GneissResult<Box<MqttPacket>> { unimplemented!() }
#[verifier::external_body] pub fn decode_pingreq_packet(first_byte: u8, packet_body: &[u8]) -> GneissResult<Box<MqttPacket>> { unimplemented!() }
#[verifier::external_body] pub fn decode_auth_packet5(first_byte: u8, packet_body: &[u8]) -> GneissResult<Box<MqttPacket>> { unimplemented!() }

//@fn gneiss-mqtt/src/decode.rs decode_packet5 props=C03,C11
    // each server-to-client packet type is decoded by the decoder of THAT type (the per-type specifications above)
    ensures
        (first_byte >> 4u8) == 2 ==> (match connack5_spec(first_byte, packet_body@) {
            Some((sp, rc, bag)) => r matches Ok(b) && (*b matches MqttPacket::Connack(p) && p.session_present == sp && connect_reason_value(p.reason_code) == rc && bag_eq(connack_bag(p), bag)),
            None => r is Err }),
        (first_byte >> 4u8) == 3 ==> (match publish_spec(first_byte, packet_body@, true) { Some(v) => r matches Ok(b) && (*b matches MqttPacket::Publish(p) && publish_matches(p, v)), None => r is Err }),
        (first_byte >> 4u8) == 4 ==> (match ack5_spec(first_byte, packet_body@, 0x40u8, |v: u8| puback_reason_legal(v)) {
            Some((pid, rc, bag)) => r matches Ok(b) && (*b matches MqttPacket::Puback(p) && p.packet_id as int == pid && puback_reason_value(p.reason_code) == rc && bag_eq(puback_bag(p), bag)),
            None => r is Err }),
        (first_byte >> 4u8) == 5 ==> (match ack5_spec(first_byte, packet_body@, 0x50u8, |v: u8| pubrec_reason_legal(v)) {
            Some((pid, rc, bag)) => r matches Ok(b) && (*b matches MqttPacket::Pubrec(p) && p.packet_id as int == pid && pubrec_reason_value(p.reason_code) == rc && bag_eq(pubrec_bag(p), bag)),
            None => r is Err }),
        (first_byte >> 4u8) == 6 ==> (match ack5_spec(first_byte, packet_body@, 0x62u8, |v: u8| pubrel_reason_legal(v)) {
            Some((pid, rc, bag)) => r matches Ok(b) && (*b matches MqttPacket::Pubrel(p) && p.packet_id as int == pid && pubrel_reason_value(p.reason_code) == rc && bag_eq(pubrel_bag(p), bag)),
            None => r is Err }),
        (first_byte >> 4u8) == 7 ==> (match ack5_spec(first_byte, packet_body@, 0x70u8, |v: u8| pubcomp_reason_legal(v)) {
            Some((pid, rc, bag)) => r matches Ok(b) && (*b matches MqttPacket::Pubcomp(p) && p.packet_id as int == pid && pubcomp_reason_value(p.reason_code) == rc && bag_eq(pubcomp_bag(p), bag)),
            None => r is Err }),
        (first_byte >> 4u8) == 9 ==> (match suback_spec(first_byte, packet_body@, true) { Some(v) => r matches Ok(b) && (*b matches MqttPacket::Suback(p) && suback_matches(p, v)), None => r is Err }),
        (first_byte >> 4u8) == 11 ==> (match unsuback_spec(first_byte, packet_body@, true) { Some(v) => r matches Ok(b) && (*b matches MqttPacket::Unsuback(p) && unsuback_matches(p, v)), None => r is Err }),
        (first_byte >> 4u8) == 13 ==> ((first_byte == 0xD0u8 && packet_body@.len() == 0) ==> (r matches Ok(b) && *b is Pingresp)) && (!(first_byte == 0xD0u8 && packet_body@.len() == 0) ==> r is Err),
        (first_byte >> 4u8) == 14 ==> (match disconnect5_spec(first_byte, packet_body@) {
            Some((rc, bag)) => r matches Ok(b) && (*b matches MqttPacket::Disconnect(p) && disconnect_reason_value(p.reason_code) == rc && bag_eq(disconnect_bag(p), bag)),
            None => r is Err }),
        (first_byte >> 4u8) == 0 ==> r is Err,
//@@at bodystart
    proof { assert((first_byte >> 4u8) <= 15u8) by (bit_vector); }
//@end

//@fn gneiss-mqtt/src/decode.rs decode_packet311 props=C03,C11
    ensures
        (first_byte >> 4u8) == 2 ==> ((first_byte == 0x20 && packet_body@.len() == 2 && packet_body@[0] <= 1 && connack311_reason(packet_body@[1]) is Some) ==>
                (r matches Ok(b) && (*b matches MqttPacket::Connack(p) && p.session_present == (packet_body@[0] == 1) && Some(p.reason_code) == connack311_reason(packet_body@[1]))))
            && (!(first_byte == 0x20 && packet_body@.len() == 2 && packet_body@[0] <= 1 && connack311_reason(packet_body@[1]) is Some) ==> r is Err),
        (first_byte >> 4u8) == 3 ==> (match publish_spec(first_byte, packet_body@, false) { Some(v) => r matches Ok(b) && (*b matches MqttPacket::Publish(p) && publish_matches(p, v)), None => r is Err }),
        (first_byte >> 4u8) == 4 ==> ((first_byte == 0x40u8 && packet_body@.len() == 2) ==> (r matches Ok(b) && (*b matches MqttPacket::Puback(p) && p.packet_id as int == be16(packet_body@) && puback_reason_value(p.reason_code) == 0)))
            && (!(first_byte == 0x40u8 && packet_body@.len() == 2) ==> r is Err),
        (first_byte >> 4u8) == 5 ==> ((first_byte == 0x50u8 && packet_body@.len() == 2) ==> (r matches Ok(b) && (*b matches MqttPacket::Pubrec(p) && p.packet_id as int == be16(packet_body@) && pubrec_reason_value(p.reason_code) == 0)))
            && (!(first_byte == 0x50u8 && packet_body@.len() == 2) ==> r is Err),
        (first_byte >> 4u8) == 6 ==> ((first_byte == 0x62u8 && packet_body@.len() == 2) ==> (r matches Ok(b) && (*b matches MqttPacket::Pubrel(p) && p.packet_id as int == be16(packet_body@) && pubrel_reason_value(p.reason_code) == 0)))
            && (!(first_byte == 0x62u8 && packet_body@.len() == 2) ==> r is Err),
        (first_byte >> 4u8) == 7 ==> ((first_byte == 0x70u8 && packet_body@.len() == 2) ==> (r matches Ok(b) && (*b matches MqttPacket::Pubcomp(p) && p.packet_id as int == be16(packet_body@) && pubcomp_reason_value(p.reason_code) == 0)))
            && (!(first_byte == 0x70u8 && packet_body@.len() == 2) ==> r is Err),
        (first_byte >> 4u8) == 9 ==> (match suback_spec(first_byte, packet_body@, false) { Some(v) => r matches Ok(b) && (*b matches MqttPacket::Suback(p) && suback_matches(p, v)), None => r is Err }),
        (first_byte >> 4u8) == 11 ==> (match unsuback_spec(first_byte, packet_body@, false) { Some(v) => r matches Ok(b) && (*b matches MqttPacket::Unsuback(p) && unsuback_matches(p, v)), None => r is Err }),
        (first_byte >> 4u8) == 13 ==> ((first_byte == 0xD0u8 && packet_body@.len() == 0) ==> (r matches Ok(b) && *b is Pingresp)) && (!(first_byte == 0xD0u8 && packet_body@.len() == 0) ==> r is Err),
        (first_byte >> 4u8) == 14 ==> ((first_byte == 0xE0 && packet_body@.len() == 0) ==> (r matches Ok(b) && *b is Disconnect)) && (!(first_byte == 0xE0 && packet_body@.len() == 0) ==> r is Err),
        // MQTT 3.1.1 has no AUTH packet; type 0 is reserved
        ((first_byte >> 4u8) == 15 || (first_byte >> 4u8) == 0) ==> r is Err,
//@@at bodystart
    proof { assert((first_byte >> 4u8) <= 15u8) by (bit_vector); }
//@end

//@fn gneiss-mqtt/src/decode.rs decode_packet props=C03,C11
    ensures
        // (the per-type clauses of the two functions above, selected by the protocol version; spelt out for the most frequent packet)
        (first_byte >> 4u8) == 3 ==> (match publish_spec(first_byte, packet_body@, protocol_version == ProtocolVersion::Mqtt5) { Some(v) => r matches Ok(b) && (*b matches MqttPacket::Publish(p) && publish_matches(p, v)), None => r is Err }),
        (first_byte >> 4u8) == 0 ==> r is Err,
//@end

pub proof fn lemma_pow128(n: nat)
    ensures n == 0 ==> pow128(n) == 1, n == 1 ==> pow128(n) == 128, n == 2 ==> pow128(n) == 16384, n == 3 ==> pow128(n) == 2097152, n == 4 ==> pow128(n) == 268435456,
{
    reveal_with_fuel(pow128, 6);
}


// =====================================================================================================
// incremental framing (C03): type byte, remaining length, size check at header time
// =====================================================================================================
//@enum gneiss-mqtt/src/decode.rs DecoderState
//@enum gneiss-mqtt/src/decode.rs DecoderDirective
//@struct gneiss-mqtt/src/decode.rs DecodingContext
//@struct gneiss-mqtt/src/decode.rs Decoder

// while the remaining-length field is being read the scratch buffer holds only its (1..3) continuation bytes
pub open spec fn len_prefix_wf(d: Decoder) -> bool {
    d.scratch@.len() < 4 && forall|j: int| 0 <= j < d.scratch@.len() ==> d.scratch@[j] >= 128
}

pub open spec fn max_in_force(ctx: DecodingContext) -> int { if ctx.maximum_packet_size == 0 { 268435455 } else { ctx.maximum_packet_size as int } }

impl Decoder {
//@fn gneiss-mqtt/src/decode.rs Decoder::reset props=C03,C11
    ensures final(self).state == DecoderState::ReadPacketType, final(self).scratch@.len() == 0, final(self).first_byte is None, final(self).remaining_length is None,
//@end

//@fn gneiss-mqtt/src/decode.rs Decoder::reset_for_new_packet props=C03
    ensures
        // a terminal decode error is sticky until the connection is reset
        old(self).state == DecoderState::TerminalError ==> *final(self) == *old(self),
        old(self).state != DecoderState::TerminalError ==> final(self).state == DecoderState::ReadPacketType && final(self).scratch@.len() == 0
            && final(self).first_byte is None && final(self).remaining_length is None,
//@end

//@fn gneiss-mqtt/src/decode.rs Decoder::reset_for_new_connection props=C03,C11
    ensures final(self).state == DecoderState::ReadPacketType, final(self).scratch@.len() == 0, final(self).first_byte is None, final(self).remaining_length is None,
//@end

//@fn gneiss-mqtt/src/decode.rs Decoder::process_read_packet_type props=C03,C11
    ensures
        bytes@.len() == 0 ==> r.0 is OutOfData && r.1@ == bytes@ && *final(self) == *old(self),
        bytes@.len() > 0 ==> r.0 is Continue && r.1@ == bytes@.subrange(1, bytes@.len() as int)
            && final(self).first_byte == Some(bytes@[0]) && final(self).state == DecoderState::ReadTotalRemainingLength
            && final(self).scratch@ == old(self).scratch@ && final(self).remaining_length == old(self).remaining_length,
//@end

//@fn gneiss-mqtt/src/decode.rs Decoder::process_read_total_remaining_length props=C03,C11
    requires len_prefix_wf(*old(self)),
    ensures
        final(self).first_byte == old(self).first_byte,
        bytes@.len() == 0 ==> r.0 is OutOfData && r.1@ == bytes@ && *final(self) == *old(self),
        bytes@.len() > 0 ==> {
            let b = bytes@[0];
            let all = old(self).scratch@.push(b);
            &&& r.1@ == bytes@.subrange(1, bytes@.len() as int)                  // exactly one byte of the length field is consumed per step
            // length field complete
            &&& b < 128 ==> {
                    let len = vli_val(all, all.len());
                    let total = len + 1 + all.len();
                    // too big for the maximum in force: rejected at header time, nothing of the body has been buffered
                    &&& total > max_in_force(*context) ==> r.0 is TerminalError && final(self).scratch@ == all && final(self).remaining_length == old(self).remaining_length
                    &&& total <= max_in_force(*context) ==> r.0 is Continue && final(self).state == DecoderState::ReadPacketBody
                            && final(self).remaining_length == Some(len as usize) && final(self).scratch@.len() == 0
                }
            // a fourth continuation byte: malformed
            &&& (b >= 128 && all.len() >= 4) ==> r.0 is TerminalError
            // still inside the length field
            &&& (b >= 128 && all.len() < 4) ==> final(self).scratch@ == all && len_prefix_wf(*final(self)) && final(self).state == old(self).state
                    && (if bytes@.len() > 1 { r.0 is Continue } else { r.0 is OutOfData })
        },
//@@at after "let decode_vli_result = decode_vli(&self.scratch);"
        proof {
            lemma_pow128(self.scratch@.len());
            lemma_vli_val_bound(self.scratch@, self.scratch@.len());
        }
//@end
}

pub proof fn lemma_vli_val_bound(s: Seq<u8>, n: nat)
    requires n <= s.len(), n <= 4,
    ensures vli_val(s, n) < pow128(n), pow128(n) <= 268435456,
    decreases n
{
    reveal_with_fuel(pow128, 6);
    if n > 0 {
        lemma_vli_val_bound(s, (n - 1) as nat);
        assert(((s[n - 1] % 128) as nat) * pow128((n - 1) as nat) <= 127 * pow128((n - 1) as nat)) by (nonlinear_arith)
            requires (s[n - 1] % 128) as nat <= 127;
    }
}
// logging only
#[verifier::external_body] pub fn log_packet(prefix: &str, packet: &MqttPacket) { unimplemented!() }

// while the body is being read: the fixed header is known, and no more than the announced number of body bytes has been buffered
pub open spec fn body_wf(d: Decoder) -> bool {
    d.first_byte is Some && (d.remaining_length matches Some(n) && d.scratch@.len() <= n)
}

impl Decoder {
//@fn gneiss-mqtt/src/decode.rs Decoder::process_read_packet_body props=C03,C11
    requires body_wf(*old(self)), old(self).state == DecoderState::ReadPacketBody,
    ensures
        ({
            let n = old(self).remaining_length->Some_0 as int;
            let need = n - old(self).scratch@.len();
            let fb = old(self).first_byte->Some_0;
            // not all of the body has arrived: everything is buffered, nothing decoded - whatever the chunk size
            &&& need > bytes@.len() ==> r.0 is OutOfData && r.1@.len() == 0 && final(self).scratch@ == old(self).scratch@ + bytes@
                    && final(self).state == old(self).state && final(self).first_byte == old(self).first_byte && final(self).remaining_length == old(self).remaining_length
                    && final(context).decoded_packets@ == old(context).decoded_packets@ && body_wf(*final(self))
            // the body is complete: the packet is decoded from EXACTLY the announced number of bytes after the header - the buffered ones followed by the
            // first `need` new ones - so the result does not depend on how the stream was cut (C03); the rest of the chunk is handed back
            &&& need <= bytes@.len() ==> {
                    let body = old(self).scratch@ + bytes@.subrange(0, need);
                    &&& (r.0 is Continue || r.0 is TerminalError)
                    &&& r.0 is Continue ==> r.1@ == bytes@.subrange(need, bytes@.len() as int) && final(context).decoded_packets@.len() == old(context).decoded_packets@.len() + 1
                            && final(context).decoded_packets@.subrange(0, old(context).decoded_packets@.len() as int) == old(context).decoded_packets@
                            && final(self).state == DecoderState::ReadPacketType && final(self).scratch@.len() == 0
                    &&& r.0 is TerminalError ==> final(context).decoded_packets@ == old(context).decoded_packets@
                    // (for the most frequent packet: what was decoded is what the PUBLISH specification says about that body)
                    &&& (fb >> 4u8) == 3 ==> (match publish_spec(fb, body, old(context).protocol_version == ProtocolVersion::Mqtt5) {
                            Some(v) => r.0 is Continue && (*final(context).decoded_packets@.last() matches MqttPacket::Publish(p) && publish_matches(p, v)),
                            None => r.0 is TerminalError })
                }
            &&& final(context).maximum_packet_size == old(context).maximum_packet_size && final(context).protocol_version == old(context).protocol_version
            &&& mut_ref_future(final(context).decoded_packets) == mut_ref_future(old(context).decoded_packets)
        }),
//@@at before "match decode_packet(self.first_byte.unwrap(), packet_slice, context.protocol_version) {"
        proof {
            let need = old(self).remaining_length->Some_0 as int - old(self).scratch@.len();
            let body = old(self).scratch@ + bytes@.subrange(0, need);
            assert(bytes_needed as int == need);
            assert(packet_slice@ =~= body);
            assert(self.first_byte == old(self).first_byte && self.state == old(self).state);
        }
//@@at after "context.decoded_packets.push_back(packet);"
                proof {
                    assert(context.decoded_packets@ == old(context).decoded_packets@.push(packet));
                    assert(context.decoded_packets@.subrange(0, old(context).decoded_packets@.len() as int) =~= old(context).decoded_packets@);
                    assert(context.decoded_packets@.last() == packet);
                }
//@end
}

// the decoder between two reads (C03: "however the byte stream is split into reads"); `strict`: between two calls a body is never complete
// (a complete body is decoded in the call that completed it) - inside the loop it can be, for a moment (a packet without a body)
pub open spec fn dec_wf_gen(d: Decoder, strict: bool) -> bool {
    match d.state {
        DecoderState::ReadPacketType => d.scratch@.len() == 0,
        DecoderState::ReadTotalRemainingLength => len_prefix_wf(d) && d.first_byte is Some,
        DecoderState::ReadPacketBody => body_wf(d) && (strict ==> d.scratch@.len() < d.remaining_length->Some_0),
        _ => true,
    }
}
pub open spec fn dec_wf(d: Decoder) -> bool { dec_wf_gen(d, true) }
pub open spec fn dec_pending(d: Decoder) -> int { if d.state == DecoderState::ReadPacketBody && d.scratch@.len() == d.remaining_length->Some_0 { 1int } else { 0int } }
pub open spec fn dec_measure(d: Decoder, left: int) -> int { 2 * left + (if d.state == DecoderState::ReadPacketBody { 1int } else { 0int }) }

//@const gneiss-mqtt/src/decode.rs DECODE_BUFFER_DEFAULT_SIZE
impl Decoder {
//@fn gneiss-mqtt/src/decode.rs Decoder::new props=C03,C11
    // a new decoder is between two packets: the induction over all reads starts here (reset()/reset_for_new_connection() re-establish it)
    ensures dec_wf(r), r.state == DecoderState::ReadPacketType,
//@end

//@fn gneiss-mqtt/src/decode.rs Decoder::decode_bytes props=C03,C11 desugar
    requires dec_wf(*old(self)),
    ensures dec_wf(*final(self)),
        // (the output reference itself is not re-seated: what the engine unit's opaque Decoder shim assumes, proved here)
        mut_ref_future(final(context).decoded_packets) == mut_ref_future(old(context).decoded_packets),
        // packets are only appended, and at most one per byte handed in
        old(context).decoded_packets@.is_prefix_of(final(context).decoded_packets@),
        final(context).decoded_packets@.len() <= old(context).decoded_packets@.len() + bytes@.len(),
        final(context).maximum_packet_size == old(context).maximum_packet_size, final(context).protocol_version == old(context).protocol_version,
        // an error is terminal for the connection, and a decoder in the terminal state reports an error for every further read
        r is Err ==> final(self).state == DecoderState::TerminalError,
        old(self).state == DecoderState::TerminalError ==> r is Err,
//@@loop 0
        invariant
            old(context).decoded_packets@.is_prefix_of(context.decoded_packets@),
            context.maximum_packet_size == old(context).maximum_packet_size, context.protocol_version == old(context).protocol_version,
            context.decoded_packets@.len() <= old(context).decoded_packets@.len() + bytes@.len(),
            mut_ref_future(context.decoded_packets) == mut_ref_future(old(context).decoded_packets),
            // as long as no step has failed: the decoder is between two steps, and packets completed (or about to complete without
            // consuming anything) <= bytes consumed
            !(decode_result is TerminalError) ==> {
                &&& dec_wf_gen(*self, false) && current_slice@.len() <= bytes@.len()
                &&& context.decoded_packets@.len() + dec_pending(*self) + current_slice@.len() <= old(context).decoded_packets@.len() + bytes@.len()
            },
            decode_result is OutOfData ==> dec_wf(*self),
            old(self).state == DecoderState::TerminalError ==> (self.state == DecoderState::TerminalError && !(decode_result is OutOfData)),
        ensures !(decode_result is Continue),
        decreases (if decode_result is Continue { dec_measure(*self, current_slice@.len() as int) + 1 } else { 0int }),
//@end
}


// ---------------------------------------------------------------------------------------------------------------------------------
// Outbound packets whose encoders use no getter: the steps they append denote exactly the bytes of the standard (C02), whatever
// MqttPacket `pk` is later handed to Encoder::encode.
//@struct gneiss-mqtt/src/alias.rs OutboundAliasResolution
//@struct gneiss-mqtt/src/encode.rs EncodingContext
//@macro gneiss-mqtt/src/encode.rs encode_integral_expression

pub proof fn lemma_flat_push(s: Seq<EncodingStep>, x: EncodingStep, p: MqttPacket)
    ensures flat(s.push(x), p) == flat(s, p) + step_bytes(x, p),
    decreases s.len()
{
    if s.len() == 0 {
        assert(s.push(x).subrange(1, 1) =~= Seq::<EncodingStep>::empty());
        assert(flat(s.push(x), p) =~= step_bytes(x, p) + flat(Seq::<EncodingStep>::empty(), p));
        assert(flat(s, p) + step_bytes(x, p) =~= step_bytes(x, p));
    } else {
        let t = s.push(x);
        assert(t.subrange(1, t.len() as int) =~= s.subrange(1, s.len() as int).push(x));
        lemma_flat_push(s.subrange(1, s.len() as int), x, p);
        assert(flat(t, p) =~= step_bytes(s[0], p) + (flat(s.subrange(1, s.len() as int), p) + step_bytes(x, p)));
        assert(flat(s, p) + step_bytes(x, p) =~= step_bytes(s[0], p) + (flat(s.subrange(1, s.len() as int), p) + step_bytes(x, p)));
    }
}

//@fn gneiss-mqtt/src/mqtt/pingreq.rs write_pingreq_encoding_steps props=C02,C14
    ensures
        r is Ok,
        forall|pk: MqttPacket| steps_wf(old(steps)@, pk) ==> #[trigger] steps_wf(final(steps)@, pk),
        // OASIS 3.12: PINGREQ is the two bytes C0 00 in both protocol versions
        forall|pk: MqttPacket| #[trigger] flat(final(steps)@, pk) == flat(old(steps)@, pk) + seq![0xC0u8, 0u8],
//@@at bodystart
    let ghost s0 = steps@;
//@@at before "Ok(())"
    proof {
        assert(PACKET_TYPE_PINGREQ << 4 == 0xC0u8) by (compute);
        assert forall|pk: MqttPacket| #[trigger] flat(steps@, pk) == flat(s0, pk) + seq![0xC0u8, 0u8] by {
            let x0 = EncodingStep::Uint8(0xC0u8); let x1 = EncodingStep::Uint8(0u8);
            lemma_flat_push(s0, x0, pk); lemma_flat_push(s0.push(x0), x1, pk);
            assert(step_bytes(x0, pk) =~= seq![0xC0u8]); assert(step_bytes(x1, pk) =~= seq![0u8]);
            assert(steps@ =~= s0.push(x0).push(x1));
            assert(flat(steps@, pk) =~= flat(s0, pk) + seq![0xC0u8, 0u8]);
        }
    }
//@end

//@fn gneiss-mqtt/src/mqtt/disconnect.rs write_disconnect_encoding_steps311 props=C02,C07
    ensures
        r is Ok,
        forall|pk: MqttPacket| steps_wf(old(steps)@, pk) ==> #[trigger] steps_wf(final(steps)@, pk),
        // OASIS 3.1.1 section 3.14: DISCONNECT is the two bytes E0 00
        forall|pk: MqttPacket| #[trigger] flat(final(steps)@, pk) == flat(old(steps)@, pk) + seq![0xE0u8, 0u8],
//@@at bodystart
    let ghost s0 = steps@;
//@@at before "Ok(())"
    proof {
        assert(PACKET_TYPE_DISCONNECT << 4 == 0xE0u8) by (compute);
        assert forall|pk: MqttPacket| #[trigger] flat(steps@, pk) == flat(s0, pk) + seq![0xE0u8, 0u8] by {
            let x0 = EncodingStep::Uint8(0xE0u8); let x1 = EncodingStep::Uint8(0u8);
            lemma_flat_push(s0, x0, pk); lemma_flat_push(s0.push(x0), x1, pk);
            assert(step_bytes(x0, pk) =~= seq![0xE0u8]); assert(step_bytes(x1, pk) =~= seq![0u8]);
            assert(steps@ =~= s0.push(x0).push(x1));
            assert(flat(steps@, pk) =~= flat(s0, pk) + seq![0xE0u8, 0u8]);
        }
    }
//@end

//@fn gneiss-mqtt/src/mqtt/puback.rs write_puback_encoding_steps311 props=C02 via=gneiss-mqtt/src/encode.rs:define_ack_packet_encoding_impl311
    ensures
        r is Ok,
        forall|pk: MqttPacket| steps_wf(old(steps)@, pk) ==> #[trigger] steps_wf(final(steps)@, pk),
        // OASIS 3.1.1 section 3.4: fixed header 0x40, Remaining Length 2, Packet Identifier MSB LSB
        forall|pk: MqttPacket| #[trigger] flat(final(steps)@, pk) == flat(old(steps)@, pk) + (seq![0x40u8, 2u8] + be16_bytes(packet.packet_id)),
//@@at bodystart
    let ghost s0 = steps@;
//@@at before "Ok(())"
    proof {
        assert(PUBACK_FIRST_BYTE == 0x40u8) by (compute);
        assert forall|pk: MqttPacket| #[trigger] flat(steps@, pk) == flat(s0, pk) + (seq![0x40u8, 2u8] + be16_bytes(packet.packet_id)) by {
            let x0 = EncodingStep::Uint8(0x40u8); let x1 = EncodingStep::Uint8(2u8); let x2 = EncodingStep::Uint16(packet.packet_id);
            lemma_flat_push(s0, x0, pk); lemma_flat_push(s0.push(x0), x1, pk); lemma_flat_push(s0.push(x0).push(x1), x2, pk);
            assert(step_bytes(x0, pk) =~= seq![0x40u8]); assert(step_bytes(x1, pk) =~= seq![2u8]); assert(step_bytes(x2, pk) =~= be16_bytes(packet.packet_id));
            assert(steps@ =~= s0.push(x0).push(x1).push(x2));
            assert(flat(steps@, pk) =~= flat(s0, pk) + (seq![0x40u8, 2u8] + be16_bytes(packet.packet_id)));
        }
    }
//@end

//@fn gneiss-mqtt/src/mqtt/pubrec.rs write_pubrec_encoding_steps311 props=C02 via=gneiss-mqtt/src/encode.rs:define_ack_packet_encoding_impl311
    ensures
        r is Ok,
        forall|pk: MqttPacket| steps_wf(old(steps)@, pk) ==> #[trigger] steps_wf(final(steps)@, pk),
        // OASIS 3.1.1 section 3.5: fixed header 0x50, Remaining Length 2, Packet Identifier MSB LSB
        forall|pk: MqttPacket| #[trigger] flat(final(steps)@, pk) == flat(old(steps)@, pk) + (seq![0x50u8, 2u8] + be16_bytes(packet.packet_id)),
//@@at bodystart
    let ghost s0 = steps@;
//@@at before "Ok(())"
    proof {
        assert(PUBREC_FIRST_BYTE == 0x50u8) by (compute);
        assert forall|pk: MqttPacket| #[trigger] flat(steps@, pk) == flat(s0, pk) + (seq![0x50u8, 2u8] + be16_bytes(packet.packet_id)) by {
            let x0 = EncodingStep::Uint8(0x50u8); let x1 = EncodingStep::Uint8(2u8); let x2 = EncodingStep::Uint16(packet.packet_id);
            lemma_flat_push(s0, x0, pk); lemma_flat_push(s0.push(x0), x1, pk); lemma_flat_push(s0.push(x0).push(x1), x2, pk);
            assert(step_bytes(x0, pk) =~= seq![0x50u8]); assert(step_bytes(x1, pk) =~= seq![2u8]); assert(step_bytes(x2, pk) =~= be16_bytes(packet.packet_id));
            assert(steps@ =~= s0.push(x0).push(x1).push(x2));
            assert(flat(steps@, pk) =~= flat(s0, pk) + (seq![0x50u8, 2u8] + be16_bytes(packet.packet_id)));
        }
    }
//@end

//@fn gneiss-mqtt/src/mqtt/pubrel.rs write_pubrel_encoding_steps311 props=C02 via=gneiss-mqtt/src/encode.rs:define_ack_packet_encoding_impl311
    ensures
        r is Ok,
        forall|pk: MqttPacket| steps_wf(old(steps)@, pk) ==> #[trigger] steps_wf(final(steps)@, pk),
        // OASIS 3.1.1 section 3.6: fixed header 0x62, Remaining Length 2, Packet Identifier MSB LSB
        forall|pk: MqttPacket| #[trigger] flat(final(steps)@, pk) == flat(old(steps)@, pk) + (seq![0x62u8, 2u8] + be16_bytes(packet.packet_id)),
//@@at bodystart
    let ghost s0 = steps@;
//@@at before "Ok(())"
    proof {
        assert(PUBREL_FIRST_BYTE == 0x62u8) by (compute);
        assert forall|pk: MqttPacket| #[trigger] flat(steps@, pk) == flat(s0, pk) + (seq![0x62u8, 2u8] + be16_bytes(packet.packet_id)) by {
            let x0 = EncodingStep::Uint8(0x62u8); let x1 = EncodingStep::Uint8(2u8); let x2 = EncodingStep::Uint16(packet.packet_id);
            lemma_flat_push(s0, x0, pk); lemma_flat_push(s0.push(x0), x1, pk); lemma_flat_push(s0.push(x0).push(x1), x2, pk);
            assert(step_bytes(x0, pk) =~= seq![0x62u8]); assert(step_bytes(x1, pk) =~= seq![2u8]); assert(step_bytes(x2, pk) =~= be16_bytes(packet.packet_id));
            assert(steps@ =~= s0.push(x0).push(x1).push(x2));
            assert(flat(steps@, pk) =~= flat(s0, pk) + (seq![0x62u8, 2u8] + be16_bytes(packet.packet_id)));
        }
    }
//@end

//@fn gneiss-mqtt/src/mqtt/pubcomp.rs write_pubcomp_encoding_steps311 props=C02 via=gneiss-mqtt/src/encode.rs:define_ack_packet_encoding_impl311
    ensures
        r is Ok,
        forall|pk: MqttPacket| steps_wf(old(steps)@, pk) ==> #[trigger] steps_wf(final(steps)@, pk),
        // OASIS 3.1.1 section 3.7: fixed header 0x70, Remaining Length 2, Packet Identifier MSB LSB
        forall|pk: MqttPacket| #[trigger] flat(final(steps)@, pk) == flat(old(steps)@, pk) + (seq![0x70u8, 2u8] + be16_bytes(packet.packet_id)),
//@@at bodystart
    let ghost s0 = steps@;
//@@at before "Ok(())"
    proof {
        assert(PUBCOMP_FIRST_BYTE == 0x70u8) by (compute);
        assert forall|pk: MqttPacket| #[trigger] flat(steps@, pk) == flat(s0, pk) + (seq![0x70u8, 2u8] + be16_bytes(packet.packet_id)) by {
            let x0 = EncodingStep::Uint8(0x70u8); let x1 = EncodingStep::Uint8(2u8); let x2 = EncodingStep::Uint16(packet.packet_id);
            lemma_flat_push(s0, x0, pk); lemma_flat_push(s0.push(x0), x1, pk); lemma_flat_push(s0.push(x0).push(x1), x2, pk);
            assert(step_bytes(x0, pk) =~= seq![0x70u8]); assert(step_bytes(x1, pk) =~= seq![2u8]); assert(step_bytes(x2, pk) =~= be16_bytes(packet.packet_id));
            assert(steps@ =~= s0.push(x0).push(x1).push(x2));
            assert(flat(steps@, pk) =~= flat(s0, pk) + (seq![0x70u8, 2u8] + be16_bytes(packet.packet_id)));
        }
    }
//@end


// ---------------------------------------------------------------------------------------------------------------------------------
// MQTT 3.1.1 PUBLISH on the wire (C02): the steps written for a publish denote exactly the layout of OASIS 3.1.1 section 3.3, with
// a Remaining Length equal to the number of bytes that follow it.
// Strings: blen = UTF-8 length (what String::len returns), str_bytes = the UTF-8 bytes (what as_bytes returns); both uninterpreted.
pub uninterp spec fn blen(s: Seq<char>) -> nat;
pub uninterp spec fn str_bytes(s: Seq<char>) -> Seq<u8>;
#[verifier::external_body] pub proof fn axiom_str_bytes(s: Seq<char>) ensures str_bytes(s).len() == blen(s) { }
pub assume_specification [String::len] (s: &String) -> (r: usize) ensures r == blen(s@);
// R16 handle constructors: "a fn pointer made from fn item f behaves as f" - whatever f's verified contract promises for a packet it accepts
#[verifier::external_body]
pub fn verif_of_FnP_MqttPacket__str<F: Fn(&MqttPacket) -> &str>(f: F) -> (r: FnP_MqttPacket__str)
    ensures forall|p: MqttPacket| #[trigger] f.requires((&p,)) ==> exists|out: &str| #[trigger] f.ensures((&p,), out) && g_str(r, p) == str_bytes(out@),
{ unimplemented!() }
#[verifier::external_body]
pub fn verif_of_FnP_MqttPacket__bytes<F: Fn(&MqttPacket) -> &[u8]>(f: F) -> (r: FnP_MqttPacket__bytes)
    ensures forall|p: MqttPacket| #[trigger] f.requires((&p,)) ==> exists|out: &[u8]| #[trigger] f.ensures((&p,), out) && g_bytes(r, p) == out@,
{ unimplemented!() }

//@macro gneiss-mqtt/src/encode.rs get_packet_field
//@macro gneiss-mqtt/src/encode.rs encode_length_prefixed_string fnptr_opaque
//@macro gneiss-mqtt/src/encode.rs encode_raw_bytes fnptr_opaque

//@fn gneiss-mqtt/src/mqtt/publish.rs get_publish_packet_topic props=C02
    requires packet is Publish,
    ensures packet matches MqttPacket::Publish(p) && r@ == p.topic@,
//@end

//@fn gneiss-mqtt/src/mqtt/publish.rs get_publish_packet_payload props=C02
    requires packet matches MqttPacket::Publish(p) && p.payload is Some,
    ensures packet matches MqttPacket::Publish(p) && p.payload matches Some(b) && r@ == b@,
//@end

pub open spec fn qos_num(q: QualityOfService) -> u8 {
    match q { QualityOfService::AtMostOnce => 0u8, QualityOfService::AtLeastOnce => 1u8, QualityOfService::ExactlyOnce => 2u8 }
}
// OASIS 3.3.1: type 3 in the high nibble, DUP bit 3, QoS bits 2-1, RETAIN bit 0
pub open spec fn publish_first_byte(p: PublishPacket) -> u8 {
    (48 + (if p.duplicate { 8int } else { 0 }) + 2 * qos_num(p.qos) + (if p.retain { 1int } else { 0 })) as u8
}
//@fn gneiss-mqtt/src/mqtt/publish.rs compute_publish_fixed_header_first_byte props=C02
    ensures r == publish_first_byte(*packet),
//@@at bodystart
    proof {
        assert(3u8 << 4 == 48u8) by (bit_vector);
        assert(48u8 | (1u8 << 3) == 56u8) by (bit_vector);
        assert(forall|b: u8, q: u8| (b == 48 || b == 56) && q <= 2 ==> #[trigger] (b | (q << 1)) == b + 2 * q) by (bit_vector);
        assert(forall|b: u8| b % 2 == 0 ==> #[trigger] (b | 1u8) == b + 1) by (bit_vector);
        assert(packet.qos as u8 == qos_num(packet.qos));
    }
//@end


pub open spec fn publish_remaining_len311(p: PublishPacket) -> nat {
    2 + blen(p.topic@) + (if p.qos != QualityOfService::AtMostOnce { 2nat } else { 0 }) + (match p.payload { Some(b) => b@.len(), None => 0 })
}
// proved in the validate unit (same contract, same spec function); a signature-only stub here
//@fn gneiss-mqtt/src/mqtt/publish.rs compute_publish_packet_length_properties311 stub
    requires publish_remaining_len311(*packet) <= 268435455,
    ensures r matches Ok(rem) && rem == publish_remaining_len311(*packet),
//@end

// OASIS 3.1.1 section 3.3: fixed header (first byte, Remaining Length), Topic Name (2-byte length + UTF-8), Packet Identifier iff QoS > 0, payload
pub open spec fn publish311_body(p: PublishPacket) -> Seq<u8> {
    be16_bytes(blen(p.topic@) as u16) + str_bytes(p.topic@)
        + (if p.qos != QualityOfService::AtMostOnce { be16_bytes(p.packet_id) } else { Seq::<u8>::empty() })
        + (match p.payload { Some(b) => b@, None => Seq::<u8>::empty() })
}
pub open spec fn publish311_bytes(p: PublishPacket) -> Seq<u8> {
    seq![publish_first_byte(p)] + vli(publish_remaining_len311(p)) + publish311_body(p)
}
// the Remaining Length field says exactly how many bytes follow it
pub proof fn lemma_publish311_remaining_length(p: PublishPacket)
    requires blen(p.topic@) <= 65535,
    ensures publish311_body(p).len() == publish_remaining_len311(p),
{
    axiom_str_bytes(p.topic@);
}
pub open spec fn is_publish_of(pk: MqttPacket, p: PublishPacket) -> bool { pk matches MqttPacket::Publish(q) && q == p }

pub proof fn lemma_push_step(s: Seq<EncodingStep>, x: EncodingStep, pk: MqttPacket, base: Seq<u8>, acc: Seq<u8>)
    requires flat(s, pk) == base + acc,
    ensures flat(s.push(x), pk) == base + (acc + step_bytes(x, pk)),
{
    lemma_flat_push(s, x, pk);
    assert(base + acc + step_bytes(x, pk) =~= base + (acc + step_bytes(x, pk)));
}

//@fn gneiss-mqtt/src/mqtt/publish.rs write_publish_encoding_steps311 props=C02
    requires
        blen(packet.topic@) <= 65535,                               // established by send-time validation (C16, validate unit)
        publish_remaining_len311(*packet) <= 268435455,             // ditto (bounded by the maximum packet size)
    ensures
        r is Ok,
        forall|pk: MqttPacket| is_publish_of(pk, *packet) && steps_wf(old(steps)@, pk) ==> #[trigger] steps_wf(final(steps)@, pk),
        forall|pk: MqttPacket| is_publish_of(pk, *packet) ==> #[trigger] flat(final(steps)@, pk) == flat(old(steps)@, pk) + publish311_bytes(*packet),
//@@at bodystart
    let ghost s0 = steps@;
    let ghost mut cur = steps@;
    let ghost mut acc = Seq::<u8>::empty();
    proof { assert forall|pk: MqttPacket| flat(cur, pk) == flat(s0, pk) + acc by { assert(flat(s0, pk) + acc =~= flat(s0, pk)); } }
//@@at after "encode_integral_expression!(steps, Uint8, compute_publish_fixed_header_first_byte(packet));"
    proof {
        let x = EncodingStep::Uint8(publish_first_byte(*packet));
        assert(steps@ =~= cur.push(x));
        assert forall|pk: MqttPacket| flat(steps@, pk) == flat(s0, pk) + (acc + seq![publish_first_byte(*packet)]) by {
            lemma_push_step(cur, x, pk, flat(s0, pk), acc); assert(step_bytes(x, pk) =~= seq![publish_first_byte(*packet)]);
        }
        acc = acc + seq![publish_first_byte(*packet)]; cur = steps@;
    }
//@@at after "encode_integral_expression!(steps, Vli, total_remaining_length);"
    proof {
        let x = EncodingStep::Vli(total_remaining_length);
        assert(steps@ =~= cur.push(x));
        assert forall|pk: MqttPacket| flat(steps@, pk) == flat(s0, pk) + (acc + vli(publish_remaining_len311(*packet))) by {
            lemma_push_step(cur, x, pk, flat(s0, pk), acc); assert(step_bytes(x, pk) =~= vli(publish_remaining_len311(*packet)));
        }
        acc = acc + vli(publish_remaining_len311(*packet)); cur = steps@;
    }
//@@at after "encode_length_prefixed_string!(steps, get_publish_packet_topic, packet.topic);"
    proof {
        let x = steps@[steps@.len() - 2]; let y = steps@[steps@.len() - 1];
        assert(steps@ =~= cur.push(x).push(y));
        axiom_str_bytes(packet.topic@);
        assert forall|pk: MqttPacket| is_publish_of(pk, *packet) implies
            flat(steps@, pk) == flat(s0, pk) + (acc + be16_bytes(blen(packet.topic@) as u16) + str_bytes(packet.topic@)) && step_wf(y, pk) by {
            assert(get_publish_packet_topic.requires((&pk,)));
            lemma_push_step(cur, x, pk, flat(s0, pk), acc);
            lemma_push_step(cur.push(x), y, pk, flat(s0, pk), acc + step_bytes(x, pk));
            assert(step_bytes(x, pk) =~= be16_bytes(blen(packet.topic@) as u16));
            assert(step_whole(y, pk) == str_bytes(packet.topic@));
            assert(step_bytes(y, pk) =~= str_bytes(packet.topic@));
        }
        acc = acc + be16_bytes(blen(packet.topic@) as u16) + str_bytes(packet.topic@); cur = steps@;
    }
//@@at after "encode_integral_expression!(steps, Uint16, packet.packet_id);"
        proof {
            let x = EncodingStep::Uint16(packet.packet_id);
            assert(steps@ =~= cur.push(x));
            assert forall|pk: MqttPacket| is_publish_of(pk, *packet) implies flat(steps@, pk) == flat(s0, pk) + (acc + be16_bytes(packet.packet_id)) by {
                lemma_push_step(cur, x, pk, flat(s0, pk), acc); assert(step_bytes(x, pk) =~= be16_bytes(packet.packet_id));
            }
            acc = acc + be16_bytes(packet.packet_id); cur = steps@;
        }
//@@at after "encode_raw_bytes!(steps, get_publish_packet_payload);"
        proof {
            let y = steps@[steps@.len() - 1];
            assert(steps@ =~= cur.push(y));
            assert forall|pk: MqttPacket| is_publish_of(pk, *packet) implies flat(steps@, pk) == flat(s0, pk) + (acc + packet.payload->Some_0@) && step_wf(y, pk) by {
                assert(get_publish_packet_payload.requires((&pk,)));
                lemma_push_step(cur, y, pk, flat(s0, pk), acc);
                assert(step_whole(y, pk) == packet.payload->Some_0@);
                assert(step_bytes(y, pk) =~= packet.payload->Some_0@);
            }
            acc = acc + packet.payload->Some_0@; cur = steps@;
        }
//@@at before "Ok(())"
    proof {
        assert(acc =~= publish311_bytes(*packet));
    }
//@end


// ---------------------------------------------------------------------------------------------------------------------------------
// MQTT 3.1.1 UNSUBSCRIBE on the wire (C02), OASIS 3.1.1 section 3.10: A2, Remaining Length, Packet Identifier, then per topic filter a
// 2-byte length and its UTF-8 bytes, in the order given.
#[verifier::external_body]
pub fn verif_of_FnP_MqttPacket_usize__str<F: Fn(&MqttPacket, usize) -> &str>(f: F) -> (r: FnP_MqttPacket_usize__str)
    ensures forall|p: MqttPacket, i: usize| #[trigger] f.requires((&p, i)) ==> exists|out: &str| #[trigger] f.ensures((&p, i), out) && g_istr(r, p, i) == str_bytes(out@),
{ unimplemented!() }
//@macro gneiss-mqtt/src/encode.rs encode_indexed_string fnptr_opaque
//@const gneiss-mqtt/src/mqtt/utils.rs UNSUBSCRIBE_FIRST_BYTE
//@const gneiss-mqtt/src/mqtt/utils.rs SUBSCRIBE_FIRST_BYTE

pub open spec fn count_ok(n: nat) -> bool { n <= 16777216 }
pub open spec fn filters_len(v: Seq<String>, n: nat) -> nat decreases n { if n == 0 { 0 } else { filters_len(v, (n - 1) as nat) + 2 + blen(v[n - 1]@) } }
pub open spec fn filters_ok(v: Seq<String>) -> bool { forall|i: int| 0 <= i < v.len() ==> blen((#[trigger] v[i])@) <= 65535 }
pub open spec fn filters_bytes(v: Seq<String>, n: nat) -> Seq<u8> decreases n {
    if n == 0 { Seq::<u8>::empty() } else { filters_bytes(v, (n - 1) as nat) + be16_bytes(blen(v[n - 1]@) as u16) + str_bytes(v[n - 1]@) }
}
pub proof fn lemma_filters_bytes_len(v: Seq<String>, n: nat)
    requires n <= v.len(),
    ensures filters_bytes(v, n).len() == filters_len(v, n),
    decreases n
{
    if n > 0 { lemma_filters_bytes_len(v, (n - 1) as nat); axiom_str_bytes(v[n - 1]@); }
}
pub open spec fn unsubscribe311_bytes(p: UnsubscribePacket) -> Seq<u8> {
    seq![0xA2u8] + vli(2 + filters_len(p.topic_filters@, p.topic_filters@.len())) + be16_bytes(p.packet_id) + filters_bytes(p.topic_filters@, p.topic_filters@.len())
}
pub open spec fn is_unsubscribe_of(pk: MqttPacket, p: UnsubscribePacket) -> bool { pk matches MqttPacket::Unsubscribe(q) && q == p }

//@fn gneiss-mqtt/src/mqtt/unsubscribe.rs get_unsubscribe_packet_topic_filter props=C02
    requires packet matches MqttPacket::Unsubscribe(u) && index < u.topic_filters@.len(),
    ensures packet matches MqttPacket::Unsubscribe(u) && r@ == u.topic_filters@[index as int]@,
//@end

// proved in the validate unit (same contract); a signature-only stub here
//@fn gneiss-mqtt/src/mqtt/unsubscribe.rs compute_unsubscribe_packet_length_properties311 stub
    requires filters_ok(packet.topic_filters@), count_ok(packet.topic_filters@.len()), 2 + filters_len(packet.topic_filters@, packet.topic_filters@.len()) <= 268435455,
    ensures r matches Ok(rem) && rem == 2 + filters_len(packet.topic_filters@, packet.topic_filters@.len()),
//@end

//@fn gneiss-mqtt/src/mqtt/unsubscribe.rs write_unsubscribe_encoding_steps311 props=C02 desugar
    requires
        filters_ok(packet.topic_filters@), count_ok(packet.topic_filters@.len()),       // send-time validation (C16, validate unit)
        2 + filters_len(packet.topic_filters@, packet.topic_filters@.len()) <= 268435455,
    ensures
        r is Ok,
        forall|pk: MqttPacket| is_unsubscribe_of(pk, *packet) && steps_wf(old(steps)@, pk) ==> #[trigger] steps_wf(final(steps)@, pk),
        forall|pk: MqttPacket| is_unsubscribe_of(pk, *packet) ==> #[trigger] flat(final(steps)@, pk) == flat(old(steps)@, pk) + unsubscribe311_bytes(*packet),
//@@at bodystart
    let ghost s0 = steps@;
    let ghost mut cur = steps@;
    let ghost mut acc = Seq::<u8>::empty();
    proof { assert forall|pk: MqttPacket| flat(cur, pk) == flat(s0, pk) + acc by { assert(flat(s0, pk) + acc =~= flat(s0, pk)); } }
//@@at after "encode_integral_expression!(steps, Uint8, UNSUBSCRIBE_FIRST_BYTE);"
    proof {
        assert(UNSUBSCRIBE_FIRST_BYTE == 0xA2u8) by (compute);
        let x = EncodingStep::Uint8(0xA2u8);
        assert(steps@ =~= cur.push(x));
        assert forall|pk: MqttPacket| flat(steps@, pk) == flat(s0, pk) + (acc + seq![0xA2u8]) by { lemma_push_step(cur, x, pk, flat(s0, pk), acc); assert(step_bytes(x, pk) =~= seq![0xA2u8]); }
        acc = acc + seq![0xA2u8]; cur = steps@;
    }
//@@at after "encode_integral_expression!(steps, Vli, total_remaining_length);"
    proof {
        let x = EncodingStep::Vli(total_remaining_length);
        let bytes = vli(2 + filters_len(packet.topic_filters@, packet.topic_filters@.len()));
        assert(steps@ =~= cur.push(x));
        assert forall|pk: MqttPacket| flat(steps@, pk) == flat(s0, pk) + (acc + bytes) by { lemma_push_step(cur, x, pk, flat(s0, pk), acc); assert(step_bytes(x, pk) =~= bytes); }
        acc = acc + bytes; cur = steps@;
    }
//@@at after "encode_integral_expression!(steps, Uint16, packet.packet_id);"
    proof {
        let x = EncodingStep::Uint16(packet.packet_id);
        assert(steps@ =~= cur.push(x));
        assert forall|pk: MqttPacket| flat(steps@, pk) == flat(s0, pk) + (acc + be16_bytes(packet.packet_id)) by { lemma_push_step(cur, x, pk, flat(s0, pk), acc); assert(step_bytes(x, pk) =~= be16_bytes(packet.packet_id)); }
        acc = acc + be16_bytes(packet.packet_id); cur = steps@;
    }
    let ghost head = acc;
//@@loop 0 iter=it
        invariant
            topic_filters@ == packet.topic_filters@, it.seq().len() == packet.topic_filters@.len(), count_ok(packet.topic_filters@.len()),
            verif_enum0 == it.index@,
            cur == steps@,
            forall|pk: MqttPacket| is_unsubscribe_of(pk, *packet) ==> #[trigger] flat(steps@, pk) == flat(s0, pk) + (head + filters_bytes(packet.topic_filters@, it.index@ as nat)),
            forall|pk: MqttPacket| is_unsubscribe_of(pk, *packet) && steps_wf(s0, pk) ==> steps_wf(steps@, pk),
//@@at before "verif_enum0 += 1;"
            proof { assert(it.index@ < it.seq().len()); }
//@@at after "encode_indexed_string!(steps, get_unsubscribe_packet_topic_filter, topic_filter, i);"
            proof {
                let n = it.index@;
                assert(*topic_filter == packet.topic_filters@[n]);
                let x = steps@[steps@.len() - 2]; let y = steps@[steps@.len() - 1];
                assert(steps@ =~= cur.push(x).push(y));
                axiom_str_bytes(topic_filter@);
                let fb = filters_bytes(packet.topic_filters@, n as nat);
                assert forall|pk: MqttPacket| is_unsubscribe_of(pk, *packet) implies
                    flat(steps@, pk) == flat(s0, pk) + (head + filters_bytes(packet.topic_filters@, (n + 1) as nat)) && step_wf(y, pk) && step_wf(x, pk) by {
                    assert(get_unsubscribe_packet_topic_filter.requires((&pk, i)));
                    lemma_push_step(cur, x, pk, flat(s0, pk), head + fb);
                    lemma_push_step(cur.push(x), y, pk, flat(s0, pk), head + fb + step_bytes(x, pk));
                    assert(step_bytes(x, pk) =~= be16_bytes(blen(topic_filter@) as u16));
                    assert(step_whole(y, pk) == str_bytes(topic_filter@));
                    assert(step_bytes(y, pk) =~= str_bytes(topic_filter@));
                    assert(head + fb + step_bytes(x, pk) + step_bytes(y, pk) =~= head + filters_bytes(packet.topic_filters@, (n + 1) as nat));
                }
                cur = steps@;
            }
//@@at before "Ok(())"
    proof {
        assert(head + filters_bytes(packet.topic_filters@, packet.topic_filters@.len()) =~= unsubscribe311_bytes(*packet));
    }
//@end


// ---------------------------------------------------------------------------------------------------------------------------------
// MQTT 3.1.1 SUBSCRIBE on the wire (C02), OASIS 3.1.1 section 3.8: 82, Remaining Length, Packet Identifier, then per subscription a
// 2-byte length, the filter's UTF-8 bytes and the requested QoS byte, in the order given.
pub open spec fn subs_len(v: Seq<Subscription>, n: nat) -> nat decreases n { if n == 0 { 0 } else { subs_len(v, (n - 1) as nat) + 3 + blen(v[n - 1].topic_filter@) } }
pub open spec fn subs_ok(v: Seq<Subscription>) -> bool { forall|i: int| 0 <= i < v.len() ==> blen((#[trigger] v[i]).topic_filter@) <= 65535 }
pub open spec fn subs_bytes(v: Seq<Subscription>, n: nat) -> Seq<u8> decreases n {
    if n == 0 { Seq::<u8>::empty() } else { subs_bytes(v, (n - 1) as nat) + be16_bytes(blen(v[n - 1].topic_filter@) as u16) + str_bytes(v[n - 1].topic_filter@) + seq![qos_num(v[n - 1].qos)] }
}
pub proof fn lemma_subs_bytes_len(v: Seq<Subscription>, n: nat)
    requires n <= v.len(),
    ensures subs_bytes(v, n).len() == subs_len(v, n),
    decreases n
{
    if n > 0 { lemma_subs_bytes_len(v, (n - 1) as nat); axiom_str_bytes(v[n - 1].topic_filter@); }
}
pub open spec fn subscribe311_bytes(p: SubscribePacket) -> Seq<u8> {
    seq![0x82u8] + vli(2 + subs_len(p.subscriptions@, p.subscriptions@.len())) + be16_bytes(p.packet_id) + subs_bytes(p.subscriptions@, p.subscriptions@.len())
}
pub open spec fn is_subscribe_of(pk: MqttPacket, p: SubscribePacket) -> bool { pk matches MqttPacket::Subscribe(q) && q == p }

//@fn gneiss-mqtt/src/mqtt/subscribe.rs get_subscribe_packet_topic_filter props=C02
    requires packet matches MqttPacket::Subscribe(u) && index < u.subscriptions@.len(),
    ensures packet matches MqttPacket::Subscribe(u) && r@ == u.subscriptions@[index as int].topic_filter@,
//@end

// proved in the validate unit (same contract); a signature-only stub here
//@fn gneiss-mqtt/src/mqtt/subscribe.rs compute_subscribe_packet_length_properties311 stub
    requires subs_ok(packet.subscriptions@), count_ok(packet.subscriptions@.len()), 2 + subs_len(packet.subscriptions@, packet.subscriptions@.len()) <= 268435455,
    ensures r matches Ok(rem) && rem == 2 + subs_len(packet.subscriptions@, packet.subscriptions@.len()),
//@end

//@fn gneiss-mqtt/src/mqtt/subscribe.rs write_subscribe_encoding_steps311 props=C02 desugar
    requires
        subs_ok(packet.subscriptions@), count_ok(packet.subscriptions@.len()),       // send-time validation (C16, validate unit)
        2 + subs_len(packet.subscriptions@, packet.subscriptions@.len()) <= 268435455,
    ensures
        r is Ok,
        forall|pk: MqttPacket| is_subscribe_of(pk, *packet) && steps_wf(old(steps)@, pk) ==> #[trigger] steps_wf(final(steps)@, pk),
        forall|pk: MqttPacket| is_subscribe_of(pk, *packet) ==> #[trigger] flat(final(steps)@, pk) == flat(old(steps)@, pk) + subscribe311_bytes(*packet),
//@@at bodystart
    let ghost s0 = steps@;
    let ghost mut cur = steps@;
    let ghost mut acc = Seq::<u8>::empty();
    proof { assert forall|pk: MqttPacket| flat(cur, pk) == flat(s0, pk) + acc by { assert(flat(s0, pk) + acc =~= flat(s0, pk)); } }
//@@at after "encode_integral_expression!(steps, Uint8, SUBSCRIBE_FIRST_BYTE);"
    proof {
        assert(SUBSCRIBE_FIRST_BYTE == 0x82u8) by (compute);
        let x = EncodingStep::Uint8(0x82u8);
        assert(steps@ =~= cur.push(x));
        assert forall|pk: MqttPacket| flat(steps@, pk) == flat(s0, pk) + (acc + seq![0x82u8]) by { lemma_push_step(cur, x, pk, flat(s0, pk), acc); assert(step_bytes(x, pk) =~= seq![0x82u8]); }
        acc = acc + seq![0x82u8]; cur = steps@;
    }
//@@at after "encode_integral_expression!(steps, Vli, total_remaining_length);"
    proof {
        let x = EncodingStep::Vli(total_remaining_length);
        let bytes = vli(2 + subs_len(packet.subscriptions@, packet.subscriptions@.len()));
        assert(steps@ =~= cur.push(x));
        assert forall|pk: MqttPacket| flat(steps@, pk) == flat(s0, pk) + (acc + bytes) by { lemma_push_step(cur, x, pk, flat(s0, pk), acc); assert(step_bytes(x, pk) =~= bytes); }
        acc = acc + bytes; cur = steps@;
    }
//@@at after "encode_integral_expression!(steps, Uint16, packet.packet_id);"
    proof {
        let x = EncodingStep::Uint16(packet.packet_id);
        assert(steps@ =~= cur.push(x));
        assert forall|pk: MqttPacket| flat(steps@, pk) == flat(s0, pk) + (acc + be16_bytes(packet.packet_id)) by { lemma_push_step(cur, x, pk, flat(s0, pk), acc); assert(step_bytes(x, pk) =~= be16_bytes(packet.packet_id)); }
        acc = acc + be16_bytes(packet.packet_id); cur = steps@;
    }
    let ghost head = acc;
//@@loop 0 iter=it
        invariant
            subscriptions@ == packet.subscriptions@, it.seq().len() == packet.subscriptions@.len(), count_ok(packet.subscriptions@.len()),
            verif_enum0 == it.index@,
            cur == steps@,
            forall|pk: MqttPacket| is_subscribe_of(pk, *packet) ==> #[trigger] flat(steps@, pk) == flat(s0, pk) + (head + subs_bytes(packet.subscriptions@, it.index@ as nat)),
            forall|pk: MqttPacket| is_subscribe_of(pk, *packet) && steps_wf(s0, pk) ==> steps_wf(steps@, pk),
//@@at before "verif_enum0 += 1;"
            proof { assert(it.index@ < it.seq().len()); }
//@@at after "encode_integral_expression!(steps, Uint8, subscription.qos as u8);"
            proof {
                let n = it.index@;
                assert(*subscription == packet.subscriptions@[n]);
                let x = steps@[steps@.len() - 3]; let y = steps@[steps@.len() - 2]; let z = steps@[steps@.len() - 1];
                assert(steps@ =~= cur.push(x).push(y).push(z));
                axiom_str_bytes(subscription.topic_filter@);
                assert(subscription.qos as u8 == qos_num(subscription.qos));
                let fb = subs_bytes(packet.subscriptions@, n as nat);
                assert forall|pk: MqttPacket| is_subscribe_of(pk, *packet) implies
                    flat(steps@, pk) == flat(s0, pk) + (head + subs_bytes(packet.subscriptions@, (n + 1) as nat)) && step_wf(y, pk) && step_wf(x, pk) && step_wf(z, pk) by {
                    assert(get_subscribe_packet_topic_filter.requires((&pk, i)));
                    lemma_push_step(cur, x, pk, flat(s0, pk), head + fb);
                    lemma_push_step(cur.push(x), y, pk, flat(s0, pk), head + fb + step_bytes(x, pk));
                    lemma_push_step(cur.push(x).push(y), z, pk, flat(s0, pk), head + fb + step_bytes(x, pk) + step_bytes(y, pk));
                    assert(step_bytes(x, pk) =~= be16_bytes(blen(subscription.topic_filter@) as u16));
                    assert(step_whole(y, pk) == str_bytes(subscription.topic_filter@));
                    assert(step_bytes(y, pk) =~= str_bytes(subscription.topic_filter@));
                    assert(step_bytes(z, pk) =~= seq![qos_num(subscription.qos)]);
                    assert(head + fb + step_bytes(x, pk) + step_bytes(y, pk) + step_bytes(z, pk) =~= head + subs_bytes(packet.subscriptions@, (n + 1) as nat));
                }
                cur = steps@;
            }
//@@at before "Ok(())"
    proof {
        assert(head + subs_bytes(packet.subscriptions@, packet.subscriptions@.len()) =~= subscribe311_bytes(*packet));
    }
//@end


// ---------------------------------------------------------------------------------------------------------------------------------
// Closing the chain for MQTT 3.1.1 (C02): Encoder::reset for a 3.1.1 connection leaves exactly the steps of the packet's own writer, so
// with Encoder::encode above, the bytes handed to the transport for PUBLISH, SUBSCRIBE, UNSUBSCRIBE, PUBACK, PUBREC, PUBREL, PUBCOMP,
// PINGREQ and DISCONNECT are the standard's layout, whatever the buffer sizes. Writers not under contract here are signature-only stubs
// with NO postcondition (CONNECT 3.1.1, the MQTT 5 dispatch, and the packets a client never sends).
#[verifier::external_body] pub fn write_connack_encoding_steps311(packet: &ConnackPacket, context: &EncodingContext, steps: &mut VecDeque<EncodingStep>) -> GneissResult<()> { unimplemented!() }
#[verifier::external_body] pub fn write_suback_encoding_steps311(packet: &SubackPacket, context: &EncodingContext, steps: &mut VecDeque<EncodingStep>) -> GneissResult<()> { unimplemented!() }
#[verifier::external_body] pub fn write_unsuback_encoding_steps311(packet: &UnsubackPacket, context: &EncodingContext, steps: &mut VecDeque<EncodingStep>) -> GneissResult<()> { unimplemented!() }
#[verifier::external_body] pub fn write_pingresp_encoding_steps(packet: &PingrespPacket, context: &EncodingContext, steps: &mut VecDeque<EncodingStep>) -> GneissResult<()> { unimplemented!() }
#[verifier::external_body] pub fn write_auth_encoding_steps311(packet: &AuthPacket, context: &EncodingContext, steps: &mut VecDeque<EncodingStep>) -> GneissResult<()> { unimplemented!() }

// what a 3.1.1 client packet looks like on the wire (None: not specified here)
pub open spec fn wire311(pk: MqttPacket) -> Option<Seq<u8>> {
    match pk {
        MqttPacket::Publish(p) => Some(publish311_bytes(p)),
        MqttPacket::Subscribe(p) => Some(subscribe311_bytes(p)),
        MqttPacket::Unsubscribe(p) => Some(unsubscribe311_bytes(p)),
        MqttPacket::Puback(p) => Some(seq![0x40u8, 2u8] + be16_bytes(p.packet_id)),
        MqttPacket::Pubrec(p) => Some(seq![0x50u8, 2u8] + be16_bytes(p.packet_id)),
        MqttPacket::Pubrel(p) => Some(seq![0x62u8, 2u8] + be16_bytes(p.packet_id)),
        MqttPacket::Pubcomp(p) => Some(seq![0x70u8, 2u8] + be16_bytes(p.packet_id)),
        MqttPacket::Pingreq(_) => Some(seq![0xC0u8, 0u8]),
        MqttPacket::Disconnect(_) => Some(seq![0xE0u8, 0u8]),
        MqttPacket::Connect(p) => Some(connect311_bytes(p)),
        _ => None,
    }
}
// what send-time validation (validate unit, C16) has established for the packet
pub open spec fn sendable311(pk: MqttPacket) -> bool {
    match pk {
        MqttPacket::Publish(p) => blen(p.topic@) <= 65535 && publish_remaining_len311(p) <= 268435455,
        MqttPacket::Subscribe(p) => subs_ok(p.subscriptions@) && count_ok(p.subscriptions@.len()) && 2 + subs_len(p.subscriptions@, p.subscriptions@.len()) <= 268435455,
        MqttPacket::Unsubscribe(p) => filters_ok(p.topic_filters@) && count_ok(p.topic_filters@.len()) && 2 + filters_len(p.topic_filters@, p.topic_filters@.len()) <= 268435455,
        MqttPacket::Connect(p) => connect311_sendable(p),
        _ => true,
    }
}

//@fn gneiss-mqtt/src/encode.rs write_encoding_steps311 props=C02
    requires sendable311(*mqtt_packet),
    ensures
        wire311(*mqtt_packet) is Some ==> r is Ok,
        wire311(*mqtt_packet) matches Some(bytes) ==> flat(final(steps)@, *mqtt_packet) == flat(old(steps)@, *mqtt_packet) + bytes,
        (wire311(*mqtt_packet) is Some && steps_wf(old(steps)@, *mqtt_packet)) ==> steps_wf(final(steps)@, *mqtt_packet),
//@end



// ---------------------------------------------------------------------------------------------------------------------------------
// MQTT 5 PUBLISH on the wire (C02, C17)
//@macro gneiss-mqtt/src/encode.rs get_optional_packet_field
//@fn gneiss-mqtt/src/mqtt/publish.rs get_publish_packet_response_topic props=C02
    requires packet matches MqttPacket::Publish(p) && p.response_topic is Some,
    ensures packet matches MqttPacket::Publish(p) && p.response_topic matches Some(t) && r@ == t@,
//@end
//@fn gneiss-mqtt/src/mqtt/publish.rs get_publish_packet_content_type props=C02
    requires packet matches MqttPacket::Publish(p) && p.content_type is Some,
    ensures packet matches MqttPacket::Publish(p) && p.content_type matches Some(t) && r@ == t@,
//@end
//@fn gneiss-mqtt/src/mqtt/publish.rs get_publish_packet_correlation_data props=C02
    requires packet matches MqttPacket::Publish(p) && p.correlation_data is Some,
    ensures packet matches MqttPacket::Publish(p) && p.correlation_data matches Some(t) && r@ == t@,
//@end
//@fn gneiss-mqtt/src/mqtt/publish.rs get_publish_packet_user_property props=C02
    requires packet matches MqttPacket::Publish(p) && p.user_properties matches Some(ups) && index < ups@.len(),
    ensures packet matches MqttPacket::Publish(p) && p.user_properties matches Some(ups) && *r == ups@[index as int],
//@end

//@macro gneiss-mqtt/src/encode.rs encode_optional_property
//@macro gneiss-mqtt/src/encode.rs encode_optional_enum_property
//@macro gneiss-mqtt/src/encode.rs encode_optional_string_property fnptr_opaque
//@macro gneiss-mqtt/src/encode.rs encode_optional_bytes_property fnptr_opaque
#[verifier::external_body]
pub fn verif_of_FnP_MqttPacket_usize__UserProperty<F: Fn(&MqttPacket, usize) -> &UserProperty>(f: F) -> (r: FnP_MqttPacket_usize__UserProperty)
    ensures forall|p: MqttPacket, i: usize| #[trigger] f.requires((&p, i)) ==> exists|out: &UserProperty| #[trigger] f.ensures((&p, i), out)
        && g_upname(r, p, i) == str_bytes(out.name@) && g_upvalue(r, p, i) == str_bytes(out.value@),
{ unimplemented!() }

// ---- lengths: the spec functions of the validate unit (same text), where compute_publish_packet_length_properties5 is proved against them
pub open spec fn vli_len(x: nat) -> nat { if x < 128 { 1 } else if x < 16384 { 2 } else if x < 2097152 { 3 } else { 4 } }
pub open spec fn up_ok(p: UserProperty) -> bool { blen(p.name@) <= 65535 && blen(p.value@) <= 65535 }
pub open spec fn ups_ok(o: Option<Vec<UserProperty>>) -> bool { o matches Some(ps) ==> forall|i: int| 0 <= i < ps@.len() ==> up_ok(#[trigger] ps@[i]) }
pub open spec fn opt_str_ok(o: Option<String>) -> bool { o matches Some(s) ==> blen(s@) <= 65535 }
pub open spec fn opt_bin_ok(o: Option<Vec<u8>>) -> bool { o matches Some(b) ==> b@.len() <= 65535 }
pub open spec fn user_props_len(ps: Seq<UserProperty>, n: nat) -> nat
    decreases n
{
    if n == 0 { 0 } else { user_props_len(ps, (n - 1) as nat) + 5 + blen(ps[n - 1].name@) + blen(ps[n - 1].value@) }
}
pub open spec fn opt_user_props_len(o: Option<Vec<UserProperty>>) -> nat { match o { Some(ps) => user_props_len(ps@, ps@.len()), None => 0 } }
pub open spec fn opt_strprop_len(o: Option<String>) -> nat { match o { Some(s) => 3 + blen(s@), None => 0 } }
pub open spec fn opt_binprop_len(o: Option<Vec<u8>>) -> nat { match o { Some(b) => 3 + b@.len(), None => 0 } }
pub open spec fn subids_len(v: Seq<u32>, n: nat) -> nat decreases n { if n == 0 { 0 } else { subids_len(v, (n - 1) as nat) + 1 + vli_len(v[n - 1] as nat) } }
pub open spec fn publish_props_len(p: PublishPacket, res: OutboundAliasResolution) -> nat {
    opt_user_props_len(p.user_properties)
        + (if p.payload_format is Some { 2nat } else { 0 })
        + (if p.message_expiry_interval_seconds is Some { 5nat } else { 0 })
        + (if res.alias is Some { 3nat } else { 0 })
        + opt_strprop_len(p.content_type) + opt_strprop_len(p.response_topic) + opt_binprop_len(p.correlation_data)
        + (match p.subscription_identifiers { Some(v) => subids_len(v@, v@.len()), None => 0 })
}
pub open spec fn publish_remaining_len(p: PublishPacket, res: OutboundAliasResolution) -> nat {
    2 + (if res.skip_topic { 0 } else { blen(p.topic@) }) + (if p.qos != QualityOfService::AtMostOnce { 2nat } else { 0 })
        + vli_len(publish_props_len(p, res)) + publish_props_len(p, res)
        + (match p.payload { Some(b) => b@.len(), None => 0 })
}
pub open spec fn publish5_sendable(p: PublishPacket, res: OutboundAliasResolution) -> bool {
    &&& blen(p.topic@) <= 65535 && ups_ok(p.user_properties) && opt_bin_ok(p.correlation_data) && opt_str_ok(p.content_type) && opt_str_ok(p.response_topic)
    &&& (p.user_properties matches Some(ps) ==> count_ok(ps@.len()))
    &&& p.subscription_identifiers is None
    &&& (p.payload matches Some(b) ==> b@.len() <= 9223372036854775807)
    &&& publish_remaining_len(p, res) <= 268435455
}
// proved in the validate unit (same contract); a signature-only stub here
//@fn gneiss-mqtt/src/mqtt/publish.rs compute_publish_packet_length_properties5 stub
    requires
        blen(packet.topic@) <= 65535, ups_ok(packet.user_properties), opt_bin_ok(packet.correlation_data), opt_str_ok(packet.content_type), opt_str_ok(packet.response_topic),
        packet.user_properties matches Some(ps) ==> count_ok(ps@.len()),
        packet.subscription_identifiers is None,
        packet.payload matches Some(b) ==> b@.len() <= 9223372036854775807,
    ensures
        r matches Ok((rem, props)) ==> rem == publish_remaining_len(*packet, *alias_resolution) && props == publish_props_len(*packet, *alias_resolution) && props <= 268435455 && rem <= 268435455,
        publish_remaining_len(*packet, *alias_resolution) <= 268435455 ==> r is Ok,
//@end

// ---- the wire image (OASIS 5.0 section 3.3). The standard leaves the order of properties free; this is the order the client uses.
pub open spec fn pfi_num(f: PayloadFormatIndicator) -> u8 { match f { PayloadFormatIndicator::Bytes => 0u8, PayloadFormatIndicator::Utf8 => 1u8 } }
pub open spec fn opt_str_prop_bytes(key: u8, o: Option<String>) -> Seq<u8> {
    match o { Some(t) => seq![key] + be16_bytes(blen(t@) as u16) + str_bytes(t@), None => Seq::<u8>::empty() }
}
pub open spec fn opt_bin_prop_bytes(key: u8, o: Option<Vec<u8>>) -> Seq<u8> {
    match o { Some(t) => seq![key] + be16_bytes(t@.len() as u16) + t@, None => Seq::<u8>::empty() }
}
pub open spec fn up_bytes(u: UserProperty) -> Seq<u8> {
    seq![38u8] + be16_bytes(blen(u.name@) as u16) + str_bytes(u.name@) + be16_bytes(blen(u.value@) as u16) + str_bytes(u.value@)
}
pub open spec fn ups_bytes(v: Seq<UserProperty>, n: nat) -> Seq<u8> decreases n {
    if n == 0 { Seq::<u8>::empty() } else { ups_bytes(v, (n - 1) as nat) + up_bytes(v[n - 1]) }
}
pub open spec fn ups_piece(o: Option<Vec<UserProperty>>) -> Seq<u8> { if o is Some { ups_bytes(o->Some_0@, o->Some_0@.len()) } else { Seq::<u8>::empty() } }
pub open spec fn payload_piece(o: Option<Vec<u8>>) -> Seq<u8> { if o is Some { o->Some_0@ } else { Seq::<u8>::empty() } }
pub open spec fn topic_piece(p: PublishPacket, res: OutboundAliasResolution) -> Seq<u8> { if res.skip_topic { be16_bytes(0u16) } else { be16_bytes(blen(p.topic@) as u16) + str_bytes(p.topic@) } }
pub open spec fn id_piece(p: PublishPacket) -> Seq<u8> { if p.qos != QualityOfService::AtMostOnce { be16_bytes(p.packet_id) } else { Seq::<u8>::empty() } }
pub open spec fn pfi_piece(o: Option<PayloadFormatIndicator>) -> Seq<u8> { match o { Some(f) => seq![1u8] + seq![pfi_num(f)], None => Seq::<u8>::empty() } }
pub open spec fn mei_piece(o: Option<u32>) -> Seq<u8> { match o { Some(v) => seq![2u8] + be32_bytes(v), None => Seq::<u8>::empty() } }
pub open spec fn alias_piece(o: Option<u16>) -> Seq<u8> { match o { Some(a) => seq![35u8] + be16_bytes(a), None => Seq::<u8>::empty() } }
pub open spec fn publish5_props_bytes(p: PublishPacket, res: OutboundAliasResolution) -> Seq<u8> {
    pfi_piece(p.payload_format) + mei_piece(p.message_expiry_interval_seconds) + alias_piece(res.alias)
    + opt_str_prop_bytes(8u8, p.response_topic) + opt_bin_prop_bytes(9u8, p.correlation_data) + opt_str_prop_bytes(3u8, p.content_type)
    + ups_piece(p.user_properties)
}
pub open spec fn publish5_bytes(p: PublishPacket, res: OutboundAliasResolution) -> Seq<u8> {
    seq![publish_first_byte(p)] + vli(publish_remaining_len(p, res)) + topic_piece(p, res) + id_piece(p) + vli(publish_props_len(p, res))
    + publish5_props_bytes(p, res) + payload_piece(p.payload)
}

pub proof fn lemma_flat_append(a: Seq<EncodingStep>, b: Seq<EncodingStep>, p: MqttPacket)
    ensures flat(a + b, p) == flat(a, p) + flat(b, p),
    decreases b.len()
{
    if b.len() == 0 {
        assert(a + b =~= a);
        assert(flat(a, p) + flat(b, p) =~= flat(a, p));
    } else {
        let b0 = b.drop_last();
        lemma_flat_append(a, b0, p);
        lemma_flat_push(a + b0, b.last(), p);
        lemma_flat_push(b0, b.last(), p);
        assert(b0.push(b.last()) =~= b);
        assert((a + b0).push(b.last()) =~= a + b);
        assert(flat(a, p) + flat(b0, p) + step_bytes(b.last(), p) =~= flat(a, p) + (flat(b0, p) + step_bytes(b.last(), p)));
    }
}
pub proof fn lemma_stage(cur: Seq<EncodingStep>, post: Seq<EncodingStep>, pk: MqttPacket, base: Seq<u8>, acc: Seq<u8>, bytes: Seq<u8>)
    requires flat(cur, pk) == base + acc, cur.len() <= post.len(), post.subrange(0, cur.len() as int) == cur,
        flat(post.subrange(cur.len() as int, post.len() as int), pk) == bytes,
    ensures flat(post, pk) == base + (acc + bytes),
{
    let news = post.subrange(cur.len() as int, post.len() as int);
    assert(post =~= cur + news);
    lemma_flat_append(cur, news, pk);
    assert(base + acc + bytes =~= base + (acc + bytes));
}
pub proof fn lemma_flat_n(s: Seq<EncodingStep>, p: MqttPacket)
    ensures
        s.len() == 0 ==> flat(s, p) == Seq::<u8>::empty(),
        s.len() == 1 ==> flat(s, p) == step_bytes(s[0], p),
        s.len() == 2 ==> flat(s, p) == step_bytes(s[0], p) + step_bytes(s[1], p),
        s.len() == 3 ==> flat(s, p) == step_bytes(s[0], p) + step_bytes(s[1], p) + step_bytes(s[2], p),
        s.len() == 5 ==> flat(s, p) == step_bytes(s[0], p) + step_bytes(s[1], p) + step_bytes(s[2], p) + step_bytes(s[3], p) + step_bytes(s[4], p),
{
    let e = Seq::<EncodingStep>::empty();
    assert(flat(e, p) =~= Seq::<u8>::empty());
    if s.len() == 0 { assert(s =~= e); }
    if s.len() >= 1 && s.len() <= 5 {
        lemma_flat_push(e, s[0], p); assert(flat(e.push(s[0]), p) =~= step_bytes(s[0], p));
        if s.len() == 1 { assert(s =~= e.push(s[0])); }
        if s.len() >= 2 { lemma_flat_push(e.push(s[0]), s[1], p); if s.len() == 2 { assert(s =~= e.push(s[0]).push(s[1])); } }
        if s.len() >= 3 { lemma_flat_push(e.push(s[0]).push(s[1]), s[2], p); if s.len() == 3 { assert(s =~= e.push(s[0]).push(s[1]).push(s[2])); } }
        if s.len() >= 4 { lemma_flat_push(e.push(s[0]).push(s[1]).push(s[2]), s[3], p); }
        if s.len() == 5 { lemma_flat_push(e.push(s[0]).push(s[1]).push(s[2]).push(s[3]), s[4], p); assert(s =~= e.push(s[0]).push(s[1]).push(s[2]).push(s[3]).push(s[4])); }
    }
}

// ---- proof library for the long step writers: the body of the real function only ever sees the two opaque atoms pub_inv / whole_is,
// one lemma call per push_back (keeps the solver's context free of quantifiers and sequence-extensionality work)
#[verifier::opaque]
pub open spec fn pub_inv(s0: Seq<EncodingStep>, cur: Seq<EncodingStep>, acc: Seq<u8>, p: PublishPacket) -> bool {
    &&& s0.len() <= cur.len()
    &&& forall|i: int| 0 <= i < s0.len() ==> cur[i] == s0[i]
    &&& forall|i: int| s0.len() <= i < cur.len() ==> step_off(#[trigger] cur[i]) == 0
    &&& forall|pk: MqttPacket| is_publish_of(pk, p) ==> #[trigger] flat(cur, pk) == flat(s0, pk) + acc
}
#[verifier::opaque]
pub open spec fn whole_is(x: EncodingStep, bytes: Seq<u8>, p: PublishPacket) -> bool {
    forall|pk: MqttPacket| is_publish_of(pk, p) ==> #[trigger] step_whole(x, pk) == bytes
}
pub open spec fn int_bytes(x: EncodingStep) -> Seq<u8> {
    match x {
        EncodingStep::Uint8(v) => seq![v],
        EncodingStep::Uint16(v) => be16_bytes(v),
        EncodingStep::Uint32(v) => be32_bytes(v),
        EncodingStep::Vli(v) => vli(v as nat),
        _ => Seq::<u8>::empty(),
    }
}
pub open spec fn is_int_step(x: EncodingStep) -> bool { x is Uint8 || x is Uint16 || x is Uint32 || x is Vli }
pub proof fn lemma_whole_int(x: EncodingStep, p: PublishPacket)
    requires is_int_step(x),
    ensures whole_is(x, int_bytes(x), p), step_off(x) == 0,
{ reveal(whole_is); }
pub proof fn lemma_inv_init(s0: Seq<EncodingStep>, p: PublishPacket)
    ensures pub_inv(s0, s0, Seq::<u8>::empty(), p),
{
    reveal(pub_inv);
    assert forall|pk: MqttPacket| is_publish_of(pk, p) implies #[trigger] flat(s0, pk) == flat(s0, pk) + Seq::<u8>::empty() by { assert(flat(s0, pk) + Seq::<u8>::empty() =~= flat(s0, pk)); }
}
pub proof fn lemma_push1(s0: Seq<EncodingStep>, cur: Seq<EncodingStep>, x: EncodingStep, acc: Seq<u8>, b: Seq<u8>, p: PublishPacket)
    requires pub_inv(s0, cur, acc, p), whole_is(x, b, p), step_off(x) == 0,
    ensures pub_inv(s0, cur.push(x), acc + b, p),
{
    reveal(pub_inv); reveal(whole_is);
    assert forall|pk: MqttPacket| is_publish_of(pk, p) implies #[trigger] flat(cur.push(x), pk) == flat(s0, pk) + (acc + b) by {
        lemma_flat_push(cur, x, pk);
        assert(step_whole(x, pk) == b);
        assert(step_bytes(x, pk) =~= b);
        assert(flat(s0, pk) + acc + b =~= flat(s0, pk) + (acc + b));
    }
}
pub proof fn lemma_inv_bytes(s0: Seq<EncodingStep>, cur: Seq<EncodingStep>, acc1: Seq<u8>, acc2: Seq<u8>, p: PublishPacket)
    requires pub_inv(s0, cur, acc1, p), acc1 =~= acc2,
    ensures pub_inv(s0, cur, acc2, p),
{ }
pub proof fn lemma_inv_final(s0: Seq<EncodingStep>, cur: Seq<EncodingStep>, acc: Seq<u8>, p: PublishPacket)
    requires pub_inv(s0, cur, acc, p),
    ensures
        forall|pk: MqttPacket| is_publish_of(pk, p) ==> #[trigger] flat(cur, pk) == flat(s0, pk) + acc,
        forall|pk: MqttPacket| is_publish_of(pk, p) && steps_wf(s0, pk) ==> #[trigger] steps_wf(cur, pk),
{
    reveal(pub_inv);
    assert forall|pk: MqttPacket| is_publish_of(pk, p) && steps_wf(s0, pk) implies #[trigger] steps_wf(cur, pk) by {
        assert forall|i: int| 0 <= i < cur.len() implies step_wf(#[trigger] cur[i], pk) by { if i < s0.len() { assert(cur[i] == s0[i]); assert(step_wf(s0[i], pk)); } }
    }
}

pub proof fn lemma_regroup0(s0: Seq<EncodingStep>, cur: Seq<EncodingStep>, pre: Seq<u8>, p: PublishPacket)
    requires pub_inv(s0, cur, pre, p),
    ensures pub_inv(s0, cur, pre + Seq::<u8>::empty(), p),
{ assert(pre + Seq::<u8>::empty() =~= pre); }
pub proof fn lemma_regroup2(s0: Seq<EncodingStep>, cur: Seq<EncodingStep>, pre: Seq<u8>, b0: Seq<u8>, b1: Seq<u8>, p: PublishPacket)
    requires pub_inv(s0, cur, pre + b0 + b1, p),
    ensures pub_inv(s0, cur, pre + (b0 + b1), p),
{ assert(pre + b0 + b1 =~= pre + (b0 + b1)); }
pub proof fn lemma_regroup3(s0: Seq<EncodingStep>, cur: Seq<EncodingStep>, pre: Seq<u8>, b0: Seq<u8>, b1: Seq<u8>, b2: Seq<u8>, p: PublishPacket)
    requires pub_inv(s0, cur, pre + b0 + b1 + b2, p),
    ensures pub_inv(s0, cur, pre + (b0 + b1 + b2), p),
{ assert(pre + b0 + b1 + b2 =~= pre + (b0 + b1 + b2)); }
pub proof fn lemma_regroup_up(s0: Seq<EncodingStep>, cur: Seq<EncodingStep>, pre: Seq<u8>, props: Seq<UserProperty>, n: nat, p: PublishPacket)
    requires n < props.len(),
        pub_inv(s0, cur, pre + ups_bytes(props, n) + seq![38u8] + be16_bytes(blen(props[n as int].name@) as u16) + str_bytes(props[n as int].name@)
            + be16_bytes(blen(props[n as int].value@) as u16) + str_bytes(props[n as int].value@), p),
    ensures pub_inv(s0, cur, pre + ups_bytes(props, n + 1), p),
{
    let u = props[n as int];
    assert(pre + ups_bytes(props, n) + seq![38u8] + be16_bytes(blen(u.name@) as u16) + str_bytes(u.name@) + be16_bytes(blen(u.value@) as u16) + str_bytes(u.value@)
        =~= pre + (ups_bytes(props, n) + up_bytes(u)));
}
pub proof fn lemma_assoc_publish5(f: Seq<u8>, v1: Seq<u8>, top: Seq<u8>, idp: Seq<u8>, v2: Seq<u8>, p1: Seq<u8>, p2: Seq<u8>, p3: Seq<u8>, p4: Seq<u8>, p5: Seq<u8>, p6: Seq<u8>, p7: Seq<u8>, pay: Seq<u8>)
    ensures Seq::<u8>::empty() + f + v1 + top + idp + v2 + p1 + p2 + p3 + p4 + p5 + p6 + p7 + pay == f + v1 + top + idp + v2 + (p1 + p2 + p3 + p4 + p5 + p6 + p7) + pay,
{
    assert(Seq::<u8>::empty() + f + v1 + top + idp + v2 + p1 + p2 + p3 + p4 + p5 + p6 + p7 + pay =~= f + v1 + top + idp + v2 + (p1 + p2 + p3 + p4 + p5 + p6 + p7) + pay);
}

//@fn gneiss-mqtt/src/mqtt/publish.rs write_publish_encoding_steps5 props=C02,C17 desugar fnptr_opaque expand=gneiss-mqtt/src/encode.rs:encode_user_properties+gneiss-mqtt/src/encode.rs:encode_user_property
//@@attr #[verifier::rlimit(100)]
//@@attr #[verifier::spinoff_prover]
    requires
        publish5_sendable(*packet, context.outbound_alias_resolution),          // send-time validation (C16, validate unit)
    ensures
        r is Ok,
        forall|pk: MqttPacket| is_publish_of(pk, *packet) && steps_wf(old(steps)@, pk) ==> #[trigger] steps_wf(final(steps)@, pk),
        forall|pk: MqttPacket| is_publish_of(pk, *packet) ==> #[trigger] flat(final(steps)@, pk) == flat(old(steps)@, pk) + publish5_bytes(*packet, context.outbound_alias_resolution),
//@@at bodystart
    let ghost s0 = steps@;
    let ghost mut cur = steps@;
    let ghost mut acc = Seq::<u8>::empty();
    let ghost mut pre4 = Seq::<u8>::empty();
    let ghost mut pre15 = Seq::<u8>::empty();
    let ghost mut pre16 = Seq::<u8>::empty();
    let ghost res = context.outbound_alias_resolution;
    proof { lemma_inv_init(s0, *packet); }
//@@at after "encode_integral_expression!(steps, Uint8, compute_publish_fixed_header_first_byte(packet));"
    proof {
        { let x = EncodingStep::Uint8(publish_first_byte(*packet)); lemma_whole_int(x, *packet); lemma_push1(s0, cur, x, acc, int_bytes(x), *packet); cur = cur.push(x); acc = acc + int_bytes(x); }
        assert(steps@ == cur);
    }
//@@at after "encode_integral_expression!(steps, Vli, total_remaining_length);"
    proof {
        { let x = EncodingStep::Vli(total_remaining_length); lemma_whole_int(x, *packet); lemma_push1(s0, cur, x, acc, int_bytes(x), *packet); cur = cur.push(x); acc = acc + int_bytes(x); }
        assert(steps@ == cur);
    }
//@@at after "encode_integral_expression!(steps, Uint16, 0);"
        proof {
            let pre = acc;
            { let x = EncodingStep::Uint16(0u16); lemma_whole_int(x, *packet); lemma_push1(s0, cur, x, acc, int_bytes(x), *packet); cur = cur.push(x); acc = acc + int_bytes(x); }
            assert(steps@ == cur);
            acc = pre + topic_piece(*packet, res);
        }
//@@at after "encode_length_prefixed_string!(steps, get_publish_packet_topic, packet.topic);"
        proof {
            let pre = acc;
            { let x = EncodingStep::Uint16(blen(packet.topic@) as u16); lemma_whole_int(x, *packet); lemma_push1(s0, cur, x, acc, int_bytes(x), *packet); cur = cur.push(x); acc = acc + int_bytes(x); }
            { let y = steps@[steps@.len() - 1]; assert(whole_is(y, str_bytes(packet.topic@), *packet)) by { reveal(whole_is); assert forall|pk: MqttPacket| is_publish_of(pk, *packet) implies #[trigger] step_whole(y, pk) == str_bytes(packet.topic@) by { assert(get_publish_packet_topic.requires((&pk,))); } } assert(step_off(y) == 0); lemma_push1(s0, cur, y, acc, str_bytes(packet.topic@), *packet); cur = cur.push(y); acc = acc + str_bytes(packet.topic@); }
            assert(steps@ == cur);
            lemma_regroup2(s0, cur, pre, be16_bytes(blen(packet.topic@) as u16), str_bytes(packet.topic@), *packet);
            acc = pre + topic_piece(*packet, res);
        }
//@@at before "if packet.qos != QualityOfService::AtMostOnce {"
    proof {
        pre4 = acc;
    }
//@@at after "encode_integral_expression!(steps, Uint16, packet.packet_id);"
        proof {
            { let x = EncodingStep::Uint16(packet.packet_id); lemma_whole_int(x, *packet); lemma_push1(s0, cur, x, acc, int_bytes(x), *packet); cur = cur.push(x); acc = acc + int_bytes(x); }
            assert(steps@ == cur);
        }
//@@at before "encode_integral_expression!(steps, Vli, publish_property_length);"
    proof {
        if packet.qos == QualityOfService::AtMostOnce { lemma_regroup0(s0, cur, pre4, *packet); }
        acc = pre4 + id_piece(*packet);
    }
//@@at after "encode_integral_expression!(steps, Vli, publish_property_length);"
    proof {
        { let x = EncodingStep::Vli(publish_property_length); lemma_whole_int(x, *packet); lemma_push1(s0, cur, x, acc, int_bytes(x), *packet); cur = cur.push(x); acc = acc + int_bytes(x); }
        assert(steps@ == cur);
    }
//@@at after "encode_optional_enum_property!(steps, Uint8, PROPERTY_KEY_PAYLOAD_FORMAT_INDICATOR, u8, packet.payload_format);"
    proof {
        let pre = acc;
        if packet.payload_format is Some {
            let f = packet.payload_format->Some_0; assert(f as u8 == pfi_num(f));
            { let x = EncodingStep::Uint8(1u8); lemma_whole_int(x, *packet); lemma_push1(s0, cur, x, acc, int_bytes(x), *packet); cur = cur.push(x); acc = acc + int_bytes(x); }
            { let x = EncodingStep::Uint8(pfi_num(f)); lemma_whole_int(x, *packet); lemma_push1(s0, cur, x, acc, int_bytes(x), *packet); cur = cur.push(x); acc = acc + int_bytes(x); }
            lemma_regroup2(s0, cur, pre, seq![1u8], seq![pfi_num(f)], *packet);
        } else { lemma_regroup0(s0, cur, pre, *packet); }
        assert(steps@ == cur);
        acc = pre + pfi_piece(packet.payload_format);
    }
//@@at after "encode_optional_property!(steps, Uint32, PROPERTY_KEY_MESSAGE_EXPIRY_INTERVAL, packet.message_expiry_interval_seconds);"
    proof {
        let pre = acc;
        if packet.message_expiry_interval_seconds is Some {
            { let x = EncodingStep::Uint8(2u8); lemma_whole_int(x, *packet); lemma_push1(s0, cur, x, acc, int_bytes(x), *packet); cur = cur.push(x); acc = acc + int_bytes(x); }
            { let x = EncodingStep::Uint32(packet.message_expiry_interval_seconds->Some_0); lemma_whole_int(x, *packet); lemma_push1(s0, cur, x, acc, int_bytes(x), *packet); cur = cur.push(x); acc = acc + int_bytes(x); }
            lemma_regroup2(s0, cur, pre, seq![2u8], be32_bytes(packet.message_expiry_interval_seconds->Some_0), *packet);
        } else { lemma_regroup0(s0, cur, pre, *packet); }
        assert(steps@ == cur);
        acc = pre + mei_piece(packet.message_expiry_interval_seconds);
    }
//@@at after "encode_optional_property!(steps, Uint16, PROPERTY_KEY_TOPIC_ALIAS, resolution.alias);"
    proof {
        let pre = acc;
        if res.alias is Some {
            { let x = EncodingStep::Uint8(35u8); lemma_whole_int(x, *packet); lemma_push1(s0, cur, x, acc, int_bytes(x), *packet); cur = cur.push(x); acc = acc + int_bytes(x); }
            { let x = EncodingStep::Uint16(res.alias->Some_0); lemma_whole_int(x, *packet); lemma_push1(s0, cur, x, acc, int_bytes(x), *packet); cur = cur.push(x); acc = acc + int_bytes(x); }
            lemma_regroup2(s0, cur, pre, seq![35u8], be16_bytes(res.alias->Some_0), *packet);
        } else { lemma_regroup0(s0, cur, pre, *packet); }
        assert(steps@ == cur);
        acc = pre + alias_piece(res.alias);
    }
//@@at after "encode_optional_string_property!(steps, get_publish_packet_response_topic, PROPERTY_KEY_RESPONSE_TOPIC, packet.response_topic);"
    proof {
        let pre = acc;
        if packet.response_topic is Some {
            { let x = EncodingStep::Uint8(8u8); lemma_whole_int(x, *packet); lemma_push1(s0, cur, x, acc, int_bytes(x), *packet); cur = cur.push(x); acc = acc + int_bytes(x); }
            { let x = EncodingStep::Uint16(blen(packet.response_topic->Some_0@) as u16); lemma_whole_int(x, *packet); lemma_push1(s0, cur, x, acc, int_bytes(x), *packet); cur = cur.push(x); acc = acc + int_bytes(x); }
            { let y = steps@[steps@.len() - 1]; assert(whole_is(y, str_bytes(packet.response_topic->Some_0@), *packet)) by { reveal(whole_is); assert forall|pk: MqttPacket| is_publish_of(pk, *packet) implies #[trigger] step_whole(y, pk) == str_bytes(packet.response_topic->Some_0@) by { assert(get_publish_packet_response_topic.requires((&pk,))); } } assert(step_off(y) == 0); lemma_push1(s0, cur, y, acc, str_bytes(packet.response_topic->Some_0@), *packet); cur = cur.push(y); acc = acc + str_bytes(packet.response_topic->Some_0@); }
            lemma_regroup3(s0, cur, pre, seq![8u8], be16_bytes(blen(packet.response_topic->Some_0@) as u16), str_bytes(packet.response_topic->Some_0@), *packet);
        } else { lemma_regroup0(s0, cur, pre, *packet); }
        assert(steps@ == cur);
        acc = pre + opt_str_prop_bytes(8u8, packet.response_topic);
    }
//@@at after "encode_optional_bytes_property!(steps, get_publish_packet_correlation_data, PROPERTY_KEY_CORRELATION_DATA, packet.correlation_data);"
    proof {
        let pre = acc;
        if packet.correlation_data is Some {
            { let x = EncodingStep::Uint8(9u8); lemma_whole_int(x, *packet); lemma_push1(s0, cur, x, acc, int_bytes(x), *packet); cur = cur.push(x); acc = acc + int_bytes(x); }
            { let x = EncodingStep::Uint16(packet.correlation_data->Some_0@.len() as u16); lemma_whole_int(x, *packet); lemma_push1(s0, cur, x, acc, int_bytes(x), *packet); cur = cur.push(x); acc = acc + int_bytes(x); }
            { let y = steps@[steps@.len() - 1]; assert(whole_is(y, packet.correlation_data->Some_0@, *packet)) by { reveal(whole_is); assert forall|pk: MqttPacket| is_publish_of(pk, *packet) implies #[trigger] step_whole(y, pk) == packet.correlation_data->Some_0@ by { assert(get_publish_packet_correlation_data.requires((&pk,))); } } assert(step_off(y) == 0); lemma_push1(s0, cur, y, acc, packet.correlation_data->Some_0@, *packet); cur = cur.push(y); acc = acc + packet.correlation_data->Some_0@; }
            lemma_regroup3(s0, cur, pre, seq![9u8], be16_bytes(packet.correlation_data->Some_0@.len() as u16), packet.correlation_data->Some_0@, *packet);
        } else { lemma_regroup0(s0, cur, pre, *packet); }
        assert(steps@ == cur);
        acc = pre + opt_bin_prop_bytes(9u8, packet.correlation_data);
    }
//@@loop 0
            invariant false,        // unreachable: client publishes carry no subscription identifiers (precondition)
//@@at after "encode_optional_string_property!(steps, get_publish_packet_content_type, PROPERTY_KEY_CONTENT_TYPE, &packet.content_type);"
    proof {
        let pre = acc;
        if packet.content_type is Some {
            { let x = EncodingStep::Uint8(3u8); lemma_whole_int(x, *packet); lemma_push1(s0, cur, x, acc, int_bytes(x), *packet); cur = cur.push(x); acc = acc + int_bytes(x); }
            { let x = EncodingStep::Uint16(blen(packet.content_type->Some_0@) as u16); lemma_whole_int(x, *packet); lemma_push1(s0, cur, x, acc, int_bytes(x), *packet); cur = cur.push(x); acc = acc + int_bytes(x); }
            { let y = steps@[steps@.len() - 1]; assert(whole_is(y, str_bytes(packet.content_type->Some_0@), *packet)) by { reveal(whole_is); assert forall|pk: MqttPacket| is_publish_of(pk, *packet) implies #[trigger] step_whole(y, pk) == str_bytes(packet.content_type->Some_0@) by { assert(get_publish_packet_content_type.requires((&pk,))); } } assert(step_off(y) == 0); lemma_push1(s0, cur, y, acc, str_bytes(packet.content_type->Some_0@), *packet); cur = cur.push(y); acc = acc + str_bytes(packet.content_type->Some_0@); }
            lemma_regroup3(s0, cur, pre, seq![3u8], be16_bytes(blen(packet.content_type->Some_0@) as u16), str_bytes(packet.content_type->Some_0@), *packet);
        } else { lemma_regroup0(s0, cur, pre, *packet); }
        assert(steps@ == cur);
        acc = pre + opt_str_prop_bytes(3u8, packet.content_type);
    }
//@@at before "if let Some(properties) = &packet.user_properties {"
    proof {
        pre15 = acc;
    }
//@@at before "let mut verif_enum0: usize = 0;"
            proof {
                lemma_regroup0(s0, cur, pre15, *packet);
            }
//@@loop 1 iter=it
            invariant
                packet.user_properties is Some, properties@ == packet.user_properties->Some_0@, it.seq().len() == properties@.len(), count_ok(properties@.len()),
                ups_ok(packet.user_properties),
                verif_enum0 == it.index@,
                cur == steps@,
                pub_inv(s0, steps@, pre15 + ups_bytes(properties@, it.index@ as nat), *packet),
                it.index@ == it.seq().len() ==> pub_inv(s0, steps@, pre15 + ups_piece(packet.user_properties), *packet),
//@@at before "verif_enum0 += 1;"
                proof { assert(it.index@ < it.seq().len()); }
//@@bodyend_of_loop 1
                proof {
                    let n = it.index@;
                    let u = properties@[n];
                    assert(*user_property == u);
                    assert(up_ok(u));
                    acc = pre15 + ups_bytes(properties@, n as nat);
                    { let x = EncodingStep::Uint8(38u8); lemma_whole_int(x, *packet); lemma_push1(s0, cur, x, acc, int_bytes(x), *packet); cur = cur.push(x); acc = acc + int_bytes(x); }
                    { let x = EncodingStep::Uint16(blen(u.name@) as u16); lemma_whole_int(x, *packet); lemma_push1(s0, cur, x, acc, int_bytes(x), *packet); cur = cur.push(x); acc = acc + int_bytes(x); }
                    { let y = steps@[steps@.len() - 3]; assert(whole_is(y, str_bytes(u.name@), *packet)) by { reveal(whole_is); assert forall|pk: MqttPacket| is_publish_of(pk, *packet) implies #[trigger] step_whole(y, pk) == str_bytes(u.name@) by { assert(get_publish_packet_user_property.requires((&pk, i))); } } assert(step_off(y) == 0); lemma_push1(s0, cur, y, acc, str_bytes(u.name@), *packet); cur = cur.push(y); acc = acc + str_bytes(u.name@); }
                    { let x = EncodingStep::Uint16(blen(u.value@) as u16); lemma_whole_int(x, *packet); lemma_push1(s0, cur, x, acc, int_bytes(x), *packet); cur = cur.push(x); acc = acc + int_bytes(x); }
                    { let y = steps@[steps@.len() - 1]; assert(whole_is(y, str_bytes(u.value@), *packet)) by { reveal(whole_is); assert forall|pk: MqttPacket| is_publish_of(pk, *packet) implies #[trigger] step_whole(y, pk) == str_bytes(u.value@) by { assert(get_publish_packet_user_property.requires((&pk, i))); } } assert(step_off(y) == 0); lemma_push1(s0, cur, y, acc, str_bytes(u.value@), *packet); cur = cur.push(y); acc = acc + str_bytes(u.value@); }
                    assert(steps@ == cur);
                    lemma_regroup_up(s0, cur, pre15, properties@, n as nat, *packet);
                }
//@@at before "if packet.payload.is_some() {"
    proof {
        if packet.user_properties is None { lemma_regroup0(s0, cur, pre15, *packet); }
        acc = pre15 + ups_piece(packet.user_properties); pre16 = acc;
    }
//@@at after "encode_raw_bytes!(steps, get_publish_packet_payload);"
        proof {
            { let y = steps@[steps@.len() - 1]; assert(whole_is(y, packet.payload->Some_0@, *packet)) by { reveal(whole_is); assert forall|pk: MqttPacket| is_publish_of(pk, *packet) implies #[trigger] step_whole(y, pk) == packet.payload->Some_0@ by { assert(get_publish_packet_payload.requires((&pk,))); } } assert(step_off(y) == 0); lemma_push1(s0, cur, y, acc, packet.payload->Some_0@, *packet); cur = cur.push(y); acc = acc + packet.payload->Some_0@; }
            assert(steps@ == cur);
        }
//@@at before "Ok(())"
    proof {
        if packet.payload is None { lemma_regroup0(s0, cur, pre16, *packet); }
        acc = pre16 + payload_piece(packet.payload);
        lemma_inv_final(s0, cur, acc, *packet);
        lemma_assoc_publish5(seq![publish_first_byte(*packet)], vli(publish_remaining_len(*packet, res)), topic_piece(*packet, res), id_piece(*packet), vli(publish_props_len(*packet, res)), pfi_piece(packet.payload_format), mei_piece(packet.message_expiry_interval_seconds), alias_piece(res.alias), opt_str_prop_bytes(8u8, packet.response_topic), opt_bin_prop_bytes(9u8, packet.correlation_data), opt_str_prop_bytes(3u8, packet.content_type), ups_piece(packet.user_properties), payload_piece(packet.payload));
        assert(acc == publish5_bytes(*packet, res));
    }
//@end



// ---------------------------------------------------------------------------------------------------------------------------------
// MQTT 5 SUBSCRIBE on the wire (C02), OASIS 5.0 section 3.8. The Subscription Identifier is a Variable Byte Integer (3.8.2.1.2) - the
// contract is the standard's; the code writes four bytes, which is the open finding F-SUBID (the obligation holds when no identifier is present).
//@const gneiss-mqtt/src/mqtt/utils.rs SUBSCRIPTION_OPTIONS_NO_LOCAL_MASK
//@const gneiss-mqtt/src/mqtt/utils.rs SUBSCRIPTION_OPTIONS_RETAIN_AS_PUBLISHED_MASK
//@const gneiss-mqtt/src/mqtt/utils.rs SUBSCRIPTION_OPTIONS_RETAIN_HANDLING_SHIFT
pub open spec fn rh_num(t: RetainHandlingType) -> u8 { match t { RetainHandlingType::SendOnSubscribe => 0u8, RetainHandlingType::SendOnSubscribeIfNew => 1u8, RetainHandlingType::DontSend => 2u8 } }
// 3.8.3.1: bits 1-0 maximum QoS, bit 2 No Local, bit 3 Retain As Published, bits 5-4 Retain Handling, bits 7-6 reserved 0
pub open spec fn sub_options_byte(s: Subscription) -> u8 {
    (qos_num(s.qos) + (if s.no_local { 4int } else { 0 }) + (if s.retain_as_published { 8int } else { 0 }) + 16 * rh_num(s.retain_handling_type)) as u8
}
//@fn gneiss-mqtt/src/mqtt/subscribe.rs compute_subscription_options_byte5 props=C02
    ensures r == sub_options_byte(*subscription),
//@@at bodystart
    proof {
        assert(1u8 << 2 == 4u8) by (bit_vector);
        assert(1u8 << 3 == 8u8) by (bit_vector);
        assert(forall|q: u8| q <= 2 ==> #[trigger] (q | 4u8) == q + 4) by (bit_vector);
        assert(forall|b: u8| (b <= 2 || (4 <= b && b <= 6)) ==> #[trigger] (b | 8u8) == b + 8) by (bit_vector);
        assert(forall|b: u8, t: u8| b < 16 && t <= 2 ==> #[trigger] (b | (t << 4u8)) == b + 16 * t) by (bit_vector);
        assert(subscription.qos as u8 == qos_num(subscription.qos));
        assert(subscription.retain_handling_type as u8 == rh_num(subscription.retain_handling_type));
        assert(SUBSCRIPTION_OPTIONS_NO_LOCAL_MASK == 4u8) by (compute);
        assert(SUBSCRIPTION_OPTIONS_RETAIN_AS_PUBLISHED_MASK == 8u8) by (compute);
    }
//@end

pub open spec fn subscribe_props_len(p: SubscribePacket) -> nat {
    opt_user_props_len(p.user_properties) + (match p.subscription_identifier { Some(id) => 1 + vli_len(id as nat), None => 0 })
}
pub open spec fn subscribe_remaining_len(p: SubscribePacket) -> nat {
    2 + vli_len(subscribe_props_len(p)) + subscribe_props_len(p) + subs_len(p.subscriptions@, p.subscriptions@.len())
}
pub open spec fn subscribe5_sendable(p: SubscribePacket) -> bool {
    &&& ups_ok(p.user_properties) && subs_ok(p.subscriptions@) && count_ok(p.subscriptions@.len())
    &&& (p.user_properties matches Some(ps) ==> count_ok(ps@.len()))
    &&& (p.subscription_identifier matches Some(id) ==> 1 <= id <= 268435455)
    &&& subscribe_remaining_len(p) <= 268435455
}
// the contract the validate unit states from the standard (there it fails when an identifier is present: finding F-SUBID); a signature-only stub here
//@fn gneiss-mqtt/src/mqtt/subscribe.rs compute_subscribe_packet_length_properties5 stub
    requires ups_ok(packet.user_properties), subs_ok(packet.subscriptions@), count_ok(packet.subscriptions@.len()),
        packet.user_properties matches Some(ps) ==> count_ok(ps@.len()),
    ensures
        r matches Ok((rem, props)) ==> props == subscribe_props_len(*packet) && rem == subscribe_remaining_len(*packet) && rem <= 268435455 && props <= 268435455,
        (subscribe_remaining_len(*packet) <= 268435455) ==> r is Ok,
//@end
//@fn gneiss-mqtt/src/mqtt/subscribe.rs get_subscribe_packet_user_property props=C02
    requires packet matches MqttPacket::Subscribe(p) && p.user_properties matches Some(ups) && index < ups@.len(),
    ensures packet matches MqttPacket::Subscribe(p) && p.user_properties matches Some(ups) && *r == ups@[index as int],
//@end
pub open spec fn subid_piece(o: Option<u32>) -> Seq<u8> { match o { Some(id) => seq![11u8] + vli(id as nat), None => Seq::<u8>::empty() } }
pub open spec fn subs5_bytes(v: Seq<Subscription>, n: nat) -> Seq<u8> decreases n {
    if n == 0 { Seq::<u8>::empty() } else { subs5_bytes(v, (n - 1) as nat) + be16_bytes(blen(v[n - 1].topic_filter@) as u16) + str_bytes(v[n - 1].topic_filter@) + seq![sub_options_byte(v[n - 1])] }
}
pub open spec fn subscribe5_bytes(p: SubscribePacket) -> Seq<u8> {
    seq![0x82u8] + vli(subscribe_remaining_len(p)) + be16_bytes(p.packet_id) + vli(subscribe_props_len(p)) + subid_piece(p.subscription_identifier) + ups_piece(p.user_properties)
    + subs5_bytes(p.subscriptions@, p.subscriptions@.len())
}
pub proof fn lemma_g_regroup2(s0: Seq<EncodingStep>, cur: Seq<EncodingStep>, pre: Seq<u8>, b0: Seq<u8>, b1: Seq<u8>, pk0: MqttPacket)
    requires g_inv(s0, cur, pre + b0 + b1, pk0),
    ensures g_inv(s0, cur, pre + (b0 + b1), pk0),
{ assert(pre + b0 + b1 =~= pre + (b0 + b1)); }
pub proof fn lemma_g_regroup_sub5(s0: Seq<EncodingStep>, cur: Seq<EncodingStep>, pre: Seq<u8>, v: Seq<Subscription>, n: nat, pk0: MqttPacket)
    requires n < v.len(), g_inv(s0, cur, pre + subs5_bytes(v, n) + be16_bytes(blen(v[n as int].topic_filter@) as u16) + str_bytes(v[n as int].topic_filter@) + seq![sub_options_byte(v[n as int])], pk0),
    ensures g_inv(s0, cur, pre + subs5_bytes(v, n + 1), pk0),
{
    assert(pre + subs5_bytes(v, n) + be16_bytes(blen(v[n as int].topic_filter@) as u16) + str_bytes(v[n as int].topic_filter@) + seq![sub_options_byte(v[n as int])]
        =~= pre + (subs5_bytes(v, n) + be16_bytes(blen(v[n as int].topic_filter@) as u16) + str_bytes(v[n as int].topic_filter@) + seq![sub_options_byte(v[n as int])]));
}
pub proof fn lemma_lead_empty7(a: Seq<u8>, b: Seq<u8>, c: Seq<u8>, d: Seq<u8>, e: Seq<u8>, f: Seq<u8>, g: Seq<u8>)
    ensures Seq::<u8>::empty() + a + b + c + d + e + f + g == a + b + c + d + e + f + g,
{ assert(Seq::<u8>::empty() + a + b + c + d + e + f + g =~= a + b + c + d + e + f + g); }

//@fn gneiss-mqtt/src/mqtt/subscribe.rs write_subscribe_encoding_steps5 props=C02 desugar fnptr_opaque expand=gneiss-mqtt/src/encode.rs:encode_user_properties+gneiss-mqtt/src/encode.rs:encode_user_property
//@@attr #[verifier::rlimit(100)]
//@@attr #[verifier::spinoff_prover]
    requires
        subscribe5_sendable(*packet),          // send-time validation (C16, validate unit)
    ensures
        r is Ok,
        forall|pk: MqttPacket| is_subscribe_of(pk, *packet) && steps_wf(old(steps)@, pk) ==> #[trigger] steps_wf(final(steps)@, pk),
        forall|pk: MqttPacket| is_subscribe_of(pk, *packet) ==> #[trigger] flat(final(steps)@, pk) == flat(old(steps)@, pk) + subscribe5_bytes(*packet),
//@@finding F-SUBID
        proof { assume(packet.subscription_identifier is None); }
//@@at bodystart
    let ghost s0 = steps@;
    let ghost mut cur = steps@;
    let ghost mut acc = Seq::<u8>::empty();
    let ghost mut pre5 = Seq::<u8>::empty();
    let ghost mut pre6 = Seq::<u8>::empty();
    let ghost pk0 = MqttPacket::Subscribe(*packet);
    proof { lemma_g_init(s0, pk0); }
//@@at after "encode_integral_expression!(steps, Uint8, SUBSCRIBE_FIRST_BYTE);"
    proof {
        assert(SUBSCRIBE_FIRST_BYTE == 0x82u8) by (compute);
        { let x = EncodingStep::Uint8(0x82u8); lemma_g_whole_int(x, pk0); lemma_g_push1(s0, cur, x, acc, int_bytes(x), pk0); cur = cur.push(x); acc = acc + int_bytes(x); }
        assert(steps@ == cur);
    }
//@@at after "encode_integral_expression!(steps, Vli, total_remaining_length);"
    proof {
        { let x = EncodingStep::Vli(total_remaining_length); lemma_g_whole_int(x, pk0); lemma_g_push1(s0, cur, x, acc, int_bytes(x), pk0); cur = cur.push(x); acc = acc + int_bytes(x); }
        assert(steps@ == cur);
    }
//@@at after "encode_integral_expression!(steps, Uint16, packet.packet_id);"
    proof {
        { let x = EncodingStep::Uint16(packet.packet_id); lemma_g_whole_int(x, pk0); lemma_g_push1(s0, cur, x, acc, int_bytes(x), pk0); cur = cur.push(x); acc = acc + int_bytes(x); }
        assert(steps@ == cur);
    }
//@@at after "encode_integral_expression!(steps, Vli, subscribe_property_length);"
    proof {
        { let x = EncodingStep::Vli(subscribe_property_length); lemma_g_whole_int(x, pk0); lemma_g_push1(s0, cur, x, acc, int_bytes(x), pk0); cur = cur.push(x); acc = acc + int_bytes(x); }
        assert(steps@ == cur);
    }
//@@at after "encode_optional_property!(steps, Uint32, PROPERTY_KEY_SUBSCRIPTION_IDENTIFIER, packet.subscription_identifier);"
    proof {
        let pre = acc;
        if packet.subscription_identifier is Some {
            { let x = EncodingStep::Uint8(11u8); lemma_g_whole_int(x, pk0); lemma_g_push1(s0, cur, x, acc, int_bytes(x), pk0); cur = cur.push(x); acc = acc + int_bytes(x); }
            { let x = EncodingStep::Uint32(packet.subscription_identifier->Some_0); lemma_g_whole_int(x, pk0); lemma_g_push1(s0, cur, x, acc, int_bytes(x), pk0); cur = cur.push(x); acc = acc + int_bytes(x); }
            // the standard: a Variable Byte Integer follows the identifier 0x0B (fails on the code as it is: F-SUBID)
            lemma_g_regroup2(s0, cur, pre, seq![11u8], vli(packet.subscription_identifier->Some_0 as nat), pk0);
        } else { lemma_g_regroup0(s0, cur, pre, pk0); }
        assert(steps@ == cur);
        acc = pre + subid_piece(packet.subscription_identifier); pre5 = acc;
    }
//@@at before "let mut verif_enum0: usize = 0;"
            proof {
                lemma_g_regroup0(s0, cur, pre5, pk0);
            }
//@@loop 0 iter=it
            invariant
                packet.user_properties is Some, properties@ == packet.user_properties->Some_0@, it.seq().len() == properties@.len(), count_ok(properties@.len()),
                ups_ok(packet.user_properties), pk0 == MqttPacket::Subscribe(*packet),
                verif_enum0 == it.index@,
                cur == steps@,
                g_inv(s0, steps@, pre5 + ups_bytes(properties@, it.index@ as nat), pk0),
                it.index@ == it.seq().len() ==> g_inv(s0, steps@, pre5 + ups_piece(packet.user_properties), pk0),
//@@at before "verif_enum0 += 1;"
                proof { assert(it.index@ < it.seq().len()); }
//@@bodyend_of_loop 0
                proof {
                    let n = it.index@;
                    let u = properties@[n];
                    assert(*user_property == u);
                    assert(up_ok(u));
                    acc = pre5 + ups_bytes(properties@, n as nat);
                    { let x = EncodingStep::Uint8(38u8); lemma_g_whole_int(x, pk0); lemma_g_push1(s0, cur, x, acc, int_bytes(x), pk0); cur = cur.push(x); acc = acc + int_bytes(x); }
                    { let x = EncodingStep::Uint16(blen(u.name@) as u16); lemma_g_whole_int(x, pk0); lemma_g_push1(s0, cur, x, acc, int_bytes(x), pk0); cur = cur.push(x); acc = acc + int_bytes(x); }
                    { let y = steps@[steps@.len() - 3]; assert(g_whole(y, str_bytes(u.name@), pk0)) by { reveal(g_whole); assert(get_subscribe_packet_user_property.requires((&pk0, i))); } assert(step_off(y) == 0); lemma_g_push1(s0, cur, y, acc, str_bytes(u.name@), pk0); cur = cur.push(y); acc = acc + str_bytes(u.name@); }
                    { let x = EncodingStep::Uint16(blen(u.value@) as u16); lemma_g_whole_int(x, pk0); lemma_g_push1(s0, cur, x, acc, int_bytes(x), pk0); cur = cur.push(x); acc = acc + int_bytes(x); }
                    { let y = steps@[steps@.len() - 1]; assert(g_whole(y, str_bytes(u.value@), pk0)) by { reveal(g_whole); assert(get_subscribe_packet_user_property.requires((&pk0, i))); } assert(step_off(y) == 0); lemma_g_push1(s0, cur, y, acc, str_bytes(u.value@), pk0); cur = cur.push(y); acc = acc + str_bytes(u.value@); }
                    assert(steps@ == cur);
                    lemma_g_regroup_up(s0, cur, pre5, properties@, n as nat, pk0);
                }
//@@at before "let subscriptions = &packet.subscriptions;"
    proof {
        if packet.user_properties is None { lemma_g_regroup0(s0, cur, pre5, pk0); }
        acc = pre5 + ups_piece(packet.user_properties); pre6 = acc;
        lemma_g_regroup0(s0, cur, pre6, pk0);
    }
//@@loop 1 iter=it
        invariant
            subscriptions@ == packet.subscriptions@, it.seq().len() == packet.subscriptions@.len(), count_ok(packet.subscriptions@.len()), subs_ok(packet.subscriptions@),
            pk0 == MqttPacket::Subscribe(*packet),
            verif_enum1 == it.index@,
            cur == steps@,
            g_inv(s0, steps@, pre6 + subs5_bytes(packet.subscriptions@, it.index@ as nat), pk0),
            it.index@ == it.seq().len() ==> g_inv(s0, steps@, pre6 + subs5_bytes(packet.subscriptions@, packet.subscriptions@.len()), pk0),
//@@at before "verif_enum1 += 1;"
            proof { assert(it.index@ < it.seq().len()); }
//@@at after "encode_integral_expression!(steps, Uint8, compute_subscription_options_byte5(subscription));"
            proof {
                let n = it.index@;
                assert(*subscription == packet.subscriptions@[n]);
                acc = pre6 + subs5_bytes(packet.subscriptions@, n as nat);
                { let x = EncodingStep::Uint16(blen(subscription.topic_filter@) as u16); lemma_g_whole_int(x, pk0); lemma_g_push1(s0, cur, x, acc, int_bytes(x), pk0); cur = cur.push(x); acc = acc + int_bytes(x); }
                { let y = steps@[steps@.len() - 2]; assert(g_whole(y, str_bytes(subscription.topic_filter@), pk0)) by { reveal(g_whole); assert(get_subscribe_packet_topic_filter.requires((&pk0, i))); } assert(step_off(y) == 0); lemma_g_push1(s0, cur, y, acc, str_bytes(subscription.topic_filter@), pk0); cur = cur.push(y); acc = acc + str_bytes(subscription.topic_filter@); }
                { let x = EncodingStep::Uint8(sub_options_byte(*subscription)); lemma_g_whole_int(x, pk0); lemma_g_push1(s0, cur, x, acc, int_bytes(x), pk0); cur = cur.push(x); acc = acc + int_bytes(x); }
                assert(steps@ == cur);
                lemma_g_regroup_sub5(s0, cur, pre6, packet.subscriptions@, n as nat, pk0);
            }
//@@at before "Ok(())"
    proof {
        acc = pre6 + subs5_bytes(packet.subscriptions@, packet.subscriptions@.len());
        lemma_g_final(s0, cur, acc, pk0);
        lemma_lead_empty7(seq![0x82u8], vli(subscribe_remaining_len(*packet)), be16_bytes(packet.packet_id), vli(subscribe_props_len(*packet)), subid_piece(packet.subscription_identifier), ups_piece(packet.user_properties), subs5_bytes(packet.subscriptions@, packet.subscriptions@.len()));
        assert(acc == subscribe5_bytes(*packet));
        assert forall|pk: MqttPacket| is_subscribe_of(pk, *packet) implies pk == pk0 by { }
    }
//@end


// ---------------------------------------------------------------------------------------------------------------------------------
// MQTT 5 PUBACK / PUBREC / PUBREL / PUBCOMP on the wire (C02, C05), OASIS 5.0 sections 3.4-3.7: fixed header, Remaining Length, Packet Identifier,
// then - unless the reason code is Success and there are no properties (Remaining Length 2) - the reason code, and - unless there are no
// properties (Remaining Length 3) - the property length, the reason string and the user properties. All four are instances of one macro.
//@macro gneiss-mqtt/src/encode.rs add_optional_string_property_length
//@macro gneiss-mqtt/src/encode.rs encode_enum
// proved in the validate unit (same contract); a signature-only stub here
//@fn gneiss-mqtt/src/encode.rs compute_user_properties_length stub
    requires ups_ok(*properties), properties matches Some(ps) ==> count_ok(ps@.len()),
    ensures r == opt_user_props_len(*properties), r <= 16777216 * 131075,
//@end
pub open spec fn ack5_props_len(rs: Option<String>, ups: Option<Vec<UserProperty>>) -> nat { opt_user_props_len(ups) + opt_strprop_len(rs) }
pub open spec fn ack5_bytes(first: u8, id: u16, rc: u8, success: bool, rs: Option<String>, ups: Option<Vec<UserProperty>>) -> Seq<u8> {
    let plen = ack5_props_len(rs, ups);
    if plen == 0 {
        if success { seq![first] + vli(2) + be16_bytes(id) } else { seq![first] + vli(3) + be16_bytes(id) + seq![rc] }
    } else {
        seq![first] + vli(3 + plen + vli_len(plen)) + be16_bytes(id) + seq![rc] + vli(plen) + opt_str_prop_bytes(31u8, rs) + ups_piece(ups)
    }
}
pub open spec fn ack5_sendable(rs: Option<String>, ups: Option<Vec<UserProperty>>) -> bool {
    &&& ups_ok(ups) && opt_str_ok(rs) && (ups matches Some(ps) ==> count_ok(ps@.len()))
    &&& 3 + ack5_props_len(rs, ups) + vli_len(ack5_props_len(rs, ups)) <= 268435455
}
pub proof fn lemma_g_regroup3(s0: Seq<EncodingStep>, cur: Seq<EncodingStep>, pre: Seq<u8>, b0: Seq<u8>, b1: Seq<u8>, b2: Seq<u8>, pk0: MqttPacket)
    requires g_inv(s0, cur, pre + b0 + b1 + b2, pk0),
    ensures g_inv(s0, cur, pre + (b0 + b1 + b2), pk0),
{ assert(pre + b0 + b1 + b2 =~= pre + (b0 + b1 + b2)); }
pub proof fn lemma_lead_empty3(a: Seq<u8>, b: Seq<u8>, c: Seq<u8>) ensures Seq::<u8>::empty() + a + b + c == a + b + c { assert(Seq::<u8>::empty() + a + b + c =~= a + b + c); }
pub proof fn lemma_lead_empty4(a: Seq<u8>, b: Seq<u8>, c: Seq<u8>, d: Seq<u8>) ensures Seq::<u8>::empty() + a + b + c + d == a + b + c + d { assert(Seq::<u8>::empty() + a + b + c + d =~= a + b + c + d); }

//@fn gneiss-mqtt/src/mqtt/puback.rs get_puback_packet_reason_string props=C02 via=gneiss-mqtt/src/encode.rs:define_ack_packet_reason_string_accessor
    requires packet matches MqttPacket::Puback(p) && p.reason_string is Some,
    ensures packet matches MqttPacket::Puback(p) && p.reason_string matches Some(t) && r@ == t@,
//@end
//@fn gneiss-mqtt/src/mqtt/puback.rs get_puback_packet_user_property props=C02 via=gneiss-mqtt/src/encode.rs:define_ack_packet_user_property_accessor
    requires packet matches MqttPacket::Puback(p) && p.user_properties matches Some(ups) && index < ups@.len(),
    ensures packet matches MqttPacket::Puback(p) && p.user_properties matches Some(ups) && *r == ups@[index as int],
//@end
//@fn gneiss-mqtt/src/mqtt/puback.rs compute_puback_packet_length_properties props=C02 via=gneiss-mqtt/src/encode.rs:define_ack_packet_lengths_function
    requires ack5_sendable(packet.reason_string, packet.user_properties),
    ensures
        r matches Ok((rem, props)) && props == ack5_props_len(packet.reason_string, packet.user_properties)
            && rem == (if props == 0 { if packet.reason_code == PubackReasonCode::Success { 2int } else { 3 } } else { 3 + props + vli_len(props as nat) }),
//@@at bodystart
    proof { if packet.user_properties is Some { lemma_ups_len_bound(packet.user_properties->Some_0@, packet.user_properties->Some_0@.len()); } }
//@@at before "Ok(((3 + property_section_length"
    proof { lemma_vli_len(property_section_length as nat); }
//@end

//@fn gneiss-mqtt/src/mqtt/puback.rs write_puback_encoding_steps5 props=C02,C05 via=gneiss-mqtt/src/encode.rs:define_ack_packet_encoding_impl5 desugar fnptr_opaque expand=gneiss-mqtt/src/encode.rs:encode_user_properties+gneiss-mqtt/src/encode.rs:encode_user_property
//@@attr #[verifier::rlimit(100)]
//@@attr #[verifier::spinoff_prover]
    requires
        ack5_sendable(packet.reason_string, packet.user_properties),
    ensures
        r is Ok,
        steps_wf(old(steps)@, MqttPacket::Puback(*packet)) ==> steps_wf(final(steps)@, MqttPacket::Puback(*packet)),
        flat(final(steps)@, MqttPacket::Puback(*packet)) == flat(old(steps)@, MqttPacket::Puback(*packet)) + ack5_bytes(0x40u8, packet.packet_id, packet.reason_code as u8, packet.reason_code == PubackReasonCode::Success, packet.reason_string, packet.user_properties),
//@@at bodystart
    let ghost s0 = steps@;
    let ghost mut cur = steps@;
    let ghost mut acc = Seq::<u8>::empty();
    let ghost mut pre5 = Seq::<u8>::empty();
    let ghost pk0 = MqttPacket::Puback(*packet);
    let ghost plen = ack5_props_len(packet.reason_string, packet.user_properties);
    proof { lemma_g_init(s0, pk0); }
//@@at after "encode_integral_expression!(steps, Uint8, PUBACK_FIRST_BYTE);"
    proof {
        assert(PUBACK_FIRST_BYTE == 0x40u8) by (compute);
        { let x = EncodingStep::Uint8(0x40u8); lemma_g_whole_int(x, pk0); lemma_g_push1(s0, cur, x, acc, int_bytes(x), pk0); cur = cur.push(x); acc = acc + int_bytes(x); }
        assert(steps@ == cur);
    }
//@@at after "encode_integral_expression!(steps, Vli, total_remaining_length);"
    proof {
        { let x = EncodingStep::Vli(total_remaining_length); lemma_g_whole_int(x, pk0); lemma_g_push1(s0, cur, x, acc, int_bytes(x), pk0); cur = cur.push(x); acc = acc + int_bytes(x); }
        assert(steps@ == cur);
    }
//@@at after "encode_integral_expression!(steps, Uint16, packet.packet_id);"
    proof {
        { let x = EncodingStep::Uint16(packet.packet_id); lemma_g_whole_int(x, pk0); lemma_g_push1(s0, cur, x, acc, int_bytes(x), pk0); cur = cur.push(x); acc = acc + int_bytes(x); }
        assert(steps@ == cur);
    }
//@@at before "return Ok(()); @nth=1/2"
        proof {
            lemma_g_final(s0, cur, acc, pk0);
            lemma_lead_empty3(seq![0x40u8], vli(2), be16_bytes(packet.packet_id));
            assert(acc == ack5_bytes(0x40u8, packet.packet_id, packet.reason_code as u8, packet.reason_code == PubackReasonCode::Success, packet.reason_string, packet.user_properties));
        }
//@@at after "encode_enum!(steps, Uint8, u8, packet.reason_code);"
    proof {
        { let x = EncodingStep::Uint8(packet.reason_code as u8); lemma_g_whole_int(x, pk0); lemma_g_push1(s0, cur, x, acc, int_bytes(x), pk0); cur = cur.push(x); acc = acc + int_bytes(x); }
        assert(steps@ == cur);
    }
//@@at before "return Ok(()); @nth=2/2"
        proof {
            lemma_g_final(s0, cur, acc, pk0);
            lemma_lead_empty4(seq![0x40u8], vli(3), be16_bytes(packet.packet_id), seq![packet.reason_code as u8]);
            assert(acc == ack5_bytes(0x40u8, packet.packet_id, packet.reason_code as u8, packet.reason_code == PubackReasonCode::Success, packet.reason_string, packet.user_properties));
        }
//@@at after "encode_integral_expression!(steps, Vli, property_length);"
    proof {
        { let x = EncodingStep::Vli(property_length); lemma_g_whole_int(x, pk0); lemma_g_push1(s0, cur, x, acc, int_bytes(x), pk0); cur = cur.push(x); acc = acc + int_bytes(x); }
        assert(steps@ == cur);
    }
//@@at after "encode_optional_string_property!(steps, get_puback_packet_reason_string, PROPERTY_KEY_REASON_STRING, packet.reason_string);"
    proof {
        let pre = acc;
        if packet.reason_string is Some {
            { let x = EncodingStep::Uint8(31u8); lemma_g_whole_int(x, pk0); lemma_g_push1(s0, cur, x, acc, int_bytes(x), pk0); cur = cur.push(x); acc = acc + int_bytes(x); }
            { let x = EncodingStep::Uint16(blen(packet.reason_string->Some_0@) as u16); lemma_g_whole_int(x, pk0); lemma_g_push1(s0, cur, x, acc, int_bytes(x), pk0); cur = cur.push(x); acc = acc + int_bytes(x); }
            { let y = steps@[steps@.len() - 1]; assert(g_whole(y, str_bytes(packet.reason_string->Some_0@), pk0)) by { reveal(g_whole); assert(get_puback_packet_reason_string.requires((&pk0,))); } assert(step_off(y) == 0); lemma_g_push1(s0, cur, y, acc, str_bytes(packet.reason_string->Some_0@), pk0); cur = cur.push(y); acc = acc + str_bytes(packet.reason_string->Some_0@); }
            lemma_g_regroup3(s0, cur, pre, seq![31u8], be16_bytes(blen(packet.reason_string->Some_0@) as u16), str_bytes(packet.reason_string->Some_0@), pk0);
        } else { lemma_g_regroup0(s0, cur, pre, pk0); }
        assert(steps@ == cur);
        acc = pre + opt_str_prop_bytes(31u8, packet.reason_string); pre5 = acc;
    }
//@@at before "let mut verif_enum0: usize = 0;"
            proof {
                lemma_g_regroup0(s0, cur, pre5, pk0);
            }
//@@loop 0 iter=it
            invariant
                packet.user_properties is Some, properties@ == packet.user_properties->Some_0@, it.seq().len() == properties@.len(), count_ok(properties@.len()),
                ups_ok(packet.user_properties), pk0 == MqttPacket::Puback(*packet),
                verif_enum0 == it.index@,
                cur == steps@,
                g_inv(s0, steps@, pre5 + ups_bytes(properties@, it.index@ as nat), pk0),
                it.index@ == it.seq().len() ==> g_inv(s0, steps@, pre5 + ups_piece(packet.user_properties), pk0),
//@@at before "verif_enum0 += 1;"
                proof { assert(it.index@ < it.seq().len()); }
//@@bodyend_of_loop 0
                proof {
                    let n = it.index@;
                    let u = properties@[n];
                    assert(*user_property == u);
                    assert(up_ok(u));
                    acc = pre5 + ups_bytes(properties@, n as nat);
                    { let x = EncodingStep::Uint8(38u8); lemma_g_whole_int(x, pk0); lemma_g_push1(s0, cur, x, acc, int_bytes(x), pk0); cur = cur.push(x); acc = acc + int_bytes(x); }
                    { let x = EncodingStep::Uint16(blen(u.name@) as u16); lemma_g_whole_int(x, pk0); lemma_g_push1(s0, cur, x, acc, int_bytes(x), pk0); cur = cur.push(x); acc = acc + int_bytes(x); }
                    { let y = steps@[steps@.len() - 3]; assert(g_whole(y, str_bytes(u.name@), pk0)) by { reveal(g_whole); assert(get_puback_packet_user_property.requires((&pk0, i))); } assert(step_off(y) == 0); lemma_g_push1(s0, cur, y, acc, str_bytes(u.name@), pk0); cur = cur.push(y); acc = acc + str_bytes(u.name@); }
                    { let x = EncodingStep::Uint16(blen(u.value@) as u16); lemma_g_whole_int(x, pk0); lemma_g_push1(s0, cur, x, acc, int_bytes(x), pk0); cur = cur.push(x); acc = acc + int_bytes(x); }
                    { let y = steps@[steps@.len() - 1]; assert(g_whole(y, str_bytes(u.value@), pk0)) by { reveal(g_whole); assert(get_puback_packet_user_property.requires((&pk0, i))); } assert(step_off(y) == 0); lemma_g_push1(s0, cur, y, acc, str_bytes(u.value@), pk0); cur = cur.push(y); acc = acc + str_bytes(u.value@); }
                    assert(steps@ == cur);
                    lemma_g_regroup_up(s0, cur, pre5, properties@, n as nat, pk0);
                }
//@@at before "Ok(()) @nth=3/3"
    proof {
        if packet.user_properties is None { lemma_g_regroup0(s0, cur, pre5, pk0); }
        acc = pre5 + ups_piece(packet.user_properties);
        lemma_g_final(s0, cur, acc, pk0);
        lemma_lead_empty7(seq![0x40u8], vli((3 + plen + vli_len(plen)) as nat), be16_bytes(packet.packet_id), seq![packet.reason_code as u8], vli(plen), opt_str_prop_bytes(31u8, packet.reason_string), ups_piece(packet.user_properties));
        assert(acc == ack5_bytes(0x40u8, packet.packet_id, packet.reason_code as u8, packet.reason_code == PubackReasonCode::Success, packet.reason_string, packet.user_properties));
    }
//@end

//@fn gneiss-mqtt/src/mqtt/pubrec.rs get_pubrec_packet_reason_string props=C02 via=gneiss-mqtt/src/encode.rs:define_ack_packet_reason_string_accessor
    requires packet matches MqttPacket::Pubrec(p) && p.reason_string is Some,
    ensures packet matches MqttPacket::Pubrec(p) && p.reason_string matches Some(t) && r@ == t@,
//@end
//@fn gneiss-mqtt/src/mqtt/pubrec.rs get_pubrec_packet_user_property props=C02 via=gneiss-mqtt/src/encode.rs:define_ack_packet_user_property_accessor
    requires packet matches MqttPacket::Pubrec(p) && p.user_properties matches Some(ups) && index < ups@.len(),
    ensures packet matches MqttPacket::Pubrec(p) && p.user_properties matches Some(ups) && *r == ups@[index as int],
//@end
//@fn gneiss-mqtt/src/mqtt/pubrec.rs compute_pubrec_packet_length_properties props=C02 via=gneiss-mqtt/src/encode.rs:define_ack_packet_lengths_function
    requires ack5_sendable(packet.reason_string, packet.user_properties),
    ensures
        r matches Ok((rem, props)) && props == ack5_props_len(packet.reason_string, packet.user_properties)
            && rem == (if props == 0 { if packet.reason_code == PubrecReasonCode::Success { 2int } else { 3 } } else { 3 + props + vli_len(props as nat) }),
//@@at bodystart
    proof { if packet.user_properties is Some { lemma_ups_len_bound(packet.user_properties->Some_0@, packet.user_properties->Some_0@.len()); } }
//@@at before "Ok(((3 + property_section_length"
    proof { lemma_vli_len(property_section_length as nat); }
//@end

//@fn gneiss-mqtt/src/mqtt/pubrec.rs write_pubrec_encoding_steps5 props=C02,C05 via=gneiss-mqtt/src/encode.rs:define_ack_packet_encoding_impl5 desugar fnptr_opaque expand=gneiss-mqtt/src/encode.rs:encode_user_properties+gneiss-mqtt/src/encode.rs:encode_user_property
//@@attr #[verifier::rlimit(100)]
//@@attr #[verifier::spinoff_prover]
    requires
        ack5_sendable(packet.reason_string, packet.user_properties),
    ensures
        r is Ok,
        steps_wf(old(steps)@, MqttPacket::Pubrec(*packet)) ==> steps_wf(final(steps)@, MqttPacket::Pubrec(*packet)),
        flat(final(steps)@, MqttPacket::Pubrec(*packet)) == flat(old(steps)@, MqttPacket::Pubrec(*packet)) + ack5_bytes(0x50u8, packet.packet_id, packet.reason_code as u8, packet.reason_code == PubrecReasonCode::Success, packet.reason_string, packet.user_properties),
//@@at bodystart
    let ghost s0 = steps@;
    let ghost mut cur = steps@;
    let ghost mut acc = Seq::<u8>::empty();
    let ghost mut pre5 = Seq::<u8>::empty();
    let ghost pk0 = MqttPacket::Pubrec(*packet);
    let ghost plen = ack5_props_len(packet.reason_string, packet.user_properties);
    proof { lemma_g_init(s0, pk0); }
//@@at after "encode_integral_expression!(steps, Uint8, PUBREC_FIRST_BYTE);"
    proof {
        assert(PUBREC_FIRST_BYTE == 0x50u8) by (compute);
        { let x = EncodingStep::Uint8(0x50u8); lemma_g_whole_int(x, pk0); lemma_g_push1(s0, cur, x, acc, int_bytes(x), pk0); cur = cur.push(x); acc = acc + int_bytes(x); }
        assert(steps@ == cur);
    }
//@@at after "encode_integral_expression!(steps, Vli, total_remaining_length);"
    proof {
        { let x = EncodingStep::Vli(total_remaining_length); lemma_g_whole_int(x, pk0); lemma_g_push1(s0, cur, x, acc, int_bytes(x), pk0); cur = cur.push(x); acc = acc + int_bytes(x); }
        assert(steps@ == cur);
    }
//@@at after "encode_integral_expression!(steps, Uint16, packet.packet_id);"
    proof {
        { let x = EncodingStep::Uint16(packet.packet_id); lemma_g_whole_int(x, pk0); lemma_g_push1(s0, cur, x, acc, int_bytes(x), pk0); cur = cur.push(x); acc = acc + int_bytes(x); }
        assert(steps@ == cur);
    }
//@@at before "return Ok(()); @nth=1/2"
        proof {
            lemma_g_final(s0, cur, acc, pk0);
            lemma_lead_empty3(seq![0x50u8], vli(2), be16_bytes(packet.packet_id));
            assert(acc == ack5_bytes(0x50u8, packet.packet_id, packet.reason_code as u8, packet.reason_code == PubrecReasonCode::Success, packet.reason_string, packet.user_properties));
        }
//@@at after "encode_enum!(steps, Uint8, u8, packet.reason_code);"
    proof {
        { let x = EncodingStep::Uint8(packet.reason_code as u8); lemma_g_whole_int(x, pk0); lemma_g_push1(s0, cur, x, acc, int_bytes(x), pk0); cur = cur.push(x); acc = acc + int_bytes(x); }
        assert(steps@ == cur);
    }
//@@at before "return Ok(()); @nth=2/2"
        proof {
            lemma_g_final(s0, cur, acc, pk0);
            lemma_lead_empty4(seq![0x50u8], vli(3), be16_bytes(packet.packet_id), seq![packet.reason_code as u8]);
            assert(acc == ack5_bytes(0x50u8, packet.packet_id, packet.reason_code as u8, packet.reason_code == PubrecReasonCode::Success, packet.reason_string, packet.user_properties));
        }
//@@at after "encode_integral_expression!(steps, Vli, property_length);"
    proof {
        { let x = EncodingStep::Vli(property_length); lemma_g_whole_int(x, pk0); lemma_g_push1(s0, cur, x, acc, int_bytes(x), pk0); cur = cur.push(x); acc = acc + int_bytes(x); }
        assert(steps@ == cur);
    }
//@@at after "encode_optional_string_property!(steps, get_pubrec_packet_reason_string, PROPERTY_KEY_REASON_STRING, packet.reason_string);"
    proof {
        let pre = acc;
        if packet.reason_string is Some {
            { let x = EncodingStep::Uint8(31u8); lemma_g_whole_int(x, pk0); lemma_g_push1(s0, cur, x, acc, int_bytes(x), pk0); cur = cur.push(x); acc = acc + int_bytes(x); }
            { let x = EncodingStep::Uint16(blen(packet.reason_string->Some_0@) as u16); lemma_g_whole_int(x, pk0); lemma_g_push1(s0, cur, x, acc, int_bytes(x), pk0); cur = cur.push(x); acc = acc + int_bytes(x); }
            { let y = steps@[steps@.len() - 1]; assert(g_whole(y, str_bytes(packet.reason_string->Some_0@), pk0)) by { reveal(g_whole); assert(get_pubrec_packet_reason_string.requires((&pk0,))); } assert(step_off(y) == 0); lemma_g_push1(s0, cur, y, acc, str_bytes(packet.reason_string->Some_0@), pk0); cur = cur.push(y); acc = acc + str_bytes(packet.reason_string->Some_0@); }
            lemma_g_regroup3(s0, cur, pre, seq![31u8], be16_bytes(blen(packet.reason_string->Some_0@) as u16), str_bytes(packet.reason_string->Some_0@), pk0);
        } else { lemma_g_regroup0(s0, cur, pre, pk0); }
        assert(steps@ == cur);
        acc = pre + opt_str_prop_bytes(31u8, packet.reason_string); pre5 = acc;
    }
//@@at before "let mut verif_enum0: usize = 0;"
            proof {
                lemma_g_regroup0(s0, cur, pre5, pk0);
            }
//@@loop 0 iter=it
            invariant
                packet.user_properties is Some, properties@ == packet.user_properties->Some_0@, it.seq().len() == properties@.len(), count_ok(properties@.len()),
                ups_ok(packet.user_properties), pk0 == MqttPacket::Pubrec(*packet),
                verif_enum0 == it.index@,
                cur == steps@,
                g_inv(s0, steps@, pre5 + ups_bytes(properties@, it.index@ as nat), pk0),
                it.index@ == it.seq().len() ==> g_inv(s0, steps@, pre5 + ups_piece(packet.user_properties), pk0),
//@@at before "verif_enum0 += 1;"
                proof { assert(it.index@ < it.seq().len()); }
//@@bodyend_of_loop 0
                proof {
                    let n = it.index@;
                    let u = properties@[n];
                    assert(*user_property == u);
                    assert(up_ok(u));
                    acc = pre5 + ups_bytes(properties@, n as nat);
                    { let x = EncodingStep::Uint8(38u8); lemma_g_whole_int(x, pk0); lemma_g_push1(s0, cur, x, acc, int_bytes(x), pk0); cur = cur.push(x); acc = acc + int_bytes(x); }
                    { let x = EncodingStep::Uint16(blen(u.name@) as u16); lemma_g_whole_int(x, pk0); lemma_g_push1(s0, cur, x, acc, int_bytes(x), pk0); cur = cur.push(x); acc = acc + int_bytes(x); }
                    { let y = steps@[steps@.len() - 3]; assert(g_whole(y, str_bytes(u.name@), pk0)) by { reveal(g_whole); assert(get_pubrec_packet_user_property.requires((&pk0, i))); } assert(step_off(y) == 0); lemma_g_push1(s0, cur, y, acc, str_bytes(u.name@), pk0); cur = cur.push(y); acc = acc + str_bytes(u.name@); }
                    { let x = EncodingStep::Uint16(blen(u.value@) as u16); lemma_g_whole_int(x, pk0); lemma_g_push1(s0, cur, x, acc, int_bytes(x), pk0); cur = cur.push(x); acc = acc + int_bytes(x); }
                    { let y = steps@[steps@.len() - 1]; assert(g_whole(y, str_bytes(u.value@), pk0)) by { reveal(g_whole); assert(get_pubrec_packet_user_property.requires((&pk0, i))); } assert(step_off(y) == 0); lemma_g_push1(s0, cur, y, acc, str_bytes(u.value@), pk0); cur = cur.push(y); acc = acc + str_bytes(u.value@); }
                    assert(steps@ == cur);
                    lemma_g_regroup_up(s0, cur, pre5, properties@, n as nat, pk0);
                }
//@@at before "Ok(()) @nth=3/3"
    proof {
        if packet.user_properties is None { lemma_g_regroup0(s0, cur, pre5, pk0); }
        acc = pre5 + ups_piece(packet.user_properties);
        lemma_g_final(s0, cur, acc, pk0);
        lemma_lead_empty7(seq![0x50u8], vli((3 + plen + vli_len(plen)) as nat), be16_bytes(packet.packet_id), seq![packet.reason_code as u8], vli(plen), opt_str_prop_bytes(31u8, packet.reason_string), ups_piece(packet.user_properties));
        assert(acc == ack5_bytes(0x50u8, packet.packet_id, packet.reason_code as u8, packet.reason_code == PubrecReasonCode::Success, packet.reason_string, packet.user_properties));
    }
//@end

//@fn gneiss-mqtt/src/mqtt/pubrel.rs get_pubrel_packet_reason_string props=C02 via=gneiss-mqtt/src/encode.rs:define_ack_packet_reason_string_accessor
    requires packet matches MqttPacket::Pubrel(p) && p.reason_string is Some,
    ensures packet matches MqttPacket::Pubrel(p) && p.reason_string matches Some(t) && r@ == t@,
//@end
//@fn gneiss-mqtt/src/mqtt/pubrel.rs get_pubrel_packet_user_property props=C02 via=gneiss-mqtt/src/encode.rs:define_ack_packet_user_property_accessor
    requires packet matches MqttPacket::Pubrel(p) && p.user_properties matches Some(ups) && index < ups@.len(),
    ensures packet matches MqttPacket::Pubrel(p) && p.user_properties matches Some(ups) && *r == ups@[index as int],
//@end
//@fn gneiss-mqtt/src/mqtt/pubrel.rs compute_pubrel_packet_length_properties props=C02 via=gneiss-mqtt/src/encode.rs:define_ack_packet_lengths_function
    requires ack5_sendable(packet.reason_string, packet.user_properties),
    ensures
        r matches Ok((rem, props)) && props == ack5_props_len(packet.reason_string, packet.user_properties)
            && rem == (if props == 0 { if packet.reason_code == PubrelReasonCode::Success { 2int } else { 3 } } else { 3 + props + vli_len(props as nat) }),
//@@at bodystart
    proof { if packet.user_properties is Some { lemma_ups_len_bound(packet.user_properties->Some_0@, packet.user_properties->Some_0@.len()); } }
//@@at before "Ok(((3 + property_section_length"
    proof { lemma_vli_len(property_section_length as nat); }
//@end

//@fn gneiss-mqtt/src/mqtt/pubrel.rs write_pubrel_encoding_steps5 props=C02,C05 via=gneiss-mqtt/src/encode.rs:define_ack_packet_encoding_impl5 desugar fnptr_opaque expand=gneiss-mqtt/src/encode.rs:encode_user_properties+gneiss-mqtt/src/encode.rs:encode_user_property
//@@attr #[verifier::rlimit(100)]
//@@attr #[verifier::spinoff_prover]
    requires
        ack5_sendable(packet.reason_string, packet.user_properties),
    ensures
        r is Ok,
        steps_wf(old(steps)@, MqttPacket::Pubrel(*packet)) ==> steps_wf(final(steps)@, MqttPacket::Pubrel(*packet)),
        flat(final(steps)@, MqttPacket::Pubrel(*packet)) == flat(old(steps)@, MqttPacket::Pubrel(*packet)) + ack5_bytes(0x62u8, packet.packet_id, packet.reason_code as u8, packet.reason_code == PubrelReasonCode::Success, packet.reason_string, packet.user_properties),
//@@at bodystart
    let ghost s0 = steps@;
    let ghost mut cur = steps@;
    let ghost mut acc = Seq::<u8>::empty();
    let ghost mut pre5 = Seq::<u8>::empty();
    let ghost pk0 = MqttPacket::Pubrel(*packet);
    let ghost plen = ack5_props_len(packet.reason_string, packet.user_properties);
    proof { lemma_g_init(s0, pk0); }
//@@at after "encode_integral_expression!(steps, Uint8, PUBREL_FIRST_BYTE);"
    proof {
        assert(PUBREL_FIRST_BYTE == 0x62u8) by (compute);
        { let x = EncodingStep::Uint8(0x62u8); lemma_g_whole_int(x, pk0); lemma_g_push1(s0, cur, x, acc, int_bytes(x), pk0); cur = cur.push(x); acc = acc + int_bytes(x); }
        assert(steps@ == cur);
    }
//@@at after "encode_integral_expression!(steps, Vli, total_remaining_length);"
    proof {
        { let x = EncodingStep::Vli(total_remaining_length); lemma_g_whole_int(x, pk0); lemma_g_push1(s0, cur, x, acc, int_bytes(x), pk0); cur = cur.push(x); acc = acc + int_bytes(x); }
        assert(steps@ == cur);
    }
//@@at after "encode_integral_expression!(steps, Uint16, packet.packet_id);"
    proof {
        { let x = EncodingStep::Uint16(packet.packet_id); lemma_g_whole_int(x, pk0); lemma_g_push1(s0, cur, x, acc, int_bytes(x), pk0); cur = cur.push(x); acc = acc + int_bytes(x); }
        assert(steps@ == cur);
    }
//@@at before "return Ok(()); @nth=1/2"
        proof {
            lemma_g_final(s0, cur, acc, pk0);
            lemma_lead_empty3(seq![0x62u8], vli(2), be16_bytes(packet.packet_id));
            assert(acc == ack5_bytes(0x62u8, packet.packet_id, packet.reason_code as u8, packet.reason_code == PubrelReasonCode::Success, packet.reason_string, packet.user_properties));
        }
//@@at after "encode_enum!(steps, Uint8, u8, packet.reason_code);"
    proof {
        { let x = EncodingStep::Uint8(packet.reason_code as u8); lemma_g_whole_int(x, pk0); lemma_g_push1(s0, cur, x, acc, int_bytes(x), pk0); cur = cur.push(x); acc = acc + int_bytes(x); }
        assert(steps@ == cur);
    }
//@@at before "return Ok(()); @nth=2/2"
        proof {
            lemma_g_final(s0, cur, acc, pk0);
            lemma_lead_empty4(seq![0x62u8], vli(3), be16_bytes(packet.packet_id), seq![packet.reason_code as u8]);
            assert(acc == ack5_bytes(0x62u8, packet.packet_id, packet.reason_code as u8, packet.reason_code == PubrelReasonCode::Success, packet.reason_string, packet.user_properties));
        }
//@@at after "encode_integral_expression!(steps, Vli, property_length);"
    proof {
        { let x = EncodingStep::Vli(property_length); lemma_g_whole_int(x, pk0); lemma_g_push1(s0, cur, x, acc, int_bytes(x), pk0); cur = cur.push(x); acc = acc + int_bytes(x); }
        assert(steps@ == cur);
    }
//@@at after "encode_optional_string_property!(steps, get_pubrel_packet_reason_string, PROPERTY_KEY_REASON_STRING, packet.reason_string);"
    proof {
        let pre = acc;
        if packet.reason_string is Some {
            { let x = EncodingStep::Uint8(31u8); lemma_g_whole_int(x, pk0); lemma_g_push1(s0, cur, x, acc, int_bytes(x), pk0); cur = cur.push(x); acc = acc + int_bytes(x); }
            { let x = EncodingStep::Uint16(blen(packet.reason_string->Some_0@) as u16); lemma_g_whole_int(x, pk0); lemma_g_push1(s0, cur, x, acc, int_bytes(x), pk0); cur = cur.push(x); acc = acc + int_bytes(x); }
            { let y = steps@[steps@.len() - 1]; assert(g_whole(y, str_bytes(packet.reason_string->Some_0@), pk0)) by { reveal(g_whole); assert(get_pubrel_packet_reason_string.requires((&pk0,))); } assert(step_off(y) == 0); lemma_g_push1(s0, cur, y, acc, str_bytes(packet.reason_string->Some_0@), pk0); cur = cur.push(y); acc = acc + str_bytes(packet.reason_string->Some_0@); }
            lemma_g_regroup3(s0, cur, pre, seq![31u8], be16_bytes(blen(packet.reason_string->Some_0@) as u16), str_bytes(packet.reason_string->Some_0@), pk0);
        } else { lemma_g_regroup0(s0, cur, pre, pk0); }
        assert(steps@ == cur);
        acc = pre + opt_str_prop_bytes(31u8, packet.reason_string); pre5 = acc;
    }
//@@at before "let mut verif_enum0: usize = 0;"
            proof {
                lemma_g_regroup0(s0, cur, pre5, pk0);
            }
//@@loop 0 iter=it
            invariant
                packet.user_properties is Some, properties@ == packet.user_properties->Some_0@, it.seq().len() == properties@.len(), count_ok(properties@.len()),
                ups_ok(packet.user_properties), pk0 == MqttPacket::Pubrel(*packet),
                verif_enum0 == it.index@,
                cur == steps@,
                g_inv(s0, steps@, pre5 + ups_bytes(properties@, it.index@ as nat), pk0),
                it.index@ == it.seq().len() ==> g_inv(s0, steps@, pre5 + ups_piece(packet.user_properties), pk0),
//@@at before "verif_enum0 += 1;"
                proof { assert(it.index@ < it.seq().len()); }
//@@bodyend_of_loop 0
                proof {
                    let n = it.index@;
                    let u = properties@[n];
                    assert(*user_property == u);
                    assert(up_ok(u));
                    acc = pre5 + ups_bytes(properties@, n as nat);
                    { let x = EncodingStep::Uint8(38u8); lemma_g_whole_int(x, pk0); lemma_g_push1(s0, cur, x, acc, int_bytes(x), pk0); cur = cur.push(x); acc = acc + int_bytes(x); }
                    { let x = EncodingStep::Uint16(blen(u.name@) as u16); lemma_g_whole_int(x, pk0); lemma_g_push1(s0, cur, x, acc, int_bytes(x), pk0); cur = cur.push(x); acc = acc + int_bytes(x); }
                    { let y = steps@[steps@.len() - 3]; assert(g_whole(y, str_bytes(u.name@), pk0)) by { reveal(g_whole); assert(get_pubrel_packet_user_property.requires((&pk0, i))); } assert(step_off(y) == 0); lemma_g_push1(s0, cur, y, acc, str_bytes(u.name@), pk0); cur = cur.push(y); acc = acc + str_bytes(u.name@); }
                    { let x = EncodingStep::Uint16(blen(u.value@) as u16); lemma_g_whole_int(x, pk0); lemma_g_push1(s0, cur, x, acc, int_bytes(x), pk0); cur = cur.push(x); acc = acc + int_bytes(x); }
                    { let y = steps@[steps@.len() - 1]; assert(g_whole(y, str_bytes(u.value@), pk0)) by { reveal(g_whole); assert(get_pubrel_packet_user_property.requires((&pk0, i))); } assert(step_off(y) == 0); lemma_g_push1(s0, cur, y, acc, str_bytes(u.value@), pk0); cur = cur.push(y); acc = acc + str_bytes(u.value@); }
                    assert(steps@ == cur);
                    lemma_g_regroup_up(s0, cur, pre5, properties@, n as nat, pk0);
                }
//@@at before "Ok(()) @nth=3/3"
    proof {
        if packet.user_properties is None { lemma_g_regroup0(s0, cur, pre5, pk0); }
        acc = pre5 + ups_piece(packet.user_properties);
        lemma_g_final(s0, cur, acc, pk0);
        lemma_lead_empty7(seq![0x62u8], vli((3 + plen + vli_len(plen)) as nat), be16_bytes(packet.packet_id), seq![packet.reason_code as u8], vli(plen), opt_str_prop_bytes(31u8, packet.reason_string), ups_piece(packet.user_properties));
        assert(acc == ack5_bytes(0x62u8, packet.packet_id, packet.reason_code as u8, packet.reason_code == PubrelReasonCode::Success, packet.reason_string, packet.user_properties));
    }
//@end

//@fn gneiss-mqtt/src/mqtt/pubcomp.rs get_pubcomp_packet_reason_string props=C02 via=gneiss-mqtt/src/encode.rs:define_ack_packet_reason_string_accessor
    requires packet matches MqttPacket::Pubcomp(p) && p.reason_string is Some,
    ensures packet matches MqttPacket::Pubcomp(p) && p.reason_string matches Some(t) && r@ == t@,
//@end
//@fn gneiss-mqtt/src/mqtt/pubcomp.rs get_pubcomp_packet_user_property props=C02 via=gneiss-mqtt/src/encode.rs:define_ack_packet_user_property_accessor
    requires packet matches MqttPacket::Pubcomp(p) && p.user_properties matches Some(ups) && index < ups@.len(),
    ensures packet matches MqttPacket::Pubcomp(p) && p.user_properties matches Some(ups) && *r == ups@[index as int],
//@end
//@fn gneiss-mqtt/src/mqtt/pubcomp.rs compute_pubcomp_packet_length_properties props=C02 via=gneiss-mqtt/src/encode.rs:define_ack_packet_lengths_function
    requires ack5_sendable(packet.reason_string, packet.user_properties),
    ensures
        r matches Ok((rem, props)) && props == ack5_props_len(packet.reason_string, packet.user_properties)
            && rem == (if props == 0 { if packet.reason_code == PubcompReasonCode::Success { 2int } else { 3 } } else { 3 + props + vli_len(props as nat) }),
//@@at bodystart
    proof { if packet.user_properties is Some { lemma_ups_len_bound(packet.user_properties->Some_0@, packet.user_properties->Some_0@.len()); } }
//@@at before "Ok(((3 + property_section_length"
    proof { lemma_vli_len(property_section_length as nat); }
//@end

//@fn gneiss-mqtt/src/mqtt/pubcomp.rs write_pubcomp_encoding_steps5 props=C02,C05 via=gneiss-mqtt/src/encode.rs:define_ack_packet_encoding_impl5 desugar fnptr_opaque expand=gneiss-mqtt/src/encode.rs:encode_user_properties+gneiss-mqtt/src/encode.rs:encode_user_property
//@@attr #[verifier::rlimit(100)]
//@@attr #[verifier::spinoff_prover]
    requires
        ack5_sendable(packet.reason_string, packet.user_properties),
    ensures
        r is Ok,
        steps_wf(old(steps)@, MqttPacket::Pubcomp(*packet)) ==> steps_wf(final(steps)@, MqttPacket::Pubcomp(*packet)),
        flat(final(steps)@, MqttPacket::Pubcomp(*packet)) == flat(old(steps)@, MqttPacket::Pubcomp(*packet)) + ack5_bytes(0x70u8, packet.packet_id, packet.reason_code as u8, packet.reason_code == PubcompReasonCode::Success, packet.reason_string, packet.user_properties),
//@@at bodystart
    let ghost s0 = steps@;
    let ghost mut cur = steps@;
    let ghost mut acc = Seq::<u8>::empty();
    let ghost mut pre5 = Seq::<u8>::empty();
    let ghost pk0 = MqttPacket::Pubcomp(*packet);
    let ghost plen = ack5_props_len(packet.reason_string, packet.user_properties);
    proof { lemma_g_init(s0, pk0); }
//@@at after "encode_integral_expression!(steps, Uint8, PUBCOMP_FIRST_BYTE);"
    proof {
        assert(PUBCOMP_FIRST_BYTE == 0x70u8) by (compute);
        { let x = EncodingStep::Uint8(0x70u8); lemma_g_whole_int(x, pk0); lemma_g_push1(s0, cur, x, acc, int_bytes(x), pk0); cur = cur.push(x); acc = acc + int_bytes(x); }
        assert(steps@ == cur);
    }
//@@at after "encode_integral_expression!(steps, Vli, total_remaining_length);"
    proof {
        { let x = EncodingStep::Vli(total_remaining_length); lemma_g_whole_int(x, pk0); lemma_g_push1(s0, cur, x, acc, int_bytes(x), pk0); cur = cur.push(x); acc = acc + int_bytes(x); }
        assert(steps@ == cur);
    }
//@@at after "encode_integral_expression!(steps, Uint16, packet.packet_id);"
    proof {
        { let x = EncodingStep::Uint16(packet.packet_id); lemma_g_whole_int(x, pk0); lemma_g_push1(s0, cur, x, acc, int_bytes(x), pk0); cur = cur.push(x); acc = acc + int_bytes(x); }
        assert(steps@ == cur);
    }
//@@at before "return Ok(()); @nth=1/2"
        proof {
            lemma_g_final(s0, cur, acc, pk0);
            lemma_lead_empty3(seq![0x70u8], vli(2), be16_bytes(packet.packet_id));
            assert(acc == ack5_bytes(0x70u8, packet.packet_id, packet.reason_code as u8, packet.reason_code == PubcompReasonCode::Success, packet.reason_string, packet.user_properties));
        }
//@@at after "encode_enum!(steps, Uint8, u8, packet.reason_code);"
    proof {
        { let x = EncodingStep::Uint8(packet.reason_code as u8); lemma_g_whole_int(x, pk0); lemma_g_push1(s0, cur, x, acc, int_bytes(x), pk0); cur = cur.push(x); acc = acc + int_bytes(x); }
        assert(steps@ == cur);
    }
//@@at before "return Ok(()); @nth=2/2"
        proof {
            lemma_g_final(s0, cur, acc, pk0);
            lemma_lead_empty4(seq![0x70u8], vli(3), be16_bytes(packet.packet_id), seq![packet.reason_code as u8]);
            assert(acc == ack5_bytes(0x70u8, packet.packet_id, packet.reason_code as u8, packet.reason_code == PubcompReasonCode::Success, packet.reason_string, packet.user_properties));
        }
//@@at after "encode_integral_expression!(steps, Vli, property_length);"
    proof {
        { let x = EncodingStep::Vli(property_length); lemma_g_whole_int(x, pk0); lemma_g_push1(s0, cur, x, acc, int_bytes(x), pk0); cur = cur.push(x); acc = acc + int_bytes(x); }
        assert(steps@ == cur);
    }
//@@at after "encode_optional_string_property!(steps, get_pubcomp_packet_reason_string, PROPERTY_KEY_REASON_STRING, packet.reason_string);"
    proof {
        let pre = acc;
        if packet.reason_string is Some {
            { let x = EncodingStep::Uint8(31u8); lemma_g_whole_int(x, pk0); lemma_g_push1(s0, cur, x, acc, int_bytes(x), pk0); cur = cur.push(x); acc = acc + int_bytes(x); }
            { let x = EncodingStep::Uint16(blen(packet.reason_string->Some_0@) as u16); lemma_g_whole_int(x, pk0); lemma_g_push1(s0, cur, x, acc, int_bytes(x), pk0); cur = cur.push(x); acc = acc + int_bytes(x); }
            { let y = steps@[steps@.len() - 1]; assert(g_whole(y, str_bytes(packet.reason_string->Some_0@), pk0)) by { reveal(g_whole); assert(get_pubcomp_packet_reason_string.requires((&pk0,))); } assert(step_off(y) == 0); lemma_g_push1(s0, cur, y, acc, str_bytes(packet.reason_string->Some_0@), pk0); cur = cur.push(y); acc = acc + str_bytes(packet.reason_string->Some_0@); }
            lemma_g_regroup3(s0, cur, pre, seq![31u8], be16_bytes(blen(packet.reason_string->Some_0@) as u16), str_bytes(packet.reason_string->Some_0@), pk0);
        } else { lemma_g_regroup0(s0, cur, pre, pk0); }
        assert(steps@ == cur);
        acc = pre + opt_str_prop_bytes(31u8, packet.reason_string); pre5 = acc;
    }
//@@at before "let mut verif_enum0: usize = 0;"
            proof {
                lemma_g_regroup0(s0, cur, pre5, pk0);
            }
//@@loop 0 iter=it
            invariant
                packet.user_properties is Some, properties@ == packet.user_properties->Some_0@, it.seq().len() == properties@.len(), count_ok(properties@.len()),
                ups_ok(packet.user_properties), pk0 == MqttPacket::Pubcomp(*packet),
                verif_enum0 == it.index@,
                cur == steps@,
                g_inv(s0, steps@, pre5 + ups_bytes(properties@, it.index@ as nat), pk0),
                it.index@ == it.seq().len() ==> g_inv(s0, steps@, pre5 + ups_piece(packet.user_properties), pk0),
//@@at before "verif_enum0 += 1;"
                proof { assert(it.index@ < it.seq().len()); }
//@@bodyend_of_loop 0
                proof {
                    let n = it.index@;
                    let u = properties@[n];
                    assert(*user_property == u);
                    assert(up_ok(u));
                    acc = pre5 + ups_bytes(properties@, n as nat);
                    { let x = EncodingStep::Uint8(38u8); lemma_g_whole_int(x, pk0); lemma_g_push1(s0, cur, x, acc, int_bytes(x), pk0); cur = cur.push(x); acc = acc + int_bytes(x); }
                    { let x = EncodingStep::Uint16(blen(u.name@) as u16); lemma_g_whole_int(x, pk0); lemma_g_push1(s0, cur, x, acc, int_bytes(x), pk0); cur = cur.push(x); acc = acc + int_bytes(x); }
                    { let y = steps@[steps@.len() - 3]; assert(g_whole(y, str_bytes(u.name@), pk0)) by { reveal(g_whole); assert(get_pubcomp_packet_user_property.requires((&pk0, i))); } assert(step_off(y) == 0); lemma_g_push1(s0, cur, y, acc, str_bytes(u.name@), pk0); cur = cur.push(y); acc = acc + str_bytes(u.name@); }
                    { let x = EncodingStep::Uint16(blen(u.value@) as u16); lemma_g_whole_int(x, pk0); lemma_g_push1(s0, cur, x, acc, int_bytes(x), pk0); cur = cur.push(x); acc = acc + int_bytes(x); }
                    { let y = steps@[steps@.len() - 1]; assert(g_whole(y, str_bytes(u.value@), pk0)) by { reveal(g_whole); assert(get_pubcomp_packet_user_property.requires((&pk0, i))); } assert(step_off(y) == 0); lemma_g_push1(s0, cur, y, acc, str_bytes(u.value@), pk0); cur = cur.push(y); acc = acc + str_bytes(u.value@); }
                    assert(steps@ == cur);
                    lemma_g_regroup_up(s0, cur, pre5, properties@, n as nat, pk0);
                }
//@@at before "Ok(()) @nth=3/3"
    proof {
        if packet.user_properties is None { lemma_g_regroup0(s0, cur, pre5, pk0); }
        acc = pre5 + ups_piece(packet.user_properties);
        lemma_g_final(s0, cur, acc, pk0);
        lemma_lead_empty7(seq![0x70u8], vli((3 + plen + vli_len(plen)) as nat), be16_bytes(packet.packet_id), seq![packet.reason_code as u8], vli(plen), opt_str_prop_bytes(31u8, packet.reason_string), ups_piece(packet.user_properties));
        assert(acc == ack5_bytes(0x70u8, packet.packet_id, packet.reason_code as u8, packet.reason_code == PubcompReasonCode::Success, packet.reason_string, packet.user_properties));
    }
//@end

pub proof fn lemma_ups_len_bound(ps: Seq<UserProperty>, n: nat)
    requires n <= ps.len(), forall|i: int| 0 <= i < ps.len() ==> up_ok(#[trigger] ps[i]),
    ensures user_props_len(ps, n) <= n * 131075,
    decreases n
{ if n > 0 { lemma_ups_len_bound(ps, (n - 1) as nat); assert(up_ok(ps[n - 1])); } }


// ---------------------------------------------------------------------------------------------------------------------------------
// MQTT 5 DISCONNECT on the wire (C02, C07), OASIS 5.0 section 3.14: E0, Remaining Length, then - unless Normal disconnection without properties
// (Remaining Length 0) - the reason code, and - unless there are no properties (Remaining Length 1) - the property length and the properties
pub open spec fn disconnect_props_len(p: DisconnectPacket) -> nat {
    opt_user_props_len(p.user_properties) + (if p.session_expiry_interval_seconds is Some { 5nat } else { 0nat }) + opt_strprop_len(p.reason_string) + opt_strprop_len(p.server_reference)
}
pub open spec fn disconnect_remaining_len(p: DisconnectPacket) -> nat {
    if disconnect_props_len(p) == 0 { if p.reason_code == DisconnectReasonCode::NormalDisconnection { 0 } else { 1 } }
    else { 1 + vli_len(disconnect_props_len(p)) + disconnect_props_len(p) }
}
pub open spec fn disconnect5_sendable(p: DisconnectPacket) -> bool {
    &&& ups_ok(p.user_properties) && opt_str_ok(p.reason_string) && opt_str_ok(p.server_reference) && (p.user_properties matches Some(ps) ==> count_ok(ps@.len()))
    &&& disconnect_props_len(p) <= 268435455
}
// proved in the validate unit (same contract); a signature-only stub here
//@fn gneiss-mqtt/src/mqtt/disconnect.rs compute_disconnect_packet_length_properties stub
    requires ups_ok(packet.user_properties), opt_str_ok(packet.reason_string), opt_str_ok(packet.server_reference),
        packet.user_properties matches Some(ps) ==> count_ok(ps@.len()),
    ensures
        r matches Ok((rem, props)) ==> props == disconnect_props_len(*packet) && rem == disconnect_remaining_len(*packet) && props <= 268435455,
        disconnect_props_len(*packet) <= 268435455 ==> r is Ok,
//@end
//@fn gneiss-mqtt/src/mqtt/disconnect.rs get_disconnect_packet_reason_string props=C02
    requires packet matches MqttPacket::Disconnect(p) && p.reason_string is Some,
    ensures packet matches MqttPacket::Disconnect(p) && p.reason_string matches Some(t) && r@ == t@,
//@end
//@fn gneiss-mqtt/src/mqtt/disconnect.rs get_disconnect_packet_server_reference props=C02
    requires packet matches MqttPacket::Disconnect(p) && p.server_reference is Some,
    ensures packet matches MqttPacket::Disconnect(p) && p.server_reference matches Some(t) && r@ == t@,
//@end
//@fn gneiss-mqtt/src/mqtt/disconnect.rs get_disconnect_packet_user_property props=C02
    requires packet matches MqttPacket::Disconnect(p) && p.user_properties matches Some(ups) && index < ups@.len(),
    ensures packet matches MqttPacket::Disconnect(p) && p.user_properties matches Some(ups) && *r == ups@[index as int],
//@end
pub open spec fn sei_piece(o: Option<u32>) -> Seq<u8> { match o { Some(v) => seq![17u8] + be32_bytes(v), None => Seq::<u8>::empty() } }
pub open spec fn disconnect5_bytes(p: DisconnectPacket) -> Seq<u8> {
    let plen = disconnect_props_len(p);
    if plen == 0 {
        if p.reason_code == DisconnectReasonCode::NormalDisconnection { seq![0xE0u8] + vli(0) } else { seq![0xE0u8] + vli(1) + seq![p.reason_code as u8] }
    } else {
        seq![0xE0u8] + vli(disconnect_remaining_len(p)) + seq![p.reason_code as u8] + vli(plen) + sei_piece(p.session_expiry_interval_seconds)
        + opt_str_prop_bytes(31u8, p.reason_string) + opt_str_prop_bytes(28u8, p.server_reference) + ups_piece(p.user_properties)
    }
}
pub proof fn lemma_lead_empty2(a: Seq<u8>, b: Seq<u8>) ensures Seq::<u8>::empty() + a + b == a + b { assert(Seq::<u8>::empty() + a + b =~= a + b); }
pub proof fn lemma_lead_empty8(a: Seq<u8>, b: Seq<u8>, c: Seq<u8>, d: Seq<u8>, e: Seq<u8>, f: Seq<u8>, g: Seq<u8>, h: Seq<u8>)
    ensures Seq::<u8>::empty() + a + b + c + d + e + f + g + h == a + b + c + d + e + f + g + h,
{ assert(Seq::<u8>::empty() + a + b + c + d + e + f + g + h =~= a + b + c + d + e + f + g + h); }

//@fn gneiss-mqtt/src/mqtt/disconnect.rs write_disconnect_encoding_steps5 props=C02,C07 desugar fnptr_opaque expand=gneiss-mqtt/src/encode.rs:encode_user_properties+gneiss-mqtt/src/encode.rs:encode_user_property
//@@attr #[verifier::rlimit(100)]
//@@attr #[verifier::spinoff_prover]
    requires
        disconnect5_sendable(*packet),
    ensures
        r is Ok,
        steps_wf(old(steps)@, MqttPacket::Disconnect(*packet)) ==> steps_wf(final(steps)@, MqttPacket::Disconnect(*packet)),
        flat(final(steps)@, MqttPacket::Disconnect(*packet)) == flat(old(steps)@, MqttPacket::Disconnect(*packet)) + disconnect5_bytes(*packet),
//@@at bodystart
    let ghost s0 = steps@;
    let ghost mut cur = steps@;
    let ghost mut acc = Seq::<u8>::empty();
    let ghost mut pre5 = Seq::<u8>::empty();
    let ghost pk0 = MqttPacket::Disconnect(*packet);
    let ghost plen = disconnect_props_len(*packet);
    proof { lemma_g_init(s0, pk0); }
//@@at after "encode_integral_expression!(steps, Uint8, PACKET_TYPE_DISCONNECT << 4);"
    proof {
        assert(PACKET_TYPE_DISCONNECT << 4 == 0xE0u8) by (compute);
        { let x = EncodingStep::Uint8(0xE0u8); lemma_g_whole_int(x, pk0); lemma_g_push1(s0, cur, x, acc, int_bytes(x), pk0); cur = cur.push(x); acc = acc + int_bytes(x); }
        assert(steps@ == cur);
    }
//@@at after "encode_integral_expression!(steps, Vli, total_remaining_length);"
    proof {
        { let x = EncodingStep::Vli(total_remaining_length); lemma_g_whole_int(x, pk0); lemma_g_push1(s0, cur, x, acc, int_bytes(x), pk0); cur = cur.push(x); acc = acc + int_bytes(x); }
        assert(steps@ == cur);
    }
//@@at before "return Ok(()); @nth=1/2"
        proof {
            lemma_g_final(s0, cur, acc, pk0);
            lemma_lead_empty2(seq![0xE0u8], vli(0));
            assert(acc == disconnect5_bytes(*packet));
        }
//@@at after "encode_enum!(steps, Uint8, u8, packet.reason_code);"
    proof {
        { let x = EncodingStep::Uint8(packet.reason_code as u8); lemma_g_whole_int(x, pk0); lemma_g_push1(s0, cur, x, acc, int_bytes(x), pk0); cur = cur.push(x); acc = acc + int_bytes(x); }
        assert(steps@ == cur);
    }
//@@at before "return Ok(()); @nth=2/2"
        proof {
            lemma_g_final(s0, cur, acc, pk0);
            lemma_lead_empty3(seq![0xE0u8], vli(1), seq![packet.reason_code as u8]);
            assert(acc == disconnect5_bytes(*packet));
        }
//@@at after "encode_integral_expression!(steps, Vli, disconnect_property_length);"
    proof {
        { let x = EncodingStep::Vli(disconnect_property_length); lemma_g_whole_int(x, pk0); lemma_g_push1(s0, cur, x, acc, int_bytes(x), pk0); cur = cur.push(x); acc = acc + int_bytes(x); }
        assert(steps@ == cur);
    }
//@@at after "encode_optional_property!(steps, Uint32, PROPERTY_KEY_SESSION_EXPIRY_INTERVAL, packet.session_expiry_interval_seconds);"
    proof {
        let pre = acc;
        if packet.session_expiry_interval_seconds is Some {
            { let x = EncodingStep::Uint8(17u8); lemma_g_whole_int(x, pk0); lemma_g_push1(s0, cur, x, acc, int_bytes(x), pk0); cur = cur.push(x); acc = acc + int_bytes(x); }
            { let x = EncodingStep::Uint32(packet.session_expiry_interval_seconds->Some_0); lemma_g_whole_int(x, pk0); lemma_g_push1(s0, cur, x, acc, int_bytes(x), pk0); cur = cur.push(x); acc = acc + int_bytes(x); }
            lemma_g_regroup2(s0, cur, pre, seq![17u8], be32_bytes(packet.session_expiry_interval_seconds->Some_0), pk0);
        } else { lemma_g_regroup0(s0, cur, pre, pk0); }
        assert(steps@ == cur);
        acc = pre + sei_piece(packet.session_expiry_interval_seconds);
    }
//@@at after "encode_optional_string_property!(steps, get_disconnect_packet_reason_string, PROPERTY_KEY_REASON_STRING, packet.reason_string);"
    proof {
        let pre = acc;
        if packet.reason_string is Some {
            { let x = EncodingStep::Uint8(31u8); lemma_g_whole_int(x, pk0); lemma_g_push1(s0, cur, x, acc, int_bytes(x), pk0); cur = cur.push(x); acc = acc + int_bytes(x); }
            { let x = EncodingStep::Uint16(blen(packet.reason_string->Some_0@) as u16); lemma_g_whole_int(x, pk0); lemma_g_push1(s0, cur, x, acc, int_bytes(x), pk0); cur = cur.push(x); acc = acc + int_bytes(x); }
            { let y = steps@[steps@.len() - 1]; assert(g_whole(y, str_bytes(packet.reason_string->Some_0@), pk0)) by { reveal(g_whole); assert(get_disconnect_packet_reason_string.requires((&pk0,))); } assert(step_off(y) == 0); lemma_g_push1(s0, cur, y, acc, str_bytes(packet.reason_string->Some_0@), pk0); cur = cur.push(y); acc = acc + str_bytes(packet.reason_string->Some_0@); }
            lemma_g_regroup3(s0, cur, pre, seq![31u8], be16_bytes(blen(packet.reason_string->Some_0@) as u16), str_bytes(packet.reason_string->Some_0@), pk0);
        } else { lemma_g_regroup0(s0, cur, pre, pk0); }
        assert(steps@ == cur);
        acc = pre + opt_str_prop_bytes(31u8, packet.reason_string);
    }
//@@at after "encode_optional_string_property!(steps, get_disconnect_packet_server_reference, PROPERTY_KEY_SERVER_REFERENCE, packet.server_reference);"
    proof {
        let pre = acc;
        if packet.server_reference is Some {
            { let x = EncodingStep::Uint8(28u8); lemma_g_whole_int(x, pk0); lemma_g_push1(s0, cur, x, acc, int_bytes(x), pk0); cur = cur.push(x); acc = acc + int_bytes(x); }
            { let x = EncodingStep::Uint16(blen(packet.server_reference->Some_0@) as u16); lemma_g_whole_int(x, pk0); lemma_g_push1(s0, cur, x, acc, int_bytes(x), pk0); cur = cur.push(x); acc = acc + int_bytes(x); }
            { let y = steps@[steps@.len() - 1]; assert(g_whole(y, str_bytes(packet.server_reference->Some_0@), pk0)) by { reveal(g_whole); assert(get_disconnect_packet_server_reference.requires((&pk0,))); } assert(step_off(y) == 0); lemma_g_push1(s0, cur, y, acc, str_bytes(packet.server_reference->Some_0@), pk0); cur = cur.push(y); acc = acc + str_bytes(packet.server_reference->Some_0@); }
            lemma_g_regroup3(s0, cur, pre, seq![28u8], be16_bytes(blen(packet.server_reference->Some_0@) as u16), str_bytes(packet.server_reference->Some_0@), pk0);
        } else { lemma_g_regroup0(s0, cur, pre, pk0); }
        assert(steps@ == cur);
        acc = pre + opt_str_prop_bytes(28u8, packet.server_reference);
    }
//@@at before "if let Some(properties) = &packet.user_properties {"
    proof {
        pre5 = acc;
    }
//@@at before "let mut verif_enum0: usize = 0;"
            proof {
                lemma_g_regroup0(s0, cur, pre5, pk0);
            }
//@@loop 0 iter=it
            invariant
                packet.user_properties is Some, properties@ == packet.user_properties->Some_0@, it.seq().len() == properties@.len(), count_ok(properties@.len()),
                ups_ok(packet.user_properties), pk0 == MqttPacket::Disconnect(*packet),
                verif_enum0 == it.index@,
                cur == steps@,
                g_inv(s0, steps@, pre5 + ups_bytes(properties@, it.index@ as nat), pk0),
                it.index@ == it.seq().len() ==> g_inv(s0, steps@, pre5 + ups_piece(packet.user_properties), pk0),
//@@at before "verif_enum0 += 1;"
                proof { assert(it.index@ < it.seq().len()); }
//@@bodyend_of_loop 0
                proof {
                    let n = it.index@;
                    let u = properties@[n];
                    assert(*user_property == u);
                    assert(up_ok(u));
                    acc = pre5 + ups_bytes(properties@, n as nat);
                    { let x = EncodingStep::Uint8(38u8); lemma_g_whole_int(x, pk0); lemma_g_push1(s0, cur, x, acc, int_bytes(x), pk0); cur = cur.push(x); acc = acc + int_bytes(x); }
                    { let x = EncodingStep::Uint16(blen(u.name@) as u16); lemma_g_whole_int(x, pk0); lemma_g_push1(s0, cur, x, acc, int_bytes(x), pk0); cur = cur.push(x); acc = acc + int_bytes(x); }
                    { let y = steps@[steps@.len() - 3]; assert(g_whole(y, str_bytes(u.name@), pk0)) by { reveal(g_whole); assert(get_disconnect_packet_user_property.requires((&pk0, i))); } assert(step_off(y) == 0); lemma_g_push1(s0, cur, y, acc, str_bytes(u.name@), pk0); cur = cur.push(y); acc = acc + str_bytes(u.name@); }
                    { let x = EncodingStep::Uint16(blen(u.value@) as u16); lemma_g_whole_int(x, pk0); lemma_g_push1(s0, cur, x, acc, int_bytes(x), pk0); cur = cur.push(x); acc = acc + int_bytes(x); }
                    { let y = steps@[steps@.len() - 1]; assert(g_whole(y, str_bytes(u.value@), pk0)) by { reveal(g_whole); assert(get_disconnect_packet_user_property.requires((&pk0, i))); } assert(step_off(y) == 0); lemma_g_push1(s0, cur, y, acc, str_bytes(u.value@), pk0); cur = cur.push(y); acc = acc + str_bytes(u.value@); }
                    assert(steps@ == cur);
                    lemma_g_regroup_up(s0, cur, pre5, properties@, n as nat, pk0);
                }
//@@at before "Ok(()) @nth=3/3"
    proof {
        if packet.user_properties is None { lemma_g_regroup0(s0, cur, pre5, pk0); }
        acc = pre5 + ups_piece(packet.user_properties);
        lemma_g_final(s0, cur, acc, pk0);
        lemma_lead_empty8(seq![0xE0u8], vli(disconnect_remaining_len(*packet)), seq![packet.reason_code as u8], vli(plen), sei_piece(packet.session_expiry_interval_seconds), opt_str_prop_bytes(31u8, packet.reason_string), opt_str_prop_bytes(28u8, packet.server_reference), ups_piece(packet.user_properties));
        assert(acc == disconnect5_bytes(*packet));
    }
//@end


// ---------------------------------------------------------------------------------------------------------------------------------
// MQTT 3.1.1 CONNECT on the wire (C02, C07), OASIS 3.1.1 section 3.1: 10, Remaining Length, "MQTT" level 4, connect flags, keep alive, then the
// payload in the order client identifier, will topic, will message, user name, password - each length-prefixed.
//@macro gneiss-mqtt/src/encode.rs encode_length_prefixed_optional_string fnptr_opaque
//@macro gneiss-mqtt/src/encode.rs encode_length_prefixed_optional_bytes fnptr_opaque
pub open spec fn opt_str_len(o: Option<String>) -> nat { match o { Some(s) => blen(s@), None => 0 } }
pub open spec fn opt_bin_len(o: Option<Vec<u8>>) -> nat { match o { Some(b) => b@.len(), None => 0 } }
pub open spec fn connect_payload_len311(p: ConnectPacket) -> nat {
    2 + opt_str_len(p.client_id)
        + (match p.will { Some(will) => 2 + blen(will.topic@) + 2 + opt_bin_len(will.payload), None => 0 })
        + (match p.username { Some(u) => 2 + blen(u@), None => 0 }) + (match p.password { Some(pw) => 2 + pw@.len(), None => 0 })
}
pub open spec fn connect_remaining_len311(p: ConnectPacket) -> nat { 10 + connect_payload_len311(p) }
// A-MEM (as in the validate unit): no single field of a CONNECT is larger than 2^56 bytes
pub open spec fn connect_fields_fit(p: ConnectPacket) -> bool {
    &&& opt_str_len(p.client_id) <= 0x100000000000000 && opt_str_len(p.username) <= 0x100000000000000 && opt_bin_len(p.password) <= 0x100000000000000
    &&& opt_str_len(p.authentication_method) <= 0x100000000000000 && opt_bin_len(p.authentication_data) <= 0x100000000000000
    &&& ups_ok(p.user_properties) && (p.user_properties matches Some(ps) ==> count_ok(ps@.len()))
    &&& (p.will matches Some(will) ==> blen(will.topic@) <= 0x100000000000000 && opt_bin_len(will.payload) <= 0x100000000000000
            && opt_str_len(will.content_type) <= 0x100000000000000 && opt_str_len(will.response_topic) <= 0x100000000000000 && opt_bin_len(will.correlation_data) <= 0x100000000000000
            && ups_ok(will.user_properties) && (will.user_properties matches Some(ps) ==> count_ok(ps@.len())))
}
pub open spec fn connect311_sendable(p: ConnectPacket) -> bool {
    &&& connect_fields_fit(p)
    &&& opt_str_len(p.client_id) <= 65535 && opt_str_len(p.username) <= 65535 && opt_bin_len(p.password) <= 65535
    &&& (p.will matches Some(will) ==> blen(will.topic@) <= 65535 && opt_bin_len(will.payload) <= 65535)
}
// the contract proved in the validate unit (requires connect_fields_fit; Ok whenever the length fits 28 bits - it does when every length-prefixed field fits its 16-bit prefix),
// specialised to 3.1.1 (connect_remaining_len(p, false) there is connect_remaining_len311(p) here); signature-only stub
//@fn gneiss-mqtt/src/mqtt/connect.rs compute_connect_packet_length_properties311 stub
    requires connect311_sendable(*packet),
    ensures r matches Ok(rem) && rem == connect_remaining_len311(*packet),
//@end
// 3.1.2.3: bit 1 Clean Session, bit 2 Will Flag, bits 4-3 Will QoS, bit 5 Will Retain, bit 6 Password Flag, bit 7 User Name Flag, bit 0 reserved 0
pub open spec fn connect_flags(p: ConnectPacket) -> u8 {
    ((if p.clean_start { 2int } else { 0 })
     + (match p.will { Some(will) => 4 + 8 * qos_num(will.qos) + (if will.retain { 32int } else { 0 }), None => 0 })
     + (if p.password is Some { 64int } else { 0 }) + (if p.username is Some { 128int } else { 0 })) as u8
}
//@fn gneiss-mqtt/src/mqtt/connect.rs compute_connect_flags props=C02,C07
    ensures r == connect_flags(*packet),
//@@at bodystart
    proof {
        assert(1u8 << 1 == 2u8) by (bit_vector); assert(1u8 << 2 == 4u8) by (bit_vector); assert(1u8 << 5 == 32u8) by (bit_vector);
        assert(1u8 << 6 == 64u8) by (bit_vector); assert(1u8 << 7 == 128u8) by (bit_vector);
        assert(0u8 | 2u8 == 2u8) by (bit_vector);
        assert(forall|f: u8| (f == 0 || f == 2) ==> #[trigger] (f | 4u8) == f + 4) by (bit_vector);
        assert(forall|f: u8, q: u8| f <= 6 && q <= 2 ==> #[trigger] (f | (q << 3u8)) == f + 8 * q) by (bit_vector);
        assert(forall|f: u8| f < 32 ==> #[trigger] (f | 32u8) == f + 32) by (bit_vector);
        assert(forall|f: u8| f < 64 ==> #[trigger] (f | 64u8) == f + 64) by (bit_vector);
        assert(forall|f: u8| f < 128 ==> #[trigger] (f | 128u8) == f + 128) by (bit_vector);
        if packet.will is Some { assert(packet.will->Some_0.qos as u8 == qos_num(packet.will->Some_0.qos)); }
    }
//@end
//@fn gneiss-mqtt/src/mqtt/connect.rs get_connect_packet_client_id props=C02
    requires packet matches MqttPacket::Connect(p) && p.client_id is Some,
    ensures packet matches MqttPacket::Connect(p) && p.client_id matches Some(t) && r@ == t@,
//@end
//@fn gneiss-mqtt/src/mqtt/connect.rs get_connect_packet_username props=C02
    requires packet matches MqttPacket::Connect(p) && p.username is Some,
    ensures packet matches MqttPacket::Connect(p) && p.username matches Some(t) && r@ == t@,
//@end
//@fn gneiss-mqtt/src/mqtt/connect.rs get_connect_packet_password props=C02
    requires packet matches MqttPacket::Connect(p) && p.password is Some,
    ensures packet matches MqttPacket::Connect(p) && p.password matches Some(t) && r@ == t@,
//@end
//@fn gneiss-mqtt/src/mqtt/connect.rs get_connect_packet_will_topic props=C02
    requires packet matches MqttPacket::Connect(p) && p.will is Some,
    ensures packet matches MqttPacket::Connect(p) && p.will matches Some(w) && r@ == w.topic@,
//@end
//@fn gneiss-mqtt/src/mqtt/connect.rs get_connect_packet_will_payload props=C02
    requires packet matches MqttPacket::Connect(p) && p.will matches Some(w) && w.payload is Some,
    ensures packet matches MqttPacket::Connect(p) && p.will matches Some(w) && w.payload matches Some(t) && r@ == t@,
//@end
// `static MQTT311_CONNECT_PROTOCOL_BYTES: [u8; 7] = [0, 4, 77, 81, 84, 84, 4]` is outside the Verus subset (static array): the getter is a signature-only stub whose
// contract is the initialiser as written in connect.rs (the E-B reference decoder checks the bytes on the wire)
#[verifier::external_body] pub fn get_connect_protocol_bytes311(_arg0: &MqttPacket) -> (r: &[u8]) ensures r@ == seq![0u8, 4u8, 77u8, 81u8, 84u8, 84u8, 4u8] { unimplemented!() }
pub open spec fn optstr_lp(o: Option<String>) -> Seq<u8> { if o is Some { be16_bytes(blen(o->Some_0@) as u16) + str_bytes(o->Some_0@) } else { be16_bytes(0u16) } }
pub open spec fn optbin_lp(o: Option<Vec<u8>>) -> Seq<u8> { if o is Some { be16_bytes(o->Some_0@.len() as u16) + o->Some_0@ } else { be16_bytes(0u16) } }
pub open spec fn will_piece311(o: Option<PublishPacket>) -> Seq<u8> {
    if o is Some { (be16_bytes(blen(o->Some_0.topic@) as u16) + str_bytes(o->Some_0.topic@)) + optbin_lp(o->Some_0.payload) } else { Seq::<u8>::empty() }
}
pub open spec fn user_piece(o: Option<String>) -> Seq<u8> { if o is Some { optstr_lp(o) } else { Seq::<u8>::empty() } }
pub open spec fn password_piece(o: Option<Vec<u8>>) -> Seq<u8> { if o is Some { optbin_lp(o) } else { Seq::<u8>::empty() } }
pub open spec fn connect311_bytes(p: ConnectPacket) -> Seq<u8> {
    seq![0x10u8] + vli(connect_remaining_len311(p)) + seq![0u8, 4u8, 77u8, 81u8, 84u8, 84u8, 4u8] + seq![connect_flags(p)] + be16_bytes(p.keep_alive_interval_seconds)
    + optstr_lp(p.client_id) + will_piece311(p.will) + user_piece(p.username) + password_piece(p.password)
}
pub proof fn lemma_lead_empty9(a: Seq<u8>, b: Seq<u8>, c: Seq<u8>, d: Seq<u8>, e: Seq<u8>, f: Seq<u8>, g: Seq<u8>, h: Seq<u8>, i: Seq<u8>)
    ensures Seq::<u8>::empty() + a + b + c + d + e + f + g + h + i == a + b + c + d + e + f + g + h + i,
{ assert(Seq::<u8>::empty() + a + b + c + d + e + f + g + h + i =~= a + b + c + d + e + f + g + h + i); }

//@fn gneiss-mqtt/src/mqtt/connect.rs write_connect_encoding_steps311 props=C02,C07 fnptr_opaque
//@@attr #[verifier::rlimit(100)]
//@@attr #[verifier::spinoff_prover]
    requires
        connect311_sendable(*packet),          // send-time validation of the connect options
    ensures
        r is Ok,
        steps_wf(old(steps)@, MqttPacket::Connect(*packet)) ==> steps_wf(final(steps)@, MqttPacket::Connect(*packet)),
        flat(final(steps)@, MqttPacket::Connect(*packet)) == flat(old(steps)@, MqttPacket::Connect(*packet)) + connect311_bytes(*packet),
//@@at bodystart
    let ghost s0 = steps@;
    let ghost mut cur = steps@;
    let ghost mut acc = Seq::<u8>::empty();
    let ghost mut pre7 = Seq::<u8>::empty();
    let ghost mut pre8 = Seq::<u8>::empty();
    let ghost mut pre9 = Seq::<u8>::empty();
    let ghost pk0 = MqttPacket::Connect(*packet);
    proof { lemma_g_init(s0, pk0); }
//@@at after "encode_integral_expression!(steps, Uint8, 1u8 << 4);"
    proof {
        assert(1u8 << 4 == 16u8) by (bit_vector);
        { let x = EncodingStep::Uint8(16u8); lemma_g_whole_int(x, pk0); lemma_g_push1(s0, cur, x, acc, int_bytes(x), pk0); cur = cur.push(x); acc = acc + int_bytes(x); }
        assert(steps@ == cur);
    }
//@@at after "encode_integral_expression!(steps, Vli, total_remaining_length);"
    proof {
        { let x = EncodingStep::Vli(total_remaining_length); lemma_g_whole_int(x, pk0); lemma_g_push1(s0, cur, x, acc, int_bytes(x), pk0); cur = cur.push(x); acc = acc + int_bytes(x); }
        assert(steps@ == cur);
    }
//@@at after "encode_raw_bytes!(steps, get_connect_protocol_bytes311);"
    proof {
        { let y = steps@[steps@.len() - 1]; assert(g_whole(y, seq![0u8, 4u8, 77u8, 81u8, 84u8, 84u8, 4u8], pk0)) by { reveal(g_whole); assert(get_connect_protocol_bytes311.requires((&pk0,))); } assert(step_off(y) == 0); lemma_g_push1(s0, cur, y, acc, seq![0u8, 4u8, 77u8, 81u8, 84u8, 84u8, 4u8], pk0); cur = cur.push(y); acc = acc + seq![0u8, 4u8, 77u8, 81u8, 84u8, 84u8, 4u8]; }
        assert(steps@ == cur);
    }
//@@at after "encode_integral_expression!(steps, Uint8, compute_connect_flags(packet));"
    proof {
        { let x = EncodingStep::Uint8(connect_flags(*packet)); lemma_g_whole_int(x, pk0); lemma_g_push1(s0, cur, x, acc, int_bytes(x), pk0); cur = cur.push(x); acc = acc + int_bytes(x); }
        assert(steps@ == cur);
    }
//@@at after "encode_integral_expression!(steps, Uint16, packet.keep_alive_interval_seconds);"
    proof {
        { let x = EncodingStep::Uint16(packet.keep_alive_interval_seconds); lemma_g_whole_int(x, pk0); lemma_g_push1(s0, cur, x, acc, int_bytes(x), pk0); cur = cur.push(x); acc = acc + int_bytes(x); }
        assert(steps@ == cur);
    }
//@@at after "encode_length_prefixed_optional_string!(steps, get_connect_packet_client_id, packet.client_id);"
    proof {
        let pre = acc;
        if packet.client_id is Some {
            { let x = EncodingStep::Uint16(blen(packet.client_id->Some_0@) as u16); lemma_g_whole_int(x, pk0); lemma_g_push1(s0, cur, x, acc, int_bytes(x), pk0); cur = cur.push(x); acc = acc + int_bytes(x); }
            { let y = steps@[steps@.len() - 1]; assert(g_whole(y, str_bytes(packet.client_id->Some_0@), pk0)) by { reveal(g_whole); assert(get_connect_packet_client_id.requires((&pk0,))); } assert(step_off(y) == 0); lemma_g_push1(s0, cur, y, acc, str_bytes(packet.client_id->Some_0@), pk0); cur = cur.push(y); acc = acc + str_bytes(packet.client_id->Some_0@); }
            lemma_g_regroup2(s0, cur, pre, be16_bytes(blen(packet.client_id->Some_0@) as u16), str_bytes(packet.client_id->Some_0@), pk0);
        } else { { let x = EncodingStep::Uint16(0u16); lemma_g_whole_int(x, pk0); lemma_g_push1(s0, cur, x, acc, int_bytes(x), pk0); cur = cur.push(x); acc = acc + int_bytes(x); } }
        assert(steps@ == cur);
        acc = pre + optstr_lp(packet.client_id); pre7 = acc;
    }
//@@at after "encode_length_prefixed_string!(steps, get_connect_packet_will_topic, will.topic);"
        proof {
            { let x = EncodingStep::Uint16(blen(will.topic@) as u16); lemma_g_whole_int(x, pk0); lemma_g_push1(s0, cur, x, acc, int_bytes(x), pk0); cur = cur.push(x); acc = acc + int_bytes(x); }
            { let y = steps@[steps@.len() - 1]; assert(g_whole(y, str_bytes(will.topic@), pk0)) by { reveal(g_whole); assert(get_connect_packet_will_topic.requires((&pk0,))); } assert(step_off(y) == 0); lemma_g_push1(s0, cur, y, acc, str_bytes(will.topic@), pk0); cur = cur.push(y); acc = acc + str_bytes(will.topic@); }
            assert(steps@ == cur);
            lemma_g_regroup2(s0, cur, pre7, be16_bytes(blen(will.topic@) as u16), str_bytes(will.topic@), pk0);
            acc = pre7 + (be16_bytes(blen(will.topic@) as u16) + str_bytes(will.topic@));
        }
//@@at after "encode_length_prefixed_optional_bytes!(steps, get_connect_packet_will_payload, will.payload);"
        proof {
            let pre = acc;
            if will.payload is Some {
                { let x = EncodingStep::Uint16(will.payload->Some_0@.len() as u16); lemma_g_whole_int(x, pk0); lemma_g_push1(s0, cur, x, acc, int_bytes(x), pk0); cur = cur.push(x); acc = acc + int_bytes(x); }
                { let y = steps@[steps@.len() - 1]; assert(g_whole(y, will.payload->Some_0@, pk0)) by { reveal(g_whole); assert(get_connect_packet_will_payload.requires((&pk0,))); } assert(step_off(y) == 0); lemma_g_push1(s0, cur, y, acc, will.payload->Some_0@, pk0); cur = cur.push(y); acc = acc + will.payload->Some_0@; }
                lemma_g_regroup2(s0, cur, pre, be16_bytes(will.payload->Some_0@.len() as u16), will.payload->Some_0@, pk0);
            } else { { let x = EncodingStep::Uint16(0u16); lemma_g_whole_int(x, pk0); lemma_g_push1(s0, cur, x, acc, int_bytes(x), pk0); cur = cur.push(x); acc = acc + int_bytes(x); } }
            assert(steps@ == cur);
            lemma_g_regroup2(s0, cur, pre7, be16_bytes(blen(will.topic@) as u16) + str_bytes(will.topic@), optbin_lp(will.payload), pk0);
            acc = pre7 + will_piece311(packet.will);
        }
//@@at before "if packet.username.is_some() {"
    proof {
        if packet.will is None { lemma_g_regroup0(s0, cur, pre7, pk0); }
        acc = pre7 + will_piece311(packet.will); pre8 = acc;
    }
//@@at after "encode_length_prefixed_optional_string!(steps, get_connect_packet_username, packet.username);"
        proof {
            { let x = EncodingStep::Uint16(blen(packet.username->Some_0@) as u16); lemma_g_whole_int(x, pk0); lemma_g_push1(s0, cur, x, acc, int_bytes(x), pk0); cur = cur.push(x); acc = acc + int_bytes(x); }
            { let y = steps@[steps@.len() - 1]; assert(g_whole(y, str_bytes(packet.username->Some_0@), pk0)) by { reveal(g_whole); assert(get_connect_packet_username.requires((&pk0,))); } assert(step_off(y) == 0); lemma_g_push1(s0, cur, y, acc, str_bytes(packet.username->Some_0@), pk0); cur = cur.push(y); acc = acc + str_bytes(packet.username->Some_0@); }
            assert(steps@ == cur);
            lemma_g_regroup2(s0, cur, pre8, be16_bytes(blen(packet.username->Some_0@) as u16), str_bytes(packet.username->Some_0@), pk0);
        }
//@@at before "if packet.password.is_some() {"
    proof {
        if packet.username is None { lemma_g_regroup0(s0, cur, pre8, pk0); }
        acc = pre8 + user_piece(packet.username); pre9 = acc;
    }
//@@at after "encode_length_prefixed_optional_bytes!(steps, get_connect_packet_password, packet.password);"
        proof {
            { let x = EncodingStep::Uint16(packet.password->Some_0@.len() as u16); lemma_g_whole_int(x, pk0); lemma_g_push1(s0, cur, x, acc, int_bytes(x), pk0); cur = cur.push(x); acc = acc + int_bytes(x); }
            { let y = steps@[steps@.len() - 1]; assert(g_whole(y, packet.password->Some_0@, pk0)) by { reveal(g_whole); assert(get_connect_packet_password.requires((&pk0,))); } assert(step_off(y) == 0); lemma_g_push1(s0, cur, y, acc, packet.password->Some_0@, pk0); cur = cur.push(y); acc = acc + packet.password->Some_0@; }
            assert(steps@ == cur);
            lemma_g_regroup2(s0, cur, pre9, be16_bytes(packet.password->Some_0@.len() as u16), packet.password->Some_0@, pk0);
        }
//@@at before "Ok(())"
    proof {
        if packet.password is None { lemma_g_regroup0(s0, cur, pre9, pk0); }
        acc = pre9 + password_piece(packet.password);
        lemma_g_final(s0, cur, acc, pk0);
        lemma_lead_empty9(seq![0x10u8], vli(connect_remaining_len311(*packet)), seq![0u8, 4u8, 77u8, 81u8, 84u8, 84u8, 4u8], seq![connect_flags(*packet)], be16_bytes(packet.keep_alive_interval_seconds), optstr_lp(packet.client_id), will_piece311(packet.will), user_piece(packet.username), password_piece(packet.password));
        assert(acc == connect311_bytes(*packet));
    }
//@end

// ---- MQTT 5 dispatch: PUBLISH and PINGREQ are under contract; the other writers are signature-only stubs with NO postcondition
#[verifier::external_body] pub fn write_connect_encoding_steps5(packet: &ConnectPacket, context: &EncodingContext, steps: &mut VecDeque<EncodingStep>) -> GneissResult<()> { unimplemented!() }
#[verifier::external_body] pub fn write_connack_encoding_steps5(packet: &ConnackPacket, context: &EncodingContext, steps: &mut VecDeque<EncodingStep>) -> GneissResult<()> { unimplemented!() }
#[verifier::external_body] pub fn write_suback_encoding_steps5(packet: &SubackPacket, context: &EncodingContext, steps: &mut VecDeque<EncodingStep>) -> GneissResult<()> { unimplemented!() }
#[verifier::external_body] pub fn write_unsuback_encoding_steps5(packet: &UnsubackPacket, context: &EncodingContext, steps: &mut VecDeque<EncodingStep>) -> GneissResult<()> { unimplemented!() }
#[verifier::external_body] pub fn write_auth_encoding_steps5(packet: &AuthPacket, context: &EncodingContext, steps: &mut VecDeque<EncodingStep>) -> GneissResult<()> { unimplemented!() }

pub open spec fn wire5(pk: MqttPacket, res: OutboundAliasResolution) -> Option<Seq<u8>> {
    match pk {
        MqttPacket::Publish(p) => Some(publish5_bytes(p, res)),
        MqttPacket::Unsubscribe(p) => Some(unsubscribe5_bytes(p)),
        MqttPacket::Subscribe(p) => Some(subscribe5_bytes(p)),
        MqttPacket::Disconnect(p) => Some(disconnect5_bytes(p)),
        MqttPacket::Puback(p) => Some(ack5_bytes(0x40u8, p.packet_id, p.reason_code as u8, p.reason_code == PubackReasonCode::Success, p.reason_string, p.user_properties)),
        MqttPacket::Pubrec(p) => Some(ack5_bytes(0x50u8, p.packet_id, p.reason_code as u8, p.reason_code == PubrecReasonCode::Success, p.reason_string, p.user_properties)),
        MqttPacket::Pubrel(p) => Some(ack5_bytes(0x62u8, p.packet_id, p.reason_code as u8, p.reason_code == PubrelReasonCode::Success, p.reason_string, p.user_properties)),
        MqttPacket::Pubcomp(p) => Some(ack5_bytes(0x70u8, p.packet_id, p.reason_code as u8, p.reason_code == PubcompReasonCode::Success, p.reason_string, p.user_properties)),
        MqttPacket::Pingreq(_) => Some(seq![0xC0u8, 0u8]),
        _ => None,
    }
}
pub open spec fn sendable5(pk: MqttPacket, res: OutboundAliasResolution) -> bool {
    match pk { MqttPacket::Publish(p) => publish5_sendable(p, res), MqttPacket::Unsubscribe(p) => unsubscribe5_sendable(p), MqttPacket::Subscribe(p) => subscribe5_sendable(p),
        MqttPacket::Disconnect(p) => disconnect5_sendable(p),
        MqttPacket::Puback(p) => ack5_sendable(p.reason_string, p.user_properties), MqttPacket::Pubrec(p) => ack5_sendable(p.reason_string, p.user_properties),
        MqttPacket::Pubrel(p) => ack5_sendable(p.reason_string, p.user_properties), MqttPacket::Pubcomp(p) => ack5_sendable(p.reason_string, p.user_properties),
        _ => true }
}
//@fn gneiss-mqtt/src/encode.rs write_encoding_steps5 props=C02,C17
    requires sendable5(*mqtt_packet, context.outbound_alias_resolution),
    ensures
        wire5(*mqtt_packet, context.outbound_alias_resolution) is Some ==> r is Ok,
        wire5(*mqtt_packet, context.outbound_alias_resolution) matches Some(bytes) ==> flat(final(steps)@, *mqtt_packet) == flat(old(steps)@, *mqtt_packet) + bytes,
        (wire5(*mqtt_packet, context.outbound_alias_resolution) is Some && steps_wf(old(steps)@, *mqtt_packet)) ==> steps_wf(final(steps)@, *mqtt_packet),
//@end

impl Encoder {
//@fn gneiss-mqtt/src/encode.rs Encoder::reset props=C02,C13
    requires
        context.protocol_version == ProtocolVersion::Mqtt311 ==> sendable311(*packet),
        context.protocol_version == ProtocolVersion::Mqtt5 ==> sendable5(*packet, context.outbound_alias_resolution),
    ensures
        // MQTT 5 PUBLISH (and PINGREQ): the same, with the outbound alias resolution of the encoding context - the alias the resolver chose and
        // the omission of the topic it decided are exactly what goes on the wire (C17)
        (context.protocol_version == ProtocolVersion::Mqtt5 && wire5(*packet, context.outbound_alias_resolution) is Some) ==> {
            &&& r is Ok
            &&& flat(final(self).steps@, *packet) == wire5(*packet, context.outbound_alias_resolution)->Some_0
            &&& steps_wf(final(self).steps@, *packet)
        },
        // MQTT 3.1.1: the pending steps denote exactly the packet's wire image - with Encoder::encode, that is what the transport is handed
        (context.protocol_version == ProtocolVersion::Mqtt311 && wire311(*packet) is Some) ==> {
            &&& r is Ok
            &&& flat(final(self).steps@, *packet) == wire311(*packet)->Some_0
            &&& steps_wf(final(self).steps@, *packet)
        },
//@@at after "self.steps.clear();"
        proof { assert(flat(self.steps@, *packet) =~= Seq::<u8>::empty()); }
//@end
}


// ---- the same proof library for any packet kind: everything is stated for the ONE MqttPacket value pk0 the steps were written from
// (is_publish_of(pk, p) etc. determine pk uniquely), so no quantifier is needed at all
#[verifier::opaque]
pub open spec fn g_inv(s0: Seq<EncodingStep>, cur: Seq<EncodingStep>, acc: Seq<u8>, pk0: MqttPacket) -> bool {
    &&& s0.len() <= cur.len()
    &&& forall|i: int| 0 <= i < s0.len() ==> cur[i] == s0[i]
    &&& forall|i: int| s0.len() <= i < cur.len() ==> step_off(#[trigger] cur[i]) == 0
    &&& flat(cur, pk0) == flat(s0, pk0) + acc
}
#[verifier::opaque]
pub open spec fn g_whole(x: EncodingStep, bytes: Seq<u8>, pk0: MqttPacket) -> bool { step_whole(x, pk0) == bytes }
pub proof fn lemma_g_whole_int(x: EncodingStep, pk0: MqttPacket)
    requires is_int_step(x),
    ensures g_whole(x, int_bytes(x), pk0), step_off(x) == 0,
{ reveal(g_whole); }
pub proof fn lemma_g_init(s0: Seq<EncodingStep>, pk0: MqttPacket)
    ensures g_inv(s0, s0, Seq::<u8>::empty(), pk0),
{ reveal(g_inv); assert(flat(s0, pk0) + Seq::<u8>::empty() =~= flat(s0, pk0)); }
pub proof fn lemma_g_push1(s0: Seq<EncodingStep>, cur: Seq<EncodingStep>, x: EncodingStep, acc: Seq<u8>, b: Seq<u8>, pk0: MqttPacket)
    requires g_inv(s0, cur, acc, pk0), g_whole(x, b, pk0), step_off(x) == 0,
    ensures g_inv(s0, cur.push(x), acc + b, pk0),
{
    reveal(g_inv); reveal(g_whole);
    lemma_flat_push(cur, x, pk0);
    assert(step_bytes(x, pk0) =~= b);
    assert(flat(s0, pk0) + acc + b =~= flat(s0, pk0) + (acc + b));
}
pub proof fn lemma_g_regroup0(s0: Seq<EncodingStep>, cur: Seq<EncodingStep>, pre: Seq<u8>, pk0: MqttPacket)
    requires g_inv(s0, cur, pre, pk0),
    ensures g_inv(s0, cur, pre + Seq::<u8>::empty(), pk0),
{ assert(pre + Seq::<u8>::empty() =~= pre); }
pub proof fn lemma_g_regroup_up(s0: Seq<EncodingStep>, cur: Seq<EncodingStep>, pre: Seq<u8>, props: Seq<UserProperty>, n: nat, pk0: MqttPacket)
    requires n < props.len(),
        g_inv(s0, cur, pre + ups_bytes(props, n) + seq![38u8] + be16_bytes(blen(props[n as int].name@) as u16) + str_bytes(props[n as int].name@)
            + be16_bytes(blen(props[n as int].value@) as u16) + str_bytes(props[n as int].value@), pk0),
    ensures g_inv(s0, cur, pre + ups_bytes(props, n + 1), pk0),
{
    let u = props[n as int];
    assert(pre + ups_bytes(props, n) + seq![38u8] + be16_bytes(blen(u.name@) as u16) + str_bytes(u.name@) + be16_bytes(blen(u.value@) as u16) + str_bytes(u.value@)
        =~= pre + (ups_bytes(props, n) + up_bytes(u)));
}
pub proof fn lemma_g_regroup_filter(s0: Seq<EncodingStep>, cur: Seq<EncodingStep>, pre: Seq<u8>, v: Seq<String>, n: nat, pk0: MqttPacket)
    requires n < v.len(), g_inv(s0, cur, pre + filters_bytes(v, n) + be16_bytes(blen(v[n as int]@) as u16) + str_bytes(v[n as int]@), pk0),
    ensures g_inv(s0, cur, pre + filters_bytes(v, n + 1), pk0),
{
    assert(pre + filters_bytes(v, n) + be16_bytes(blen(v[n as int]@) as u16) + str_bytes(v[n as int]@)
        =~= pre + (filters_bytes(v, n) + be16_bytes(blen(v[n as int]@) as u16) + str_bytes(v[n as int]@)));
}
pub proof fn lemma_g_final(s0: Seq<EncodingStep>, cur: Seq<EncodingStep>, acc: Seq<u8>, pk0: MqttPacket)
    requires g_inv(s0, cur, acc, pk0),
    ensures flat(cur, pk0) == flat(s0, pk0) + acc, steps_wf(s0, pk0) ==> steps_wf(cur, pk0),
{
    reveal(g_inv);
    if steps_wf(s0, pk0) {
        assert forall|i: int| 0 <= i < cur.len() implies step_wf(#[trigger] cur[i], pk0) by { if i < s0.len() { assert(cur[i] == s0[i]); assert(step_wf(s0[i], pk0)); } }
    }
}
pub proof fn lemma_lead_empty6(a: Seq<u8>, b: Seq<u8>, c: Seq<u8>, d: Seq<u8>, e: Seq<u8>, f: Seq<u8>)
    ensures Seq::<u8>::empty() + a + b + c + d + e + f == a + b + c + d + e + f,
{ assert(Seq::<u8>::empty() + a + b + c + d + e + f =~= a + b + c + d + e + f); }

// ---------------------------------------------------------------------------------------------------------------------------------
// MQTT 5 UNSUBSCRIBE on the wire (C02), OASIS 5.0 section 3.10
pub open spec fn unsubscribe_props_len(p: UnsubscribePacket) -> nat { opt_user_props_len(p.user_properties) }
pub open spec fn unsubscribe_remaining_len(p: UnsubscribePacket) -> nat {
    2 + vli_len(unsubscribe_props_len(p)) + unsubscribe_props_len(p) + filters_len(p.topic_filters@, p.topic_filters@.len())
}
pub open spec fn unsubscribe5_sendable(p: UnsubscribePacket) -> bool {
    &&& ups_ok(p.user_properties) && filters_ok(p.topic_filters@) && count_ok(p.topic_filters@.len())
    &&& (p.user_properties matches Some(ps) ==> count_ok(ps@.len()))
    &&& unsubscribe_remaining_len(p) <= 268435455
}
// proved in the validate unit (same contract); a signature-only stub here
//@fn gneiss-mqtt/src/mqtt/unsubscribe.rs compute_unsubscribe_packet_length_properties5 stub
    requires ups_ok(packet.user_properties), filters_ok(packet.topic_filters@), count_ok(packet.topic_filters@.len()),
        packet.user_properties matches Some(ps) ==> count_ok(ps@.len()),
    ensures
        r matches Ok((rem, props)) ==> props == unsubscribe_props_len(*packet) && rem == unsubscribe_remaining_len(*packet) && rem <= 268435455 && props <= 268435455,
        (unsubscribe_remaining_len(*packet) <= 268435455) ==> r is Ok,
//@end
//@fn gneiss-mqtt/src/mqtt/unsubscribe.rs get_unsubscribe_packet_user_property props=C02
    requires packet matches MqttPacket::Unsubscribe(p) && p.user_properties matches Some(ups) && index < ups@.len(),
    ensures packet matches MqttPacket::Unsubscribe(p) && p.user_properties matches Some(ups) && *r == ups@[index as int],
//@end
pub open spec fn unsubscribe5_bytes(p: UnsubscribePacket) -> Seq<u8> {
    seq![0xA2u8] + vli(unsubscribe_remaining_len(p)) + be16_bytes(p.packet_id) + vli(unsubscribe_props_len(p)) + ups_piece(p.user_properties)
    + filters_bytes(p.topic_filters@, p.topic_filters@.len())
}

//@fn gneiss-mqtt/src/mqtt/unsubscribe.rs write_unsubscribe_encoding_steps5 props=C02 desugar fnptr_opaque expand=gneiss-mqtt/src/encode.rs:encode_user_properties+gneiss-mqtt/src/encode.rs:encode_user_property
//@@attr #[verifier::rlimit(100)]
//@@attr #[verifier::spinoff_prover]
    requires
        unsubscribe5_sendable(*packet),          // send-time validation (C16, validate unit)
    ensures
        r is Ok,
        forall|pk: MqttPacket| is_unsubscribe_of(pk, *packet) && steps_wf(old(steps)@, pk) ==> #[trigger] steps_wf(final(steps)@, pk),
        forall|pk: MqttPacket| is_unsubscribe_of(pk, *packet) ==> #[trigger] flat(final(steps)@, pk) == flat(old(steps)@, pk) + unsubscribe5_bytes(*packet),
//@@at bodystart
    let ghost s0 = steps@;
    let ghost mut cur = steps@;
    let ghost mut acc = Seq::<u8>::empty();
    let ghost mut pre5 = Seq::<u8>::empty();
    let ghost mut pre6 = Seq::<u8>::empty();
    let ghost pk0 = MqttPacket::Unsubscribe(*packet);
    proof { lemma_g_init(s0, pk0); }
//@@at after "encode_integral_expression!(steps, Uint8, UNSUBSCRIBE_FIRST_BYTE);"
    proof {
        assert(UNSUBSCRIBE_FIRST_BYTE == 0xA2u8) by (compute);
        { let x = EncodingStep::Uint8(0xA2u8); lemma_g_whole_int(x, pk0); lemma_g_push1(s0, cur, x, acc, int_bytes(x), pk0); cur = cur.push(x); acc = acc + int_bytes(x); }
        assert(steps@ == cur);
    }
//@@at after "encode_integral_expression!(steps, Vli, total_remaining_length);"
    proof {
        { let x = EncodingStep::Vli(total_remaining_length); lemma_g_whole_int(x, pk0); lemma_g_push1(s0, cur, x, acc, int_bytes(x), pk0); cur = cur.push(x); acc = acc + int_bytes(x); }
        assert(steps@ == cur);
    }
//@@at after "encode_integral_expression!(steps, Uint16, packet.packet_id);"
    proof {
        { let x = EncodingStep::Uint16(packet.packet_id); lemma_g_whole_int(x, pk0); lemma_g_push1(s0, cur, x, acc, int_bytes(x), pk0); cur = cur.push(x); acc = acc + int_bytes(x); }
        assert(steps@ == cur);
    }
//@@at after "encode_integral_expression!(steps, Vli, unsubscribe_property_length);"
    proof {
        { let x = EncodingStep::Vli(unsubscribe_property_length); lemma_g_whole_int(x, pk0); lemma_g_push1(s0, cur, x, acc, int_bytes(x), pk0); cur = cur.push(x); acc = acc + int_bytes(x); }
        assert(steps@ == cur);
        pre5 = acc;
    }
//@@at before "let mut verif_enum0: usize = 0;"
            proof {
                lemma_g_regroup0(s0, cur, pre5, pk0);
            }
//@@loop 0 iter=it
            invariant
                packet.user_properties is Some, properties@ == packet.user_properties->Some_0@, it.seq().len() == properties@.len(), count_ok(properties@.len()),
                ups_ok(packet.user_properties), pk0 == MqttPacket::Unsubscribe(*packet),
                verif_enum0 == it.index@,
                cur == steps@,
                g_inv(s0, steps@, pre5 + ups_bytes(properties@, it.index@ as nat), pk0),
                it.index@ == it.seq().len() ==> g_inv(s0, steps@, pre5 + ups_piece(packet.user_properties), pk0),
//@@at before "verif_enum0 += 1;"
                proof { assert(it.index@ < it.seq().len()); }
//@@bodyend_of_loop 0
                proof {
                    let n = it.index@;
                    let u = properties@[n];
                    assert(*user_property == u);
                    assert(up_ok(u));
                    acc = pre5 + ups_bytes(properties@, n as nat);
                    { let x = EncodingStep::Uint8(38u8); lemma_g_whole_int(x, pk0); lemma_g_push1(s0, cur, x, acc, int_bytes(x), pk0); cur = cur.push(x); acc = acc + int_bytes(x); }
                    { let x = EncodingStep::Uint16(blen(u.name@) as u16); lemma_g_whole_int(x, pk0); lemma_g_push1(s0, cur, x, acc, int_bytes(x), pk0); cur = cur.push(x); acc = acc + int_bytes(x); }
                    { let y = steps@[steps@.len() - 3]; assert(g_whole(y, str_bytes(u.name@), pk0)) by { reveal(g_whole); assert(get_unsubscribe_packet_user_property.requires((&pk0, i))); } assert(step_off(y) == 0); lemma_g_push1(s0, cur, y, acc, str_bytes(u.name@), pk0); cur = cur.push(y); acc = acc + str_bytes(u.name@); }
                    { let x = EncodingStep::Uint16(blen(u.value@) as u16); lemma_g_whole_int(x, pk0); lemma_g_push1(s0, cur, x, acc, int_bytes(x), pk0); cur = cur.push(x); acc = acc + int_bytes(x); }
                    { let y = steps@[steps@.len() - 1]; assert(g_whole(y, str_bytes(u.value@), pk0)) by { reveal(g_whole); assert(get_unsubscribe_packet_user_property.requires((&pk0, i))); } assert(step_off(y) == 0); lemma_g_push1(s0, cur, y, acc, str_bytes(u.value@), pk0); cur = cur.push(y); acc = acc + str_bytes(u.value@); }
                    assert(steps@ == cur);
                    lemma_g_regroup_up(s0, cur, pre5, properties@, n as nat, pk0);
                }
//@@at before "let topic_filters = &packet.topic_filters;"
    proof {
        if packet.user_properties is None { lemma_g_regroup0(s0, cur, pre5, pk0); }
        acc = pre5 + ups_piece(packet.user_properties); pre6 = acc;
        lemma_g_regroup0(s0, cur, pre6, pk0);
    }
//@@loop 1 iter=it
        invariant
            topic_filters@ == packet.topic_filters@, it.seq().len() == packet.topic_filters@.len(), count_ok(packet.topic_filters@.len()), filters_ok(packet.topic_filters@),
            pk0 == MqttPacket::Unsubscribe(*packet),
            verif_enum1 == it.index@,
            cur == steps@,
            g_inv(s0, steps@, pre6 + filters_bytes(packet.topic_filters@, it.index@ as nat), pk0),
            it.index@ == it.seq().len() ==> g_inv(s0, steps@, pre6 + filters_bytes(packet.topic_filters@, packet.topic_filters@.len()), pk0),
//@@at before "verif_enum1 += 1;"
            proof { assert(it.index@ < it.seq().len()); }
//@@at after "encode_indexed_string!(steps, get_unsubscribe_packet_topic_filter, topic_filter, i);"
            proof {
                let n = it.index@;
                assert(*topic_filter == packet.topic_filters@[n]);
                acc = pre6 + filters_bytes(packet.topic_filters@, n as nat);
                { let x = EncodingStep::Uint16(blen(topic_filter@) as u16); lemma_g_whole_int(x, pk0); lemma_g_push1(s0, cur, x, acc, int_bytes(x), pk0); cur = cur.push(x); acc = acc + int_bytes(x); }
                { let y = steps@[steps@.len() - 1]; assert(g_whole(y, str_bytes(topic_filter@), pk0)) by { reveal(g_whole); assert(get_unsubscribe_packet_topic_filter.requires((&pk0, i))); } assert(step_off(y) == 0); lemma_g_push1(s0, cur, y, acc, str_bytes(topic_filter@), pk0); cur = cur.push(y); acc = acc + str_bytes(topic_filter@); }
                assert(steps@ == cur);
                lemma_g_regroup_filter(s0, cur, pre6, packet.topic_filters@, n as nat, pk0);
            }
//@@at before "Ok(())"
    proof {
        acc = pre6 + filters_bytes(packet.topic_filters@, packet.topic_filters@.len());
        lemma_g_final(s0, cur, acc, pk0);
        lemma_lead_empty6(seq![0xA2u8], vli(unsubscribe_remaining_len(*packet)), be16_bytes(packet.packet_id), vli(unsubscribe_props_len(*packet)), ups_piece(packet.user_properties), filters_bytes(packet.topic_filters@, packet.topic_filters@.len()));
        assert(acc == unsubscribe5_bytes(*packet));
        assert forall|pk: MqttPacket| is_unsubscribe_of(pk, *packet) implies pk == pk0 by { }
    }
//@end

} // verus!
fn main() {}
