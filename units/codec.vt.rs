// U-codec: variable-length integers and the incremental frame decoder (encode.rs, decode.rs) - C02, C03
//@include base.vt.rs
//@include types_mqtt.vt.rs
verus! {

//@static gneiss-mqtt/src/encode.rs MAXIMUM_VARIABLE_LENGTH_INTEGER

// OASIS MQTT 5.0 section 1.5.5 Variable Byte Integer: 7 data bits per byte, least significant group first,
// bit 7 = "more bytes follow"; at most 4 bytes (maximum 268 435 455).
pub open spec fn vli(x: nat) -> Seq<u8>
    decreases x
{
    if x < 128 { seq![x as u8] } else { seq![((x % 128) + 128) as u8] + vli(x / 128) }
}

pub proof fn lemma_vli_len(x: nat)
    ensures vli(x).len() == (if x < 128 { 1nat } else if x < 16384 { 2nat } else if x < 2097152 { 3nat } else if x < 268435456 { 4nat } else { vli(x).len() }),
        vli(x).len() >= 1,
    decreases x
{
    if x >= 128 {
        lemma_vli_len(x / 128);
    }
}

//@fn gneiss-mqtt/src/encode.rs compute_variable_length_integer_encode_size props=C02,C16
    ensures
        r is Err <==> value > 268435455,
        r matches Ok(n) ==> n == vli(value as nat).len() && 1 <= n <= 4,
//@@at bodystart
        proof {
            lemma_vli_len(value as nat);
            assert(1usize << 7 == 128) by (bit_vector);
            assert(1usize << 14 == 16384) by (bit_vector);
            assert(1usize << 21 == 2097152) by (bit_vector);
            assert(1usize << 28 == 268435456) by (bit_vector);
        }
//@end

//@fn gneiss-mqtt/src/encode.rs encode_vli props=C02
    ensures
        r is Err <==> value > 268435455,
        r is Ok ==> final(dest)@ == old(dest)@ + vli(value as nat),
        r is Err ==> final(dest)@ == old(dest)@,
//@@loop 0
        invariant
            val <= value,
            !done ==> old(dest)@ + vli(value as nat) == dest@ + vli(val as nat),
            done ==> dest@ == old(dest)@ + vli(value as nat),
        decreases (if done { 0int } else { val as int + 1 }),
//@@at after "let mut byte: u8 = (val & 0x7F) as u8;"
            proof {
                let v0 = val;
                assert((v0 & 0x7F) as u8 == (v0 % 128) as u8) by (bit_vector);
                assert((v0 & 0x7F) < 128) by (bit_vector);
            }
            let ghost val0 = val;
            let ghost dest0 = dest@;
//@@at after "byte |= 128;"
            proof {
                let b0 = (val0 % 128) as u8;
                assert(b0 < 128 ==> (b0 | 128u8) == (b0 + 128) as u8) by (bit_vector);
            }
//@@at after "dest.push(byte);"
            proof {
                if val0 < 128 {
                    assert(vli(val0 as nat) =~= seq![val0 as u8]);
                    assert(dest@ =~= dest0 + vli(val0 as nat));
                } else {
                    assert(vli(val0 as nat) =~= seq![((val0 % 128) + 128) as u8] + vli((val0 / 128) as nat));
                    assert(dest@ + vli(val as nat) =~= dest0 + vli(val0 as nat));
                }
            }
//@end

// value of the first n VBI bytes of s
pub open spec fn vli_val(s: Seq<u8>, n: nat) -> nat
    decreases n
{
    if n == 0 { 0 } else { vli_val(s, (n - 1) as nat) + ((s[n - 1] % 128) as nat) * pow128((n - 1) as nat) }
}
pub open spec fn pow128(n: nat) -> nat decreases n { if n == 0 { 1 } else { 128 * pow128((n - 1) as nat) } }

//@enum gneiss-mqtt/src/decode.rs DecodeVliResult noderive=PartialEq,Eq

//@fn gneiss-mqtt/src/decode.rs decode_vli props=C03,C11
    ensures
        match r {
            // waits for more data only while every byte seen says "more follows" and fewer than 4 were seen
            Ok(DecodeVliResult::InsufficientData) => buffer@.len() < 4 && forall|j: int| 0 <= j < buffer@.len() ==> buffer@[j] >= 128,
            // framing: consumes exactly the bytes up to and including the first one without the continuation bit
            Ok(DecodeVliResult::Value(v, rest)) => exists|n: int| 1 <= n <= 4 && n <= buffer@.len() && buffer@[n - 1] < 128
                && (forall|j: int| 0 <= j < n - 1 ==> buffer@[j] >= 128) && rest@ == buffer@.subrange(n, buffer@.len() as int)
                && v == vli_val(buffer@, n as nat),
            // a fifth byte is never consumed: four continuation bytes are a malformed integer
            Err(_) => buffer@.len() >= 4 && forall|j: int| 0 <= j < 4 ==> buffer@[j] >= 128,
        },
//@@loop 0 iter=it
        invariant
            data_len == buffer@.len(),
            shift == 7 * i,
            forall|j: int| 0 <= j < i ==> buffer@[j] >= 128,
            i <= data_len || i == 0,
            value == vli_val(buffer@, i as nat),
            value < pow128(i as nat),
//@@at after "let byte = buffer[i];"
            proof {
                let sh = shift;
                let vv = value;
                let b = byte;
                lemma_pow128(i as nat);
                assert((b & 0x7F) as u32 == (b % 128) as u32) by (bit_vector);
                assert((b & 0x80) != 0 <==> b >= 128) by (bit_vector);
                if sh == 0 { assert(vv == 0 ==> (vv | (((b & 0x7F) as u32) << 0u32)) == vv + ((b % 128) as u32) * 1) by (bit_vector); }
                if sh == 7 { assert(vv < 128 ==> (vv | (((b & 0x7F) as u32) << 7u32)) == vv + ((b % 128) as u32) * 128) by (bit_vector); }
                if sh == 14 { assert(vv < 16384 ==> (vv | (((b & 0x7F) as u32) << 14u32)) == vv + ((b % 128) as u32) * 16384) by (bit_vector); }
                if sh == 21 { assert(vv < 2097152 ==> (vv | (((b & 0x7F) as u32) << 21u32)) == vv + ((b % 128) as u32) * 2097152) by (bit_vector); }
            }
//@end

// =====================================================================================================
// bounds-checked primitive readers (C03: "never panics", truncated input is an error, a second occurrence of a
// non-repeatable property is an error, the value is the big-endian integer the specification defines in 1.5.2/1.5.3)
// =====================================================================================================
pub open spec fn be16(b: Seq<u8>) -> int { b[0] as int * 256 + b[1] as int }
pub open spec fn be32(b: Seq<u8>) -> int { ((b[0] as int * 256 + b[1] as int) * 256 + b[2] as int) * 256 + b[3] as int }

// R6 shims for `uN::from_be_bytes(SLICE.try_into().unwrap())` (Verus cannot match the anonymous array-length constant of
// from_be_bytes in an assume_specification). The precondition IS the panic condition of `<[u8; N]>::try_from(slice).unwrap()`.
#[verifier::external_body]
pub fn verif_be16(b: &[u8]) -> (r: u16)
    requires b@.len() == 2,
    ensures r as int == be16(b@),
{ u16::from_be_bytes(b.try_into().unwrap()) }
#[verifier::external_body]
pub fn verif_be32(b: &[u8]) -> (r: u32)
    requires b@.len() == 4,
    ensures r as int == be32(b@),
{ u32::from_be_bytes(b.try_into().unwrap()) }

// std docs: `impl<T: Clone> From<&[T]> for Vec<T>` "allocates a Vec<T> and fills it by cloning the slice's items" (used on u8 only:
// Clone of u8 is a copy)
pub assume_specification<'a, T: Clone> [<Vec<T> as From<&'a [T]>>::from] (s: &[T]) -> (r: Vec<T>)
    ensures r@.len() == s@.len(), (forall|i: int| 0 <= i < s@.len() ==> vstd::pervasive::cloned(s@[i], #[trigger] r@[i]));

// the common shape: n bytes consumed, the rest handed back
pub open spec fn took(bytes: &[u8], r: GneissResult<&[u8]>, n: int) -> bool {
    r matches Ok(rest) && n <= bytes@.len() && rest@ == bytes@.subrange(n, bytes@.len() as int)
}

//@fn gneiss-mqtt/src/decode.rs decode_u16 props=C03,C11
//@@rewrite "u16::from_be_bytes(bytes[..2].try_into().unwrap())" => "verif_be16(&bytes[..2])"
    ensures
        bytes@.len() < 2 ==> r is Err && *final(value) == *old(value),
        bytes@.len() >= 2 ==> took(bytes, r, 2) && *final(value) as int == be16(bytes@),
//@end

//@fn gneiss-mqtt/src/decode.rs decode_optional_u16 props=C03,C11
//@@rewrite "u16::from_be_bytes(bytes[..2].try_into().unwrap())" => "verif_be16(&bytes[..2])"
    ensures
        (bytes@.len() < 2 || *old(value) is Some) ==> r is Err && *final(value) == *old(value),
        (bytes@.len() >= 2 && *old(value) is None) ==> took(bytes, r, 2) && (*final(value) matches Some(v) && v as int == be16(bytes@)),
//@end

//@fn gneiss-mqtt/src/decode.rs decode_optional_u32 props=C03,C11
//@@rewrite "u32::from_be_bytes(bytes[..4].try_into().unwrap())" => "verif_be32(&bytes[..4])"
    ensures
        (bytes@.len() < 4 || *old(value) is Some) ==> r is Err && *final(value) == *old(value),
        (bytes@.len() >= 4 && *old(value) is None) ==> took(bytes, r, 4) && (*final(value) matches Some(v) && v as int == be32(bytes@)),
//@end

//@fn gneiss-mqtt/src/decode.rs decode_optional_u8_as_bool props=C03,C11
    ensures
        (bytes@.len() < 1 || *old(value) is Some || bytes@[0] > 1) ==> r is Err,
        (bytes@.len() >= 1 && *old(value) is None && bytes@[0] <= 1) ==> took(bytes, r, 1) && *final(value) == Some(bytes@[0] == 1),
        r is Err ==> *final(value) == *old(value),
//@end

//@fn gneiss-mqtt/src/decode.rs decode_optional_length_prefixed_bytes props=C03,C11
//@@rewrite "u16::from_be_bytes(bytes[..2].try_into().unwrap())" => "verif_be16(&bytes[..2])"
    ensures
        (bytes@.len() < 2 || *old(value) is Some || bytes@.len() < 2 + be16(bytes@)) ==> r is Err && *final(value) == *old(value),
        (bytes@.len() >= 2 && *old(value) is None && bytes@.len() >= 2 + be16(bytes@)) ==> took(bytes, r, 2 + be16(bytes@))
            && (*final(value) matches Some(v) && v@ == bytes@.subrange(2, 2 + be16(bytes@))),
//@@at after "*value = Some(Vec::from(&mutable_bytes[..value_length]));"
    proof {
        assert(mutable_bytes@ == bytes@.subrange(2, bytes@.len() as int));
        assert(value->Some_0@ =~= mutable_bytes@.subrange(0, value_length as int));
        assert(mutable_bytes@.subrange(0, value_length as int) =~= bytes@.subrange(2, 2 + be16(bytes@)));
        assert(mutable_bytes@.subrange(value_length as int, mutable_bytes@.len() as int) =~= bytes@.subrange(2 + be16(bytes@), bytes@.len() as int));
    }
//@end

// UTF-8 (R6 shim for `std::str::from_utf8(SLICE)?`): validity and the decoded text are uninterpreted functions of the bytes; the `?`
// conversion `From<Utf8Error> for GneissError` (error.rs: new_decoding_failure) is folded into the shim's error value.
pub uninterp spec fn utf8_valid(b: Seq<u8>) -> bool;
pub uninterp spec fn utf8_text(b: Seq<u8>) -> Seq<char>;
#[verifier::external_body]
pub fn verif_from_utf8<'a>(b: &'a [u8]) -> (r: Result<&'a str, GneissError>)
    ensures r matches Ok(s) ==> utf8_valid(b@) && s@ == utf8_text(b@),
        r matches Err(e) ==> !utf8_valid(b@) && e.kind() == GErrKind::DecodingFailure,
{ unimplemented!() }

// a two-byte length, then that many bytes of valid UTF-8
pub open spec fn lp_string_ok(bytes: Seq<u8>) -> bool {
    bytes.len() >= 2 && bytes.len() >= 2 + be16(bytes) && utf8_valid(bytes.subrange(2, 2 + be16(bytes)))
}
pub open spec fn lp_string_text(bytes: Seq<u8>) -> Seq<char> { utf8_text(bytes.subrange(2, 2 + be16(bytes))) }

//@fn gneiss-mqtt/src/decode.rs decode_length_prefixed_string props=C03,C11
//@@rewrite "u16::from_be_bytes(bytes[..2].try_into().unwrap())" => "verif_be16(&bytes[..2])"
//@@rewrite "std::str::from_utf8(&mutable_bytes[..value_length])?" => "verif_from_utf8(&mutable_bytes[..value_length])?"
    ensures
        !lp_string_ok(bytes@) ==> r is Err && *final(value) == *old(value),
        lp_string_ok(bytes@) ==> took(bytes, r, 2 + be16(bytes@)) && final(value)@ == lp_string_text(bytes@),
//@@at before "let decode_utf8_result = verif_from_utf8(&mutable_bytes[..value_length])?;"
    proof {
        assert(mutable_bytes@.subrange(0, value_length as int) =~= bytes@.subrange(2, 2 + be16(bytes@)));
        assert(mutable_bytes@.subrange(value_length as int, mutable_bytes@.len() as int) =~= bytes@.subrange(2 + be16(bytes@), bytes@.len() as int));
    }
//@end

//@fn gneiss-mqtt/src/decode.rs decode_optional_length_prefixed_string props=C03,C11
//@@rewrite "u16::from_be_bytes(bytes[..2].try_into().unwrap())" => "verif_be16(&bytes[..2])"
//@@rewrite "std::str::from_utf8(&mutable_bytes[..value_length])?" => "verif_from_utf8(&mutable_bytes[..value_length])?"
    ensures
        (!lp_string_ok(bytes@) || *old(value) is Some) ==> r is Err && *final(value) == *old(value),
        (lp_string_ok(bytes@) && *old(value) is None) ==> took(bytes, r, 2 + be16(bytes@)) && (*final(value) matches Some(v) && v@ == lp_string_text(bytes@)),
//@@at before "let decode_utf8_result = verif_from_utf8(&mutable_bytes[..value_length])?;"
    proof {
        assert(mutable_bytes@.subrange(0, value_length as int) =~= bytes@.subrange(2, 2 + be16(bytes@)));
        assert(mutable_bytes@.subrange(value_length as int, mutable_bytes@.len() as int) =~= bytes@.subrange(2 + be16(bytes@), bytes@.len() as int));
    }
//@end

//@fn gneiss-mqtt/src/decode.rs decode_u8_as_enum props=C03,C11 desugar
    requires forall|b: u8| call_requires(converter, (b,)),
    ensures
        bytes@.len() == 0 ==> r is Err,
        r is Ok ==> took(bytes, r, 1) && call_ensures(converter, (bytes@[0],), Ok(*final(value))),
        // the byte is judged by the table alone
        (bytes@.len() >= 1 && r is Err) ==> exists|e: GneissError| call_ensures(converter, (bytes@[0],), Err(e)),
//@end

//@fn gneiss-mqtt/src/decode.rs decode_optional_u8_as_enum props=C03,C11 desugar
    requires forall|b: u8| call_requires(converter, (b,)),
    ensures
        (bytes@.len() == 0 || *old(value) is Some) ==> r is Err,
        r is Ok ==> took(bytes, r, 1) && *old(value) is None && (*final(value) matches Some(v) && call_ensures(converter, (bytes@[0],), Ok(v))),
        (bytes@.len() >= 1 && *old(value) is None && r is Err) ==> exists|e: GneissError| call_ensures(converter, (bytes@[0],), Err(e)),
//@end

// a user property is two length-prefixed strings; properties accumulate in wire order
//@fn gneiss-mqtt/src/decode.rs decode_user_property props=C03,C11
    ensures
        ({
            let n1 = 2 + be16(bytes@);
            let rest1 = bytes@.subrange(n1, bytes@.len() as int);
            let ok = lp_string_ok(bytes@) && lp_string_ok(rest1);
            &&& !ok ==> r is Err && *final(properties) == *old(properties)
            &&& ok ==> {
                let prev = match *old(properties) { Some(v) => v@, None => Seq::<UserProperty>::empty() };
                &&& took(bytes, r, n1 + 2 + be16(rest1))
                &&& *final(properties) matches Some(v)
                &&& v@.len() == prev.len() + 1 && v@.subrange(0, prev.len() as int) == prev
                &&& v@[prev.len() as int].name@ == lp_string_text(bytes@) && v@[prev.len() as int].value@ == lp_string_text(rest1)
            }
        }),
//@@at before "Ok(mutable_bytes)"
    proof {
        let n1 = 2 + be16(bytes@);
        let rest1 = bytes@.subrange(n1, bytes@.len() as int);
        let prev = match *old(properties) { Some(v) => v@, None => Seq::<UserProperty>::empty() };
        assert(mutable_bytes@ =~= bytes@.subrange(n1 + 2 + be16(rest1), bytes@.len() as int));
        assert(properties->Some_0@ =~= prev.push(property));
        assert(properties->Some_0@.subrange(0, prev.len() as int) =~= prev);
    }
//@end

//@fn gneiss-mqtt/src/decode.rs decode_vli_into_mutable props=C03,C11
    ensures
        match r {
            Ok(rest) => exists|n: int| 1 <= n <= 4 && n <= buffer@.len() && buffer@[n - 1] < 128
                && (forall|j: int| 0 <= j < n - 1 ==> buffer@[j] >= 128) && rest@ == buffer@.subrange(n, buffer@.len() as int)
                && *final(value) == vli_val(buffer@, n as nat),
            // here (inside a packet body whose length is known) running out of bytes is an error, not "wait"
            Err(_) => *final(value) == *old(value) && forall|j: int| 0 <= j < 4 && j < buffer@.len() ==> buffer@[j] >= 128,
        },
//@end

pub proof fn lemma_pow128(n: nat)
    ensures n == 0 ==> pow128(n) == 1, n == 1 ==> pow128(n) == 128, n == 2 ==> pow128(n) == 16384, n == 3 ==> pow128(n) == 2097152, n == 4 ==> pow128(n) == 268435456,
{
    reveal_with_fuel(pow128, 6);
}


// =====================================================================================================
// incremental framing (C03): type byte, remaining length, size check at header time
// =====================================================================================================
//@enum gneiss-mqtt/src/decode.rs DecoderState
//@enum gneiss-mqtt/src/decode.rs DecoderDirective
//@struct gneiss-mqtt/src/decode.rs DecodingContext
//@struct gneiss-mqtt/src/decode.rs Decoder

// while the remaining-length field is being read the scratch buffer holds only its (1..3) continuation bytes
pub open spec fn len_prefix_wf(d: Decoder) -> bool {
    d.scratch@.len() < 4 && forall|j: int| 0 <= j < d.scratch@.len() ==> d.scratch@[j] >= 128
}

pub open spec fn max_in_force(ctx: DecodingContext) -> int { if ctx.maximum_packet_size == 0 { 268435455 } else { ctx.maximum_packet_size as int } }

impl Decoder {
//@fn gneiss-mqtt/src/decode.rs Decoder::reset props=C03,C11
    ensures final(self).state == DecoderState::ReadPacketType, final(self).scratch@.len() == 0, final(self).first_byte is None, final(self).remaining_length is None,
//@end

//@fn gneiss-mqtt/src/decode.rs Decoder::reset_for_new_packet props=C03
    ensures
        // a terminal decode error is sticky until the connection is reset
        old(self).state == DecoderState::TerminalError ==> *final(self) == *old(self),
        old(self).state != DecoderState::TerminalError ==> final(self).state == DecoderState::ReadPacketType && final(self).scratch@.len() == 0
            && final(self).first_byte is None && final(self).remaining_length is None,
//@end

//@fn gneiss-mqtt/src/decode.rs Decoder::reset_for_new_connection props=C03,C11
    ensures final(self).state == DecoderState::ReadPacketType, final(self).scratch@.len() == 0, final(self).first_byte is None, final(self).remaining_length is None,
//@end

//@fn gneiss-mqtt/src/decode.rs Decoder::process_read_packet_type props=C03,C11
    ensures
        bytes@.len() == 0 ==> r.0 is OutOfData && r.1@ == bytes@ && *final(self) == *old(self),
        bytes@.len() > 0 ==> r.0 is Continue && r.1@ == bytes@.subrange(1, bytes@.len() as int)
            && final(self).first_byte == Some(bytes@[0]) && final(self).state == DecoderState::ReadTotalRemainingLength
            && final(self).scratch@ == old(self).scratch@ && final(self).remaining_length == old(self).remaining_length,
//@end

//@fn gneiss-mqtt/src/decode.rs Decoder::process_read_total_remaining_length props=C03,C11
    requires len_prefix_wf(*old(self)),
    ensures
        final(self).first_byte == old(self).first_byte,
        bytes@.len() == 0 ==> r.0 is OutOfData && r.1@ == bytes@ && *final(self) == *old(self),
        bytes@.len() > 0 ==> {
            let b = bytes@[0];
            let all = old(self).scratch@.push(b);
            &&& r.1@ == bytes@.subrange(1, bytes@.len() as int)                  // exactly one byte of the length field is consumed per step
            // length field complete
            &&& b < 128 ==> {
                    let len = vli_val(all, all.len());
                    let total = len + 1 + all.len();
                    // too big for the maximum in force: rejected at header time, nothing of the body has been buffered
                    &&& total > max_in_force(*context) ==> r.0 is TerminalError && final(self).scratch@ == all && final(self).remaining_length == old(self).remaining_length
                    &&& total <= max_in_force(*context) ==> r.0 is Continue && final(self).state == DecoderState::ReadPacketBody
                            && final(self).remaining_length == Some(len as usize) && final(self).scratch@.len() == 0
                }
            // a fourth continuation byte: malformed
            &&& (b >= 128 && all.len() >= 4) ==> r.0 is TerminalError
            // still inside the length field
            &&& (b >= 128 && all.len() < 4) ==> final(self).scratch@ == all && len_prefix_wf(*final(self)) && final(self).state == old(self).state
                    && (if bytes@.len() > 1 { r.0 is Continue } else { r.0 is OutOfData })
        },
//@@at after "let decode_vli_result = decode_vli(&self.scratch);"
        proof {
            lemma_pow128(self.scratch@.len());
            lemma_vli_val_bound(self.scratch@, self.scratch@.len());
        }
//@end
}

pub proof fn lemma_vli_val_bound(s: Seq<u8>, n: nat)
    requires n <= s.len(), n <= 4,
    ensures vli_val(s, n) < pow128(n), pow128(n) <= 268435456,
    decreases n
{
    reveal_with_fuel(pow128, 6);
    if n > 0 {
        lemma_vli_val_bound(s, (n - 1) as nat);
        assert(((s[n - 1] % 128) as nat) * pow128((n - 1) as nat) <= 127 * pow128((n - 1) as nat)) by (nonlinear_arith)
            requires (s[n - 1] % 128) as nat <= 127;
    }
}
} // verus!
fn main() {}
