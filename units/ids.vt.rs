// U-ids: packet-id allocation / binding (C06) -- contracts are ours, bodies are /repo's
//@include base.vt.rs
//@include types_mqtt.vt.rs
//@include types_protocol.vt.rs
//@include wf_protocol.vt.rs
verus! {

// cyclic distance from a to b going forward through 1..=65535
pub open spec fn pid_dist(a: u16, b: u16) -> int { if a <= b { b - a } else { 65535 - a + b } }

impl ClientOperation {
//@fn gneiss-mqtt/src/protocol.rs ClientOperation::bind_packet_id props=C06,C11
    requires carries_packet_id_field(*old(self).packet),
    ensures final(self).packet_id == Some(packet_id),
        packet_id_field(*final(self).packet) == packet_id,
        final(self).id == old(self).id, final(self).qos2_pubrel == old(self).qos2_pubrel,
        final(self).options == old(self).options,
        final(self).slow_start_ack_value == old(self).slow_start_ack_value,
        final(self).interruption_count == old(self).interruption_count,
        final(self).ping_extension_base_timepoint == old(self).ping_extension_base_timepoint,
        same_packet_except_id(*old(self).packet, *final(self).packet),
//@end

//@fn gneiss-mqtt/src/protocol.rs ClientOperation::unbind_packet_id props=C06,C11
    requires carries_packet_id_field(*old(self).packet),
    ensures final(self).packet_id is None,
        packet_id_field(*final(self).packet) == 0,
        final(self).id == old(self).id, final(self).qos2_pubrel == old(self).qos2_pubrel,
        final(self).options == old(self).options,
        final(self).slow_start_ack_value == old(self).slow_start_ack_value,
        final(self).interruption_count == old(self).interruption_count,
        final(self).ping_extension_base_timepoint == old(self).ping_extension_base_timepoint,
        same_packet_except_id(*old(self).packet, *final(self).packet),
//@end
}

// everything but the packet-id field of the packet is untouched
pub open spec fn same_packet_except_id(a: MqttPacket, b: MqttPacket) -> bool {
    match (a, b) {
        (MqttPacket::Subscribe(x), MqttPacket::Subscribe(y)) => y == SubscribePacket { packet_id: y.packet_id, ..x },
        (MqttPacket::Unsubscribe(x), MqttPacket::Unsubscribe(y)) => y == UnsubscribePacket { packet_id: y.packet_id, ..x },
        (MqttPacket::Publish(x), MqttPacket::Publish(y)) => y == PublishPacket { packet_id: y.packet_id, ..x },
        _ => a == b,
    }
}

impl ProtocolState {
//@fn gneiss-mqtt/src/protocol.rs ProtocolState::acquire_free_packet_id props=C06
    requires old(self).next_packet_id >= 1,
    ensures final(self).next_packet_id >= 1,
        match r {
            Ok(id) => id != 0 && !old(self).allocated_packet_ids@.contains_key(id)
                && final(self).allocated_packet_ids@ == old(self).allocated_packet_ids@.insert(id, operation_id),
            Err(_) => final(self).allocated_packet_ids@ == old(self).allocated_packet_ids@
                && (forall|k: u16| 1 <= k ==> old(self).allocated_packet_ids@.contains_key(k)),
        },
        // frame: nothing else changes
        final(self).operations@ == old(self).operations@,
        final(self).pending_publish_operations@ == old(self).pending_publish_operations@,
        final(self).pending_non_publish_operations@ == old(self).pending_non_publish_operations@,
        final(self).next_operation_id == old(self).next_operation_id,
        final(self).current_operation == old(self).current_operation,
        final(self).state == old(self).state,
//@@loop 0
        invariant
            1 <= start_id, 1 <= check_id,
            self.next_packet_id == check_id,
            self.allocated_packet_ids@ == old(self).allocated_packet_ids@,
            self.operations@ == old(self).operations@,
            self.pending_publish_operations@ == old(self).pending_publish_operations@,
            self.pending_non_publish_operations@ == old(self).pending_non_publish_operations@,
            self.next_operation_id == old(self).next_operation_id,
            self.current_operation == old(self).current_operation,
            self.state == old(self).state,
            forall|k: u16| 1 <= k && pid_dist(start_id, k) < pid_dist(start_id, check_id) ==> old(self).allocated_packet_ids@.contains_key(k),
        decreases 65535 - pid_dist(start_id, check_id),
//@end
}

} // verus!
fn main() {}
