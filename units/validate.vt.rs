// U-validate: outbound validation and packet-length computation (validate.rs, encode.rs, mqtt/publish.rs, mqtt/subscribe.rs,
// mqtt/unsubscribe.rs) - C16, C02
//@include base.vt.rs
//@include types_mqtt.vt.rs
//@macro gneiss-mqtt/src/encode.rs add_optional_u8_property_length
//@macro gneiss-mqtt/src/encode.rs add_optional_u16_property_length
//@macro gneiss-mqtt/src/encode.rs add_optional_u32_property_length
//@macro gneiss-mqtt/src/encode.rs add_optional_string_property_length
//@macro gneiss-mqtt/src/encode.rs add_optional_bytes_property_length
//@macro gneiss-mqtt/src/encode.rs add_optional_string_length
//@macro gneiss-mqtt/src/encode.rs add_optional_bytes_length
verus! {

// ---- byte length of text: String::len() is the UTF-8 length; kept uninterpreted (only compared with limits).
pub uninterp spec fn blen(s: Seq<char>) -> nat;
pub assume_specification [String::len] (s: &String) -> (r: usize) ensures r == blen(s@);

//@struct gneiss-mqtt/src/client/mod.rs NegotiatedSettings
//@enum gneiss-mqtt/src/client/config.rs RejoinSessionPolicy
//@struct gneiss-mqtt/src/client/config.rs ConnectOptions
//@struct gneiss-mqtt/src/alias.rs OutboundAliasResolution defaultspec
//@struct gneiss-mqtt/src/validate.rs OutboundValidationContext
//@struct gneiss-mqtt/src/validate.rs TopicFilterProperties
//@const gneiss-mqtt/src/validate.rs MAXIMUM_STRING_PROPERTY_LENGTH
//@const gneiss-mqtt/src/validate.rs MAXIMUM_BINARY_PROPERTY_LENGTH
//@static gneiss-mqtt/src/encode.rs MAXIMUM_VARIABLE_LENGTH_INTEGER

pub open spec fn vli_len(x: nat) -> nat { if x < 128 { 1 } else if x < 16384 { 2 } else if x < 2097152 { 3 } else { 4 } }

// assumed here, proved in U-codec (same function, same contract)
//@fn gneiss-mqtt/src/encode.rs compute_variable_length_integer_encode_size props=C16 stub
    ensures
        r is Err <==> value > 268435455,
        r matches Ok(n) ==> n == vli_len(value as nat),
//@end

// &str-length functions: decided by E-K (Kani), assumed here
//@fn gneiss-mqtt/src/validate.rs validate_string_length props=C16 stub
    ensures r is Ok <==> blen(value@) <= 65535,
//@end
pub uninterp spec fn topic_ok(s: Seq<char>) -> bool;      // MQTT 4.7: non-empty, <= 65535 bytes, no wildcard characters
//@fn gneiss-mqtt/src/validate.rs is_valid_topic props=C16 stub
    ensures r == topic_ok(topic@), r ==> blen(topic@) <= 65535 && blen(topic@) > 0,
//@end
pub uninterp spec fn filter_props(s: Seq<char>) -> TopicFilterProperties;
//@fn gneiss-mqtt/src/validate.rs compute_topic_filter_properties props=C16 stub
    ensures r == filter_props(topic@), r.is_valid ==> blen(topic@) <= 65535 && blen(topic@) > 0,
//@end

pub open spec fn up_ok(p: UserProperty) -> bool { blen(p.name@) <= 65535 && blen(p.value@) <= 65535 }
pub open spec fn ups_ok(o: Option<Vec<UserProperty>>) -> bool { o matches Some(ps) ==> forall|i: int| 0 <= i < ps@.len() ==> up_ok(#[trigger] ps@[i]) }
pub open spec fn opt_str_ok(o: Option<String>) -> bool { o matches Some(s) ==> blen(s@) <= 65535 }
pub open spec fn opt_bin_ok(o: Option<Vec<u8>>) -> bool { o matches Some(b) ==> b@.len() <= 65535 }

//@fn gneiss-mqtt/src/validate.rs validate_optional_string_length props=C16
    ensures r is Ok <==> opt_str_ok(*optional_string),
//@end

//@fn gneiss-mqtt/src/validate.rs validate_optional_binary_length props=C16
    ensures r is Ok <==> opt_bin_ok(*optional_data),
//@end

//@fn gneiss-mqtt/src/validate.rs validate_user_properties props=C16,C02
    // every user property NAME and VALUE is a UTF-8 string of at most 65535 bytes
    ensures r is Ok <==> ups_ok(*properties),
//@@loop 0 iter=it
        invariant forall|i: int| 0 <= i < it.index@ ==> up_ok(#[trigger] props@[i]),
            *properties matches Some(ps) && ps@ == props@,
//@@at before "validate_string_length(property.name.as_str()"
            proof { assert(0 <= it.index@ < props@.len()); assert(*property == props@[it.index@ as int]);
                    assert(*properties matches Some(ps) && ps@ == props@);
                    assert(ups_ok(*properties) ==> up_ok(props@[it.index@ as int])); }
//@@at after "validate_string_length(property.name.as_str()"
            proof { assert(up_ok(props@[it.index@ as int]) ==> blen(property.value@) <= 65535); }
//@end

// ---- wire lengths, written from the MQTT5 packet layouts (sections 2.2.2, 3.3, 3.8, 3.10)
pub open spec fn user_props_len(ps: Seq<UserProperty>, n: nat) -> nat
    decreases n
{
    if n == 0 { 0 } else { user_props_len(ps, (n - 1) as nat) + 5 + blen(ps[n - 1].name@) + blen(ps[n - 1].value@) }
}
pub open spec fn opt_user_props_len(o: Option<Vec<UserProperty>>) -> nat { match o { Some(ps) => user_props_len(ps@, ps@.len()), None => 0 } }

pub proof fn lemma_user_props_len_bound(ps: Seq<UserProperty>, n: nat)
    requires n <= ps.len(), forall|i: int| 0 <= i < ps.len() ==> up_ok(#[trigger] ps[i]),
    ensures user_props_len(ps, n) <= n * 131075,
    decreases n
{
    if n > 0 { lemma_user_props_len_bound(ps, (n - 1) as nat); assert(up_ok(ps[n - 1])); }
}

// A-COUNT: fewer than 2^24 user properties / subscriptions / filters per packet (a Vec that long of 48-byte elements is > 768 MiB)
pub open spec fn count_ok(n: nat) -> bool { n <= 16777216 }

//@fn gneiss-mqtt/src/encode.rs compute_user_properties_length props=C02,C16
    requires ups_ok(*properties), properties matches Some(ps) ==> count_ok(ps@.len()),
    ensures r == opt_user_props_len(*properties), r <= 16777216 * 131075,
//@@loop 0 iter=it
        invariant
            forall|i: int| 0 <= i < props@.len() ==> up_ok(#[trigger] props@[i]), count_ok(props@.len()), property_count == props@.len(),
            total == property_count * 5 + user_props_len(props@, it.index@ as nat) - it.index@ * 5,
            total <= property_count * 5 + it.index@ * 131070,
//@@at before "total += property.name.len();"
            proof { assert(0 <= it.index@ < props@.len()); assert(*property == props@[it.index@ as int]); assert(up_ok(props@[it.index@ as int])); }
//@end


// =====================================================================================================
// PUBLISH (MQTT5 3.3)
// =====================================================================================================
pub open spec fn opt_strprop_len(o: Option<String>) -> nat { match o { Some(s) => 3 + blen(s@), None => 0 } }
pub open spec fn opt_binprop_len(o: Option<Vec<u8>>) -> nat { match o { Some(b) => 3 + b@.len(), None => 0 } }
pub open spec fn subids_len(v: Seq<u32>, n: nat) -> nat decreases n { if n == 0 { 0 } else { subids_len(v, (n - 1) as nat) + 1 + vli_len(v[n - 1] as nat) } }

pub open spec fn publish_props_len(p: PublishPacket, res: OutboundAliasResolution) -> nat {
    opt_user_props_len(p.user_properties)
        + (if p.payload_format is Some { 2nat } else { 0 })
        + (if p.message_expiry_interval_seconds is Some { 5nat } else { 0 })
        + (if res.alias is Some { 3nat } else { 0 })
        + opt_strprop_len(p.content_type) + opt_strprop_len(p.response_topic) + opt_binprop_len(p.correlation_data)
        + (match p.subscription_identifiers { Some(v) => subids_len(v@, v@.len()), None => 0 })
}
pub open spec fn publish_remaining_len(p: PublishPacket, res: OutboundAliasResolution) -> nat {
    2 + (if res.skip_topic { 0 } else { blen(p.topic@) }) + (if p.qos != QualityOfService::AtMostOnce { 2nat } else { 0 })
        + vli_len(publish_props_len(p, res)) + publish_props_len(p, res)
        + (match p.payload { Some(b) => b@.len(), None => 0 })
}

// the static rules of C16 for a PUBLISH as the user may submit it
pub open spec fn publish_static_ok(p: PublishPacket) -> bool {
    &&& p.packet_id == 0 && !p.duplicate
    &&& blen(p.topic@) <= 65535 && topic_ok(p.topic@)
    &&& p.topic_alias != Some(0u16)
    &&& p.subscription_identifiers is None
    &&& (p.response_topic matches Some(rt) ==> topic_ok(rt@) && blen(rt@) <= 65535)
    &&& ups_ok(p.user_properties) && opt_bin_ok(p.correlation_data) && opt_str_ok(p.content_type)
}

//@fn gneiss-mqtt/src/mqtt/publish.rs validate_publish_packet_outbound props=C16
    ensures r is Ok <==> publish_static_ok(*packet),
//@end

//@fn gneiss-mqtt/src/mqtt/publish.rs compute_publish_packet_length_properties5 props=C02,C16
//@@attr #[verifier::rlimit(200)]
//@@attr #[verifier::spinoff_prover]
    requires
        blen(packet.topic@) <= 65535, ups_ok(packet.user_properties), opt_bin_ok(packet.correlation_data), opt_str_ok(packet.content_type), opt_str_ok(packet.response_topic),
        packet.user_properties matches Some(ps) ==> count_ok(ps@.len()),
        packet.subscription_identifiers is None,      // client publishes never carry them (validate_publish_packet_outbound rejects them)
        // NO protocol bound on the payload: any Vec<u8> is user-constructible (A-VEC: a Vec never holds more than isize::MAX bytes)
        packet.payload matches Some(b) ==> b@.len() <= 9223372036854775807,
    ensures
        // the length that goes on the wire is the real one (no usize overflow, no truncation to 32 bits)
        r matches Ok((rem, props)) ==> rem == publish_remaining_len(*packet, *alias_resolution) && props == publish_props_len(*packet, *alias_resolution) && props <= 268435455 && rem <= 268435455,
        // and a packet whose remaining length the protocol can express is never refused here
        publish_remaining_len(*packet, *alias_resolution) <= 268435455 ==> r is Ok,
//@@loop 0 iter=it
            invariant
                false,      // the loop is unreachable for client publishes: the precondition says subscription_identifiers is None
//@@at before "let mut total_remaining_length = compute_variable_length_integer_encode_size(publish_property_section_length)?;"
        proof {
            if packet.user_properties is Some { lemma_user_props_len_bound(packet.user_properties->Some_0@, packet.user_properties->Some_0@.len()); }
        }
//@end

pub open spec fn qos_le(a: QualityOfService, b: QualityOfService) -> bool { a as u8 <= b as u8 }

//@fn gneiss-mqtt/src/mqtt/publish.rs validate_publish_packet_outbound_internal props=C16
    requires context.negotiated_settings is Some,
        blen(packet.topic@) <= 65535, ups_ok(packet.user_properties), opt_bin_ok(packet.correlation_data), opt_str_ok(packet.content_type), opt_str_ok(packet.response_topic),
        packet.user_properties matches Some(ps) ==> count_ok(ps@.len()),
        packet.subscription_identifiers is None,
        packet.payload matches Some(b) ==> b@.len() <= 9223372036854775807,
    ensures
        ({
            let st = *context.negotiated_settings->Some_0;
            let res = match context.outbound_alias_resolution { Some(x) => x, None => OutboundAliasResolution { skip_topic: false, alias: None } };
            let rem = publish_remaining_len(*packet, res);
            // connection-dependent limits: size, QoS, retain; and a bound identifier for QoS1+
            r is Ok <==> (rem <= 268435455 && 1 + rem + vli_len(rem) <= st.maximum_packet_size_to_server
                && qos_le(packet.qos, st.maximum_qos) && (packet.retain ==> st.retain_available)
                && (packet.qos != QualityOfService::AtMostOnce ==> packet.packet_id != 0))
        }),
//@end

// =====================================================================================================
// SUBSCRIBE (MQTT5 3.8) / UNSUBSCRIBE (3.10)
// =====================================================================================================
pub open spec fn subs_len(v: Seq<Subscription>, n: nat) -> nat decreases n { if n == 0 { 0 } else { subs_len(v, (n - 1) as nat) + 3 + blen(v[n - 1].topic_filter@) } }
pub open spec fn filters_len(v: Seq<String>, n: nat) -> nat decreases n { if n == 0 { 0 } else { filters_len(v, (n - 1) as nat) + 2 + blen(v[n - 1]@) } }
pub open spec fn subs_ok(v: Seq<Subscription>) -> bool { forall|i: int| 0 <= i < v.len() ==> blen((#[trigger] v[i]).topic_filter@) <= 65535 }
pub open spec fn filters_ok(v: Seq<String>) -> bool { forall|i: int| 0 <= i < v.len() ==> blen((#[trigger] v[i])@) <= 65535 }

// 3.8.2.1.2: the Subscription Identifier is a Variable Byte Integer (1 + 1..4 bytes), value 1..268 435 455
pub open spec fn subscribe_props_len(p: SubscribePacket) -> nat {
    opt_user_props_len(p.user_properties) + (match p.subscription_identifier { Some(id) => 1 + vli_len(id as nat), None => 0 })
}
pub open spec fn subscribe_remaining_len(p: SubscribePacket) -> nat {
    2 + vli_len(subscribe_props_len(p)) + subscribe_props_len(p) + subs_len(p.subscriptions@, p.subscriptions@.len())
}

//@fn gneiss-mqtt/src/mqtt/subscribe.rs compute_subscribe_packet_length_properties5 props=C02,C16
    requires ups_ok(packet.user_properties), subs_ok(packet.subscriptions@), count_ok(packet.subscriptions@.len()),
        packet.user_properties matches Some(ps) ==> count_ok(ps@.len()),
    ensures
        r matches Ok((rem, props)) ==> props == subscribe_props_len(*packet) && rem == subscribe_remaining_len(*packet) && rem <= 268435455 && props <= 268435455,
        (subscribe_remaining_len(*packet) <= 268435455) ==> r is Ok,
//@@loop 0 iter=it
        invariant
            subs_ok(packet.subscriptions@), count_ok(packet.subscriptions@.len()),
            subscribe_property_section_length <= 268435455,
            total_remaining_length == 2 + vli_len(subscribe_property_section_length as nat) + subscribe_property_section_length + packet.subscriptions@.len() * 3
                + subs_len(packet.subscriptions@, it.index@ as nat) - it.index@ * 3,
            total_remaining_length <= 300000000 + 16777216 * 3 + it.index@ * 65535,
//@@at before "total_remaining_length += subscription.topic_filter.len();"
            proof { assert(0 <= it.index@ < packet.subscriptions@.len()); assert(*subscription == packet.subscriptions@[it.index@ as int]); }
//@@finding F-SUBID
        proof { assume(packet.subscription_identifier is None); }
//@end

// the static rules of C16 for a SUBSCRIBE as submitted
pub open spec fn subscribe_static_ok(p: SubscribePacket) -> bool {
    &&& p.packet_id == 0
    &&& p.subscriptions@.len() > 0
    &&& ups_ok(p.user_properties)
    // identifier range (3.8.2.1.2: "1 to 268,435,455 ... It is a Protocol Error if the Subscription Identifier has a value of 0")
    &&& (p.subscription_identifier matches Some(id) ==> 1 <= id <= 268435455)
}

//@fn gneiss-mqtt/src/mqtt/subscribe.rs validate_subscribe_packet_outbound props=C16
    ensures r is Ok <==> subscribe_static_ok(*packet),
//@end

//@fn gneiss-mqtt/src/validate.rs is_valid_topic_filter_internal props=C16
    requires context.negotiated_settings is Some,
    ensures
        ({
            let fp = filter_props(filter@);
            let st = *context.negotiated_settings->Some_0;
            r == (fp.is_valid && (fp.is_shared ==> st.shared_subscriptions_available && no_local != Some(true))
                    && (fp.has_wildcard ==> st.wildcard_subscriptions_available))
        }),
//@end

pub open spec fn filter_allowed(f: Seq<char>, st: NegotiatedSettings, no_local: Option<bool>) -> bool {
    let fp = filter_props(f);
    fp.is_valid && (fp.is_shared ==> st.shared_subscriptions_available && no_local != Some(true)) && (fp.has_wildcard ==> st.wildcard_subscriptions_available)
}

//@fn gneiss-mqtt/src/mqtt/subscribe.rs validate_subscribe_packet_outbound_internal props=C16
    requires context.negotiated_settings is Some,
        ups_ok(packet.user_properties), subs_ok(packet.subscriptions@), count_ok(packet.subscriptions@.len()),
        packet.user_properties matches Some(ps) ==> count_ok(ps@.len()),
    ensures
        ({
            let st = *context.negotiated_settings->Some_0;
            let rem = subscribe_remaining_len(*packet);
            r is Ok <==> (subscribe_props_len(*packet) <= 268435455 && rem <= 268435455 && 1 + rem + vli_len(rem) <= st.maximum_packet_size_to_server
                && packet.packet_id != 0
                && (forall|i: int| 0 <= i < packet.subscriptions@.len() ==> filter_allowed((#[trigger] packet.subscriptions@[i]).topic_filter@, st, Some(packet.subscriptions@[i].no_local)))
                // announced capability: a subscription identifier only if the server supports them
                && (packet.subscription_identifier is Some ==> st.subscription_identifiers_available))
        }),
//@@loop 0 iter=it
        invariant
            context.negotiated_settings is Some,
            forall|i: int| 0 <= i < it.index@ ==> filter_allowed((#[trigger] packet.subscriptions@[i]).topic_filter@, *context.negotiated_settings->Some_0, Some(packet.subscriptions@[i].no_local)),
//@@at before "if !is_valid_topic_filter_internal(&subscription.topic_filter, context, Some(subscription.no_local)) {"
            proof { assert(0 <= it.index@ < packet.subscriptions@.len()); assert(*subscription == packet.subscriptions@[it.index@ as int]); }
//@@finding F-SUBID
        proof { assume(packet.subscription_identifier is None); }
//@@finding F-SUBID-AVAIL
        proof { assume(packet.subscription_identifier is Some ==> context.negotiated_settings->Some_0.subscription_identifiers_available); }
//@end

// ---- UNSUBSCRIBE (MQTT5 3.10): packet id, property length, user properties, then the topic filters as length-prefixed strings
pub open spec fn unsubscribe_props_len(p: UnsubscribePacket) -> nat { opt_user_props_len(p.user_properties) }
pub open spec fn unsubscribe_remaining_len(p: UnsubscribePacket) -> nat {
    2 + vli_len(unsubscribe_props_len(p)) + unsubscribe_props_len(p) + filters_len(p.topic_filters@, p.topic_filters@.len())
}

//@fn gneiss-mqtt/src/mqtt/unsubscribe.rs compute_unsubscribe_packet_length_properties5 props=C02,C16
    requires ups_ok(packet.user_properties), filters_ok(packet.topic_filters@), count_ok(packet.topic_filters@.len()),
        packet.user_properties matches Some(ps) ==> count_ok(ps@.len()),
    ensures
        r matches Ok((rem, props)) ==> props == unsubscribe_props_len(*packet) && rem == unsubscribe_remaining_len(*packet) && rem <= 268435455 && props <= 268435455,
        (unsubscribe_remaining_len(*packet) <= 268435455) ==> r is Ok,
//@@loop 0 iter=it
        invariant
            filters_ok(packet.topic_filters@), count_ok(packet.topic_filters@.len()),
            unsubscribe_property_section_length <= 268435455,
            total_remaining_length == 2 + vli_len(unsubscribe_property_section_length as nat) + unsubscribe_property_section_length + packet.topic_filters@.len() * 2
                + filters_len(packet.topic_filters@, it.index@ as nat) - it.index@ * 2,
            total_remaining_length <= 300000000 + 16777216 * 2 + it.index@ * 65535,
//@@at before "total_remaining_length += filter.len();"
            proof { assert(0 <= it.index@ < packet.topic_filters@.len()); assert(*filter == packet.topic_filters@[it.index@ as int]); }
//@@at before "let mut total_remaining_length : usize = 2 + compute_variable_length_integer_encode_size(unsubscribe_property_section_length)?;"
        proof {
            if packet.user_properties is Some { lemma_user_props_len_bound(packet.user_properties->Some_0@, packet.user_properties->Some_0@.len()); }
        }
//@end

// the static rules of C16 for an UNSUBSCRIBE as submitted: no packet id yet, a non-empty filter list, user properties within limits
pub open spec fn unsubscribe_static_ok(p: UnsubscribePacket) -> bool {
    p.packet_id == 0 && p.topic_filters@.len() > 0 && ups_ok(p.user_properties)
}

//@fn gneiss-mqtt/src/mqtt/unsubscribe.rs validate_unsubscribe_packet_outbound props=C16
    ensures r is Ok <==> unsubscribe_static_ok(*packet),
//@end

//@fn gneiss-mqtt/src/mqtt/unsubscribe.rs validate_unsubscribe_packet_outbound_internal props=C16
    requires context.negotiated_settings is Some,
        ups_ok(packet.user_properties), filters_ok(packet.topic_filters@), count_ok(packet.topic_filters@.len()),
        packet.user_properties matches Some(ps) ==> count_ok(ps@.len()),
    ensures
        ({
            let st = *context.negotiated_settings->Some_0;
            let rem = unsubscribe_remaining_len(*packet);
            r is Ok <==> (rem <= 268435455 && 1 + rem + vli_len(rem) <= st.maximum_packet_size_to_server
                && packet.packet_id != 0
                && (forall|i: int| 0 <= i < packet.topic_filters@.len() ==> filter_allowed((#[trigger] packet.topic_filters@[i])@, st, None)))
        }),
//@@loop 0 iter=it
        invariant
            context.negotiated_settings is Some,
            forall|i: int| 0 <= i < it.index@ ==> filter_allowed((#[trigger] packet.topic_filters@[i])@, *context.negotiated_settings->Some_0, None),
//@@at before "if !is_valid_topic_filter_internal(filter, context, None) {"
            proof { assert(0 <= it.index@ < packet.topic_filters@.len()); assert(*filter == packet.topic_filters@[it.index@ as int]); }
//@end

// =====================================================================================================
// MQTT 3.1.1 remaining lengths of PUBLISH / SUBSCRIBE / UNSUBSCRIBE (no properties): C02
// =====================================================================================================
pub open spec fn publish_remaining_len311(p: PublishPacket) -> nat {
    2 + blen(p.topic@) + (if p.qos != QualityOfService::AtMostOnce { 2nat } else { 0 }) + (match p.payload { Some(b) => b@.len(), None => 0 })
}
//@fn gneiss-mqtt/src/mqtt/publish.rs compute_publish_packet_length_properties311 props=C02
    // the function itself has no range check: that the length fits was established by send-time validation, which bounds the (larger)
    // MQTT 5 length of the same packet by the maximum packet size (proved for validate_publish_packet_outbound_internal above)
    requires publish_remaining_len311(*packet) <= 268435455,
    ensures r matches Ok(rem) && rem == publish_remaining_len311(*packet),
//@end

//@fn gneiss-mqtt/src/mqtt/subscribe.rs compute_subscribe_packet_length_properties311 props=C02
    // (no range check in the function: the bound comes from send-time validation of the larger MQTT 5 length, as for PUBLISH)
    requires subs_ok(packet.subscriptions@), count_ok(packet.subscriptions@.len()), 2 + subs_len(packet.subscriptions@, packet.subscriptions@.len()) <= 268435455,
    ensures r matches Ok(rem) && rem == 2 + subs_len(packet.subscriptions@, packet.subscriptions@.len()),
//@@loop 0 iter=it
        invariant subs_ok(packet.subscriptions@), count_ok(packet.subscriptions@.len()),
            total_remaining_length == 2 + packet.subscriptions@.len() * 3 + subs_len(packet.subscriptions@, it.index@ as nat) - it.index@ * 3,
            total_remaining_length <= 2 + 16777216 * 3 + it.index@ * 65535,
//@@at before "total_remaining_length += subscription.topic_filter.len();"
            proof { assert(0 <= it.index@ < packet.subscriptions@.len()); assert(*subscription == packet.subscriptions@[it.index@ as int]); }
//@end

//@fn gneiss-mqtt/src/mqtt/unsubscribe.rs compute_unsubscribe_packet_length_properties311 props=C02
    requires filters_ok(packet.topic_filters@), count_ok(packet.topic_filters@.len()), 2 + filters_len(packet.topic_filters@, packet.topic_filters@.len()) <= 268435455,
    ensures r matches Ok(rem) && rem == 2 + filters_len(packet.topic_filters@, packet.topic_filters@.len()),
//@@loop 0 iter=it
        invariant filters_ok(packet.topic_filters@), count_ok(packet.topic_filters@.len()),
            total_remaining_length == 2 + packet.topic_filters@.len() * 2 + filters_len(packet.topic_filters@, it.index@ as nat) - it.index@ * 2,
            total_remaining_length <= 2 + 16777216 * 2 + it.index@ * 65535,
//@@at before "total_remaining_length += filter.len();"
            proof { assert(0 <= it.index@ < packet.topic_filters@.len()); assert(*filter == packet.topic_filters@[it.index@ as int]); }
//@end

// =====================================================================================================
// CONNECT (MQTT5 3.1 / MQTT 3.1.1 3.1): remaining length and property lengths = the wire layout, no overflow, no truncation (C02)
// =====================================================================================================
pub open spec fn opt_str_len(o: Option<String>) -> nat { match o { Some(s) => blen(s@), None => 0 } }
pub open spec fn opt_bin_len(o: Option<Vec<u8>>) -> nat { match o { Some(b) => b@.len(), None => 0 } }
pub open spec fn connect_props_len(p: ConnectPacket) -> nat {
    opt_user_props_len(p.user_properties)
        + (if p.session_expiry_interval_seconds is Some { 5nat } else { 0 }) + (if p.receive_maximum is Some { 3nat } else { 0 })
        + (if p.maximum_packet_size_bytes is Some { 5nat } else { 0 }) + (if p.topic_alias_maximum is Some { 3nat } else { 0 })
        + (if p.request_response_information is Some { 2nat } else { 0 }) + (if p.request_problem_information is Some { 2nat } else { 0 })
        + opt_strprop_len(p.authentication_method) + opt_binprop_len(p.authentication_data)
}
pub open spec fn will_props_len(p: ConnectPacket) -> nat {
    match p.will {
        Some(will) => opt_user_props_len(will.user_properties)
            + (if p.will_delay_interval_seconds is Some { 5nat } else { 0 }) + (if will.payload_format is Some { 2nat } else { 0 })
            + (if will.message_expiry_interval_seconds is Some { 5nat } else { 0 })
            + opt_strprop_len(will.content_type) + opt_strprop_len(will.response_topic) + opt_binprop_len(will.correlation_data),
        None => 0,
    }
}
// payload (3.1.3): client id, [will properties, will topic, will payload], [user name], [password] - each length-prefixed
pub open spec fn connect_payload_len(p: ConnectPacket, v5: bool) -> nat {
    2 + opt_str_len(p.client_id)
        + (match p.will { Some(will) => (if v5 { vli_len(will_props_len(p)) + will_props_len(p) } else { 0 }) + 2 + blen(will.topic@) + 2 + opt_bin_len(will.payload), None => 0 })
        + (match p.username { Some(u) => 2 + blen(u@), None => 0 }) + (match p.password { Some(pw) => 2 + pw@.len(), None => 0 })
}
pub open spec fn connect_remaining_len(p: ConnectPacket, v5: bool) -> nat {
    10 + (if v5 { vli_len(connect_props_len(p)) + connect_props_len(p) } else { 0 }) + connect_payload_len(p, v5)
}
// A-MEM: no single field of a CONNECT is larger than 2^56 bytes (a usize sum of at most a dozen of them cannot wrap)
pub open spec fn connect_fields_fit(p: ConnectPacket) -> bool {
    &&& opt_str_len(p.client_id) <= 0x100000000000000 && opt_str_len(p.username) <= 0x100000000000000 && opt_bin_len(p.password) <= 0x100000000000000
    &&& opt_str_len(p.authentication_method) <= 0x100000000000000 && opt_bin_len(p.authentication_data) <= 0x100000000000000
    &&& ups_ok(p.user_properties) && (p.user_properties matches Some(ps) ==> count_ok(ps@.len()))
    &&& (p.will matches Some(will) ==> blen(will.topic@) <= 0x100000000000000 && opt_bin_len(will.payload) <= 0x100000000000000
            && opt_str_len(will.content_type) <= 0x100000000000000 && opt_str_len(will.response_topic) <= 0x100000000000000 && opt_bin_len(will.correlation_data) <= 0x100000000000000
            && ups_ok(will.user_properties) && (will.user_properties matches Some(ps) ==> count_ok(ps@.len())))
}

//@fn gneiss-mqtt/src/mqtt/connect.rs compute_connect_packet_length_properties5 props=C02
//@@attr #[verifier::rlimit(300)]
//@@attr #[verifier::spinoff_prover]
    requires connect_fields_fit(*packet),
    ensures
        r matches Ok((rem, props, wprops)) ==> rem == connect_remaining_len(*packet, true) && props == connect_props_len(*packet) && wprops == will_props_len(*packet) && rem <= 268435455,
        connect_remaining_len(*packet, true) <= 268435455 ==> r is Ok,
//@@at bodystart
    proof {
        if packet.user_properties is Some { lemma_user_props_len_bound(packet.user_properties->Some_0@, packet.user_properties->Some_0@.len()); }
        if packet.will is Some && packet.will->Some_0.user_properties is Some { lemma_user_props_len_bound(packet.will->Some_0.user_properties->Some_0@, packet.will->Some_0.user_properties->Some_0@.len()); }
    }
//@@at before "let mut variable_header_length = compute_variable_length_integer_encode_size(connect_property_section_length)?;"
    proof { assert(connect_property_section_length == connect_props_len(*packet)); assert(connect_property_section_length <= 16777216 * 131075 + 0x200000000000100); }
//@@at before "let mut payload_length : usize = 0;"
    let ghost vh = variable_header_length;
    proof { assert(vh == 10 + vli_len(connect_props_len(*packet)) + connect_props_len(*packet)); }
//@@at before "let will_properties_length_encode_size = compute_variable_length_integer_encode_size(will_property_length)?;"
        proof { assert(will_property_length == will_props_len(*packet)); assert(payload_length == 2 + opt_str_len(packet.client_id)); }
//@@at before "if let Some(username) = &packet.username {"
    let ghost pl1 = payload_length;
    proof {
        assert(pl1 == 2 + opt_str_len(packet.client_id) + (match packet.will { Some(will) => vli_len(will_props_len(*packet)) + will_props_len(*packet) + 2 + blen(will.topic@) + 2 + opt_bin_len(will.payload), None => 0 }));
        assert(packet.will is None ==> will_property_length == 0 && will_props_len(*packet) == 0);
    }
//@@at before "let total_remaining_length : usize = payload_length + variable_header_length;"
    proof { assert(payload_length == connect_payload_len(*packet, true)); }
//@end

//@fn gneiss-mqtt/src/mqtt/connect.rs compute_connect_packet_length_properties311 props=C02
    requires connect_fields_fit(*packet),
    ensures
        r matches Ok(rem) ==> rem == connect_remaining_len(*packet, false) && rem <= 268435455,
        connect_remaining_len(*packet, false) <= 268435455 ==> r is Ok,
//@end

// =====================================================================================================
// DISCONNECT (MQTT5 3.14): reason code and property section may be omitted (3.14.2.1 / 3.14.2.2.1)
// =====================================================================================================
pub open spec fn opt_str_prop_len(o: Option<String>) -> nat { match o { Some(s) => 3 + blen(s@), None => 0 } }
pub open spec fn disconnect_props_len(p: DisconnectPacket) -> nat {
    opt_user_props_len(p.user_properties) + (if p.session_expiry_interval_seconds is Some { 5nat } else { 0nat }) + opt_str_prop_len(p.reason_string) + opt_str_prop_len(p.server_reference)
}
pub open spec fn disconnect_remaining_len(p: DisconnectPacket) -> nat {
    if disconnect_props_len(p) == 0 { if p.reason_code == DisconnectReasonCode::NormalDisconnection { 0 } else { 1 } }
    else { 1 + vli_len(disconnect_props_len(p)) + disconnect_props_len(p) }
}

//@fn gneiss-mqtt/src/mqtt/disconnect.rs compute_disconnect_packet_length_properties props=C02,C16
    requires ups_ok(packet.user_properties), opt_str_ok(packet.reason_string), opt_str_ok(packet.server_reference),
        packet.user_properties matches Some(ps) ==> count_ok(ps@.len()),
    ensures
        r matches Ok((rem, props)) ==> props == disconnect_props_len(*packet) && rem == disconnect_remaining_len(*packet) && props <= 268435455,
        disconnect_props_len(*packet) <= 268435455 ==> r is Ok,
//@@at before "if disconnect_property_section_length == 0 {"
        proof {
            if packet.user_properties is Some { lemma_user_props_len_bound(packet.user_properties->Some_0@, packet.user_properties->Some_0@.len()); }
        }
//@end

pub open spec fn disconnect_static_ok(p: DisconnectPacket) -> bool {
    opt_str_ok(p.reason_string) && ups_ok(p.user_properties) && opt_str_ok(p.server_reference)
}

//@fn gneiss-mqtt/src/mqtt/disconnect.rs validate_disconnect_packet_outbound props=C16
    ensures r is Ok <==> disconnect_static_ok(*packet),
//@end

//@fn gneiss-mqtt/src/mqtt/disconnect.rs validate_disconnect_packet_outbound_internal props=C16
    requires context.negotiated_settings is Some, disconnect_static_ok(*packet),
        packet.user_properties matches Some(ps) ==> count_ok(ps@.len()),
    ensures
        ({
            let st = *context.negotiated_settings->Some_0;
            let rem = disconnect_remaining_len(*packet);
            // [MQTT-3.14.2-2]: a zero Session Expiry Interval in CONNECT (absent = 0) forbids a non-zero one in DISCONNECT
            let connect_sei: u32 = match context.connect_options { Some(c) => (match c.session_expiry_interval_seconds { Some(v) => v, None => 0 }), None => 0 };
            r is Ok <==> (disconnect_props_len(*packet) <= 268435455 && rem <= 268435455 && 1 + rem + vli_len(rem) <= st.maximum_packet_size_to_server
                && !(connect_sei == 0 && (packet.session_expiry_interval_seconds matches Some(v) && v > 0)))
        }),
//@end

// =====================================================================================================
// the dispatcher applied at the public submit entry points (C16 "at submission for static rules")
// =====================================================================================================
// validators of packets the application never submits (AUTH, CONNECT, the client's own acknowledgements): assumed signatures
// (the ack validators are macro-generated), no contract - the dispatcher's contract says nothing about those kinds
#[verifier::external_body] pub fn validate_auth_packet_outbound(packet: &AuthPacket) -> GneissResult<()> { unimplemented!() }
#[verifier::external_body] pub fn validate_connect_packet_outbound(packet: &ConnectPacket) -> GneissResult<()> { unimplemented!() }
#[verifier::external_body] pub fn validate_puback_packet_outbound(packet: &PubackPacket) -> GneissResult<()> { unimplemented!() }
#[verifier::external_body] pub fn validate_pubrec_packet_outbound(packet: &PubrecPacket) -> GneissResult<()> { unimplemented!() }
#[verifier::external_body] pub fn validate_pubrel_packet_outbound(packet: &PubrelPacket) -> GneissResult<()> { unimplemented!() }
#[verifier::external_body] pub fn validate_pubcomp_packet_outbound(packet: &PubcompPacket) -> GneissResult<()> { unimplemented!() }

//@fn gneiss-mqtt/src/validate.rs validate_packet_outbound props=C16
    ensures
        // every kind of operation the application can submit is routed to ITS static rules
        packet matches MqttPacket::Publish(p) ==> (r is Ok <==> publish_static_ok(*p)),
        packet matches MqttPacket::Subscribe(p) ==> (r is Ok <==> subscribe_static_ok(*p)),
        packet matches MqttPacket::Unsubscribe(p) ==> (r is Ok <==> unsubscribe_static_ok(*p)),
        packet matches MqttPacket::Disconnect(p) ==> (r is Ok <==> disconnect_static_ok(*p)),
        // packets only a server sends are refused
        (packet is Connack || packet is Suback || packet is Unsuback || packet is Pingresp) ==> r is Err,
//@end

#[verifier::external_body] pub fn validate_auth_packet_outbound_internal(packet: &AuthPacket, context: &OutboundValidationContext) -> GneissResult<()> { unimplemented!() }
#[verifier::external_body] pub fn validate_puback_packet_outbound_internal(packet: &PubackPacket, context: &OutboundValidationContext) -> GneissResult<()> { unimplemented!() }
#[verifier::external_body] pub fn validate_pubrec_packet_outbound_internal(packet: &PubrecPacket, context: &OutboundValidationContext) -> GneissResult<()> { unimplemented!() }
#[verifier::external_body] pub fn validate_pubrel_packet_outbound_internal(packet: &PubrelPacket, context: &OutboundValidationContext) -> GneissResult<()> { unimplemented!() }
#[verifier::external_body] pub fn validate_pubcomp_packet_outbound_internal(packet: &PubcompPacket, context: &OutboundValidationContext) -> GneissResult<()> { unimplemented!() }

// the last-chance check when an operation is dequeued (C16 "at send time for connection-dependent limits"): each kind is routed to ITS
// connection-dependent rules; the preconditions are what the submit-time validation has already established
//@fn gneiss-mqtt/src/validate.rs validate_packet_outbound_internal props=C16
    requires context.negotiated_settings is Some,
        packet matches MqttPacket::Publish(p) ==> publish_static_ok(*p) && (p.user_properties matches Some(ps) ==> count_ok(ps@.len())) && p.subscription_identifiers is None
            && (p.payload matches Some(b) ==> b@.len() <= 9223372036854775807),
        packet matches MqttPacket::Subscribe(p) ==> ups_ok(p.user_properties) && subs_ok(p.subscriptions@) && count_ok(p.subscriptions@.len()) && (p.user_properties matches Some(ps) ==> count_ok(ps@.len())),
        packet matches MqttPacket::Unsubscribe(p) ==> ups_ok(p.user_properties) && filters_ok(p.topic_filters@) && count_ok(p.topic_filters@.len()) && (p.user_properties matches Some(ps) ==> count_ok(ps@.len())),
        packet matches MqttPacket::Disconnect(p) ==> disconnect_static_ok(*p) && (p.user_properties matches Some(ps) ==> count_ok(ps@.len())),
    ensures
        packet is Connect || packet is Pingreq ==> r is Ok,
        (packet is Connack || packet is Suback || packet is Unsuback || packet is Pingresp) ==> r is Err,
        packet matches MqttPacket::Unsubscribe(p) ==> ({
            let st = *context.negotiated_settings->Some_0; let rem = unsubscribe_remaining_len(*p);
            r is Ok <==> (rem <= 268435455 && 1 + rem + vli_len(rem) <= st.maximum_packet_size_to_server && p.packet_id != 0
                && (forall|i: int| 0 <= i < p.topic_filters@.len() ==> filter_allowed((#[trigger] p.topic_filters@[i])@, st, None))) }),
        packet matches MqttPacket::Publish(p) ==> ({
            let st = *context.negotiated_settings->Some_0;
            let res = match context.outbound_alias_resolution { Some(x) => x, None => OutboundAliasResolution { skip_topic: false, alias: None } };
            let rem = publish_remaining_len(*p, res);
            r is Ok <==> (rem <= 268435455 && 1 + rem + vli_len(rem) <= st.maximum_packet_size_to_server
                && qos_le(p.qos, st.maximum_qos) && (p.retain ==> st.retain_available) && (p.qos != QualityOfService::AtMostOnce ==> p.packet_id != 0)) }),
//@end
} // verus!
fn main() {}
