// U-ws: WebSocket message framing -> byte stream adapter (client/synchronous/threaded/ws_stream.rs), C13
//@include base.vt.rs
//@include types_mqtt.vt.rs
verus! {

// ---- trusted shims for tungstenite (0.20): Message, WebSocket<T>::read, Error, and std::io::Error.
// WebSocket::read() is modelled by a ghost queue of the messages still to arrive: Ok(m) pops the head.
pub enum Message { Text(String), Binary(Vec<u8>), Ping(Vec<u8>), Pong(Vec<u8>), Close(u8), Frame(u8) }
#[verifier::external_body]
pub struct TError { e: u8 }
#[verifier::external_body]
pub struct IoError { e: u8 }
pub enum ErrorKind { WouldBlock, Other }
impl IoError {
    #[verifier::external_body]
    pub fn new(kind: ErrorKind, msg: &str) -> IoError { unimplemented!() }
}
pub mod std_io_shim { }
#[verifier::external_body]
#[verifier::reject_recursive_types(T)]
pub struct WebSocket<T> { s: T }
pub uninterp spec fn would_block(e: TError) -> bool;
impl<T> WebSocket<T> {
    pub uninterp spec fn incoming(&self) -> Seq<Message>;
    #[verifier::external_body]
    pub fn read(&mut self) -> (r: Result<Message, TError>)
        ensures match r {
            Ok(m) => old(self).incoming().len() > 0 && m == old(self).incoming()[0] && final(self).incoming() == old(self).incoming().subrange(1, old(self).incoming().len() as int),
            Err(_) => final(self).incoming() == old(self).incoming(),
        }
    { unimplemented!() }
}
#[verifier::external_body]
pub fn map_tungstenite_error_to_io_error(error: TError) -> IoError { unimplemented!() }
#[verifier::external_body]
pub fn is_tungstenite_error_would_block(error: &TError) -> (r: bool) ensures r == would_block(*error) { unimplemented!() }

// String::into_bytes: the UTF-8 bytes of the text (opaque here)
pub uninterp spec fn text_bytes(s: String) -> Seq<u8>;
pub assume_specification [String::into_bytes] (s: String) -> (r: Vec<u8>) ensures r@ == text_bytes(s);

//@struct gneiss-mqtt/src/client/synchronous/threaded/ws_stream.rs MessageCursor

// payload bytes a message contributes to the MQTT byte stream (C13: "the byte stream is the concatenation of binary
// message payloads"; text payloads are passed through, control frames contribute nothing)
pub open spec fn payload(m: Message) -> Seq<u8> {
    match m { Message::Text(s) => text_bytes(s), Message::Binary(v) => v@, _ => Seq::<u8>::empty() }
}
pub open spec fn cursor_remaining(c: MessageCursor) -> Seq<u8> { c.data@.subrange(c.index as int, c.data@.len() as int) }
pub open spec fn cursor_wf(c: MessageCursor) -> bool { c.index <= c.data@.len() }

impl MessageCursor {
//@fn gneiss-mqtt/src/client/synchronous/threaded/ws_stream.rs MessageCursor::new props=C13
    ensures match r {
        Some(c) => (message is Text || message is Binary) && c.index == 0 && c.data@ == payload(message),
        None => !(message is Text || message is Binary),
    },
//@end

//@fn gneiss-mqtt/src/client/synchronous/threaded/ws_stream.rs MessageCursor::read props=C13,C11
    requires cursor_wf(*old(self)),
    ensures cursor_wf(*final(self)),
        final(self).data@ == old(self).data@,
        // hands over the next min(remaining, dest.len()) payload bytes, in order, exactly once
        r == (if old(self).data@.len() - old(self).index <= old(dest)@.len() { old(self).data@.len() - old(self).index } else { old(dest)@.len() as int }),
        final(self).index == old(self).index + r,
        final(dest)@.len() == old(dest)@.len(),
        final(dest)@.subrange(0, r as int) == old(self).data@.subrange(old(self).index as int, old(self).index + r),
        final(dest)@.subrange(r as int, old(dest)@.len() as int) == old(dest)@.subrange(r as int, old(dest)@.len() as int),
//@end
}

} // verus!
fn main() {}
