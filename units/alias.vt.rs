// U-alias: topic alias resolvers (gneiss-mqtt/src/alias.rs), C17
//@include base.vt.rs
//@include types_mqtt.vt.rs
verus! {

// assumed std specification (std docs): String == str compares the text
pub assume_specification [<String as PartialEq<str>>::eq] (a: &String, b: &str) -> (r: bool) ensures r == (a@ == b@);

//@struct gneiss-mqtt/src/alias.rs OutboundAliasResolution defaultspec
//@struct gneiss-mqtt/src/alias.rs InboundAliasResolver
//@struct gneiss-mqtt/src/alias.rs ManualOutboundAliasResolver
//@struct gneiss-mqtt/src/alias.rs NullOutboundAliasResolver

// abstract view: alias -> topic text currently bound on this connection
pub open spec fn bindings(m: Map<u16, String>) -> Map<u16, Seq<char>> { m.map_values(|s: String| s@) }

impl InboundAliasResolver {
//@fn gneiss-mqtt/src/alias.rs InboundAliasResolver::reset_for_new_connection props=C17
    // bindings never survive a reconnect
    ensures final(self).current_aliases@ == Map::<u16, String>::empty(), final(self).maximum_alias_value == old(self).maximum_alias_value,
//@end

//@fn gneiss-mqtt/src/alias.rs InboundAliasResolver::resolve_topic_alias props=C17,C11
    ensures
        final(self).maximum_alias_value == old(self).maximum_alias_value,
        match *alias {
            None => r is Ok && final(topic)@ == old(topic)@ && final(self).current_aliases@ == old(self).current_aliases@,
            Some(a) => {
                if old(topic)@.len() == 0 {
                    // empty topic: surfaced with the topic most recently bound to that alias, else the connection fails
                    if old(self).current_aliases@.contains_key(a) {
                        r is Ok && final(topic)@ == old(self).current_aliases@[a]@ && final(self).current_aliases@ == old(self).current_aliases@
                    } else {
                        (r matches Err(e) && e.kind() == GErrKind::InvalidInboundTopicAlias) && final(self).current_aliases@ == old(self).current_aliases@ && final(topic)@ == old(topic)@
                    }
                } else if a == 0 || a > old(self).maximum_alias_value {
                    // zero / out-of-range alias fails the connection; nothing is bound
                    (r matches Err(e) && e.kind() == GErrKind::InvalidInboundTopicAlias) && final(self).current_aliases@ == old(self).current_aliases@ && final(topic)@ == old(topic)@
                } else {
                    // (re)binding
                    r is Ok && final(topic)@ == old(topic)@ && final(self).current_aliases@.dom() =~= old(self).current_aliases@.dom().insert(a)
                        && final(self).current_aliases@[a]@ == old(topic)@
                        && (forall|k: u16| k != a && old(self).current_aliases@.contains_key(k) ==> final(self).current_aliases@[k] == old(self).current_aliases@[k])
                }
            }
        },
//@end
}

impl ManualOutboundAliasResolver {
//@fn gneiss-mqtt/src/alias.rs ManualOutboundAliasResolver::resolve_topic_alias props=C17
    ensures
        // empty topic only together with an alias currently bound to exactly that topic
        r.skip_topic ==> (r.alias matches Some(a) && self.current_aliases@.contains_key(a) && self.current_aliases@[a]@ == topic@ && *alias == Some(a)),
        // never 0, never above the server's Topic Alias Maximum (for a new binding)
        (r.alias is Some && !r.skip_topic) ==> ({ let a = r.alias->Some_0; a > 0 && a <= self.maximum_alias_value && *alias == Some(a) }),
        *alias is None ==> r.alias is None && !r.skip_topic,
//@end

//@fn gneiss-mqtt/src/alias.rs reset_for_new_connection props=C17 impl={OutboundAliasResolver for ManualOutboundAliasResolver} as=manual_reset_for_new_connection
    ensures final(self).current_aliases@ == Map::<u16, String>::empty(), final(self).maximum_alias_value == maximum_alias_value,
//@end

//@fn gneiss-mqtt/src/alias.rs resolve_and_apply_topic_alias props=C17 impl={OutboundAliasResolver for ManualOutboundAliasResolver} as=manual_resolve_and_apply_topic_alias
    ensures
        final(self).maximum_alias_value == old(self).maximum_alias_value,
        r.skip_topic ==> (r.alias matches Some(a) && old(self).current_aliases@.contains_key(a) && old(self).current_aliases@[a]@ == topic@),
        (r.alias is Some && !r.skip_topic) ==> ({ let a = r.alias->Some_0; a > 0 && a <= old(self).maximum_alias_value }),
        // the table stays in step with what is put on the wire: a non-skipped alias is (re)bound to this topic, nothing else changes
        (r.alias is Some && !r.skip_topic) ==> ({ let a = r.alias->Some_0; final(self).current_aliases@.dom() =~= old(self).current_aliases@.dom().insert(a)
            && final(self).current_aliases@[a]@ == topic@
            && (forall|k: u16| k != a && old(self).current_aliases@.contains_key(k) ==> final(self).current_aliases@[k] == old(self).current_aliases@[k]) }),
        (r.alias is None || r.skip_topic) ==> final(self).current_aliases@ == old(self).current_aliases@,
        // a maximum of 0 means no alias is ever used
        old(self).maximum_alias_value == 0 && old(self).current_aliases@.dom() =~= Set::<u16>::empty() ==> r.alias is None,
//@end
}

impl NullOutboundAliasResolver {
//@fn gneiss-mqtt/src/alias.rs resolve_and_apply_topic_alias props=C17 impl={OutboundAliasResolver for NullOutboundAliasResolver} as=null_resolve_and_apply_topic_alias
    ensures r.alias is None, !r.skip_topic,
//@end
}

} // verus!
fn main() {}
