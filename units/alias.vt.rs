// U-alias: topic alias resolvers (gneiss-mqtt/src/alias.rs), C17
//@include base.vt.rs
//@include types_mqtt.vt.rs
verus! {

// assumed std specification (std docs): String == str compares the text
pub assume_specification [<String as PartialEq<str>>::eq] (a: &String, b: &str) -> (r: bool) ensures r == (a@ == b@);

//@struct gneiss-mqtt/src/alias.rs OutboundAliasResolution defaultspec
//@struct gneiss-mqtt/src/alias.rs InboundAliasResolver
//@struct gneiss-mqtt/src/alias.rs ManualOutboundAliasResolver
//@struct gneiss-mqtt/src/alias.rs NullOutboundAliasResolver

// abstract view: alias -> topic text currently bound on this connection
pub open spec fn bindings(m: Map<u16, String>) -> Map<u16, Seq<char>> { m.map_values(|s: String| s@) }

impl InboundAliasResolver {
//@fn gneiss-mqtt/src/alias.rs InboundAliasResolver::reset_for_new_connection props=C17
    // bindings never survive a reconnect
    ensures final(self).current_aliases@ == Map::<u16, String>::empty(), final(self).maximum_alias_value == old(self).maximum_alias_value,
//@end

//@fn gneiss-mqtt/src/alias.rs InboundAliasResolver::resolve_topic_alias props=C17,C11
    ensures
        final(self).maximum_alias_value == old(self).maximum_alias_value,
        match *alias {
            None => r is Ok && final(topic)@ == old(topic)@ && final(self).current_aliases@ == old(self).current_aliases@,
            Some(a) => {
                if old(topic)@.len() == 0 {
                    // empty topic: surfaced with the topic most recently bound to that alias, else the connection fails
                    if old(self).current_aliases@.contains_key(a) {
                        r is Ok && final(topic)@ == old(self).current_aliases@[a]@ && final(self).current_aliases@ == old(self).current_aliases@
                    } else {
                        (r matches Err(e) && e.kind() == GErrKind::InvalidInboundTopicAlias) && final(self).current_aliases@ == old(self).current_aliases@ && final(topic)@ == old(topic)@
                    }
                } else if a == 0 || a > old(self).maximum_alias_value {
                    // zero / out-of-range alias fails the connection; nothing is bound
                    (r matches Err(e) && e.kind() == GErrKind::InvalidInboundTopicAlias) && final(self).current_aliases@ == old(self).current_aliases@ && final(topic)@ == old(topic)@
                } else {
                    // (re)binding
                    r is Ok && final(topic)@ == old(topic)@ && final(self).current_aliases@.dom() =~= old(self).current_aliases@.dom().insert(a)
                        && final(self).current_aliases@[a]@ == old(topic)@
                        && (forall|k: u16| k != a && old(self).current_aliases@.contains_key(k) ==> final(self).current_aliases@[k] == old(self).current_aliases@[k])
                }
            }
        },
//@end
}

impl ManualOutboundAliasResolver {
//@fn gneiss-mqtt/src/alias.rs ManualOutboundAliasResolver::resolve_topic_alias props=C17
    ensures
        // empty topic only together with an alias currently bound to exactly that topic
        r.skip_topic ==> (r.alias matches Some(a) && self.current_aliases@.contains_key(a) && self.current_aliases@[a]@ == topic@ && *alias == Some(a)),
        // never 0, never above the server's Topic Alias Maximum (for a new binding)
        (r.alias is Some && !r.skip_topic) ==> ({ let a = r.alias->Some_0; a > 0 && a <= self.maximum_alias_value && *alias == Some(a) }),
        *alias is None ==> r.alias is None && !r.skip_topic,
//@end

//@fn gneiss-mqtt/src/alias.rs reset_for_new_connection props=C17 impl={OutboundAliasResolver for ManualOutboundAliasResolver} as=manual_reset_for_new_connection
    ensures final(self).current_aliases@ == Map::<u16, String>::empty(), final(self).maximum_alias_value == maximum_alias_value,
//@end

//@fn gneiss-mqtt/src/alias.rs resolve_and_apply_topic_alias props=C17 impl={OutboundAliasResolver for ManualOutboundAliasResolver} as=manual_resolve_and_apply_topic_alias
    ensures
        final(self).maximum_alias_value == old(self).maximum_alias_value,
        r.skip_topic ==> (r.alias matches Some(a) && old(self).current_aliases@.contains_key(a) && old(self).current_aliases@[a]@ == topic@),
        (r.alias is Some && !r.skip_topic) ==> ({ let a = r.alias->Some_0; a > 0 && a <= old(self).maximum_alias_value }),
        // the table stays in step with what is put on the wire: a non-skipped alias is (re)bound to this topic, nothing else changes
        (r.alias is Some && !r.skip_topic) ==> ({ let a = r.alias->Some_0; final(self).current_aliases@.dom() =~= old(self).current_aliases@.dom().insert(a)
            && final(self).current_aliases@[a]@ == topic@
            && (forall|k: u16| k != a && old(self).current_aliases@.contains_key(k) ==> final(self).current_aliases@[k] == old(self).current_aliases@[k]) }),
        (r.alias is None || r.skip_topic) ==> final(self).current_aliases@ == old(self).current_aliases@,
        // a maximum of 0 means no alias is ever used
        old(self).maximum_alias_value == 0 && old(self).current_aliases@.dom() =~= Set::<u16>::empty() ==> r.alias is None,
//@end
}

impl NullOutboundAliasResolver {
//@fn gneiss-mqtt/src/alias.rs resolve_and_apply_topic_alias props=C17 impl={OutboundAliasResolver for NullOutboundAliasResolver} as=null_resolve_and_apply_topic_alias
    ensures r.alias is None, !r.skip_topic,
//@end
}

// =====================================================================================================
// the LRU outbound resolver (C17). `lru::LruCache` is a dependency: R6 shim with the documented behaviour of the methods used
// (lru 0.12 docs) as assumed specifications. View: the entries from least to most recently used.
// =====================================================================================================
#[verifier::external_body]
#[verifier::reject_recursive_types(K)]
#[verifier::reject_recursive_types(V)]
pub struct LruCache<K, V> { k: core::marker::PhantomData<K>, v: core::marker::PhantomData<V> }
impl LruCache<String, u16> {
    pub uninterp spec fn view(&self) -> Seq<(Seq<char>, u16)>;
    pub uninterp spec fn cap(&self) -> nat;
    // "Returns the number of key-value pairs that are currently in the cache."
    #[verifier::external_body] pub fn len(&self) -> (r: usize) ensures r == self@.len() { unimplemented!() }
    // "Returns a reference to the value corresponding to the key in the cache or None ... Unlike get, peek does not update the LRU list"
    #[verifier::external_body] pub fn peek(&self, k: &str) -> (r: Option<&u16>)
        ensures match r { Some(v) => exists|i: int| 0 <= i < self@.len() && #[trigger] self@[i] == (k@, *v), None => forall|i: int| 0 <= i < self@.len() ==> (#[trigger] self@[i]).0 != k@ }
    { unimplemented!() }
    // "Returns the value corresponding to the least recently used item or None if the cache is empty ... does not update the LRU list"
    #[verifier::external_body] pub fn peek_lru(&self) -> (r: Option<(&String, &u16)>)
        ensures match r { Some((k, v)) => self@.len() > 0 && self@[0] == (k@, *v), None => self@.len() == 0 }
    { unimplemented!() }
    // "Marks the key as the most recently used one."
    #[verifier::external_body] pub fn promote(&mut self, k: &str)
        ensures final(self).cap() == old(self).cap(),
            (forall|i: int| 0 <= i < old(self)@.len() ==> (#[trigger] old(self)@[i]).0 != k@) ==> final(self)@ == old(self)@,
            forall|i: int| 0 <= i < old(self)@.len() && (#[trigger] old(self)@[i]).0 == k@ ==> final(self)@ == old(self)@.remove(i).push(old(self)@[i]),
    { unimplemented!() }
    // "Removes and returns the key and value corresponding to the least recently used item or None if the cache is empty."
    #[verifier::external_body] pub fn pop_lru(&mut self) -> (r: Option<(String, u16)>)
        ensures final(self).cap() == old(self).cap(),
            old(self)@.len() == 0 ==> r is None && final(self)@ == old(self)@,
            old(self)@.len() > 0 ==> final(self)@ == old(self)@.subrange(1, old(self)@.len() as int) && (r matches Some((k, v)) && (k@, v) == old(self)@[0]),
    { unimplemented!() }
    // "Pushes a key-value pair into the cache. If an entry with key k already exists ... it updates its value [and makes it most recently used].
    //  Otherwise, if the cache is full, evicts the least recently used entry."
    #[verifier::external_body] pub fn push(&mut self, k: String, v: u16) -> (r: Option<(String, u16)>)
        ensures final(self).cap() == old(self).cap(),
            forall|i: int| 0 <= i < old(self)@.len() && (#[trigger] old(self)@[i]).0 == k@ ==> final(self)@ == old(self)@.remove(i).push((k@, v)),
            (forall|i: int| 0 <= i < old(self)@.len() ==> (#[trigger] old(self)@[i]).0 != k@) ==>
                final(self)@ == (if old(self)@.len() >= old(self).cap() { old(self)@.subrange(1, old(self)@.len() as int) } else { old(self)@ }).push((k@, v)),
    { unimplemented!() }
    // "Clears the contents of the cache."
    #[verifier::external_body] pub fn clear(&mut self) ensures final(self)@ == Seq::<(Seq<char>, u16)>::empty(), final(self).cap() == old(self).cap() { unimplemented!() }
}
// the data-structure invariant of the crate (a key occurs once, never more entries than the capacity): assumed
#[verifier::external_body]
pub proof fn axiom_lru_cache(c: &LruCache<String, u16>)
    ensures c@.len() <= c.cap(), forall|i: int, j: int| 0 <= i < j < c@.len() ==> (#[trigger] c@[i]).0 != (#[trigger] c@[j]).0,
{}

//@struct gneiss-mqtt/src/alias.rs LruOutboundAliasResolver

// what the server has been told on this connection, as far as this resolver knows: "alias a stands for topic t"
pub open spec fn told(c: Seq<(Seq<char>, u16)>, a: u16, t: Seq<char>) -> bool { exists|i: int| 0 <= i < c.len() && #[trigger] c[i] == (t, a) }
// moving one entry to the most-recently-used end tells the server nothing new
pub proof fn lemma_told_promote(s: Seq<(Seq<char>, u16)>, i: int)
    requires 0 <= i < s.len(),
    ensures forall|a: u16, t: Seq<char>| told(s.remove(i).push(s[i]), a, t) <==> told(s, a, t),
{
    let s2 = s.remove(i).push(s[i]);
    assert forall|a: u16, t: Seq<char>| told(s2, a, t) <==> told(s, a, t) by {
        if told(s, a, t) {
            let j = choose|j: int| 0 <= j < s.len() && #[trigger] s[j] == (t, a);
            if j < i { assert(s2[j] == (t, a)); } else if j == i { assert(s2[s2.len() - 1] == (t, a)); } else { assert(s2[j - 1] == (t, a)); }
        }
        if told(s2, a, t) {
            let j = choose|j: int| 0 <= j < s2.len() && #[trigger] s2[j] == (t, a);
            if j < i { assert(s[j] == (t, a)); } else if j == s2.len() - 1 { assert(s[i] == (t, a)); } else { assert(s[j + 1] == (t, a)); }
        }
    }
}
// appending a binding whose alias is not in use
pub proof fn lemma_told_push(s: Seq<(Seq<char>, u16)>, s2: Seq<(Seq<char>, u16)>, t0: Seq<char>, a0: u16)
    requires forall|i: int| 0 <= i < s.len() ==> (#[trigger] s[i]).1 != a0, s2 == s.push((t0, a0)),
    ensures forall|a: u16, t: Seq<char>| #[trigger] told(s2, a, t) <==> ((a == a0 && t == t0) || (a != a0 && told(s, a, t))),
{
    assert forall|a: u16, t: Seq<char>| told(s2, a, t) <==> ((a == a0 && t == t0) || (a != a0 && told(s, a, t))) by {
        if a == a0 && t == t0 { assert(s2[s.len() as int] == (t, a)); }
        if a != a0 && told(s, a, t) { let j = choose|j: int| 0 <= j < s.len() && #[trigger] s[j] == (t, a); assert(s2[j] == (t, a)); }
        if told(s2, a, t) { let j = choose|j: int| 0 <= j < s2.len() && #[trigger] s2[j] == (t, a); if j < s.len() { assert(s[j] == (t, a)); } }
    }
}
// dropping the least recently used entry forgets exactly its binding (aliases are pairwise distinct)
pub proof fn lemma_told_drop_first(s: Seq<(Seq<char>, u16)>, s1: Seq<(Seq<char>, u16)>)
    requires s.len() > 0, forall|i: int, j: int| 0 <= i < j < s.len() ==> (#[trigger] s[i]).1 != (#[trigger] s[j]).1, s1 == s.subrange(1, s.len() as int),
    ensures forall|a: u16, t: Seq<char>| #[trigger] told(s1, a, t) <==> (a != s[0].1 && told(s, a, t)),
{
    assert forall|a: u16, t: Seq<char>| told(s1, a, t) <==> (a != s[0].1 && told(s, a, t)) by {
        if told(s1, a, t) { let j = choose|j: int| 0 <= j < s1.len() && #[trigger] s1[j] == (t, a); assert(s[j + 1] == (t, a)); assert(s[0].1 != s[j + 1].1); }
        if a != s[0].1 && told(s, a, t) { let j = choose|j: int| 0 <= j < s.len() && #[trigger] s[j] == (t, a); assert(j >= 1); assert(s1[j - 1] == (t, a)); }
    }
}

// the aliases in use are exactly 1..=len, each once; never more than the maximum in force; the cache is large enough
pub open spec fn lru_wf(r: LruOutboundAliasResolver) -> bool {
    &&& r.cache@.len() <= r.current_maximum_alias_value && r.current_maximum_alias_value <= r.maximum_alias_value
    &&& r.cache.cap() >= r.maximum_alias_value && r.cache.cap() >= 1
    &&& forall|i: int| 0 <= i < r.cache@.len() ==> 1 <= (#[trigger] r.cache@[i]).1 <= r.cache@.len()
    &&& forall|i: int, j: int| 0 <= i < j < r.cache@.len() ==> (#[trigger] r.cache@[i]).1 != (#[trigger] r.cache@[j]).1
}

impl LruOutboundAliasResolver {
//@fn gneiss-mqtt/src/alias.rs LruOutboundAliasResolver::resolve_topic_alias props=C17,C11
    requires lru_wf(*self),
    ensures
        // never 0, never above the maximum in force; no alias at all when the server allows none
        r.alias matches Some(a) ==> 1 <= a <= self.current_maximum_alias_value,
        self.current_maximum_alias_value == 0 ==> r.alias is None && !r.skip_topic,
        self.current_maximum_alias_value > 0 ==> r.alias is Some,
        // the topic is omitted only for a topic whose binding the server was told on this connection
        r.skip_topic <==> (exists|i: int| 0 <= i < self.cache@.len() && (#[trigger] self.cache@[i]).0 == topic@) && self.current_maximum_alias_value > 0,
        r.skip_topic ==> exists|i: int| 0 <= i < self.cache@.len() && #[trigger] self.cache@[i] == (topic@, r.alias->Some_0),
        // a new binding takes the next unused alias, or recycles the least recently used one
        (r.alias is Some && !r.skip_topic) ==> (if self.cache@.len() >= self.current_maximum_alias_value { r.alias->Some_0 == self.cache@[0].1 } else { r.alias->Some_0 == self.cache@.len() + 1 }),
//@end

//@fn gneiss-mqtt/src/alias.rs reset_for_new_connection props=C17 impl={OutboundAliasResolver for LruOutboundAliasResolver} as=lru_reset_for_new_connection
    requires old(self).cache.cap() >= old(self).maximum_alias_value, old(self).cache.cap() >= 1,
    // bindings never survive a reconnect; the maximum in force is the smaller of the configured size and the server's Topic Alias Maximum
    ensures lru_wf(*final(self)), final(self).cache@.len() == 0,
        final(self).current_maximum_alias_value == (if maximum_alias_value < old(self).maximum_alias_value { maximum_alias_value } else { old(self).maximum_alias_value }),
        final(self).maximum_alias_value == old(self).maximum_alias_value,
//@end

//@fn gneiss-mqtt/src/alias.rs resolve_and_apply_topic_alias props=C17,C11 impl={OutboundAliasResolver for LruOutboundAliasResolver} as=lru_resolve_and_apply_topic_alias
    requires lru_wf(*old(self)),
    ensures lru_wf(*final(self)),
        r.alias matches Some(a) ==> 1 <= a <= old(self).current_maximum_alias_value,
        old(self).current_maximum_alias_value == 0 ==> r.alias is None && !r.skip_topic,
        r.skip_topic ==> (r.alias is Some && told(old(self).cache@, r.alias->Some_0, topic@)),
        // the resolver's alias table changes exactly as the server's does when it receives this publish: unchanged when the topic is
        // omitted or no alias is used, otherwise the alias is (re)bound to this topic and every other binding is kept
        (r.alias is None || r.skip_topic) ==> (forall|a: u16, t: Seq<char>| told(final(self).cache@, a, t) <==> told(old(self).cache@, a, t)),
        (r.alias is Some && !r.skip_topic) ==> (forall|a: u16, t: Seq<char>| told(final(self).cache@, a, t) <==>
            ((a == r.alias->Some_0 && t == topic@) || (a != r.alias->Some_0 && told(old(self).cache@, a, t)))),
        final(self).current_maximum_alias_value == old(self).current_maximum_alias_value, final(self).maximum_alias_value == old(self).maximum_alias_value,
//@@at bodystart
        proof { axiom_lru_cache(&self.cache); }
//@@at before "self.cache.promote(topic);"
            proof {
                let i0 = choose|i: int| 0 <= i < self.cache@.len() && #[trigger] self.cache@[i] == (topic@, resolution.alias->Some_0);
                lemma_told_promote(self.cache@, i0);
                // the key occurs once: promote moves exactly that entry
                assert forall|i: int| 0 <= i < self.cache@.len() && (#[trigger] self.cache@[i]).0 == topic@ implies i == i0 by {}
            }
//@@at after "self.cache.promote(topic);"
            proof {
                let i0 = choose|i: int| 0 <= i < old(self).cache@.len() && #[trigger] old(self).cache@[i] == (topic@, resolution.alias->Some_0);
                assert(self.cache@ == old(self).cache@.remove(i0).push(old(self).cache@[i0]));
                let s2 = self.cache@; let s0 = old(self).cache@;
                assert forall|i: int| 0 <= i < s2.len() implies 1 <= (#[trigger] s2[i]).1 <= s2.len() by { if i < i0 { assert(s2[i] == s0[i]); } else if i < s2.len() - 1 { assert(s2[i] == s0[i + 1]); } else { assert(s2[i] == s0[i0]); } }
                assert forall|i: int, j: int| 0 <= i < j < s2.len() implies (#[trigger] s2[i]).1 != (#[trigger] s2[j]).1 by {
                    let oi = if i < i0 { i } else if i < s2.len() - 1 { i + 1 } else { i0 };
                    let oj = if j < i0 { j } else if j < s2.len() - 1 { j + 1 } else { i0 };
                    assert(s2[i] == s0[oi] && s2[j] == s0[oj] && oi != oj);
                }
            }
//@@at before "if self.cache.len() == self.current_maximum_alias_value as usize {"
            let ghost s0 = self.cache@;
//@@at before "let resolved_alias = resolution.alias.unwrap();"
            let ghost s1 = self.cache@;
            proof {
                if s0.len() == self.current_maximum_alias_value { assert(s1 == s0.subrange(1, s0.len() as int)); lemma_told_drop_first(s0, s1); } else { assert(s1 == s0); }
            }
//@@at after "self.cache.push(topic.to_string(), resolved_alias);"
            proof {
                let a0 = resolution.alias->Some_0;
                // the topic was not bound (else the topic would have been omitted), and the cache has room: push appends
                assert forall|i: int| 0 <= i < s1.len() implies (#[trigger] s1[i]).0 != topic@ by { if s0.len() == self.current_maximum_alias_value { assert(s1[i] == s0[i + 1]); } }
                assert(s1.len() < self.cache.cap());
                assert(self.cache@ == s1.push((topic@, a0)));
                assert forall|i: int| 0 <= i < s1.len() implies (#[trigger] s1[i]).1 != a0 by { if s0.len() == self.current_maximum_alias_value { assert(s1[i] == s0[i + 1]); assert(s0[0].1 != s0[i + 1].1); } }
                let s2 = self.cache@;
                lemma_told_push(s1, s2, topic@, a0);
                assert(s0 == old(self).cache@);
                if s0.len() == self.current_maximum_alias_value { lemma_told_drop_first(s0, s1); assert(a0 == s0[0].1); }
                assert forall|a: u16, t: Seq<char>| told(s2, a, t) <==> ((a == a0 && t == topic@) || (a != a0 && told(s0, a, t))) by {
                    assert(told(s2, a, t) <==> ((a == a0 && t == topic@) || (a != a0 && told(s1, a, t))));
                    if s0.len() == self.current_maximum_alias_value { assert(told(s1, a, t) <==> (a != s0[0].1 && told(s0, a, t))); }
                }
                assert forall|i: int| 0 <= i < s2.len() implies 1 <= (#[trigger] s2[i]).1 <= s2.len() by { if i < s1.len() { assert(s2[i] == s1[i]); if s0.len() == self.current_maximum_alias_value { assert(s1[i] == s0[i + 1]); } } }
                assert forall|i: int, j: int| 0 <= i < j < s2.len() implies (#[trigger] s2[i]).1 != (#[trigger] s2[j]).1 by {
                    if j < s1.len() { assert(s2[i] == s1[i] && s2[j] == s1[j]); if s0.len() == self.current_maximum_alias_value { assert(s1[i] == s0[i + 1] && s1[j] == s0[j + 1]); } } else { assert(s2[i] == s1[i]); }
                }
            }
//@end
}

} // verus!
fn main() {}
