#!/usr/bin/env python3
"""eb_scratch.py <dir> : prepare a persistent scratch copy of /repo with the E-B module wired in (dev helper; eb.py does the
same per run in a temp dir). Afterwards: cd <dir>/gneiss-mqtt && cargo test --offline --lib -- verif_bounded::<filter> --nocapture"""
import os, shutil, sys
VERIF = os.path.dirname(os.path.dirname(os.path.abspath(__file__)))
dst = sys.argv[1]
repo = os.environ.get('VERIF_REPO', '/repo')
os.makedirs(dst, exist_ok=True)
for c in ('gneiss-mqtt', 'gneiss-mqtt-aws'):
    if os.path.exists(os.path.join(dst, c)):
        shutil.rmtree(os.path.join(dst, c))
    shutil.copytree(os.path.join(repo, c), os.path.join(dst, c), ignore=shutil.ignore_patterns('target', 'examples'))
open(os.path.join(dst, 'Cargo.toml'), 'w').write('[workspace]\nresolver = "2"\nmembers = ["gneiss-mqtt", "gneiss-mqtt-aws"]\n')
shutil.copy(os.path.join(repo, 'Cargo.lock'), os.path.join(dst, 'Cargo.lock'))
cdir = os.path.join(dst, 'gneiss-mqtt')
mod = os.path.join(VERIF, 'bounded', 'gneiss_mqtt')
shutil.copytree(mod, os.path.join(cdir, 'src', 'verif_bounded'), ignore=shutil.ignore_patterns('_append_*'))
for fn in sorted(os.listdir(mod)):
    if fn.startswith('_append_') and fn.endswith('.rs.txt'):
        target = os.path.join(cdir, 'src', fn[len('_append_'):-len('.txt')].replace('__', '/'))
        with open(target, 'a') as f:
            f.write(open(os.path.join(mod, fn)).read())
with open(os.path.join(cdir, 'src', 'lib.rs'), 'a') as f:
    f.write('\n#[cfg(test)]\nmod verif_bounded;\n')
print('ready:', cdir)
