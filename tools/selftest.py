#!/usr/bin/env python3
"""setup_cmd: nothing to build (Python + installed verifiers); verify the tools are reachable offline."""
import shutil, subprocess, sys
ok = True
for tool in ('verus', 'cargo', 'cargo-kani'):
    if not shutil.which(tool):
        print('missing tool:', tool); ok = False
sys.exit(0 if ok else 1)
