#!/bin/sh
# usage: confirm_seed2.sh <worktree> <demo-test-name-filter> [extra cargo args]
# confirms: demo fails with patch, demo passes without (suite with patch is confirmed separately by tools/run_suite.sh)
W="$1"; F="$2"; shift 2
cd "$W" || exit 2
git checkout -q -- . ; git clean -fdq -e OUT
git apply OUT/patch.diff || { echo "patch does not apply"; exit 2; }
git apply OUT/demo.diff || { echo "demo does not apply on top of patch"; exit 2; }
echo "== demo WITH patch (expect failure)"; cargo test -p gneiss-mqtt --offline --lib "$@" -- "$F" 2>&1 | grep -E "^test result|panicked" | head -4
git checkout -q -- . ; git clean -fdq -e OUT
git apply OUT/demo.diff
echo "== demo WITHOUT patch (expect pass)"; cargo test -p gneiss-mqtt --offline --lib "$@" -- "$F" 2>&1 | grep -E "^test result|panicked" | head -4
git checkout -q -- . ; git clean -fdq -e OUT
