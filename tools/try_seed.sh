#!/bin/sh
# usage: try_seed.sh <patch.diff> <tier> <prop> [<prop>...]   : apply to /repo, run checks, ALWAYS revert.
# Evidence and replay files of these trial runs go to a scratch directory, never to /verif/evidence.
P="$1"; T="$2"; shift 2
SCR=$(mktemp -d)
git -C /repo apply "$P" || { echo "patch does not apply to /repo"; exit 2; }
for c in "$@"; do (cd /verif && VERIF_EVIDENCE_DIR="$SCR/evidence" VERIF_REPLAY_DIR="$SCR/replays" ./check "$c" "$T" 2>&1 | grep -v "^KNOWN-FINDING" | cut -c1-400); echo "   -> ($c)"; done
git -C /repo checkout -- .
git -C /repo status --short | head -3
rm -rf "$SCR"
