#!/bin/sh
# usage: try_seed.sh <patch.diff> <tier> <prop> [<prop>...]   : apply to /repo, run checks, ALWAYS revert
P="$1"; T="$2"; shift 2
git -C /repo apply "$P" || { echo "patch does not apply to /repo"; exit 2; }
for c in "$@"; do (cd /verif && ./check "$c" "$T" 2>&1 | grep -v "^KNOWN-FINDING" | cut -c1-400); echo "   -> exit=$? ($c)"; done
git -C /repo checkout -- .
git -C /repo status --short | head -3
