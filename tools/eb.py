#!/usr/bin/env python3
"""eb.py - engine E-B: bounded executable-contract checks run as #[cfg(test)] modules appended to a
per-run scratch copy of the real crate (they need crate-private access).  Always labelled bounded."""
import os
import re
import shutil
import subprocess
import time

import ek

HERE = os.path.dirname(os.path.abspath(__file__))
VERIF = os.path.dirname(HERE)


def run(repo_root, grp, tier='quick', seed=0):
    """grp: {'name', 'crate', 'module_dir' (under /verif/bounded), 'tests': [names], 'features': [...], 'bound': str}"""
    t0 = time.time()
    out = {'status': 'ok', 'tests': {}, 'cmd': None, 'tool_error': None}
    scratch = ek.scratch_root()
    try:
        for c in ('gneiss-mqtt', 'gneiss-mqtt-aws'):
            shutil.copytree(os.path.join(repo_root, c), os.path.join(scratch, c), ignore=shutil.ignore_patterns('target', 'examples'))
        open(os.path.join(scratch, 'Cargo.toml'), 'w').write('[workspace]\nresolver = "2"\nmembers = ["gneiss-mqtt", "gneiss-mqtt-aws"]\n')
        shutil.copy(os.path.join(repo_root, 'Cargo.lock'), os.path.join(scratch, 'Cargo.lock'))
        cdir = os.path.join(scratch, ek.CRATES[grp['crate']]['dir'])
        shutil.copytree(os.path.join(VERIF, 'bounded', grp['module_dir']), os.path.join(cdir, 'src', 'verif_bounded'),
                        ignore=shutil.ignore_patterns('_append_*'))
        # read-only accessors appended to the scratch copy (never to /repo): bounded/<dir>/_append_<file>.rs.txt -> src/<file>.rs
        for fn in sorted(os.listdir(os.path.join(VERIF, 'bounded', grp['module_dir']))):
            if fn.startswith('_append_') and fn.endswith('.rs.txt'):
                target = os.path.join(cdir, 'src', fn[len('_append_'):-len('.txt')].replace('__', '/'))
                with open(target, 'a') as f:
                    f.write(open(os.path.join(VERIF, 'bounded', grp['module_dir'], fn)).read())
        with open(os.path.join(cdir, 'src', 'lib.rs'), 'a') as f:
            f.write('\n#[cfg(test)]\nmod verif_bounded;\n')
        cmd = ['cargo', 'test', '--offline', '--lib', '--release'] if grp.get('release') else ['cargo', 'test', '--offline', '--lib']
        for ft in grp.get('features', []):
            cmd += ['--features', ft]
        cmd += ['--'] + ((['verif_bounded::%s' % t for t in grp.get('filters', [])] + grp.get('raw_filters', [])) or ['verif_bounded::'])
        cmd += ['--test-threads', '8', '--nocapture']
        out['cmd'] = 'cd <scratch copy of /repo>/%s && VERIF_TIER=%s %s' % (ek.CRATES[grp['crate']]['dir'], tier, ' '.join(cmd))
        env = dict(os.environ)
        env['CARGO_NET_OFFLINE'] = 'true'
        env['CARGO_TARGET_DIR'] = os.path.join(scratch, 'target')
        env['VERIF_TIER'] = tier
        env['VERIF_SEED'] = str(seed)
        try:
            p = subprocess.run(cmd, cwd=cdir, capture_output=True, text=True, timeout=grp.get('timeout', 1800), env=env)
        except subprocess.TimeoutExpired:
            out['status'] = 'tool-error'
            out['tool_error'] = 'cargo test timeout'
            return out
        text = p.stdout + '\n' + p.stderr
        out['finding_lines'] = re.findall(r'^(FINDING-(?:PRESENT|ABSENT) \S+.*)$', text, flags=re.M)
        out['info_lines'] = re.findall(r'^(F-[A-Z0-9-]+ .*)$', text, flags=re.M)
        if 'error: could not compile' in text or re.search(r'^error(\[E\d+\])?:', p.stderr, flags=re.M) and 'test result' not in text:
            out['status'] = 'tool-error'
            out['tool_error'] = 'build failed: ' + text[-2500:]
            return out
        for t in grp['tests']:
            m = re.search(r'^test .*verif_bounded.*\b%s \.\.\. (ok|FAILED)' % re.escape(t), text, flags=re.M)
            if not m:
                out['status'] = 'tool-error'
                out['tool_error'] = 'no result for bounded test %s: %s' % (t, text[-1500:])
                return out
            cases = re.search(r'^BOUNDED %s cases=(\d+) bound=(.*)$' % re.escape(t), text, flags=re.M)
            fails = re.findall(r'^BOUNDED-FAIL %s (.*)$' % re.escape(t), text, flags=re.M)
            out['tests'][t] = {'ok': m.group(1) == 'ok', 'cases': int(cases.group(1)) if cases else 0,
                               'bound': cases.group(2) if cases else grp.get('bound', ''), 'failing_cases': fails}
            if m.group(1) != 'ok' and not fails:
                # a panic inside the real code: keep the panic message as the failing case
                pm = re.findall(r"panicked at (.*)", text)
                out['tests'][t]['failing_cases'] = pm[:5] or ['test failed without BOUNDED-FAIL line']
            if m.group(1) == 'ok':
                pass
            elif out['status'] == 'ok':
                out['status'] = 'fail'
        return out
    finally:
        out['wall_s'] = time.time() - t0
        shutil.rmtree(scratch, ignore_errors=True)
