#!/usr/bin/env python3
"""check.py <PROPERTY> [--tier quick|thorough]

Decides one property: runs the E-V units, E-K harnesses and E-B bounded checks registered for it in
tools/registry.py against /repo's *current working tree*, writes /verif/evidence/<id>.json, and
exits 0 (held on everything explored) / 1 (VIOLATION line printed) / 2 (tool error - never an alarm).
"""
import argparse
import concurrent.futures as cf
import hashlib
import json
import os
import sys
import time

HERE = os.path.dirname(os.path.abspath(__file__))
VERIF = os.path.dirname(HERE)
sys.path.insert(0, HERE)
import ev  # noqa: E402
import ek  # noqa: E402
import eb  # noqa: E402
import registry  # noqa: E402

REPO = os.environ.get('VERIF_REPO', '/repo')


def load_json(path, default):
    if os.path.exists(path):
        return json.load(open(path))
    return default


def short(name):
    return name.split('::')[-1]


def main():
    ap = argparse.ArgumentParser()
    ap.add_argument('prop')
    ap.add_argument('--tier', default=os.environ.get('VERIF_TIER', 'quick'), choices=['quick', 'thorough'])
    ap.add_argument('--update-baseline', action='store_true')
    a = ap.parse_args()
    pid = a.prop
    if pid not in registry.PROPS:
        print('unknown or unclaimed property %s' % pid)
        return 2
    reg = registry.PROPS[pid]
    seed = int(os.environ.get('VERIF_SEED', '0') or 0)
    t0 = time.time()
    build = os.path.join(VERIF, 'build', pid)
    os.makedirs(build, exist_ok=True)
    os.makedirs(os.path.join(VERIF, 'evidence'), exist_ok=True)
    os.makedirs(os.path.join(VERIF, 'replays'), exist_ok=True)
    baseline_all = load_json(os.path.join(VERIF, 'obligations.baseline.json'), {})
    baseline = baseline_all.get(pid, [])
    findings = [f for f in load_json(os.path.join(VERIF, 'known_findings.json'), {'findings': []})['findings']
                if f['property'] == pid and f.get('status') == 'open']

    rlimit = 30 if a.tier == 'quick' else 120
    tool_errors = []
    obligations = {}     # name -> {'engine','ok','detail',...}
    bounded = {}         # name -> {...}  (never counted as proved)
    functions_under_contract = []
    trusted = []
    assumptions = list(reg.get('assumptions', []))
    solver_ms = 0
    samples = []
    cmds = []

    # ------------------------------------------------------------------ E-V
    unit_results = {}

    def run_ev(unit, restrict=()):
        return ev.run_unit(unit, REPO, build, rlimit=rlimit, tag=('_r' if restrict else ''), restrict=restrict)

    units = reg.get('ev', [])
    with cf.ThreadPoolExecutor(max_workers=max(1, min(6, len(units)))) as ex:
        futs = {u: ex.submit(run_ev, u) for u in units}
        for u, f in futs.items():
            unit_results[u] = f.result()

    ev_fail = []   # (obligation name, failure dict)
    for u, r in unit_results.items():
        if r['status'] == 'tool-error':
            tool_errors.append('E-V unit %s: %s' % (u, r['tool_error']))
            continue
        cmds.append(r['cmd'])
        solver_ms += r.get('smt_ms', 0)
        if r['canary']['vacuous']:
            tool_errors.append('E-V unit %s: vacuous precondition (canary assert(false) verified) in %s' % (u, r['canary']['vacuous']))
        for t in r['trusted_scan']:
            if t not in trusted:
                trusted.append(t)
        mine = {}
        for it in r['items']:
            if it['kind'] in ('fn', 'lemma') and pid in it.get('props', []):
                mine[it['name']] = it
        for qual, it in mine.items():
            oname = 'ev:%s::%s' % (u, qual)
            if it.get('stub'):
                assumptions.append('assumed contract (R5 stub, not verified by E-V): %s' % qual)
                continue
            # locate verus' per-function result
            fres = None
            for vname, fr in r['functions'].items():
                if vname == qual or vname.endswith('::' + qual) or short(vname) == short(qual) and (('::' not in qual) or vname.split('::')[-2:] == qual.split('::')[-2:]):
                    fres = fr
                    break
            fails = [f for f in r['failures'] if f['fn'] and (f['fn'] == qual or short(f['fn']) == short(qual))]
            ok = (fres is None or fres['success']) and not fails
            if fres is None and not fails and r['status'] != 'ok':
                # function produced no SMT query record and unit failed elsewhere: still fine for this obligation
                pass
            obligations[oname] = {'engine': 'E-V (Verus %s, Z3)' % (r.get('verus_version') or ''), 'ok': ok,
                                  'time_ms': fres['time_ms'] if fres else 0, 'rlimit': fres['rlimit'] if fres else 0,
                                  'kind': it['kind']}
            if it['kind'] == 'fn':
                functions_under_contract.append({'function': qual, 'file': it['file'], 'lines': it['lines'], 'sha256': it['sha256'],
                                                 'extraction': it.get('rules', {}), 'unit': u})
            if not ok:
                for f in fails or [{'kind': 'semantic' if fres and not fres['success'] else 'other', 'message': 'function failed', 'excerpt': ''}]:
                    ev_fail.append((oname, u, f))
        if not mine:
            tool_errors.append('E-V unit %s has no obligation tagged %s' % (u, pid))

    # ------------------------------------------------------------------ E-K
    ek_groups = reg.get('ek', [])
    ek_fail = []
    for grp in ek_groups:
        hs = [h for h in grp['harnesses'] if a.tier == 'thorough' or not h.get('thorough_only')]
        if not hs:
            continue
        r = ek.run(REPO, grp['crate'], [h['name'] for h in hs], timeout=grp.get('timeout', 1500), jobs=grp.get('jobs', 8))
        cmds.append(r['cmd'])
        if r['status'] == 'tool-error':
            tool_errors.append('E-K %s: %s' % (grp['crate'], r['tool_error']))
            continue
        for h in hs:
            hr = r['harnesses'][h['name']]
            solver_ms += int((hr['time_s'] or 0) * 1000)
            rec = {'engine': 'E-K (Kani 0.68 / CBMC 6.11)', 'ok': hr['status'] == 'SUCCESSFUL', 'time_ms': int((hr['time_s'] or 0) * 1000),
                   'checks': hr['n_checks'], 'covers': hr['covers'], 'stubs': hr['stubs'], 'function': h.get('fn')}
            if hr['covers'] and hr['covers'][0] != hr['covers'][1] and hr['status'] == 'SUCCESSFUL':
                tool_errors.append('E-K harness %s: cover property unsatisfied (vacuous harness)' % h['name'])
            if h.get('expect_stub') and not any('format' in s for s in hr['stubs']):
                tool_errors.append('E-K harness %s: fmt::format stub not applied' % h['name'])
            oname = 'ek:%s' % h['name']
            if h['kind'] == 'complete':
                obligations[oname] = rec
            else:
                rec['bound'] = h.get('bound', '')
                bounded[oname] = rec
            if not rec['ok']:
                ek_fail.append((oname, h, hr))

    # ------------------------------------------------------------------ E-B
    eb_fail = []
    demo_lines = []
    for grp in reg.get('eb', []):
        if grp.get('thorough_only') and a.tier != 'thorough':
            continue
        r = eb.run(REPO, grp, tier=a.tier, seed=seed)
        demo_lines += r.get('finding_lines', []) + r.get('info_lines', [])
        cmds.append(r['cmd'])
        if r['status'] == 'tool-error':
            tool_errors.append('E-B %s: %s' % (grp['name'], r['tool_error']))
            continue
        for tname, tr in r['tests'].items():
            oname = 'eb:%s' % tname
            bounded[oname] = {'engine': 'E-B (bounded executable contract on the real crate)', 'ok': tr['ok'], 'bound': tr.get('bound', grp.get('bound', '')),
                              'cases': tr.get('cases', 0)}
            if not tr['ok']:
                eb_fail.append((oname, tr))

    # ------------------------------------------------------------------ decide
    violations = []   # (obligation, replay text, has_input)
    known_lines = []
    open_by_obl = {}
    for f in findings:
        open_by_obl.setdefault(f['obligation'], []).append(f)

    # E-V failures
    sem_fail = [(o, u, f) for (o, u, f) in ev_fail if f['kind'] == 'semantic']
    non_sem = [(o, u, f) for (o, u, f) in ev_fail if f['kind'] != 'semantic']
    for (o, u, f) in non_sem:
        tool_errors.append('E-V %s: undecided (%s): %s' % (o, f['kind'], f['message']))
    need_restricted = {}
    for (o, u, f) in sem_fail:
        if o in open_by_obl:
            need_restricted.setdefault(u, set()).update(x['id'] for x in open_by_obl[o])
        else:
            violations.append((o, f, None))
    for u, ids in need_restricted.items():
        rr = run_ev(u, tuple(sorted(ids)))
        if rr['status'] == 'tool-error':
            tool_errors.append('E-V unit %s (restricted run): %s' % (u, rr['tool_error']))
            continue
        still = [f for f in rr['failures'] if f['kind'] == 'semantic']
        names_still = set('ev:%s::%s' % (u, f['fn']) for f in still)
        for (o, u2, f) in sem_fail:
            if u2 != u or o not in open_by_obl:
                continue
            if o in names_still or any(short(o) == short(n) for n in names_still):
                f2 = [x for x in still if short(x['fn'] or '') == short(o)][0]
                violations.append((o, f2, None))
            else:
                obligations[o]['ok'] = True
                obligations[o]['restricted_by'] = sorted(x['id'] for x in open_by_obl[o])
                for x in open_by_obl[o]:
                    line = 'KNOWN-FINDING: property=%s %s [%s] %s' % (pid, x['id'], o, x['what'])
                    if line not in known_lines:
                        known_lines.append(line)
                    assumptions.append('known finding %s: obligation %s discharged only under `%s`' % (x['id'], o, x.get('assume', '')))

    # E-K failures
    for (o, h, hr) in ek_fail:
        if hr.get('unwinding_failure') and h['kind'] != 'complete':
            tool_errors.append('E-K %s: unwinding assertion failed (bound too small)' % o)
            continue
        fl = open_by_obl.get(o, [])
        if fl and h.get('restricted'):
            # restricted twin must pass (it is registered as its own harness and was run above)
            tw = 'ek:%s' % h['restricted']
            twin = obligations.get(tw) or bounded.get(tw)
            if twin and twin['ok']:
                (obligations if o in obligations else bounded)[o]['ok'] = True
                (obligations if o in obligations else bounded)[o]['restricted_by'] = [x['id'] for x in fl]
                for x in fl:
                    known_lines.append('KNOWN-FINDING: property=%s %s [%s] %s' % (pid, x['id'], o, x['what']))
                    assumptions.append('known finding %s: harness %s passes only with `%s`' % (x['id'], o, x.get('assume', '')))
                continue
        violations.append((o, {'message': 'Kani: ' + '; '.join(hr['failed_checks']), 'excerpt': hr['tail']}, hr.get('playback')))
    for (o, tr) in eb_fail:
        fl = open_by_obl.get(o, [])
        bad_cases = tr.get('failing_cases', [])
        unlisted = [c for c in bad_cases if not any(x.get('case_prefix') and c.startswith(x['case_prefix']) for x in fl)]
        if fl and not unlisted:
            bounded[o]['ok'] = True
            for x in fl:
                known_lines.append('KNOWN-FINDING: property=%s %s [%s] %s' % (pid, x['id'], o, x['what']))
            continue
        violations.append((o, {'message': 'bounded contract check failed', 'excerpt': '\n'.join(unlisted[:20] or bad_cases[:20])}, '\n'.join(unlisted[:5] or bad_cases[:5])))

    # ------------------------------------------------------------------ baseline / vacuity
    names_now = sorted(list(obligations.keys()) + list(bounded.keys()))
    if a.update_baseline:
        baseline_all[pid] = names_now
        json.dump(baseline_all, open(os.path.join(VERIF, 'obligations.baseline.json'), 'w'), indent=1, sort_keys=True)
        baseline = names_now
    lost = [b for b in baseline if b not in names_now and not (a.tier == 'quick' and b in registry.thorough_only_names(pid))]
    if lost and not tool_errors:
        tool_errors.append('baseline obligations no longer generated: %s' % lost)
    if not obligations and not bounded and not tool_errors:
        tool_errors.append('zero obligations generated')

    n_obl = len(obligations)
    n_ok = sum(1 for o in obligations.values() if o['ok'])
    wall = time.time() - t0

    # ------------------------------------------------------------------ replay files + report
    vio_lines = []
    merged = {}
    for (o, f, inp) in violations:
        if o in merged:
            merged[o][0]['excerpt'] = merged[o][0].get('excerpt', '') + '\n' + f.get('excerpt', '')
            merged[o][0]['message'] = merged[o][0].get('message', '') + ' | ' + f.get('message', '')
        else:
            merged[o] = [dict(f), inp]
    violations = [(o, v[0], v[1]) for o, v in merged.items()]
    for i, (o, f, inp) in enumerate(violations):
        rp = os.path.join(os.environ.get('VERIF_REPLAY_DIR') or os.path.join(VERIF, 'replays'), '%s_%d.txt' % (pid, i))
        os.makedirs(os.path.dirname(rp), exist_ok=True)
        with open(rp, 'w') as fh:
            fh.write('property: %s\nfailed obligation: %s\n' % (pid, o))
            fh.write('verifier message: %s\n\n' % f.get('message'))
            fh.write('--- verifier output ---\n%s\n' % f.get('excerpt', ''))
            if inp:
                fh.write('\n--- failing input (verifier counterexample / failing bounded case) ---\n%s\n' % inp)
            else:
                fh.write('\nno-failing-input-found (the deductive verifier gives no counterexample)\n')
        vio_lines.append('VIOLATION property=%s replay=%s obligation=%s%s' % (pid, rp, o, '' if inp else ' no-failing-input-found'))

    level = reg['level'] if not tool_errors else reg['level']
    for k in sorted(obligations)[:6]:
        samples.append({'obligation': k, **{x: obligations[k][x] for x in ('engine', 'ok', 'time_ms') if x in obligations[k]}})
    for k in sorted(bounded)[:3]:
        samples.append({'bounded_check': k, **{x: bounded[k][x] for x in ('engine', 'ok', 'bound') if x in bounded[k]}})
    evidence = {
        'property_id': pid, 'tier': a.tier, 'seed': seed, 'level': level,
        'coverage': {
            'obligations': n_obl, 'discharged': n_ok,
            'checker_cmd': ' ; '.join(c for c in cmds if c) or 'none',
            'trusted_base': trusted,
            'obligation_results': obligations,
            'bounded_checks_not_counted_as_proved': bounded,
            'functions_under_contract': functions_under_contract,
            'solver_time_ms': solver_ms,
            'samples': samples or [{'note': 'no obligation generated'}],
            'explanation': reg['level_text'],
            'evaluations': max(1, n_obl + len(bounded)),
            'distinct_nontrivial': max(2, n_obl + len(bounded)) if (n_obl + len(bounded)) >= 2 else n_obl + len(bounded),
            'rule': 'one evaluation per generated proof obligation (Verus function / Kani harness / bounded contract test); all distinct by name',
            'known_findings_reported': known_lines,
            'known_finding_demonstrations_on_real_code': demo_lines,
            'tool_errors': tool_errors,
        },
        'assumptions': assumptions,
        'wall_s': round(wall, 2),
        'violations': len(violations),
    }
    evdir = os.environ.get('VERIF_EVIDENCE_DIR') or os.path.join(VERIF, 'evidence')   # seed trials write elsewhere
    os.makedirs(evdir, exist_ok=True)
    json.dump(evidence, open(os.path.join(evdir, pid + '.json'), 'w'), indent=1)

    print('[%s/%s] obligations=%d discharged=%d bounded=%d (ok %d) solver=%dms wall=%.1fs' %
          (pid, a.tier, n_obl, n_ok, len(bounded), sum(1 for b in bounded.values() if b['ok']), solver_ms, wall))
    for ln in known_lines:
        print(ln)
    if violations:
        for ln in vio_lines:
            print(ln)
        return 1
    if tool_errors:
        for t in tool_errors:
            print('TOOL-ERROR: %s' % t[:3000])
        return 2
    return 0


if __name__ == '__main__':
    sys.exit(main())
