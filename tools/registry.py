"""registry.py - which machinery decides which property (single source for check.py and MANIFEST.json)."""

TBL = ['tbl_connect_reason_code', 'tbl_puback_reason_code', 'tbl_pubrec_reason_code', 'tbl_pubrel_reason_code',
       'tbl_pubcomp_reason_code', 'tbl_suback_reason_code', 'tbl_unsuback_reason_code', 'tbl_disconnect_reason_code',
       'tbl_quality_of_service', 'tbl_payload_format_indicator', 'tbl_connack_return_code_311', 'tbl_suback_return_code_311']

TRUST_COMMON = ('Trusted base: Verus 0.2026.09.13 + Z3; rustc front end; the extraction rules R0-R7 of DESIGN.md 1.1 '
                '(log statements and message text dropped); prelude shims for Instant/Duration/GneissError and the assumed '
                'std specifications listed verbatim in evidence.coverage.trusted_base; machine integers are machine integers '
                '(overflow is an obligation), except the u64 operation-id counter which is assumed not to wrap.')

PROPS = {
    'C06': {
        'ev': ['ids'],
        'level': 'proof',
        'technique': 'Verus function contracts + representation invariant on extracted real functions',
        'design_ref': 'DESIGN.md 3/C06',
        'level_text': 'Unbounded proof, per function, that packet-id allocation returns a non-zero id not in the table for every '
                      'table content and cursor position (incl. wrap-around), that binding/unbinding/completion keep the '
                      'id<->operation bijection (wf W2-W4), and lemmas deriving uniqueness and no-leak from wf.',
        'level_note': TRUST_COMMON + ' History-level claim rests on wf being preserved by every engine function; those outside E-V are bounded-checked only.',
    },
    'C03': {
        'ek': [{'crate': 'gneiss-mqtt', 'harnesses': [{'name': h, 'kind': 'complete', 'fn': 'TryFrom<u8>', 'expect_stub': True} for h in TBL]}],
        'level': 'proof',
        'technique': 'Verus function contracts on the extracted decoder functions against a spec function written from the OASIS tables + Kani loop-free full-domain harnesses (reason-code tables)',
        'design_ref': 'DESIGN.md 3/C03',
        'level_text': 'Complete (all 256 inputs, loop-free) proofs that every reason code the OASIS tables allow decodes to the code with that wire value.',
        'level_note': 'Trusted: Kani 0.68/CBMC 6.11; alloc::fmt::format stubbed (message text only).',
    },
}


def thorough_only_names(pid):
    res = set()
    for grp in PROPS.get(pid, {}).get('ek', []):
        for h in grp['harnesses']:
            if h.get('thorough_only'):
                res.add('ek:' + h['name'])
    return res

PROTO_NOTE = (TRUST_COMMON + ' Closure/iterator-adapter bodies of the engine (close handler, session handling, slow start, retry '
              'accounting, reset) are verified after the mechanical desugaring rules D1-D6/R11/R14 of DESIGN.md 1.1. Still entering E-V only '
              'as assumed contracts (R5 stubs): '
              'sort_operation_deque, '
              'complete_operation_with_result/_error; the bounded engine E-B runs the real functions against those contracts on a stated '
              'small scope. The preconditions of session handling at CONNACK (formerly assumption A-HANDSHAKE) follow from the entry-point invariant H1-H6 (DESIGN.md 2), established by new()/reset() and preserved by the three entry points; A-OPS (fewer than 2^32 operations tracked at once) remains. '
              'Encoder/Decoder/alias-resolver are opaque shims inside the engine unit.')


def _ev(units, level_text, technique='Verus function contracts + representation invariant wf(ProtocolState) on extracted real functions', **kw):
    d = {'ev': units, 'level': 'proof', 'technique': technique, 'level_text': level_text, 'level_note': PROTO_NOTE}
    d.update(kw)
    return d


PROPS['C06']['ev'] = ['protocol']
PROPS['C06']['level_note'] = PROTO_NOTE
PROPS.update({
    'C01': _ev(['protocol', 'codec'], 'Unbounded per-function proof: both completion paths remove exactly the named operation and its id bindings and keep wf; '
               'every ack handler completes only the operation its packet id names, of the right type and reason-code count (resp_belongs), and '
               'changes nothing otherwise; operation ids are fresh (create_operation never overwrites); the close handler and session handling never resurrect or duplicate an operation. '
               'That complete_operation_with_result/_error invoke the taken one-shot handler exactly once is an assumed contract (a Kani harness for it did not finish in 25 min); E-B counts results per operation. reset() is bounded (E-B).', design_ref='DESIGN.md 3/C01'),
    'C04': _ev(['protocol'], 'Per-function proof of the QoS2 handshake steps (PUBREC sets exactly one PUBREL for that id and queues it; PUBCOMP only after PUBREC), '
               'of the DUP-flag frame, and of what happens to a half-written publish at connection close; re-queue at close/CONNACK is bounded (E-B).', design_ref='DESIGN.md 3/C04'),
    'C05': _ev(['protocol', 'codec'], 'Complete per-function proof for handle_publish / handle_pubrel: QoS1 -> event + one PUBACK at the back; QoS2 -> PUBREC always, event iff id not pending; '
               'PUBREL -> id released + one PUBCOMP; acks only push_back so they leave in arrival order (dequeue returns the front); and the PUBACK / PUBREC / PUBCOMP the engine queues are proved to go out as the standard\'s wire image in both protocol versions (codec unit).', design_ref='DESIGN.md 3/C05'),
    'C07': _ev(['protocol', 'codec'], 'Per-function proof: connection-opened queues exactly one CONNECT at the front and arms the deadline; before CONNACK only the '
               'high-priority queue is served and it holds only the CONNECT (W7, proved through service_queue_aux); CONNACK handling (state check, failing code, '
               'negotiated settings = CONNACK else CONNECT else spec default); DISCONNECT written => PendingDisconnect, which writes nothing. On the wire (codec unit): the MQTT 3.1.1 CONNECT (flags byte, keep alive, client id, will, user name, password) and the DISCONNECT of both versions are proved to be the standard\'s layout of exactly the fields given; the MQTT 5 CONNECT writer is bounded (E-B reference decoder).', design_ref='DESIGN.md 3/C07'),
    'C08': _ev(['protocol'], 'Proof that get_next_service_timepoint_protocol_queue returns "now" exactly when dequeue_operation would return an operation (same spec function next_sendable), '
               'and that the connected service time is <= every armed deadline; liveness ("completes within bounded steps") is not decidable by contracts.', design_ref='DESIGN.md 3/C08'),
    'C09': _ev(['protocol'], 'Proof that a QoS1+ publish leaves the resubmit/user queue only while pending_publish.len() < Receive Maximum, that the in-flight table grows by at most the '
               'written operation, and that the slow-start counter equals the number of contributing operations (W9) so its decrement cannot panic.', design_ref='DESIGN.md 3/C09'),
    'C10': _ev(['protocol'], 'Proof that dequeue_operation returns the head of the first non-empty queue in priority order and a blocked head is not overtaken; user operations are appended '
               'with strictly increasing ids. Sorting/re-queueing at close and CONNACK is bounded (E-B).', design_ref='DESIGN.md 3/C10'),
    'C11': _ev(['protocol', 'client', 'codec', 'alias', 'ws'], 'Every panic!/unwrap/assert/index/overflow inside the 70+ extracted engine functions is a discharged obligation under wf; every entry point returns Err => Halted, '
               'Halted rejects service and traffic.', design_ref='DESIGN.md 3/C11'),
    'C12': _ev(['client', 'protocol'], 'Mostly BOUNDED: the event grammar, loop survival, bounded stop-liveness and close-is-terminal are decided by bounded exploration of the real '
               'MqttClientImpl over all driver step sequences of a stated length (stand-in, never counted as proved). Proved (unbounded, Verus): the lifecycle decision table '
               'compute_optional_state_transition (all current x desired x stop-option cases) and the engine side of a stop with DISCONNECT. No contract within reach expresses '
               'the event-stream grammar or "in bounded time once the transport reacts"; thread/task interleavings of the drivers are outside contract-based verification.',
               design_ref='DESIGN.md 3/C12', level='exploration',
               technique='bounded exploration of the real client state machine (stand-in) + Verus function contracts on the lifecycle decision table'),
    'C14': _ev(['protocol'], 'Proof of service_keep_alive (deadline = now + min(ping timeout, K*500ms), next ping = now + K s, one PINGREQ at the front), handle_connack (first ping), '
               'handle_pingresp, that completion only ever moves the next ping later, and that no handler of received traffic touches the ping schedule (PUBLISH / PUBREL / DISCONNECT / AUTH: unchanged; acks: only the completion rule).', design_ref='DESIGN.md 3/C14'),
    'C15': _ev(['protocol'], 'Proof that does_packet_pass_offline_queue_policy equals the policy table for every packet kind x policy, and that submission while not connected / close of the '
               'current operation apply it; the other positions at close are bounded (E-B).', design_ref='DESIGN.md 3/C15'),
    'C18': _ev(['protocol'], 'Proof that the ack timeout is armed only when the packet is fully written, for exactly now+T, and that process_ack_timeouts fails exactly the operations whose '
               'deadline has passed and leaves no due record; interrupted-retry counting is bounded (E-B).', design_ref='DESIGN.md 3/C18'),
    'C19': _ev(['client'], 'Proof of normalize (swap, raise to 1 s), clamp, advance (doubling to the maximum, jitter within [0, period], no panic for any configuration) and the closed-form lemma '
               'w(k) = min(base*2^k, max).', technique='Verus function contracts + inductive lemma on extracted real functions', design_ref='DESIGN.md 3/C19',
               level_note=TRUST_COMMON + ' rand::Rng::gen_range is an assumed specification (panics on empty range; result in range).'),
})

CWR = ['cwr_publish_result', 'cwr_subscribe_result', 'cwr_unsubscribe_result', 'cwe_error']

PROPS['C03']['ev'] = ['codec']
PROPS['C03']['level_text'] += (' Plus unbounded Verus proofs of decode_vli (framing and value), and of the frame decoder steps: one header byte consumed per step, '
                               'a packet whose announced size exceeds the maximum in force is rejected when its length field completes, before any body byte is buffered; '
                               'of the bounds-checked primitive readers; of the decoding of all ten server packet types (property sections, whole packet bodies, dispatch on the packet type; MQTT 5 and 3.1.1) against a '
                               'specification written from the OASIS tables (generic property-section parser, allowed identifiers per packet, reason codes, VBI framing, header flags): '
                               'exactly the legal byte strings are accepted and every value lands in the right field, for all inputs; and of the framing loop: decode_bytes preserves the '
                               'between-reads invariant, a packet is decoded from exactly the announced bytes after its header whatever the chunking, packets are only appended, a decode '
                               'error is terminal. Hostile streams end to end and the engine-level packet events are bounded (E-B, independent reference encoder).')
PROPS['C03']['level_note'] += ' ' + TRUST_COMMON
PROPS.update({
    'C02': _ev(['codec', 'validate'], 'Unbounded proofs that encode_vli appends exactly the Variable Byte Integer of the value (spec function written from OASIS 1.5.5), that the size function equals its length, '
               'and that the PUBLISH / SUBSCRIBE remaining-length and property-length computations equal the wire layouts of the specification with no overflow or truncation. '
               'The step interpreter (process_byte_slice_encoding, process_encoding_step, Encoder::encode) is proved to append exactly flat(steps) over any number of calls and buffer sizes; for MQTT 3.1.1 the chain is closed: Encoder::reset leaves steps whose flat() is the OASIS 3.1.1 wire image of PUBLISH, SUBSCRIBE, UNSUBSCRIBE, PUBACK/PUBREC/PUBREL/PUBCOMP, PINGREQ, DISCONNECT (step writers, getters and first-byte function proved). MQTT 5 PUBLISH, SUBSCRIBE, UNSUBSCRIBE, PUBACK/PUBREC/PUBREL/PUBCOMP and DISCONNECT, and the MQTT 3.1.1 CONNECT, are proved the same way. Only the MQTT 5 CONNECT writer (and AUTH, never sent) is bounded (E-B reference decoder, Kani).', design_ref='DESIGN.md 3/C02',
               technique='Verus function contracts on the extracted length / size / encode_vli functions against spec functions of the OASIS wire layouts + Kani harnesses of the step encoder (bounded stand-in for byte production)',
               level_note=TRUST_COMMON + ' String byte length is an uninterpreted function blen(); &str-length functions are assumed here and decided by E-K.'),
    'C16': _ev(['validate'], 'Unbounded proofs, in both directions (Ok <=> rules hold), for validate_user_properties, validate_publish_packet_outbound(_internal), '
               'validate_subscribe_packet_outbound(_internal), is_valid_topic_filter_internal, and the length helpers they use.', design_ref='DESIGN.md 3/C16',
               technique='Verus function contracts in both directions (Ok <=> the rules hold) on the extracted outbound validation functions + Verus/Kani contracts on the negotiated-settings table',
               level_note=TRUST_COMMON + ' Topic / filter grammar functions (is_valid_topic, compute_topic_filter_properties) and validate_string_length are assumed contracts here, examined by E-K (bounded).'),
    'C13': _ev(['ws', 'codec'], 'Mostly BOUNDED: the two drivers are async / threaded code that no contract within reach can express (task and thread interleavings, select!, channels); the property is '
               'decided by bounded executable checks of the REAL tokio and threaded clients over scripted transports (partial writes, Pending / WouldBlock patterns, resets, reconnect, operations '
               'around close) and of the websocket wrapper with real tungstenite - stand-ins with stated bounds, never counted as proved. Proved (unbounded, Verus): MessageCursor::read hands over '
               'the next min(remaining, dest.len()) payload bytes in order exactly once; and the engine side of the byte hand-over: Encoder::encode appends exactly flat(steps) whatever the buffer sizes (codec unit).', design_ref='DESIGN.md 3/C13', level='exploration',
               technique='bounded executable checks of the real drivers over scripted transports (stand-in) + Verus function contracts on the websocket message cursor and on the encoder step interpreter',
               level_note=TRUST_COMMON + ' tungstenite Message / WebSocket are shims.'),
    'C17': _ev(['alias', 'protocol', 'codec'], 'Unbounded proofs for the inbound resolver (empty topic -> bound topic or error; 0 / out-of-range -> error; reset empties), the manual and null outbound resolvers '
               '(skip-topic only for an alias currently bound to exactly that topic; alias in 1..=max; table updated exactly when an alias is sent with its topic), and that the engine resets both at CONNACK. '
               'The LRU resolver is proved too (alias range, omission only for bound topics, table evolves as the server\'s) under assumed specifications of lru::LruCache; that the chosen alias and the topic omission are exactly what the MQTT 5 PUBLISH encoder puts on the wire is proved in the codec unit; the engine-level coupling through the RefCell is bounded (E-B).', design_ref='DESIGN.md 3/C17',
               technique='Verus function contracts + data-structure invariants (alias tables viewed as abstract alias->topic relations) on the extracted resolver functions and the engine reset at CONNACK',
               level_note=TRUST_COMMON + ' "Table stays in step with the wire" across last-chance validation failures is not decidable by a contract (RefCell behind &self).'),
})

# ---------------------------------------------------------------------------------------------- E-B groups
EB_ENGINE = {'name': 'engine', 'crate': 'gneiss-mqtt', 'module_dir': 'gneiss_mqtt', 'filters': ['engine::'], 'tests': ['engine_closed_connack_reset_contracts'], 'timeout': 3000,
             'bound': 'see BOUNDED line: <=2 (quick) / <=3 (thorough) operations x progress scripts <=3/<=4 x policies x drain x versions x retry limits x session'}
EB_SORT = {'name': 'sort', 'crate': 'gneiss-mqtt', 'module_dir': 'gneiss_mqtt', 'filters': ['misc::'], 'tests': ['sort_operation_deque_all_small_layouts'], 'timeout': 3000}
EB_CLIENT = {'name': 'client', 'crate': 'gneiss-mqtt', 'module_dir': 'gneiss_mqtt', 'filters': ['client::'], 'tests': ['client_event_grammar_and_loop_survival', 'client_new_initial_period_normalized'], 'timeout': 3000}


def _findings_group(tests):
    return {'name': 'findings', 'crate': 'gneiss-mqtt', 'module_dir': 'gneiss_mqtt', 'filters': ['findings::'], 'tests': tests, 'timeout': 3000}


def _eb_engine(thorough_only=False):
    g = dict(EB_ENGINE)
    if thorough_only:
        g['thorough_only'] = True
    return g


for _p in ('C01', 'C04', 'C06', 'C15', 'C18', 'C11'):
    PROPS[_p]['eb'] = [_eb_engine()]
for _p in ('C05', 'C07', 'C08'):
    PROPS[_p]['eb'] = [_eb_engine(thorough_only=True)]
PROPS['C09']['eb'] = [_eb_engine()]
PROPS['C10']['eb'] = [_eb_engine(), EB_SORT]
PROPS['C12']['eb'] = [EB_CLIENT]
PROPS['C19']['eb'] = [dict(EB_CLIENT, name='client-backoff', filters=['client::client_new', 'client::client_backoff'], tests=['client_new_initial_period_normalized', 'client_backoff_resets_only_after_stable_connection'])]
PROPS['C02']['eb'] = [_findings_group(['f_subid_wire_width'])]
PROPS['C16']['eb'] = [_findings_group(['f_subid_avail_not_enforced'])]

EB_AWS = {'name': 'aws', 'crate': 'gneiss-mqtt-aws', 'module_dir': 'gneiss_mqtt_aws', 'features': ['threaded-rustls'], 'tests': ['custom_auth_query_string_round_trips', 'aws_builder_final_client_id_is_never_empty'], 'timeout': 3000}
PROPS['C20'] = _ev(['aws'], 'Unbounded proofs, on the real builder code of both crates, that apply_aws_defaults changes exactly the drain policy and retry limit and only for an MQTT 3.1.1 client whose user set neither, '
                   'and that build_final_connect_options keeps a user client id, otherwise installs a fresh 36-character one, replaces only username/password under custom auth and preserves every other connect option. '
                   'The custom-auth query string (format!/write!) is a bounded check against an RFC 3986 reference parser.', design_ref='DESIGN.md 3/C20',
                   technique='Verus function contracts (postconditions from the property text, frame over every other connect/client option) on the extracted builder functions of both crates',
                   level_note=TRUST_COMMON + ' uuid::Uuid::to_string is assumed to be the 36-character form; derived Clone impls are assumed to copy.',
                   eb=[EB_AWS])

EK_NEG = {'crate': 'gneiss-mqtt', 'timeout': 900, 'jobs': 4, 'harnesses': [{'name': 'negotiated_settings_table', 'kind': 'complete', 'fn': 'build_negotiated_settings', 'expect_stub': False}]}
PROPS['C07']['ek'] = [EK_NEG]
PROPS['C14']['ek'] = [EK_NEG]
EB_KEEPALIVE = {'name': 'keepalive', 'crate': 'gneiss-mqtt', 'module_dir': 'gneiss_mqtt', 'filters': ['keepalive::'], 'tests': ['keep_alive_holds_whatever_the_broker_sends'], 'timeout': 3000,
                'bound': 'see BOUNDED line: K x 2 versions x 6 inbound QoS 0 schedules x 3 user publish schedules over 5K seconds'}
PROPS['C14']['eb'] = [EB_KEEPALIVE]

EB_ACK = {'name': 'acktimeout', 'crate': 'gneiss-mqtt', 'module_dir': 'gneiss_mqtt', 'filters': ['engine::ack_timeouts'], 'tests': ['ack_timeouts_fire_exactly_at_deadline'], 'timeout': 3000}
PROPS['C18']['eb'].append(EB_ACK)

EB_WIRE_OUT = {'name': 'wire-out', 'crate': 'gneiss-mqtt', 'module_dir': 'gneiss_mqtt', 'filters': ['wire::outbound'], 'tests': ['outbound_encoding_framing_fragmentation_roundtrip'], 'timeout': 3000}
EB_WIRE_IN = {'name': 'wire-in', 'crate': 'gneiss-mqtt', 'module_dir': 'gneiss_mqtt', 'filters': ['wire::inbound', 'wire::engine_packet'], 'tests': ['inbound_decoding_chunking_size_limit_no_panic', 'engine_packet_events_and_verdict_are_chunking_invariant'], 'timeout': 3000}
EB_INBOUND = {'name': 'inbound', 'crate': 'gneiss-mqtt', 'module_dir': 'gneiss_mqtt', 'filters': ['inbound::'], 'tests': ['inbound_publishes_acked_and_surfaced_exactly_once'], 'timeout': 3000}
PROPS['C02']['eb'].append(EB_WIRE_OUT)
PROPS['C03']['eb'] = [EB_WIRE_IN]
PROPS['C05']['eb'] = [EB_INBOUND, _eb_engine(thorough_only=True)]
PROPS['C07']['eb'] = [_eb_engine()]
PROPS['C11']['eb'].append(EB_WIRE_IN)

EB_ALIAS = {'name': 'alias', 'crate': 'gneiss-mqtt', 'module_dir': 'gneiss_mqtt', 'filters': ['alias::'], 'tests': ['outbound_alias_resolvers_never_mislead_the_server', 'outbound_lru_alias_range_at_the_u16_boundary'], 'timeout': 3000}
EB_WS = {'name': 'ws', 'crate': 'gneiss-mqtt', 'module_dir': 'gneiss_mqtt', 'features': ['threaded-websockets'], 'raw_filters': ['verif_bounded_ws'], 'tests': ['ws_wrapper_read_concatenates_payloads', 'ws_wrapper_write_no_loss_no_duplication_under_would_block'], 'timeout': 3000}
PROPS['C17']['eb'] = [EB_ALIAS]
PROPS['C13']['eb'] = [EB_WS]

EB_FIXED = _findings_group(['engine_fixed_findings_stay_fixed'])
EB_FIXED = dict(EB_FIXED, name='fixed-findings', filters=['findings::engine_fixed'])
PROPS['C11']['eb'].append(EB_FIXED)


EB_SVCTIME = {'name': 'service-time', 'crate': 'gneiss-mqtt', 'module_dir': 'gneiss_mqtt', 'filters': ['engine::service_time'], 'tests': ['service_time_contract_never_strands_work', 'service_time_covers_every_armed_deadline'], 'timeout': 3000}
PROPS['C08']['eb'] = [EB_SVCTIME] + PROPS['C08'].get('eb', [])

EB_LIMITS = {'name': 'limits', 'crate': 'gneiss-mqtt', 'module_dir': 'gneiss_mqtt', 'filters': ['limits::'], 'tests': ['server_limits_hold_on_the_wire_with_aliases', 'outbound_aliases_never_survive_a_reconnect'], 'timeout': 3000}
PROPS['C16']['eb'].append(EB_LIMITS)
PROPS['C17']['eb'].append(EB_LIMITS)

EB_TOKIO = {'name': 'driver-tokio', 'crate': 'gneiss-mqtt', 'module_dir': 'gneiss_mqtt', 'features': ['tokio'], 'raw_filters': ['verif_bounded::driver_tokio'],
            'tests': ['tokio_driver_moves_bytes_faithfully_under_partial_writes'], 'timeout': 3000}
PROPS['C13']['eb'].append(EB_TOKIO)

EB_REFDEC = {'name': 'refdec', 'crate': 'gneiss-mqtt', 'module_dir': 'gneiss_mqtt', 'filters': ['refdec::'],
             'tests': ['outbound_packets_conform_to_reference_decoder', 'reference_decoder_self_check', 'reference_comparison_is_sensitive'], 'timeout': 3000}
EB_REFENC = {'name': 'refenc', 'crate': 'gneiss-mqtt', 'module_dir': 'gneiss_mqtt', 'filters': ['refenc::'],
             'tests': ['inbound_packets_from_reference_encoder_decode_faithfully', 'reference_encoder_known_vectors'], 'timeout': 3000}
PROPS['C02']['eb'].append(EB_REFDEC)
PROPS['C03']['eb'].append(EB_REFENC)

EB_THREADED = {'name': 'driver-threaded', 'crate': 'gneiss-mqtt', 'module_dir': 'gneiss_mqtt', 'features': ['threaded'], 'raw_filters': ['verif_bounded::driver_threaded'],
               'tests': ['threaded_driver_hands_each_connection_only_its_own_bytes', 'threaded_operations_around_close_always_resolve'], 'timeout': 3000}
PROPS['C13']['eb'].append(EB_THREADED)

PROPS['C11']['eb'].append(EB_REFENC)

EB_GRAMMAR = {'name': 'grammar', 'crate': 'gneiss-mqtt', 'module_dir': 'gneiss_mqtt', 'filters': ['grammar::'], 'tests': ['topic_grammar_functions_agree_with_reference'], 'timeout': 3000}
PROPS['C16']['eb'].append(EB_GRAMMAR)

# C11 "no configuration value the builders accept can make the client panic": extreme durations (finding F-DURATION-OVERFLOW, fixed)
EB_EXTREME = {'name': 'extreme-durations', 'crate': 'gneiss-mqtt', 'module_dir': 'gneiss_mqtt', 'features': ['threaded'],
              'raw_filters': ['verif_bounded::extremes', 'verif_bounded::client::client_extreme', 'verif_bounded::driver_threaded::threaded_driver_survives'],
              'tests': ['extreme_ack_timeouts_never_panic', 'client_extreme_connect_timeout_never_panics', 'threaded_driver_survives_extreme_durations'], 'timeout': 3000}
PROPS['C11']['eb'].append(EB_EXTREME)

# C15/C07/C01: the client's own packets never survive a disconnection (added after seed C15_5 was missed)
EB_INTERNAL = {'name': 'internal-ops', 'crate': 'gneiss-mqtt', 'module_dir': 'gneiss_mqtt', 'filters': ['engine::internal_operations'], 'tests': ['internal_operations_never_survive_a_disconnection'], 'timeout': 3000}
for _p in ('C15', 'C07', 'C01'):
    PROPS[_p]['eb'].append(EB_INTERNAL)

# C16 "at send time for connection-dependent limits": the limits are the negotiated settings built from CONNACK (seed C16_6 was missed without this)
PROPS['C16']['ev'] = list(PROPS['C16']['ev']) + ['protocol']
PROPS['C16']['ek'] = PROPS['C16'].get('ek', []) + [EK_NEG]
