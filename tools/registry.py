"""registry.py - which machinery decides which property (single source for check.py and MANIFEST.json)."""

TBL = ['tbl_connect_reason_code', 'tbl_puback_reason_code', 'tbl_pubrec_reason_code', 'tbl_pubrel_reason_code',
       'tbl_pubcomp_reason_code', 'tbl_suback_reason_code', 'tbl_unsuback_reason_code', 'tbl_disconnect_reason_code',
       'tbl_quality_of_service', 'tbl_payload_format_indicator', 'tbl_connack_return_code_311', 'tbl_suback_return_code_311']

TRUST_COMMON = ('Trusted base: Verus 0.2026.09.13 + Z3; rustc front end; the extraction rules R0-R7 of DESIGN.md 1.1 '
                '(log statements and message text dropped); prelude shims for Instant/Duration/GneissError and the assumed '
                'std specifications listed verbatim in evidence.coverage.trusted_base; machine integers are machine integers '
                '(overflow is an obligation), except the u64 operation-id counter which is assumed not to wrap.')

PROPS = {
    'C06': {
        'ev': ['ids'],
        'level': 'proof',
        'technique': 'Verus function contracts + representation invariant on extracted real functions',
        'design_ref': 'DESIGN.md 3/C06',
        'level_text': 'Unbounded proof, per function, that packet-id allocation returns a non-zero id not in the table for every '
                      'table content and cursor position (incl. wrap-around), that binding/unbinding/completion keep the '
                      'id<->operation bijection (wf W2-W4), and lemmas deriving uniqueness and no-leak from wf.',
        'level_note': TRUST_COMMON + ' History-level claim rests on wf being preserved by every engine function; those outside E-V are bounded-checked only.',
    },
    'C03': {
        'ek': [{'crate': 'gneiss-mqtt', 'harnesses': [{'name': h, 'kind': 'complete', 'fn': 'TryFrom<u8>', 'expect_stub': True} for h in TBL]}],
        'level': 'proof',
        'technique': 'Kani loop-free full-domain harnesses (reason-code tables) + Verus contracts on decoder primitives',
        'design_ref': 'DESIGN.md 3/C03',
        'level_text': 'Complete (all 256 inputs, loop-free) proofs that every reason code the OASIS tables allow decodes to the code with that wire value.',
        'level_note': 'Trusted: Kani 0.68/CBMC 6.11; alloc::fmt::format stubbed (message text only).',
    },
}


def thorough_only_names(pid):
    res = set()
    for grp in PROPS.get(pid, {}).get('ek', []):
        for h in grp['harnesses']:
            if h.get('thorough_only'):
                res.add('ek:' + h['name'])
    return res
