#!/bin/sh
# usage: confirm_seed.sh <worktree> <demo-test-name-filter>
# confirms in the scratch worktree: (1) existing lib suite passes with patch, (2) demo fails with patch, (3) demo passes without
W="$1"; F="$2"
cd "$W" || exit 2
git checkout -q -- . 
git apply OUT/patch.diff || { echo "patch does not apply"; exit 2; }
echo "== existing suite with patch"; cargo test -p gneiss-mqtt --offline --lib 2>&1 | grep -E "^test result|FAILED|failed" | head -5
git apply OUT/demo.diff || { echo "demo does not apply on top of patch"; exit 2; }
echo "== demo WITH patch (expect failure)"; cargo test -p gneiss-mqtt --offline --lib -- "$F" 2>&1 | grep -E "^test result|panicked" | head -4
git checkout -q -- . ; git clean -fdq -e OUT
git apply OUT/demo.diff
echo "== demo WITHOUT patch (expect pass)"; cargo test -p gneiss-mqtt --offline --lib -- "$F" 2>&1 | grep -E "^test result|panicked" | head -4
git checkout -q -- . ; git clean -fdq -e OUT
