#!/usr/bin/env python3
"""ek.py - engine E-K: Kani on a per-run scratch copy of the real crate(s).

The scratch copy is `cp` of /repo/gneiss-mqtt (+ gneiss-mqtt-aws), with
  * `#[cfg(kani)] mod verif_kani;` appended to src/lib.rs,
  * /verif/kani/<crate>/ copied to src/verif_kani/,
and nothing else changed: Kani compiles the whole real crate.  Removed (with its target/) at exit.
"""
import json
import os
import re
import shutil
import subprocess
import sys
import tempfile
import time

HERE = os.path.dirname(os.path.abspath(__file__))
VERIF = os.path.dirname(HERE)

CRATES = {
    'gneiss-mqtt': {'dir': 'gneiss-mqtt', 'harness_dir': 'gneiss_mqtt', 'features': []},
    'gneiss-mqtt-aws': {'dir': 'gneiss-mqtt-aws', 'harness_dir': 'gneiss_mqtt_aws', 'features': ['threaded-rustls']},
}


def scratch_root():
    base = os.environ.get('VERIF_SCRATCH') or os.environ.get('TMPDIR') or '/var/tmp'
    os.makedirs(base, exist_ok=True)
    return tempfile.mkdtemp(prefix='verif-ek-', dir=base)


def prepare(repo_root, crate, scratch):
    """copy the crates, inject the harness module. returns crate dir in scratch."""
    for c in ('gneiss-mqtt', 'gneiss-mqtt-aws'):
        src = os.path.join(repo_root, c)
        dst = os.path.join(scratch, c)
        shutil.copytree(src, dst, ignore=shutil.ignore_patterns('target', 'examples'))
    # minimal workspace so path deps + Cargo.lock resolve offline
    open(os.path.join(scratch, 'Cargo.toml'), 'w').write(
        '[workspace]\nresolver = "2"\nmembers = ["gneiss-mqtt", "gneiss-mqtt-aws"]\n')
    shutil.copy(os.path.join(repo_root, 'Cargo.lock'), os.path.join(scratch, 'Cargo.lock'))
    os.makedirs(os.path.join(scratch, '.cargo'), exist_ok=True)
    open(os.path.join(scratch, '.cargo', 'config.toml'), 'w').write('[net]\noffline = true\n')
    cfg = CRATES[crate]
    cdir = os.path.join(scratch, cfg['dir'])
    hsrc = os.path.join(VERIF, 'kani', cfg['harness_dir'])
    hdst = os.path.join(cdir, 'src', 'verif_kani')
    shutil.copytree(hsrc, hdst, ignore=shutil.ignore_patterns('_append_*'))
    for fn in sorted(os.listdir(hsrc)):
        if fn.startswith('_append_') and fn.endswith('.rs.txt'):
            with open(os.path.join(cdir, 'src', fn[len('_append_'):-len('.txt')].replace('__', '/')), 'a') as f:
                f.write(open(os.path.join(hsrc, fn)).read())
    lib = os.path.join(cdir, 'src', 'lib.rs')
    with open(lib, 'a') as f:
        f.write('\n#[cfg(kani)]\nmod verif_kani;\n')
    return cdir


RESULT_RE = re.compile(r'^VERIFICATION:- (SUCCESSFUL|FAILED)', re.M)


def _mk_result(name, body):
    m = RESULT_RE.search(body)
    status = m.group(1) if m else 'UNKNOWN'
    failed = re.findall(r'^Failed Checks: (.*)$', body, flags=re.M)
    tm = re.search(r'Verification Time: ([0-9.]+)s', body)
    covers = re.findall(r'\*\* (\d+) of (\d+) cover properties satisfied', body)
    stubs = re.findall(r'- Stub: (.*)$', body, flags=re.M)
    checks = re.search(r'\*\* (\d+) of (\d+) failed', body)
    playback = None
    pm = re.search(r'Concrete playback unit test for `[^`]*`:\n```\n(.*?)```', body, re.S)
    if pm:
        playback = pm.group(1)
    return {'full_name': name, 'status': status, 'failed_checks': failed, 'time_s': float(tm.group(1)) if tm else None,
            'covers': [int(covers[0][0]), int(covers[0][1])] if covers else None, 'stubs': stubs,
            'n_failed': int(checks.group(1)) if checks else 0, 'n_checks': int(checks.group(2)) if checks else None,
            'playback': playback,
            'unwinding_failure': bool(re.search(r'Failed Checks: unwinding assertion', body)),
            'tail': body[-3000:] if status != 'SUCCESSFUL' else ''}


def parse_kani_output(text):
    """handles the sequential format ('Checking harness X...') and the -j format ('Thread n: Checking harness X...')."""
    res = {}
    if re.search(r'^Thread \d+: Checking harness', text, flags=re.M):
        cur = {}      # thread -> harness name
        bodies = {}   # harness -> text
        active = None
        for ln in text.split('\n'):
            m = re.match(r'^Thread (\d+): Checking harness (.*?)\.\.\.\s*$', ln)
            if m:
                cur[m.group(1)] = m.group(2).strip()
                bodies.setdefault(m.group(2).strip(), '')
                active = None
                continue
            m = re.match(r'^Thread (\d+): (.*)$', ln)
            if m:
                active = cur.get(m.group(1))
                if active is not None:
                    bodies[active] += m.group(2) + '\n'
                continue
            if active is not None:
                bodies[active] += ln + '\n'
                if ln.startswith('Verification Time:'):
                    active = None
        for name, body in bodies.items():
            res[name.split('::')[-1]] = _mk_result(name, body)
        return res
    parts = re.split(r'^Checking harness ([^\n]*?)\.\.\.\s*$', text, flags=re.M)
    for i in range(1, len(parts), 2):
        name = parts[i].strip()
        res[name.split('::')[-1]] = _mk_result(name, parts[i + 1])
    return res


def run(repo_root, crate, harnesses, timeout=1200, jobs=8, playback=True, keep=False):
    """returns {'status': ok|fail|tool-error, 'harnesses': {...}, 'wall_s':..., 'cmd':..., 'tool_error':...}"""
    t0 = time.time()
    scratch = scratch_root()
    out = {'status': 'ok', 'harnesses': {}, 'wall_s': 0.0, 'cmd': None, 'tool_error': None}
    try:
        cdir = prepare(repo_root, crate, scratch)
        def mkcmd(hs, pb):
            c = ['cargo', 'kani', '-Z', 'stubbing', '-Z', 'function-contracts']
            if pb:
                c += ['--output-format', 'regular', '-Z', 'concrete-playback', '--concrete-playback=print']
            else:
                c += ['--output-format', 'terse', '-j', str(jobs)]
            for f in CRATES[crate]['features']:
                c += ['--features', f]
            for h in hs:
                c += ['--harness', h]
            return c
        cmd = mkcmd(harnesses, False)
        out['cmd'] = 'cd <scratch copy of /repo>/%s && CARGO_NET_OFFLINE=true %s' % (CRATES[crate]['dir'], ' '.join(cmd))
        env = dict(os.environ)
        env['CARGO_NET_OFFLINE'] = 'true'
        env['CARGO_TARGET_DIR'] = os.path.join(scratch, 'target')
        try:
            p = subprocess.run(cmd, cwd=cdir, capture_output=True, text=True, timeout=timeout, env=env)
        except subprocess.TimeoutExpired as ex:
            out['status'] = 'tool-error'
            out['tool_error'] = 'kani timeout after %ds' % timeout
            return out
        text = p.stdout + '\n' + p.stderr
        out['raw_tail'] = text[-4000:]
        res = parse_kani_output(p.stdout)
        out['harnesses'] = res
        missing = [h for h in harnesses if h not in res]
        if missing:
            out['status'] = 'tool-error'
            errs = re.findall(r'(?ms)^error(?:\[E\d+\])?:.*?(?=^\S|\Z)', text)
            out['tool_error'] = 'no result for harnesses %s; %s' % (missing, ('\n'.join(errs[:3]))[:2500] if errs else text[-1500:])
            return out
        failed = [h for h in harnesses if res[h]['status'] == 'FAILED']
        if failed and playback:
            # second pass, single-threaded, to obtain Kani's concrete counterexample for each failed harness
            try:
                p2 = subprocess.run(mkcmd(failed, True), cwd=cdir, capture_output=True, text=True, timeout=timeout, env=env)
                res2 = parse_kani_output(p2.stdout)
                for h in failed:
                    if h in res2 and res2[h].get('playback'):
                        res[h]['playback'] = res2[h]['playback']
            except subprocess.TimeoutExpired:
                pass
        for h in harnesses:
            r = res[h]
            if r['status'] == 'UNKNOWN':
                out['status'] = 'tool-error'
                out['tool_error'] = 'harness %s: no verdict' % h
            elif r['status'] == 'FAILED' and out['status'] == 'ok':
                out['status'] = 'fail'
        return out
    finally:
        out['wall_s'] = time.time() - t0
        if not keep:
            shutil.rmtree(scratch, ignore_errors=True)
        else:
            out['scratch'] = scratch


if __name__ == '__main__':
    import argparse
    ap = argparse.ArgumentParser()
    ap.add_argument('crate')
    ap.add_argument('harness', nargs='+')
    ap.add_argument('--repo', default='/repo')
    ap.add_argument('--keep', action='store_true')
    a = ap.parse_args()
    r = run(a.repo, a.crate, a.harness, keep=a.keep)
    for k, v in r['harnesses'].items():
        print(k, v['status'], v['time_s'], v['failed_checks'], v['covers'], v['stubs'])
        if v['playback']:
            print(v['playback'])
    print({k: (v[-1500:] if isinstance(v, str) else v) for k, v in r.items() if k not in ('harnesses', 'raw_tail')})
