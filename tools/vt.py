#!/usr/bin/env python3
"""vt.py - mechanical extractor + contract weaver for the Verus engine (E-V).

A *unit template* (units/<unit>.vt.rs) is a Verus source skeleton.  Everything in it is
specification text written by us (spec fns, lemmas, contracts) EXCEPT the places marked with
//@ directives, which this tool replaces with text copied from the repository's *current working
tree* on every run.  No executable code of the repository is ever typed into a template.

Directives (each on its own line):

  //@struct <file> <Name> [keep=a,b] [drop=x,y]     copy a struct definition (R4 projection)
  //@enum   <file> <Name>                           copy an enum definition
  //@const  <file> <NAME>                           copy a const item
  //@macro  <file> <name>                           copy a macro_rules! definition (rules R0-R2 applied)
  //@fn <file> <[Type::]name> [props=C01,C02] [stub] [ret=r] [impl=<Trait for Type>]
      ... contract lines (requires/ensures/decreases, copied verbatim after the signature) ...
      //@@loop <n> [iter=<ident>]       following lines are the loop's invariant/decreases clauses
      //@@bodyend_of_loop <n>           following lines (proof block) are inserted at the end of loop n's body
      //@@at <before|after|bodystart|bodyend> "<anchor text>"    following lines are inserted there (proof blocks)
      //@@rewrite "<from>" => "<to>"    listed textual rewrite of the body (reported in evidence)
      //@@finding <ID>                following lines (a `proof { assume(..); }`) are inserted at body start ONLY in
                                      the 'restricted' run of a known finding (DESIGN.md 1.4)
  //@end

Fixed rewrite rules applied to every copied item (DESIGN.md section 1.1):
  R0 comments removed; R1 log-macro statements removed; R2 format!(..) -> verif_fmt();
  R3 visibility pub(crate)/pub(super) -> pub, attributes removed except the unconditional derives
     Copy/Clone/PartialEq/Eq/Default (+ Structural on field-less enums) and #[default]; R4 struct projection;
  R8 wildcard parameters `_: T` renamed `_argN: T`.

Exit codes used by callers: ExtractError => tool error (exit 2), never an alarm.
"""
import hashlib
import json
import os
import re
import sys


class ExtractError(Exception):
    pass


# ----------------------------------------------------------------------------- lexical helpers

def strip_comments(src):
    """Replace comments by spaces (newlines kept so line numbers survive)."""
    out = []
    i = 0
    n = len(src)
    while i < n:
        c = src[i]
        if c == '"':
            j = i + 1
            while j < n and src[j] != '"':
                if src[j] == '\\':
                    j += 1
                j += 1
            out.append(src[i:j + 1])
            i = j + 1
        elif c == 'r' and re.match(r'r#*"', src[i:]) and (i == 0 or not (src[i - 1].isalnum() or src[i - 1] == '_')):
            m = re.match(r'r(#*)"', src[i:])
            term = '"' + m.group(1)
            j = src.find(term, i + len(m.group(0)))
            out.append(src[i:j + len(term)])
            i = j + len(term)
        elif src.startswith('//', i):
            j = src.find('\n', i)
            j = n if j < 0 else j
            out.append(' ' * (j - i))
            i = j
        elif src.startswith('/*', i):
            depth = 1
            j = i + 2
            while j < n and depth > 0:
                if src.startswith('/*', j):
                    depth += 1
                    j += 2
                elif src.startswith('*/', j):
                    depth -= 1
                    j += 2
                else:
                    j += 1
            out.append(re.sub(r'[^\n]', ' ', src[i:j]))
            i = j
        elif c == "'":
            m = re.match(r"'(\\.[^']*|[^\\'])'", src[i:])
            if m:
                out.append(m.group(0))
                i += len(m.group(0))
            else:
                out.append(c)
                i += 1
        else:
            out.append(c)
            i += 1
    return ''.join(out)


def skip_string(src, i):
    """src[i] == '"' : return index just past the closing quote."""
    j = i + 1
    n = len(src)
    while j < n and src[j] != '"':
        if src[j] == '\\':
            j += 1
        j += 1
    return j + 1


def skip_char_or_lifetime(src, i):
    m = re.match(r"'(\\.[^']*|[^\\'])'", src[i:])
    if m:
        return i + len(m.group(0))
    return i + 1


def match_close(src, i, open_c, close_c):
    assert src[i] == open_c, (src[i:i + 20], open_c)
    d = 0
    n = len(src)
    while i < n:
        c = src[i]
        if c == '"':
            i = skip_string(src, i)
            continue
        if c == "'":
            i = skip_char_or_lifetime(src, i)
            continue
        if c == open_c:
            d += 1
        elif c == close_c:
            d -= 1
            if d == 0:
                return i
        i += 1
    raise ExtractError("unbalanced %s" % open_c)


ATTR = r'(?:#\[[^\]]*\]\s*)*'
VIS = r'(?:pub(?:\((?:crate|super)\))?\s+)?'


def find_body_open(src, i):
    """first '{' at paren/bracket depth 0 at or after i."""
    d = 0
    n = len(src)
    while i < n:
        c = src[i]
        if c == '"':
            i = skip_string(src, i)
            continue
        if c == "'":
            i = skip_char_or_lifetime(src, i)
            continue
        if c in '([':
            d += 1
        elif c in ')]':
            d -= 1
        elif c == '{' and d == 0:
            return i
        elif c == ';' and d == 0:
            return -1
        i += 1
    return -1


def find_impl_block(src, impl_header):
    """impl_header e.g. 'ProtocolState' or 'Ord for OperationTimeoutRecord'. returns (start,end) of '{...}'."""
    pat = re.compile(r'(?m)^[ \t]*impl(?:<[^>{]*>)?\s+' + re.escape(impl_header).replace(r'\ ', r'\s+') + r'(?:<[^>{]*>)?\s*(?:where[^{]*)?\{')
    res = []
    for m in pat.finditer(src):
        o = m.end() - 1
        res.append((o, match_close(src, o, '{', '}')))
    return res


def find_fn(src, name, impl_header=None):
    """returns (start, sig_end(open brace idx), end(close brace idx))."""
    spans = [(0, len(src))]
    if impl_header:
        spans = find_impl_block(src, impl_header)
        if not spans:
            raise ExtractError("impl block not found: %s" % impl_header)
    pat = re.compile(r'(?m)^[ \t]*(' + ATTR + r')(' + VIS + r')((?:const\s+|async\s+|unsafe\s+)*)fn\s+' + re.escape(name) + r'\b')
    hits = []
    for (a, b) in spans:
        for m in pat.finditer(src, a, b):
            if not impl_header:
                # free function: must be at brace depth 0; cheap test = no leading indentation
                line_start = src.rfind('\n', 0, m.start()) + 1
                if src[line_start:m.start(3) if m.group(3) else m.end()].startswith((' ', '\t')) and src[line_start] in ' \t':
                    continue
            hits.append(m)
    if not hits:
        raise ExtractError("fn not found: %s%s" % ((impl_header + "::") if impl_header else "", name))
    if len(hits) > 1:
        raise ExtractError("fn ambiguous: %s (%d hits)" % (name, len(hits)))
    m = hits[0]
    o = find_body_open(src, m.end())
    if o < 0:
        raise ExtractError("fn has no body: %s" % name)
    e = match_close(src, o, '{', '}')
    return m, o, e


def find_item(src, kind, name):
    pat = re.compile(r'(?m)^[ \t]*(' + ATTR + r')(' + VIS + r')' + kind + r'\s+' + re.escape(name) + r'\b')
    hits = list(pat.finditer(src))
    if not hits:
        raise ExtractError("%s not found: %s" % (kind, name))
    if len(hits) > 1:
        raise ExtractError("%s ambiguous: %s" % (kind, name))
    m = hits[0]
    if kind in ('const', 'static'):
        e = src.find(';', m.end())
        return m, None, e
    o = find_body_open(src, m.end())
    if o < 0:
        e = src.find(';', m.end())
        return m, None, e
    e = match_close(src, o, '{', '}')
    return m, o, e


LOG = re.compile(r'\b(?:log::)?(debug|info|warn|error|trace)!\s*\(')


def strip_logs(body):
    out = []
    i = 0
    dropped = 0
    while True:
        m = LOG.search(body, i)
        if not m:
            out.append(body[i:])
            break
        out.append(body[i:m.start()])
        j = match_close(body, m.end() - 1, '(', ')') + 1
        k = j
        while k < len(body) and body[k] in ' \t':
            k += 1
        if k < len(body) and body[k] == ';':
            k += 1
            j = k
        dropped += 1
        i = j
    return ''.join(out), dropped


FMT = re.compile(r'\bformat!\s*\(')


def replace_format(body):
    out = []
    i = 0
    cnt = 0
    while True:
        m = FMT.search(body, i)
        if not m:
            out.append(body[i:])
            break
        out.append(body[i:m.start()])
        j = match_close(body, m.end() - 1, '(', ')') + 1
        out.append('verif_fmt()')
        cnt += 1
        i = j
    return ''.join(out), cnt


def fix_vis(text):
    return re.sub(r'\bpub\((?:crate|super)\)', 'pub', text)


def strip_attrs(text):
    # remove outer attributes (#[...]) anywhere in an item text; keeps #![...] untouched (none expected)
    out = []
    i = 0
    n = len(text)
    while i < n:
        c = text[i]
        if c == '"':
            j = skip_string(text, i)
            out.append(text[i:j])
            i = j
            continue
        if c == '#' and i + 1 < n and text[i + 1] == '[':
            j = match_close(text, i + 1, '[', ']') + 1
            i = j
            continue
        out.append(c)
        i += 1
    return ''.join(out)


def squeeze_blank(text):
    text = re.sub(r'[ \t]+\n', '\n', text)
    return re.sub(r'\n{3,}', '\n\n', text)


# ----------------------------------------------------------------------------- source cache

class Repo:
    def __init__(self, root):
        self.root = root
        self.cache = {}

    def src(self, rel):
        if rel not in self.cache:
            p = os.path.join(self.root, rel)
            if not os.path.exists(p):
                raise ExtractError("source file missing: %s" % rel)
            raw = open(p, encoding='utf-8').read()
            self.cache[rel] = (raw, strip_comments(raw))
        return self.cache[rel]


def line_of(src, idx):
    return src.count('\n', 0, idx) + 1


# ----------------------------------------------------------------------------- struct / enum

KEEP_DERIVES = ['Copy', 'Clone', 'PartialEq', 'Eq', 'Default']


def kept_derives(attr_text):
    """R3: of the item's unconditional #[derive(..)] lists keep only Copy/Clone/PartialEq/Eq/Default."""
    found = []
    for m in re.finditer(r'#\[derive\(([^)]*)\)\]', attr_text):
        for d in m.group(1).split(','):
            d = d.strip()
            if d in KEEP_DERIVES and d not in found:
                found.append(d)
    return found


def strip_attrs_keep_default(text):
    marker = '\x00DEFAULT\x00'
    text = text.replace('#[default]', marker)
    text = strip_attrs(text)
    return text.replace(marker, '#[default]')


def split_fields(body):
    """split 'a: T, b: U<V,W>,' at depth-0 commas."""
    parts = []
    d = 0
    cur = []
    for ch in body:
        if ch in '<([{':
            d += 1
        elif ch in '>)]}':
            d -= 1
        if ch == ',' and d == 0:
            parts.append(''.join(cur))
            cur = []
        else:
            cur.append(ch)
    if ''.join(cur).strip():
        parts.append(''.join(cur))
    return [p.strip() for p in parts if p.strip()]


def extract_struct(repo, rel, name, keep=None, drop=None, info=None, noderive=None, defaultspec=False, retype=None, clonespec=False):
    raw, src = repo.src(rel)
    m, o, e = find_item(src, 'struct', name)
    if o is None:
        text = 'pub struct ' + src[m.end() - len(name):e + 1]
        dropped = []
    else:
        header = src[m.end() - len(name):o]
        fields = split_fields(strip_attrs(src[o + 1:e]))
        kept = []
        dropped = []
        names = []
        retyped = []
        for f in fields:
            f = fix_vis(f)
            fm = re.match(r'(?:pub\s+)?([A-Za-z_][A-Za-z0-9_]*)\s*:', f)
            if not fm:
                raise ExtractError("cannot parse field %r of struct %s" % (f, name))
            fname = fm.group(1)
            names.append(fname)
            if keep is not None and fname not in keep:
                dropped.append(fname)
                continue
            if drop is not None and fname in drop:
                dropped.append(fname)
                continue
            if not f.startswith('pub'):
                f = 'pub ' + f
            if retype and fname in retype:
                f = 'pub %s: %s' % (fname, retype[fname])     # R6: field type replaced by a prelude shim type
                retyped.append(fname)
            kept.append('    ' + re.sub(r'\s+', ' ', f) + ',')
        for k in (keep or []):
            if k not in names:
                raise ExtractError("struct %s has no field %s (keep-list out of date)" % (name, k))
        for k in (drop or []):
            if k not in names:
                raise ExtractError("struct %s has no field %s (drop-list out of date)" % (name, k))
        text = 'pub struct ' + header.strip() + ' {\n' + '\n'.join(kept) + '\n}\n'
    ders = [d for d in kept_derives(m.group(1)) if not (dropped and d == 'Default')]
    if defaultspec and o is not None:
        if 'Default' not in ders:
            raise ExtractError("defaultspec requested but struct %s does not derive Default" % name)
        clauses = []
        for f in fields:
            fm = re.match(r'(?:pub(?:\([a-z]+\))?\s+)?([A-Za-z_][A-Za-z0-9_]*)\s*:\s*(.*)$', f.strip(), re.S)
            fname, fty = fm.group(1), re.sub(r'\s+', '', fm.group(2))
            if fty.startswith('Option<'):
                clauses.append('r.%s is None' % fname)
            elif fty in ('u8', 'u16', 'u32', 'u64', 'usize', 'u128'):
                clauses.append('r.%s == 0' % fname)
            elif fty == 'bool':
                clauses.append('r.%s == false' % fname)
            elif fty.startswith('Vec<'):
                clauses.append('r.%s@.len() == 0' % fname)
            elif re.match(r'^[A-Za-z_][A-Za-z0-9_]*$', fty):
                em = re.search(r'(?m)^[ \t]*' + ATTR + VIS + r'enum\s+' + fty + r'\b', src)
                if em:
                    eo = find_body_open(src, em.end())
                    ee = match_close(src, eo, '{', '}')
                    dm = re.search(r'#\[default\]\s*([A-Za-z_][A-Za-z0-9_]*)', src[eo:ee])
                    if dm:
                        clauses.append('r.%s == %s::%s' % (fname, fty, dm.group(1)))
        text += ('// derive(Default) is field-wise Default (generated mechanically from the field types)\n'
                 'pub assume_specification [<%s as Default>::default] () -> (r: %s)\n    ensures %s;\n'
                 % (name, name, ',\n        '.join(clauses) if clauses else 'true'))
    if clonespec:
        if 'Clone' not in ders:
            raise ExtractError("clonespec requested but struct %s does not derive Clone" % name)
        ders = [d for d in ders if d != 'Clone']
        text += ('// derive(Clone) returns a value equal to the original: the derive is replaced by an external impl with that\n'
                 '// assumed specification (generated mechanically; Verus gives derived non-Copy Clone impls no spec)\n'
                 '#[verifier::external]\nimpl Clone for %s { fn clone(&self) -> Self { unimplemented!() } }\n'
                 'pub assume_specification [<%s as Clone>::clone] (x: &%s) -> (r: %s)\n    ensures r == *x;\n' % (name, name, name, name))
    if noderive:
        ders = [d for d in ders if d not in noderive]
    if ders:
        text = '#[derive(' + ', '.join(ders) + ')]\n' + text
    if info is not None:
        info.append({'kind': 'struct', 'name': name, 'file': rel, 'lines': [line_of(src, m.start()), line_of(src, e)],
                     'sha256': hashlib.sha256(src[m.start():e + 1].encode()).hexdigest(),
                     'dropped_fields': dropped, 'retyped_fields': retyped if o is not None else []})
    return text


FNPTR_TY = re.compile(r'\bfn\(([^()]*)\)\s*->\s*&\s*(\[u8\]|[A-Za-z_][A-Za-z0-9_]*)')


def fnptr_handle_name(m):
    """R16: name of the opaque handle type standing for the fn-pointer type matched by FNPTR_TY."""
    args = [re.sub(r'[^A-Za-z0-9]', '', a) for a in m.group(1).split(',')]
    ret = 'bytes' if m.group(2) == '[u8]' else m.group(2)
    return 'FnP_' + '_'.join(args) + '__' + ret


def extract_enum(repo, rel, name, info=None, noderive=None, fnptr_opaque=False):
    raw, src = repo.src(rel)
    m, o, e = find_item(src, 'enum', name)
    body = strip_attrs_keep_default(src[o + 1:e])
    n_fnptr = 0
    if fnptr_opaque:
        # R16: Verus has no fn-pointer types. A field of type `fn(A..) -> &R` is emitted as the opaque handle type FnP_<A..>__<R>
        # (declared by the unit); calls through such a value are listed //@@rewrite lines of the functions that make them.
        body, n_fnptr = FNPTR_TY.subn(fnptr_handle_name, body)
    header = src[m.end() - len(name):o].strip()
    text = 'pub enum ' + header + ' {' + fix_vis(body) + '}\n'
    text = squeeze_blank(text)
    ders = kept_derives(m.group(1))
    if noderive:
        ders = [d for d in ders if d not in noderive]
    if 'PartialEq' in ders and 'Eq' in ders and '(' not in body and '{' not in body:
        ders.append('Structural')   # field-less enum: derived == is structural equality
    if ders:
        text = '#[derive(' + ', '.join(ders) + ')]\n' + text
    if info is not None:
        info.append({'kind': 'enum', 'name': name, 'file': rel, 'lines': [line_of(src, m.start()), line_of(src, e)],
                     'sha256': hashlib.sha256(src[m.start():e + 1].encode()).hexdigest()})
        if n_fnptr:
            info[-1]['rules'] = {'R16_fnptr_fields_as_opaque_handles': n_fnptr}
    return text


def extract_type(repo, rel, name, info=None):
    raw, src = repo.src(rel)
    pat = re.compile(r'(?m)^[ \t]*(' + ATTR + r')(' + VIS + r')type\s+' + re.escape(name) + r'\b')
    hits = list(pat.finditer(src))
    if len(hits) != 1:
        raise ExtractError("type alias %s: %d hits" % (name, len(hits)))
    m = hits[0]
    e = src.find(';', m.end())
    text = 'pub type ' + src[m.end() - len(name):e + 1] + '\n'
    if info is not None:
        info.append({'kind': 'type', 'name': name, 'file': rel, 'lines': [line_of(src, m.start()), line_of(src, e)],
                     'sha256': hashlib.sha256(src[m.start():e + 1].encode()).hexdigest()})
    return text


def extract_const(repo, rel, name, info=None, kw='const'):
    raw, src = repo.src(rel)
    m, o, e = find_item(src, kw, name)
    # R9: an immutable `static` of scalar type is emitted as `const`; a constant integer initialiser made only of
    # literals and + - * << >> ( ) is evaluated here (Verus cannot fold `1 << 28`) and the literal is emitted
    decl = src[m.end() - len(name):e + 1]
    dm = re.match(r'^(\S+\s*:\s*[a-z0-9]+\s*=\s*)([0-9_ ()+\-*<>]+);$', decl, re.S)
    if dm and re.search(r'<<|>>', dm.group(2)):
        val = eval(dm.group(2).replace('_', ''), {'__builtins__': {}}, {})
        decl = '%s%d; // = %s' % (dm.group(1), val, dm.group(2).strip())
    text = 'pub const ' + decl + '\n'
    if info is not None:
        info.append({'kind': 'const', 'name': name, 'file': rel, 'lines': [line_of(src, m.start()), line_of(src, e)],
                     'sha256': hashlib.sha256(src[m.start():e + 1].encode()).hexdigest()})
    return text


# ----------------------------------------------------------------------------- functions

LOOP_KW = re.compile(r'\b(loop|while|for)\b')


def find_loops(body):
    """return list of (kw, kw_idx, open_brace_idx) for loops in body, in source order (all nesting levels)."""
    res = []
    i = 0
    n = len(body)
    while i < n:
        c = body[i]
        if c == '"':
            i = skip_string(body, i)
            continue
        if c == "'":
            i = skip_char_or_lifetime(body, i)
            continue
        m = LOOP_KW.match(body, i)
        if m and (i == 0 or not (body[i - 1].isalnum() or body[i - 1] == '_' or body[i - 1] == '.')):
            kw = m.group(1)
            # `for` in `impl X for Y` / HRTB do not occur inside fn bodies we extract; `for<'a>` skip
            if kw == 'for' and re.match(r'for\s*<', body[i:]):
                i = m.end()
                continue
            o = find_body_open(body, m.end())
            if o < 0:
                raise ExtractError("loop without body")
            res.append((kw, i, o))
            i = m.end()
            continue
        i += 1
    return res


def split_ret(sig):
    """sig = text from 'fn' to just before body '{'. returns (head_with_params, ret_type or None, where or '')."""
    po = sig.find('(')
    # generic params before '(' could contain parens in Fn bounds; gneiss does not use those in extracted fns
    pc = match_close(sig, po, '(', ')')
    head = sig[:pc + 1]
    rest = sig[pc + 1:]
    where = ''
    wm = re.search(r'\bwhere\b', rest)
    if wm:
        where = rest[wm.start():].strip()
        rest = rest[:wm.start()]
    rm = re.match(r'\s*->\s*(.*)$', rest, re.S)
    ret = rm.group(1).strip() if rm else None
    return head, ret, where


def extract_fn(repo, rel, qualname, contract_lines, loops, ats, rewrites, stub=False, ret_name='r',
               impl_header=None, info=None, props=None, emit_as=None, attrs=(), desugar=False, expand=None, fnptr_opaque=False):
    raw, src = repo.src(rel)
    if '::' in qualname and impl_header is None:
        impl_header, name = qualname.rsplit('::', 1)
    else:
        name = qualname.rsplit('::', 1)[-1]
    m, o, e = find_fn(src, name, impl_header)
    sig = src[m.start(3):o]
    sig = re.sub(r'\s+', ' ', sig).strip()
    head, ret, where = split_ret(sig)
    head = fix_vis(head)
    # R8: Verus rejects `_` as a parameter name; rename to _argN (parameter is unused by definition)
    cnt = [0]

    def _ren(mm):
        cnt[0] += 1
        return '%s_arg%d:' % (mm.group(1), cnt[0])
    head = re.sub(r'([(,]\s*)_\s*:', _ren, head)
    n_fnptr = 0
    if desugar:
        head, n_fnptr = fnptr_params_to_impl_fn(head)
    body = src[o:e + 1]
    rec = {'kind': 'fn', 'name': qualname, 'file': rel, 'lines': [line_of(src, m.start()), line_of(src, e)],
           'sha256': hashlib.sha256(src[m.start():e + 1].encode()).hexdigest(), 'props': props or [],
           'stub': stub}
    out = []
    is_trait_impl = impl_header is not None and ' for ' in impl_header
    vis = '' if is_trait_impl else 'pub '
    if emit_as:
        # R10: a trait-impl method is emitted as an inherent method under another name (so it can carry a contract)
        head = re.sub(r'\bfn\s+' + re.escape(name) + r'\b', 'fn ' + emit_as, head, count=1)
        vis = 'pub '
        rec['emitted_as'] = emit_as
        # R10 (cont.): `Self::Error` of the trait impl is its associated type; an inherent method has to name that type
        if ret is not None and 'Self::Error' in ret:
            blk_start = src.rfind('impl', 0, m.start())
            am = re.search(r'type\s+Error\s*=\s*([^;]+);', src[blk_start:m.start()])
            if not am:
                raise ExtractError("R10: cannot resolve Self::Error for %s" % qualname)
            ret = ret.replace('Self::Error', am.group(1).strip())
            rec['self_error_resolved_to'] = am.group(1).strip()
    if stub:
        out.append('#[verifier::external_body]')
    for at in attrs:
        out.append(at)
    line = vis + head
    if ret is not None:
        line += ' -> (%s: %s)' % (ret_name, ret)
    if where:
        line += ' ' + where
    out.append(line)
    for cl in contract_lines:
        out.append(cl)
    if stub:
        out.append('{ unimplemented!() }')
        rec['rules'] = {'R5_stub': True, 'R11_fnptr_params_as_impl_fn': n_fnptr}
        if info is not None:
            info.append(rec)
        return '\n'.join(out) + '\n'

    expansions = []
    for (mrel_, mname_) in (expand or []):
        body, prov_ = expand_invocations(repo, body, mrel_, mname_)
        expansions.append(prov_)
    n_cast = 0
    if fnptr_opaque:
        cast_ = re.compile(r'(\$?[A-Za-z_][A-Za-z0-9_]*)\s+as\s+' + FNPTR_TY.pattern.replace('\\b', '', 1))
        body, n_cast = cast_.subn(lambda m_: 'verif_of_' + fnptr_handle_name(FNPTR_TY.search(m_.group(0))) + '(' + m_.group(1) + ')', body)
    body, nlog = strip_logs(body)
    body, nfmt = replace_format(body)
    body = strip_attrs(body)
    desugared = []
    if desugar:
        body, desugared = desugar_iter(body, qualname)
    applied = []
    for (a, b) in rewrites:
        if body.count(a) < 1:
            raise ExtractError("rewrite anchor lost in %s: %r" % (qualname, a))
        applied.append({'from': a, 'to': b, 'count': body.count(a)})
        body = body.replace(a, b)
    # loops: weave invariants (process from last to first so indices stay valid)
    lps = find_loops(body)
    for n_ in loops:
        if n_ >= len(lps):
            raise ExtractError("loop %d not found in %s (has %d loops)" % (n_, qualname, len(lps)))
    if len(lps) and set(range(len(lps))) - set(loops.keys()):
        # loops without a contract are allowed (Verus will complain if it needs one)
        pass
    for idx in sorted(loops.keys(), reverse=True):
        kw, ki, oi = lps[idx]
        spec = loops[idx]
        clauses = '\n' + '\n'.join(spec['lines']) + '\n'
        if spec.get('endlines'):
            ce_ = match_close(body, oi, '{', '}')
            body = body[:ce_] + '\n'.join(spec['endlines']) + '\n' + body[ce_:]
        if kw == 'for' and spec.get('manual'):
            body = manual_loop(body, ki, oi, spec['manual'], clauses, qualname)
        elif kw == 'for' and spec.get('iter'):
            hdr = body[ki:oi]
            fm = re.match(r'for\s+(.*?)\s+in\s+(.*)$', hdr, re.S)
            if not fm:
                raise ExtractError("cannot parse for header in %s: %r" % (qualname, hdr))
            hdr = 'for %s in %s: %s' % (fm.group(1), spec['iter'], fm.group(2).rstrip())
            body = body[:ki] + hdr + clauses + body[oi:]
        else:
            body = body[:oi].rstrip() + clauses + body[oi:]
    # anchored insertions
    for (where_, anchor, lines) in ats:
        ins = '\n'.join(lines) + '\n'
        if where_ == 'bodystart':
            body = '{\n' + ins + body[1:]
            continue
        if where_ == 'bodyend':
            k = body.rstrip().rfind('}')
            body = body[:k] + ins + body[k:]
            continue
        nth = None
        cnt = body.count(anchor)
        if ' @nth=' in anchor:
            anchor, sel = anchor.rsplit(' @nth=', 1)
            nth, total = [int(x) for x in sel.split('/')]
            cnt = body.count(anchor)
            if cnt != total:
                raise ExtractError("anchor %r occurs %d times in %s (template expects %d)" % (anchor, cnt, qualname, total))
        elif cnt != 1:
            raise ExtractError("anchor %r occurs %d times in %s (need exactly 1)" % (anchor, cnt, qualname))
        ai = -1
        for _ in range(nth or 1):
            ai = body.find(anchor, ai + 1)
        if where_ == 'before':
            ls = body.rfind('\n', 0, ai) + 1
            body = body[:ls] + ins + body[ls:]
        elif where_ == 'after':
            le = body.find('\n', ai + len(anchor))
            le = len(body) if le < 0 else le + 1
            body = body[:le] + ins + body[le:]
        else:
            raise ExtractError("bad @@at position %r" % where_)
    body = squeeze_blank(body)
    body = '{ /*@body*/' + body[1:]
    out.append(body)
    rec['rules'] = {'R1_log_statements_dropped': nlog, 'R2_format_replaced': nfmt, 'rewrites': applied}
    if expansions:
        rec['rules']['R7c_macro_invocations_expanded'] = expansions
    if n_cast:
        rec['rules']['R16_fnptr_casts_as_handle_constructors'] = n_cast
    if desugar:
        rec['rules']['desugared'] = desugared
        rec['rules']['R11_fnptr_params_as_impl_fn'] = n_fnptr
    if info is not None:
        info.append(rec)
    return '\n'.join(out) + '\n'


# ----------------------------------------------------------------------------- iterator-chain desugaring (R11-R13)
#
# Verus has no specification for `Iterator::for_each`, `Iterator::fold`, `Iterator::copied` or closure patterns such as
# `|(_, id)|`.  For functions that opt in (`desugar` flag on //@fn) the extractor replaces those adapter calls by the loop the
# standard library documents them to be.  The rules are syntactic, applied on every run, and each application is reported in
# the evidence (`rules.desugared`).  Anything that does not match a rule exactly is an ExtractError (tool error), never a pass.
#
#   D1  `E.for_each(|PAT| BLOCK);`                         =>  `for PAT in E BLOCK`
#        (std: "for_each ... is equivalent to using a for loop on the iterator"; BLOCK must not contain return/?/break/continue)
#   D2  `E.fold(INIT, |ACC, X| BLOCK)`                     =>  `{ let mut ACC = INIT; for X in E { ACC = BLOCK; } ACC }`
#        (std: "let mut accum = init; for x in self { accum = f(accum, x); } accum")
#   D3  `let N : Vec<T> = E.copied().collect();`           =>  `let mut N : Vec<T> = Vec::new(); for verif_x in E { N.push(*verif_x); }`
#   D4  `let N : Vec<T> = E.filter(|P| BLOCK).copied().collect();`
#                                                          =>  `let mut N : Vec<T> = Vec::new(); for verif_x in E { let P = &verif_x; if BLOCK { N.push(*verif_x); } }`
#        (Vec's FromIterator pushes the items in iteration order; `copied` dereferences each `&T`; `filter` passes `&Item`)
#   R11 a parameter of fn-pointer type `fn() -> X` is emitted as `impl Fn() -> X` (Verus has no fn-pointer types; a fn item passed
#        at a call site is then passed as itself instead of being coerced to a pointer)

CONTROL = re.compile(r'\b(return|break|continue)\b|\?')


def _stmt_start(body, i):
    """index of the first non-blank char of the statement containing position i (scan back to ; { } at depth 0)."""
    d = 0
    j = i - 1
    while j >= 0:
        c = body[j]
        if c in ')]}':
            if c == '}' and d == 0:
                break
            d += 1
        elif c in '([{':
            if d == 0:
                break
            d -= 1
        elif c == ';' and d == 0:
            break
        j -= 1
    j += 1
    while j < i and body[j] in ' \t\n':
        j += 1
    return j


def _parse_closure(text, qualname):
    """text = `|PARAMS| BODY` (BODY a block or an expression); returns (params list, body text)."""
    t = text.strip()
    if not t.startswith('|'):
        raise ExtractError("desugar: expected a closure in %s: %r" % (qualname, t[:60]))
    # parameters end at the next `|` at paren depth 0
    d = 0
    k = 1
    while k < len(t):
        c = t[k]
        if c in '([<':
            d += 1
        elif c in ')]>':
            d -= 1
        elif c == '|' and d == 0:
            break
        k += 1
    params = [x.strip() for x in split_fields(t[1:k])]
    return params, t[k + 1:].strip()


def _split_args(text):
    """split call arguments at depth-0 commas (closures' `|a, b|` parameter lists are kept together)."""
    parts = []
    d = 0
    cur = []
    in_bar = False
    for idx, ch in enumerate(text):
        if ch == '|' and d == 0:
            in_bar = not in_bar if (in_bar or not ''.join(cur).strip()) else in_bar
        if ch in '([{':
            d += 1
        elif ch in ')]}':
            d -= 1
        if ch == ',' and d == 0 and not in_bar:
            parts.append(''.join(cur))
            cur = []
        else:
            cur.append(ch)
    if ''.join(cur).strip():
        parts.append(''.join(cur))
    return [x.strip() for x in parts]


def _as_block(b):
    """closure body as a loop body block; a one-line block is spread over three lines so that proof anchors can sit inside it."""
    b = b.strip()
    if not b.startswith('{'):
        return '{\n            ' + b + '\n        }'
    if '\n' not in b:
        inner = b[1:-1].strip()
        return '{\n            ' + inner + '\n        }'
    return b


def desugar_iter(body, qualname):
    applied = []
    # ---- D3 / D4 : let N : Vec<T> = E[.filter(|P| B)].copied().collect();
    pat = re.compile(r'let\s+([A-Za-z_][A-Za-z0-9_]*)\s*:\s*(Vec<[^>]*>)\s*=\s*')
    pos = 0
    while True:
        m = pat.search(body, pos)
        if not m:
            break
        semi = m.end()
        d = 0
        while semi < len(body):
            c = body[semi]
            if c == '"':
                semi = skip_string(body, semi)
                continue
            if c in '([{':
                d += 1
            elif c in ')]}':
                d -= 1
            elif c == ';' and d == 0:
                break
            semi += 1
        rhs = body[m.end():semi]
        rhs_n = re.sub(r'\s+', ' ', rhs).strip()
        if not rhs_n.endswith('.copied().collect()'):
            pos = m.end()
            continue
        src_e = rhs_n[:-len('.copied().collect()')]
        name, ty = m.group(1), m.group(2)
        fi = src_e.rfind('.filter(')
        if fi >= 0 and src_e.endswith(')'):
            recv = src_e[:fi]
            clos = src_e[fi + len('.filter('):-1]
            params, cb = _parse_closure(clos, qualname)
            if len(params) != 1 or CONTROL.search(cb):
                raise ExtractError("desugar D4 does not apply in %s" % qualname)
            rep = ('let mut %s : %s = Vec::new();\n        for verif_x in %s {\n            let %s = &verif_x;\n            if %s {\n                %s.push(*verif_x);\n            }\n        }'
                   % (name, ty, recv, params[0], cb, name))
            applied.append({'rule': 'D4 filter+copied+collect -> push loop', 'binding': name})
        else:
            if '|' in src_e:
                raise ExtractError("desugar D3 does not apply in %s: %r" % (qualname, src_e))
            rep = 'let mut %s : %s = Vec::new();\n        for verif_x in %s {\n            %s.push(*verif_x);\n        }' % (name, ty, src_e, name)
            applied.append({'rule': 'D3 copied+collect -> push loop', 'binding': name})
        body = body[:m.start()] + rep + body[semi + 1:]
        pos = m.start() + len(rep)
    # ---- D6 : F(E.filter(|P| B1).map(|Q| B2), REST)  =>  { let mut verif_items = Vec::new(); for verif_x in E { let P = &verif_x;
    #           if B1 { let Q = verif_x; verif_items.push(B2); } } F(verif_items.into_iter(), REST) }
    # Eager evaluation of a lazy adapter chain handed to a callee. Equivalent because both closures capture only shared borrows
    # (rustc's borrow checker: the callee holds the iterator, so nothing the closures read can change while it runs) and every panic
    # site inside the closures is an obligation of the loop as well.
    while True:
        i = body.find('.filter(')
        if i < 0:
            break
        o = i + len('.filter(') - 1
        c = match_close(body, o, '(', ')')
        rest = body[c + 1:]
        mm = re.match(r'\s*\.map\(', rest)
        if not mm:
            raise ExtractError("desugar D6: .filter(..) not followed by .map(..) in %s" % qualname)
        o2 = c + 1 + mm.end() - 1
        c2 = match_close(body, o2, '(', ')')
        p1, b1 = _parse_closure(body[o + 1:c], qualname)
        p2, b2 = _parse_closure(body[o2 + 1:c2], qualname)
        if len(p1) != 1 or len(p2) != 1 or CONTROL.search(b1) or CONTROL.search(b2):
            raise ExtractError("desugar D6 does not apply in %s" % qualname)
        # receiver E: scan back over identifiers, dots and balanced call parentheses to the opening '(' of the callee's argument list
        j = i
        while j > 0:
            ch = body[j - 1]
            if ch.isalnum() or ch in '_.':
                j -= 1
            elif ch == ')':
                d = 0
                k = j - 1
                while k >= 0:
                    if body[k] == ')':
                        d += 1
                    elif body[k] == '(':
                        d -= 1
                        if d == 0:
                            break
                    k -= 1
                j = k
            else:
                break
        recv = body[j:i]
        if j == 0 or body[j - 1] != '(':
            raise ExtractError("desugar D6: adapter chain is not the first argument of a call in %s" % qualname)
        # callee name before '('
        k = j - 1
        st = k
        while st > 0 and (body[st - 1].isalnum() or body[st - 1] in '_:.'):
            st -= 1
        callee = body[st:k]
        ce = match_close(body, k, '(', ')')
        restargs = body[c2 + 1:ce]
        def _strip_block(b):
            b = b.strip()
            if b.startswith('{') and b.endswith('}'):
                return b[1:-1].strip()
            return b
        rep = ('{\n        let mut verif_items = Vec::new();\n        for verif_x in %s {\n            let %s = &verif_x;\n            if %s {\n                let %s = verif_x;\n                verif_items.push(%s);\n            }\n        }\n        %s(verif_items.into_iter()%s)\n        }'
               % (recv, p1[0], _strip_block(b1), p2[0], _strip_block(b2), callee, restargs))
        body = body[:st] + rep + body[ce + 1:]
        applied.append({'rule': 'D6 filter+map argument -> eager Vec + into_iter', 'callee': callee})
    # ---- R15 : destructuring assignment `(a, b) = E;` => `{ let verif_tupleK = E; a = verif_tupleK.0; b = verif_tupleK.1; }`
    # (Rust reference, "Destructuring assignments": desugars to a `let` with the same pattern followed by assignments)
    n_tup = 0
    while True:
        mt = re.search(r'(?m)^([ \t]*)\(\s*([A-Za-z_][A-Za-z0-9_]*)\s*,\s*([A-Za-z_][A-Za-z0-9_]*)\s*\)\s*=\s*([^;\n]+);', body)
        if not mt:
            break
        var = 'verif_tuple%d' % n_tup
        n_tup += 1
        ind = mt.group(1)
        rep = '%s{ let %s = %s; %s = %s.0; %s = %s.1; }' % (ind, var, mt.group(4).strip(), mt.group(2), var, mt.group(3), var)
        body = body[:mt.start()] + rep + body[mt.end():]
        applied.append({'rule': 'R15 destructuring assignment -> let + assignments', 'targets': [mt.group(2), mt.group(3)]})
    # ---- D7 : for X in E.take(N) BLOCK  =>  let mut verif_takenK: usize = 0; for X in E { if verif_takenK < N { verif_takenK += 1; BLOCK } }
    # (std: `take(n)` "yields the first n elements, or fewer if the underlying iterator ends sooner"; elements after the first N are pulled
    # from the underlying iterator and ignored instead of not being pulled - unobservable for iterators over collections, the only use)
    n_take = 0
    while True:
        mt = re.search(r'for\s+([A-Za-z_][A-Za-z0-9_]*)\s+in\s+([^\n{]+?)\.take\(([^\n{}]+?)\)\s*\{', body)
        if not mt:
            break
        var = 'verif_taken%d' % n_take
        n_take += 1
        ob = mt.end() - 1
        cb = match_close(body, ob, '{', '}')
        inner = body[ob + 1:cb]
        if re.search(r'\b(break|continue)\b', inner):
            raise ExtractError("desugar D7 does not apply in %s (break/continue in the loop body)" % qualname)
        rep = ('let mut %s: usize = 0;\n        for %s in %s {\n            if %s < %s {\n            %s += 1;%s            }\n        }'
               % (var, mt.group(1), mt.group(2).strip(), var, mt.group(3).strip(), var, inner))
        body = body[:mt.start()] + rep + body[cb + 1:]
        applied.append({'rule': 'D7 for-in-take -> counted loop', 'receiver': mt.group(2).strip(), 'count': mt.group(3).strip()})
    # ---- D8 : for (I, X) in E.enumerate() BLOCK  =>  let mut verif_enumK: usize = 0; for X in E { let I = verif_enumK; verif_enumK += 1; BLOCK }
    # (std: enumerate "yields pairs (i, val), where i is the current index of iteration", starting at 0; the counter cannot overflow for an
    # in-memory collection - the woven loop invariant `verif_enumK == it.index@` makes that an obligation, not an assumption)
    n_enum = 0
    while True:
        mt = re.search(r'for\s+\(\s*([A-Za-z_][A-Za-z0-9_]*)\s*,\s*([A-Za-z_][A-Za-z0-9_]*)\s*\)\s+in\s+([^\n{]+?)\.enumerate\(\)\s*\{', body)
        if not mt:
            break
        var = 'verif_enum%d' % n_enum
        n_enum += 1
        ob = mt.end() - 1
        rep = 'let mut %s: usize = 0;\n    for %s in %s {\n        let %s = %s;\n        %s += 1;' % (var, mt.group(2), mt.group(3).strip(), mt.group(1), var, var)
        body = body[:mt.start()] + rep + body[ob + 1:]
        applied.append({'rule': 'D8 for-in-enumerate -> counted loop', 'receiver': mt.group(3).strip(), 'index': mt.group(1)})
    # ---- D1 : E.for_each(|PAT| BLOCK);
    while True:
        i = body.find('.for_each(')
        if i < 0:
            break
        o = i + len('.for_each(') - 1
        c = match_close(body, o, '(', ')')
        params, cb = _parse_closure(body[o + 1:c], qualname)
        if len(params) != 1 or CONTROL.search(cb):
            raise ExtractError("desugar D1 does not apply in %s (closure with control flow or several parameters)" % qualname)
        st = _stmt_start(body, i)
        recv = re.sub(r'\s+', ' ', body[st:i]).strip()
        k = c + 1
        while k < len(body) and body[k] in ' \t':
            k += 1
        if k >= len(body) or body[k] != ';':
            raise ExtractError("desugar D1: for_each used as an expression in %s" % qualname)
        rep = 'for %s in %s %s' % (params[0], recv, _as_block(cb))
        body = body[:st] + rep + body[k + 1:]
        applied.append({'rule': 'D1 for_each -> for', 'receiver': recv})
    # ---- D2 : E.fold(INIT, |ACC, X| BLOCK)
    while True:
        i = body.find('.fold(')
        if i < 0:
            break
        o = i + len('.fold(') - 1
        c = match_close(body, o, '(', ')')
        args = _split_args(body[o + 1:c])
        if len(args) != 2:
            raise ExtractError("desugar D2: fold with %d arguments in %s" % (len(args), qualname))
        params, cb = _parse_closure(args[1], qualname)
        if len(params) != 2 or CONTROL.search(cb):
            raise ExtractError("desugar D2 does not apply in %s" % qualname)
        st = _stmt_start(body, i)
        recv = re.sub(r'\s+', ' ', body[st:i]).strip()
        rep = '{\n        let mut %s = %s;\n        for %s in %s {\n            %s = %s;\n        }\n        %s\n        }' % (
            params[0], args[0], params[1], recv, params[0], cb, params[0])
        body = body[:st] + rep + body[c + 1:]
        applied.append({'rule': 'D2 fold -> accumulator loop', 'receiver': recv})
    # ---- D5 : E.any(|P| BODY)  =>  { let mut verif_anyN = false; for P in E { if BODY { verif_anyN = true; break; } } verif_anyN }
    # (std: "any() is short-circuiting; it will stop processing as soon as it finds a true")
    n_any = 0
    while True:
        i = body.find('.any(')
        if i < 0:
            break
        o = i + len('.any(') - 1
        c = match_close(body, o, '(', ')')
        params, cb = _parse_closure(body[o + 1:c], qualname)
        if len(params) != 1 or CONTROL.search(cb):
            raise ExtractError("desugar D5 does not apply in %s" % qualname)
        # receiver: scan back over a method chain made of identifiers, dots and balanced call parentheses
        j = i
        while j > 0:
            ch = body[j - 1]
            if ch.isalnum() or ch in '_.':
                j -= 1
            elif ch == ')':
                d = 0
                k = j - 1
                while k >= 0:
                    if body[k] == ')':
                        d += 1
                    elif body[k] == '(':
                        d -= 1
                        if d == 0:
                            break
                    k -= 1
                j = k
            else:
                break
        recv = body[j:i]
        var = 'verif_any%d' % n_any
        n_any += 1
        rep = '{ let mut %s = false;\n        for %s in %s {\n            if %s {\n                %s = true;\n                break;\n            }\n        }\n        %s }' % (var, params[0], recv, cb, var, var)
        body = body[:j] + rep + body[c + 1:]
        applied.append({'rule': 'D5 any -> short-circuit loop', 'receiver': recv})
    # ---- R14 : `X.into_iter()` handed to a callee as an argument is emitted as `(X.into_iter()).into_iter()`.
    # `Iterator::into_iter` is the identity (core: `impl<I: Iterator> IntoIterator for I { fn into_iter(self) -> I { self } }`);
    # the extra call only restores the type information Verus drops for the associated type of the by-value
    # `IntoIterator` impls of VecDeque / HashMap (no projection axiom is generated for them outside vstd).
    def _r14(mm):
        applied.append({'rule': 'R14 identity into_iter on by-value iterator argument', 'receiver': mm.group(1)})
        return '(%s.into_iter()).into_iter()' % mm.group(1)
    body = re.sub(r'(?<![\w.)])([A-Za-z_][A-Za-z0-9_]*(?:\.[A-Za-z_][A-Za-z0-9_]*)*)\.into_iter\(\)(?=\s*[,)])', _r14, body)
    return body, applied


def fnptr_params_to_impl_fn(head):
    """R11: `name: fn(A) -> R` parameters become `name: impl Fn(A) -> R`."""
    new, n = re.subn(r'(:\s*)fn\s*\(', r'\1impl Fn(', head)
    return new, n


def manual_loop(body, ki, oi, itname, clauses, qualname):
    """`for PAT in E BLOCK` -> `{ let mut it = (E).into_iter(); loop <clauses> { match it.next() { Some(PAT) => BLOCK, None => { break; } } } }`
    (the desugaring of `for` in the Rust reference), so that invariants can name the iterator."""
    hdr = body[ki:oi]
    fm = re.match(r'for\s+(.*?)\s+in\s+(.*)$', hdr, re.S)
    if not fm:
        raise ExtractError("cannot parse for header in %s: %r" % (qualname, hdr))
    ce = match_close(body, oi, '{', '}')
    blk = body[oi:ce + 1]
    rep = ('{ let mut %s = (%s).into_iter();\n        loop%s        {\n            match %s.next() {\n                Some(%s) => %s,\n                None => { break; }\n            }\n        } }'
           % (itname, fm.group(2).strip(), clauses, itname, fm.group(1).strip(), blk))
    return body[:ki] + rep + body[ce + 1:]


# ----------------------------------------------------------------------------- R7b: macro-generated functions
def macro_single_arm(repo, macro_rel, macro_name, rule='R7c'):
    """(params, body, provenance) of a macro_rules! with ONE arm whose parameters are single fragments (no repetitions)."""
    _, msrc = repo.src(macro_rel)
    dm = re.search(r'macro_rules!\s+' + re.escape(macro_name) + r'\s*\{', msrc)
    if not dm:
        raise ExtractError("%s: macro_rules! %s not found in %s" % (rule, macro_name, macro_rel))
    mo = msrc.index('{', dm.start())
    mc = match_close(msrc, mo, '{', '}')
    arm = msrc[mo + 1:mc]
    po = arm.index('(')
    pc = match_close(arm, po, '(', ')')
    if '$(' in arm:
        raise ExtractError("%s: macro %s uses repetitions - outside the supported subset" % (rule, macro_name))
    params = re.findall(r'\$([A-Za-z_][A-Za-z0-9_]*)\s*:\s*([a-z]+)', arm[po + 1:pc])
    bo = arm.index('{', arm.index('=>', pc))
    bc = match_close(arm, bo, '{', '}')
    if re.search(r'\(\s*\$', arm[bc + 1:]):
        raise ExtractError("%s: macro %s has more than one arm" % (rule, macro_name))
    prov = {'file': macro_rel, 'lines': [line_of(msrc, dm.start()), line_of(msrc, mc)], 'sha256': hashlib.sha256(msrc[dm.start():mc + 1].encode()).hexdigest()}
    return params, strip_comments(arm[bo + 1:bc]), prov


def expand_invocations(repo, body, macro_rel, macro_name):
    """R7c: every invocation `macro_name!(ARGS..)` inside a function body is replaced by `{ BODY }` with the fragments substituted textually
    (the transcription rule of the Rust reference for non-repeating metavariables; hygiene is not modelled - the expansion is compiled by
    rustc inside the unit, so a capture would be a compile error or change the obligations, never pass silently). Returns (body, provenance)."""
    params, mbody, prov = macro_single_arm(repo, macro_rel, macro_name)
    count = 0
    pat = re.compile(r'\b' + re.escape(macro_name) + r'!\s*\(')
    while True:
        im = pat.search(body)
        if not im:
            break
        o = im.end() - 1
        c = match_close(body, o, '(', ')')
        args = [a.strip() for a in _split_args(body[o + 1:c])]
        if len(args) != len(params):
            raise ExtractError("R7c: %s! takes %d fragments, invocation has %d arguments" % (macro_name, len(params), len(args)))
        exp = mbody
        for (pname, frag), val in sorted(zip(params, args), key=lambda t: -len(t[0][0])):
            exp = re.sub(r'\$' + re.escape(pname) + r'\b', lambda _m, v=val: v, exp)
        if '$' in exp:
            raise ExtractError("R7c: unsubstituted metavariable left in the expansion of %s!" % macro_name)
        k = c + 1
        while k < len(body) and body[k] in ' \t':
            k += 1
        if k < len(body) and body[k] == ';':
            k += 1
        body = body[:im.start()] + '{' + exp + '}' + body[k:]
        count += 1
    prov['invocations'] = count
    prov['macro'] = macro_name
    return body, prov


def expand_macro_fn(repo, rel, fn_name, macro_rel, macro_name):
    """R7b: a function generated by `macro_name!(fn_name, ARGS..);` in `rel`, where `macro_name` is a macro_rules! with ONE arm whose
    parameters are single fragments (`$x: ident`, `$y: expr`; no repetitions), is expanded by textual substitution of the fragments
    (the transcription rule of the Rust reference for non-repeating metavariables). Returns (virtual_rel, provenance)."""
    raw, src = repo.src(rel)
    _, msrc = repo.src(macro_rel)
    # the invocation whose first argument is fn_name
    im = re.search(r'\b' + re.escape(macro_name) + r'!\s*\(\s*' + re.escape(fn_name) + r'\s*,', src)
    if not im:
        raise ExtractError("R7b: no invocation %s!(%s, ..) in %s" % (macro_name, fn_name, rel))
    o = src.index('(', im.start())
    c = match_close(src, o, '(', ')')
    args = [a.strip() for a in _split_args(src[o + 1:c])]
    dm = re.search(r'macro_rules!\s+' + re.escape(macro_name) + r'\s*\{', msrc)
    if not dm:
        raise ExtractError("R7b: macro_rules! %s not found in %s" % (macro_name, macro_rel))
    mo = msrc.index('{', dm.start())
    mc = match_close(msrc, mo, '{', '}')
    arm = msrc[mo + 1:mc]
    po = arm.index('(')
    pc = match_close(arm, po, '(', ')')
    params_txt = arm[po + 1:pc]
    if '$(' in arm or arm.count('=>') < 1:
        raise ExtractError("R7b: macro %s uses repetitions - outside the supported subset" % macro_name)
    params = re.findall(r'\$([A-Za-z_][A-Za-z0-9_]*)\s*:\s*([a-z]+)', params_txt)
    if len(params) != len(args):
        raise ExtractError("R7b: %s! takes %d fragments, invocation has %d arguments" % (macro_name, len(params), len(args)))
    bo = arm.index('{', arm.index('=>', pc))
    bc = match_close(arm, bo, '{', '}')
    if re.search(r'\(\s*\$', arm[bc + 1:]):
        raise ExtractError("R7b: macro %s has more than one arm" % macro_name)
    body = arm[bo + 1:bc]
    for (pname, frag), val in sorted(zip(params, args), key=lambda t: -len(t[0][0])):
        body = re.sub(r'\$' + re.escape(pname) + r'\b', lambda _m, v=val: v, body)
    if '$' in body:
        raise ExtractError("R7b: unsubstituted metavariable left in the expansion of %s!(%s..)" % (macro_name, fn_name))
    import textwrap
    body = textwrap.dedent(body.strip('\n')) + '\n'
    body = strip_comments(body)
    vrel = '%s#%s' % (rel, fn_name)
    repo.cache[vrel] = (body, body)
    prov = {'generated_by': '%s!' % macro_name, 'invocation': {'file': rel, 'line': line_of(src, im.start()), 'arguments': args},
            'macro_definition': {'file': macro_rel, 'lines': [line_of(msrc, dm.start()), line_of(msrc, mc)], 'sha256': hashlib.sha256(msrc[dm.start():mc + 1].encode()).hexdigest()}}
    return vrel, prov


# ----------------------------------------------------------------------------- template processing

def parse_kv(tokens):
    kv = {}
    flags = set()
    for t in tokens:
        if '=' in t:
            k, v = t.split('=', 1)
            kv[k] = v
        else:
            flags.add(t)
    return kv, flags


def process_template(template_path, repo_root, include_dirs=(), restrict=()):
    """returns (text, info) ; info['items'] list, info['fn_lines'] name->(start,end) line ranges in output."""
    repo = Repo(repo_root)
    items = []
    out_lines = []
    fn_ranges = {}
    lines = open(template_path, encoding='utf-8').read().split('\n')
    i = 0
    n = len(lines)

    def emit(text):
        for l in text.rstrip('\n').split('\n'):
            out_lines.append(l)

    while i < n:
        ln = lines[i]
        s = ln.strip()
        if s.startswith('//@include '):
            fname = s.split()[1]
            found = None
            for d in list(include_dirs) + [os.path.dirname(template_path)]:
                p = os.path.join(d, fname)
                if os.path.exists(p):
                    found = p
                    break
            if not found:
                raise ExtractError("include not found: %s" % fname)
            sub_text, sub_info = process_template(found, repo_root, include_dirs, restrict)
            base = len(out_lines)
            emit(sub_text)
            items.extend(sub_info['items'])
            for k, (a, b) in sub_info['fn_lines'].items():
                fn_ranges[k] = (a + base, b + base)
            i += 1
            continue
        if s.startswith('//@struct '):
            tk = s.split()
            kv, fl = parse_kv(tk[3:])
            keep = kv['keep'].split(',') if 'keep' in kv else None
            drop = kv['drop'].split(',') if 'drop' in kv else None
            retype = dict(x.split(':', 1) for x in kv['retype'].split(',')) if 'retype' in kv else None
            emit(extract_struct(repo, tk[1], tk[2], keep, drop, items, kv['noderive'].split(',') if 'noderive' in kv else None,
                                defaultspec=('defaultspec' in fl), retype=retype, clonespec=('clonespec' in fl)))
            i += 1
            continue
        if s.startswith('//@enum '):
            tk = s.split()
            kv, efl = parse_kv(tk[3:])
            emit(extract_enum(repo, tk[1], tk[2], items, kv['noderive'].split(',') if 'noderive' in kv else None, fnptr_opaque=('fnptr_opaque' in efl)))
            i += 1
            continue
        if s.startswith('//@macro '):
            tk = s.split()
            raw, src = repo.src(tk[1])
            mm = list(re.finditer(r'(?m)^[ \t]*macro_rules!\s+' + re.escape(tk[2]) + r'\s*\{', src))
            if len(mm) != 1:
                raise ExtractError("macro %s: %d hits" % (tk[2], len(mm)))
            o = mm[0].end() - 1
            e = match_close(src, o, '{', '}')
            mtext, _ = strip_logs(src[mm[0].start():e + 1])
            mtext, _ = replace_format(mtext)
            n_cast = 0
            if 'fnptr_opaque' in tk[3:]:
                # R16: `X as fn(A..) -> &R` (a fn item coerced to a fn pointer) becomes `verif_of_FnP_<A..>__<R>(X)`, the unit's assumed
                # constructor of the opaque handle: "the pointer behaves as the fn item it was made from"
                cast = re.compile(r'(\$?[A-Za-z_][A-Za-z0-9_]*)\s+as\s+' + FNPTR_TY.pattern.replace('\\b', '', 1))
                mtext, n_cast = cast.subn(lambda m_: 'verif_of_' + fnptr_handle_name(FNPTR_TY.search(m_.group(0))) + '(' + m_.group(1) + ')', mtext)
            emit(squeeze_blank(mtext))
            items.append({'kind': 'macro', 'name': tk[2], 'file': tk[1], 'lines': [line_of(src, mm[0].start()), line_of(src, e)],
                          'sha256': hashlib.sha256(src[mm[0].start():e + 1].encode()).hexdigest()})
            if n_cast:
                items[-1]['rules'] = {'R16_fnptr_casts_as_handle_constructors': n_cast}
            i += 1
            continue
        if s.startswith('//@lemma '):
            tk = s.split()
            kv, _ = parse_kv(tk[2:])
            items.append({'kind': 'lemma', 'name': tk[1], 'props': kv.get('props', '').split(',') if kv.get('props') else []})
            i += 1
            continue
        if s.startswith('//@type '):
            tk = s.split()
            emit(extract_type(repo, tk[1], tk[2], items))
            i += 1
            continue
        if s.startswith('//@const ') or s.startswith('//@static '):
            tk = s.split()
            emit(extract_const(repo, tk[1], tk[2], items, kw=tk[0][3:]))
            i += 1
            continue
        if s.startswith('//@fn '):
            tk = s.split()
            rel, qual = tk[1], tk[2]
            rest = ' '.join(tk[3:])
            impl_header = None
            im = re.search(r'impl=\{([^}]*)\}', rest)
            if im:
                impl_header = im.group(1)
                rest = rest.replace(im.group(0), '')
            kv, flags = parse_kv(rest.split())
            contract = []
            loops = {}
            ats = []
            rewrites = []
            findings_seen = []
            fn_attrs = []
            cur = contract
            i += 1
            while i < n and lines[i].strip() != '//@end':
                t = lines[i].strip()
                if t.startswith('//@@loop'):
                    tk2 = t.split()
                    kv2, _ = parse_kv(tk2[2:])
                    spec = {'lines': [], 'iter': kv2.get('iter'), 'manual': kv2.get('manual'), 'endlines': []}
                    loops[int(tk2[1])] = spec
                    cur = spec['lines']
                elif t.startswith('//@@bodyend_of_loop'):
                    # //@@bodyend_of_loop N : following lines (a proof block) go to the END of loop N's body
                    nloop = int(t.split()[1])
                    if nloop not in loops:
                        raise ExtractError("//@@bodyend_of_loop %d before //@@loop %d" % (nloop, nloop))
                    cur = loops[nloop]['endlines']
                elif t.startswith('//@@at') and not t.startswith('//@@attr'):
                    mm = re.match(r'//@@at\s+(before|after|bodystart|bodyend)(?:\s+"(.*)")?\s*$', t)
                    if not mm:
                        raise ExtractError("bad //@@at line: %s" % t)
                    buf = []
                    ats.append((mm.group(1), mm.group(2), buf))
                    cur = buf
                elif t.startswith('//@@finding'):
                    mm = re.match(r'//@@finding\s+(\S+)(?:\s+(before|after)\s+"(.*)")?\s*$', t)
                    if not mm:
                        raise ExtractError("bad //@@finding line: %s" % t)
                    fid = mm.group(1)
                    buf = []
                    if fid in restrict:
                        ats.append((mm.group(2) or 'bodystart', mm.group(3), buf))
                    findings_seen.append(fid)
                    cur = buf
                elif t.startswith('//@@attr'):
                    fn_attrs.append(t[len('//@@attr'):].strip())
                elif t.startswith('//@@rewrite'):
                    mm = re.match(r'//@@rewrite\s+"(.*)"\s*=>\s*"(.*)"\s*$', t)
                    if not mm:
                        raise ExtractError("bad //@@rewrite line: %s" % t)
                    rewrites.append((mm.group(1), mm.group(2)))
                elif t.startswith('//@'):
                    raise ExtractError("unexpected directive inside //@fn: %s" % t)
                else:
                    cur.append(lines[i])
                i += 1
            if i >= n:
                raise ExtractError("//@fn %s without //@end" % qual)
            i += 1
            start = len(out_lines) + 1
            macro_prov = None
            if kv.get('via'):
                mrel, mname = kv['via'].rsplit(':', 1)
                rel, macro_prov = expand_macro_fn(repo, rel, qual, mrel, mname)
            emit(extract_fn(repo, rel, qual, contract, loops, ats, rewrites, stub=('stub' in flags),
                            ret_name=kv.get('ret', 'r'), impl_header=impl_header, info=items,
                            props=kv.get('props', '').split(',') if kv.get('props') else [], emit_as=kv.get('as'), attrs=fn_attrs,
                            desugar=('desugar' in flags), fnptr_opaque=('fnptr_opaque' in flags),
                            expand=[tuple(x.rsplit(':', 1)) for x in kv['expand'].split('+')] if kv.get('expand') else None))
            if macro_prov is not None:
                items[-1]['R7b_macro_expansion'] = macro_prov
            if kv.get('as'):
                qual = (impl_header.split(' for ')[-1] + '::' if impl_header and ' for ' in impl_header else '') + kv['as']
                items[-1]['name'] = qual
            fn_ranges[qual] = (start, len(out_lines))
            if findings_seen:
                items[-1]['findings'] = findings_seen
            continue
        if s.startswith('//@') and not s.startswith('//@@'):
            raise ExtractError("unknown directive: %s" % s)
        out_lines.append(ln)
        i += 1
    return '\n'.join(out_lines) + '\n', {'items': items, 'fn_lines': fn_ranges}


if __name__ == '__main__':
    tpl, root, outp = sys.argv[1:4]
    try:
        text, info = process_template(tpl, root, [os.path.join(os.path.dirname(os.path.abspath(__file__)), '..', 'prelude')])
    except ExtractError as ex:
        print("TOOL-ERROR: %s" % ex)
        sys.exit(2)
    open(outp, 'w').write(text)
    json.dump(info, open(outp + '.info.json', 'w'), indent=1)
