#!/bin/sh
# dev helper: run a unit and print a compact report
python3 /verif/tools/ev.py "$@" 2>&1 | python3 -c "
import json,sys; d=json.load(sys.stdin)
print(d['status'], 'verified', d.get('verified'), 'errors', d.get('errors'), 'wall', round(d['wall_s'],1), 'canary', d['canary'])
if d['tool_error']: print(d['tool_error'][:6000])
for f in d['failures']: print('----', f['fn'], f['kind'], f['message'], f['line']); print(f['excerpt'][:1800])
slow=[(v['time_ms'],k) for k,v in d['functions'].items() if v['time_ms']>1500]
if slow: print('SLOW', sorted(slow, reverse=True))"
