#!/bin/sh
# usage: tools/run_suite.sh [repo-dir]   — runs the pinned suite (nextest) and compares with BASELINE stable_pass.
# exit 0 iff every stable_pass test passed.
D="${1:-/repo}"
cd "$D" || exit 2
OUT=$(mktemp)
CARGO_NET_OFFLINE=true cargo nextest run --workspace --no-fail-fast --tool-config-file pb:/w/lib/nextest.toml --profile pb --test-threads 8 --offline >"$OUT" 2>&1
J="$D/target/nextest/pb/junit.xml"
python3 - "$J" <<'P'
import json,sys,xml.etree.ElementTree as ET
b=json.load(open('/root/.vp/BASELINE.json'))
want=set(b['stable_pass'])
t=ET.parse(sys.argv[1]); ok=set()
for ts in t.getroot().iter('testsuite'):
    for tc in ts.iter('testcase'):
        name=ts.get('name')+'::'+tc.get('name')
        if tc.find('failure') is None and tc.find('error') is None:
            ok.add(name)
miss=sorted(want-ok)
print('stable_pass=%d passed_now=%d missing=%d'%(len(want),len(want&ok),len(miss)))
for m in miss[:40]: print('  NOT-PASSING',m)
sys.exit(1 if miss else 0)
P
rc=$?
rm -f "$OUT"
exit $rc
