#!/usr/bin/env python3
"""ev.py - engine E-V: run Verus on a unit generated from /repo's working tree.

run_unit() returns a dict:
  status: 'ok' | 'fail' | 'tool-error'
  functions: {verus_fn_name: {'success': bool, 'time_ms': int, 'rlimit': int, 'mode': str}}
  failures: [{'fn': name, 'kind': semantic|rlimit, 'message':..., 'line':..., 'excerpt':...}]
  items: extractor info (file, lines, sha256, rules) per copied item
  canary: {'checked': n, 'vacuous': [fn,...]}
"""
import json
import os
import re
import subprocess
import sys
import time

HERE = os.path.dirname(os.path.abspath(__file__))
VERIF = os.path.dirname(HERE)
sys.path.insert(0, HERE)
import vt  # noqa: E402

SEMANTIC = re.compile(r'(postcondition not satisfied|precondition not satisfied|invariant not satisfied|'
                      r'assertion failed|possible arithmetic (?:underflow/overflow|overflow|underflow)|'
                      r'possible division by zero|decreases not satisfied|could not prove termination|'
                      r'possible bit shift underflow/overflow|unreachable|panic|requires not satisfied|'
                      r'recommendation not met|cannot show|index out of bounds|failed precondition|'
                      r'possible .*overflow)', re.I)
RLIMIT = re.compile(r'(resource limit|rlimit|timed? ?out)', re.I)


def parse_diagnostics(stderr, fname):
    """split human-readable rustc/verus output into blocks."""
    blocks = []
    cur = None
    for ln in stderr.split('\n'):
        m = re.match(r'^(error|warning|note)(\[[A-Z0-9]+\])?: (.*)$', ln)
        if m:
            cur = {'level': m.group(1), 'code': m.group(2), 'message': m.group(3), 'line': None, 'text': [ln]}
            blocks.append(cur)
            continue
        if cur is not None:
            cur['text'].append(ln)
            lm = re.match(r'^\s*--> ' + re.escape(fname) + r':(\d+):(\d+)', ln)
            if lm and cur['line'] is None:
                cur['line'] = int(lm.group(1))
    return blocks


def enclosing_fn(gen_lines, line):
    """name of the fn whose text encloses `line` (1-based) in generated file: nearest preceding 'fn name'."""
    i = min(line, len(gen_lines)) - 1
    while i >= 0:
        m = re.search(r'\bfn\s+([A-Za-z_][A-Za-z0-9_]*)', gen_lines[i])
        if m and not gen_lines[i].lstrip().startswith('//'):
            return m.group(1)
        i -= 1
    return None


def insert_canaries(text, info):
    """after the opening brace of every extracted (non-stub) fn body insert `proof { assert(false); }`.
    returns (text, {line_no: qualname})."""
    lines = text.split('\n')
    canary_lines = {}
    offset = 0
    items = {it['name']: it for it in info['items'] if it['kind'] == 'fn'}
    for qual, (a, b) in sorted(info['fn_lines'].items(), key=lambda kv: kv[1][0]):
        if items.get(qual, {}).get('stub'):
            continue
        # find body open: first line in [a,b] (1-based, shifted by offset) that is exactly '{' or starts with '{'
        idx = None
        for j in range(a - 1 + offset, b + offset):
            if lines[j].strip().startswith('{ /*@body*/'):
                idx = j
                break
        if idx is None:
            continue
        rest = lines[idx].strip()[len('{ /*@body*/'):]
        lines[idx] = '{'
        ins = ['proof { assert(false); } // CANARY ' + qual]
        if rest.strip():
            ins.append(rest)
        lines[idx + 1:idx + 1] = ins
        canary_lines[idx + 2] = qual
        offset += len(ins)
    return '\n'.join(lines), canary_lines


def verus_cmd(path, rlimit, extra=()):
    return ['verus', path, '--output-json', '--time', '--triggers-mode', 'silent', '--multiple-errors', '4',
            '--rlimit', str(rlimit)] + list(extra)


def run_verus(path, rlimit, timeout, extra=()):
    t0 = time.time()
    env = dict(os.environ)
    try:
        p = subprocess.run(verus_cmd(os.path.basename(path), rlimit, extra), cwd=os.path.dirname(path),
                           capture_output=True, text=True, timeout=timeout, env=env)
    except subprocess.TimeoutExpired:
        return None, '', 'TIMEOUT', time.time() - t0
    try:
        js = json.loads(p.stdout) if p.stdout.strip() else None
    except Exception:
        js = None
    return js, p.stdout, p.stderr, time.time() - t0


def crate_fns(js, crate):
    res = {}
    if not js or 'times-ms' not in js:
        return res
    for m in js['times-ms'].get('smt', {}).get('smt-run-module-times', []):
        for f in m.get('function-breakdown', []):
            name = f['function']
            if name.startswith(crate + '::'):
                name = name[len(crate) + 2:]
            res[name] = {'success': bool(f.get('success')), 'time_ms': f.get('time', 0), 'rlimit': f.get('rlimit', 0),
                         'mode': f.get('mode:', f.get('mode', ''))}
    return res


def run_unit(unit, repo_root, build_dir, rlimit=30, timeout=900, canary=True, tag='', restrict=()):
    tpl = os.path.join(VERIF, 'units', unit + '.vt.rs')
    os.makedirs(build_dir, exist_ok=True)
    out = {'unit': unit, 'status': 'ok', 'functions': {}, 'failures': [], 'items': [], 'canary': {'checked': 0, 'vacuous': []},
           'wall_s': 0.0, 'smt_ms': 0, 'verus_version': None, 'cmd': None, 'gen_file': None, 'tool_error': None,
           'trusted_scan': []}
    crate = 'u_' + unit + tag
    gen = os.path.join(build_dir, crate + '.rs')
    try:
        text, info = vt.process_template(tpl, repo_root, [os.path.join(VERIF, 'prelude')], tuple(restrict))
    except vt.ExtractError as ex:
        out['status'] = 'tool-error'
        out['tool_error'] = 'extract: %s' % ex
        return out
    open(gen, 'w').write(text)
    out['gen_file'] = gen
    out['items'] = info['items']
    out['fn_lines'] = info['fn_lines']
    out['trusted_scan'] = trusted_scan(text)
    gen_lines = text.split('\n')
    js, so, se, wall = run_verus(gen, rlimit, timeout)
    out['wall_s'] += wall
    out['cmd'] = ' '.join(verus_cmd(os.path.basename(gen), rlimit))
    if js is None:
        out['status'] = 'tool-error'
        out['tool_error'] = 'verus produced no JSON (%s)' % (se[-2000:] if se else 'no stderr')
        return out
    out['verus_version'] = js.get('verus', {}).get('version')
    vr = js.get('verification-results', {})
    out['verified'] = vr.get('verified', 0)
    out['errors'] = vr.get('errors', 0)
    out['functions'] = crate_fns(js, crate)
    out['smt_ms'] = js.get('times-ms', {}).get('smt', {}).get('smt-run', 0) if 'times-ms' in js else 0
    blocks = parse_diagnostics(se, os.path.basename(gen))
    errs = [b for b in blocks if b['level'] == 'error' and not b['message'].startswith('aborting due to')]
    if vr.get('encountered-vir-error') or any(b['code'] for b in errs) or (vr.get('encountered-error') and not errs and vr.get('errors', 0) == 0):
        out['status'] = 'tool-error'
        out['tool_error'] = 'front-end error: ' + '\n'.join('\n'.join(b['text'][:12]) for b in errs[:5])
        return out
    for b in errs:
        fn = None
        if b['line']:
            for qual, (a, c) in info['fn_lines'].items():
                if a <= b['line'] <= c:
                    fn = qual
                    break
            if fn is None:
                fn = enclosing_fn(gen_lines, b['line'])
        kind = 'semantic' if SEMANTIC.search(b['message']) else ('rlimit' if RLIMIT.search(b['message']) else 'other')
        out['failures'].append({'fn': fn, 'kind': kind, 'message': b['message'], 'line': b['line'],
                                'excerpt': '\n'.join(b['text'][:30])})
    if out['failures'] or vr.get('errors', 0) > 0:
        out['status'] = 'fail'
    # ---- vacuity canaries
    if canary:
        ctext, clines = insert_canaries(text, info)
        cgen = os.path.join(build_dir, crate + '_canary.rs')
        open(cgen, 'w').write(ctext)
        cjs, _, cse, cwall = run_verus(cgen, rlimit, timeout)
        out['wall_s'] += cwall
        if cjs is None:
            out['status'] = 'tool-error'
            out['tool_error'] = 'canary run produced no JSON: ' + cse[-1500:]
            return out
        cblocks = parse_diagnostics(cse, os.path.basename(cgen))
        hit = set()
        for b in cblocks:
            if b['level'] == 'error' and b['line'] in clines and 'assertion failed' in b['message']:
                hit.add(clines[b['line']])
        out['canary']['checked'] = len(clines)
        out['canary']['vacuous'] = sorted(set(clines.values()) - hit)
    return out


TRUST_PAT = re.compile(r'\b(assume\s*\(|admit\s*\(|external_body|assume_specification|axiom|external_type_specification|'
                       r'exec_allows_no_decreases_clause|external_fn_specification)')


def trusted_scan(text):
    """mechanical scan of the generated file for every trust-introducing construct (one line each)."""
    res = []
    lines = text.split('\n')
    for i, ln in enumerate(lines):
        s = ln.strip()
        if s.startswith('//'):
            continue
        if TRUST_PAT.search(s):
            desc = s
            if ('external_body' in s or 'external_type_specification' in s) and len(s) < 60:
                # attach the following signature line
                j = i + 1
                while j < len(lines) and (lines[j].strip().startswith('#[') or not lines[j].strip()):
                    j += 1
                if j < len(lines):
                    desc = s + ' ' + lines[j].strip()
            res.append(re.sub(r'\s+', ' ', desc)[:220])
    return res


if __name__ == '__main__':
    import argparse
    ap = argparse.ArgumentParser()
    ap.add_argument('unit')
    ap.add_argument('--repo', default='/repo')
    ap.add_argument('--build', default=os.path.join(VERIF, 'build'))
    ap.add_argument('--rlimit', type=int, default=30)
    ap.add_argument('--no-canary', action='store_true')
    a = ap.parse_args()
    r = run_unit(a.unit, a.repo, a.build, a.rlimit, canary=not a.no_canary)
    brief = {k: v for k, v in r.items() if k not in ('items', 'trusted_scan', 'fn_lines')}
    print(json.dumps(brief, indent=1))
    sys.exit(0 if r['status'] == 'ok' and not r['canary']['vacuous'] else 1)
