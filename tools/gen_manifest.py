#!/usr/bin/env python3
"""regenerates /verif/MANIFEST.json from tools/registry.py (+ not_applicable.json)."""
import json, os, sys
HERE = os.path.dirname(os.path.abspath(__file__))
VERIF = os.path.dirname(HERE)
sys.path.insert(0, HERE)
import registry

props = [json.loads(l)['id'] for l in open(os.path.join(VERIF, 'properties.jsonl'))]
na = json.load(open(os.path.join(VERIF, 'not_applicable.json')))
checks = []
for pid in props:
    if pid not in registry.PROPS:
        continue
    r = registry.PROPS[pid]
    engines = [e for e, k in (('E-V', 'ev'), ('E-K', 'ek'), ('E-B', 'eb')) if r.get(k)]
    checks.append({
        'property_id': pid,
        'quick_cmd': './check %s quick' % pid,
        'thorough_cmd': './check %s thorough' % pid,
        'evidence_file': '/verif/evidence/%s.json' % pid,
        'replay_cmd_template': 'cat {path}',
        'engine': '+'.join(engines),
        'level_claimed': {'category': r['level'], 'text': r['level_text'], 'design_ref': r.get('design_ref', 'DESIGN.md 3')},
        'level_note': r['level_note'],
        'technique': r['technique'],
    })
manifest = {
    'version': 1,
    'setup_cmd': 'python3 tools/selftest.py',
    'hooks': {'guard': 'none', 'enable': 'n/a - no hooks: E-V reads source text, E-K/E-B work on per-run scratch copies of /repo',
              'baseline_off_cmd': 'cd /repo && cargo test --workspace --no-fail-fast --offline', 'source_commits': [], 'add_only': True},
    'engines': [
        {'name': 'E-V', 'path': 'tools/ev.py', 'serves_properties': [p for p in props if registry.PROPS.get(p, {}).get('ev')],
         'kind_free_text': 'Verus on functions extracted mechanically from /repo each run, contracts woven from units/*.vt.rs'},
        {'name': 'E-K', 'path': 'tools/ek.py', 'serves_properties': [p for p in props if registry.PROPS.get(p, {}).get('ek')],
         'kind_free_text': 'Kani harnesses/contracts compiled into a scratch copy of the real crate'},
        {'name': 'E-B', 'path': 'tools/eb.py', 'serves_properties': [p for p in props if registry.PROPS.get(p, {}).get('eb')],
         'kind_free_text': 'bounded executable-contract stand-in (cargo test on a scratch copy); never counted as proved'},
    ],
    'checks': checks,
    'notes': 'Contract-based deductive verification; see DESIGN.md. Exit 2 = tool error (undecided), never an alarm.',
    'not_applicable': [{'property_id': p, 'reason': na[p]} for p in props if p not in registry.PROPS],
}
missing = [p for p in props if p not in registry.PROPS and p not in na]
if missing:
    print('properties neither claimed nor in not_applicable.json:', missing); sys.exit(1)
json.dump(manifest, open(os.path.join(VERIF, 'MANIFEST.json'), 'w'), indent=1)
print('MANIFEST.json: %d checks, %d not_applicable' % (len(checks), len(manifest['not_applicable'])))
