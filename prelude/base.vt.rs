// ---------------------------------------------------------------------------------------------
// prelude/base.vt.rs -- TRUSTED BASE shared by every E-V unit (listed verbatim in evidence).
// Nothing in here is repository code.  It is (a) shims for std types Verus cannot import,
// (b) assumed specifications of std / dependency functions, (c) the GneissError shim.
// ---------------------------------------------------------------------------------------------
#![feature(allocator_api)]
#![feature(panic_internals, sized_hierarchy)]
#![allow(unused_imports, dead_code, unused_variables, unused_mut, unused_assignments, unreachable_code, unused_parens, non_snake_case)]
#![verifier::allow(autoderive_clone_without_spec)]
extern crate alloc;
use vstd::prelude::*;
use vstd::std_specs::hash::*;
use vstd::std_specs::cmp::*;
use vstd::std_specs::iter::IteratorSpec;
use std::collections::*;
use std::collections::hash_map;
use std::hash::*;
use std::borrow::Borrow;
use core::cmp::Ordering;
use std::cmp::Reverse;
use std::mem;

verus! {

// Assumption A-64BIT: the target has 64-bit usize (the crate is only built for such targets here)
global size_of usize == 8;

// ------------------------------------------------------------------ time shim (R6)
// std::time::{Instant,Duration} are replaced by these two structs.  `nanos` is the number of
// nanoseconds (since an arbitrary epoch for Instant).  Panics of the std operators are
// preconditions here, so an overflow reachable in repository code is a failed obligation.
pub open spec fn DURATION_MAX_NANOS() -> int { 18446744073709551615int * 1000000000 + 999999999 }
// largest Instant the platform can represent (Linux: i64 seconds); left symbolic but large
pub open spec fn INSTANT_MAX_NANOS() -> int { 9223372036854775807int * 1000000000 + 999999999 }

#[derive(Copy, Clone, PartialEq, Eq, Structural)]
pub struct Instant { pub nanos: u128 }
#[derive(Copy, Clone, PartialEq, Eq, Structural)]
pub struct Duration { pub nanos: u128 }

impl Instant {
    pub open spec fn wf(&self) -> bool { self.nanos <= INSTANT_MAX_NANOS() }
}
impl Duration {
    pub open spec fn wf(&self) -> bool { self.nanos <= DURATION_MAX_NANOS() }

    #[verifier::external_body]
    pub fn from_secs(secs: u64) -> (r: Duration)
        ensures r.nanos == secs as int * 1000000000, r.wf()
    { unimplemented!() }

    #[verifier::external_body]
    pub fn from_millis(millis: u64) -> (r: Duration)
        ensures r.nanos == millis as int * 1000000, r.wf()
    { unimplemented!() }

    #[verifier::external_body]
    pub fn as_millis(&self) -> (r: u128)
        ensures r == self.nanos / 1000000
    { unimplemented!() }

    #[verifier::external_body]
    pub fn as_secs(&self) -> (r: u64)
        requires self.wf()
        ensures r == self.nanos / 1000000000
    { unimplemented!() }

    // Ord::min, resolved as an inherent method
    #[verifier::external_body]
    pub fn min(self, other: Duration) -> (r: Duration)
        ensures r == (if other.nanos < self.nanos { other } else { self })
    { unimplemented!() }

    #[verifier::external_body]
    pub fn max(self, other: Duration) -> (r: Duration)
        ensures r == (if other.nanos >= self.nanos { other } else { self })
    { unimplemented!() }

    #[verifier::external_body]
    pub fn is_zero(&self) -> (r: bool)
        ensures r == (self.nanos == 0)
    { unimplemented!() }
}

impl PartialOrdSpecImpl for Instant {
    open spec fn obeys_partial_cmp_spec() -> bool { true }
    open spec fn partial_cmp_spec(&self, other: &Instant) -> Option<Ordering> {
        if self.nanos < other.nanos { Some(Ordering::Less) } else if self.nanos == other.nanos { Some(Ordering::Equal) } else { Some(Ordering::Greater) }
    }
}
impl PartialOrd for Instant {
    fn partial_cmp(&self, other: &Instant) -> (r: Option<Ordering>) {
        if self.nanos < other.nanos { Some(Ordering::Less) } else if self.nanos == other.nanos { Some(Ordering::Equal) } else { Some(Ordering::Greater) }
    }
}
impl OrdSpecImpl for Instant {
    open spec fn obeys_cmp_spec() -> bool { true }
    open spec fn cmp_spec(&self, other: &Instant) -> Ordering {
        if self.nanos < other.nanos { Ordering::Less } else if self.nanos == other.nanos { Ordering::Equal } else { Ordering::Greater }
    }
}
impl Ord for Instant {
    fn cmp(&self, other: &Instant) -> (r: Ordering) {
        if self.nanos < other.nanos { Ordering::Less } else if self.nanos == other.nanos { Ordering::Equal } else { Ordering::Greater }
    }
}
impl PartialOrdSpecImpl for Duration {
    open spec fn obeys_partial_cmp_spec() -> bool { true }
    open spec fn partial_cmp_spec(&self, other: &Duration) -> Option<Ordering> {
        if self.nanos < other.nanos { Some(Ordering::Less) } else if self.nanos == other.nanos { Some(Ordering::Equal) } else { Some(Ordering::Greater) }
    }
}
impl PartialOrd for Duration {
    fn partial_cmp(&self, other: &Duration) -> (r: Option<Ordering>) {
        if self.nanos < other.nanos { Some(Ordering::Less) } else if self.nanos == other.nanos { Some(Ordering::Equal) } else { Some(Ordering::Greater) }
    }
}

impl Instant {
    // std: "Returns Some(t) where t is the time self + duration if t can be represented as Instant, None otherwise."
    #[verifier::external_body]
    pub fn checked_add(&self, duration: Duration) -> (r: Option<Instant>)
        ensures r == (if self.nanos + duration.nanos <= INSTANT_MAX_NANOS() { Some(Instant { nanos: (self.nanos + duration.nanos) as u128 }) } else { None::<Instant> })
    { unimplemented!() }
}
// Instant + Duration : std panics on overflow ("overflow when adding duration to instant")
impl vstd::std_specs::ops::AddSpecImpl<Duration> for Instant {
    open spec fn obeys_add_spec() -> bool { true }
    open spec fn add_req(self, rhs: Duration) -> bool { self.nanos + rhs.nanos <= INSTANT_MAX_NANOS() }
    open spec fn add_spec(self, rhs: Duration) -> Instant { Instant { nanos: (self.nanos + rhs.nanos) as u128 } }
}
impl core::ops::Add<Duration> for Instant {
    type Output = Instant;
    fn add(self, rhs: Duration) -> (r: Instant) { Instant { nanos: self.nanos + rhs.nanos } }
}
// Instant - Instant : saturating in std since 1.60 (never panics)
impl vstd::std_specs::ops::SubSpecImpl<Instant> for Instant {
    open spec fn obeys_sub_spec() -> bool { true }
    open spec fn sub_req(self, rhs: Instant) -> bool { true }
    open spec fn sub_spec(self, rhs: Instant) -> Duration { Duration { nanos: if self.nanos >= rhs.nanos { (self.nanos - rhs.nanos) as u128 } else { 0 } } }
}
impl core::ops::Sub<Instant> for Instant {
    type Output = Duration;
    fn sub(self, rhs: Instant) -> (r: Duration) { Duration { nanos: if self.nanos >= rhs.nanos { self.nanos - rhs.nanos } else { 0 } } }
}
// Duration * u32 : std panics on overflow
impl vstd::std_specs::ops::MulSpecImpl<u32> for Duration {
    open spec fn obeys_mul_spec() -> bool { true }
    open spec fn mul_req(self, rhs: u32) -> bool { self.nanos * rhs <= DURATION_MAX_NANOS() }
    open spec fn mul_spec(self, rhs: u32) -> Duration { Duration { nanos: (self.nanos * rhs) as u128 } }
}
impl core::ops::Mul<u32> for Duration {
    type Output = Duration;
    fn mul(self, rhs: u32) -> (r: Duration) {
        proof { assert(self.nanos * rhs <= DURATION_MAX_NANOS()); assert(DURATION_MAX_NANOS() < u128::MAX); }
        Duration { nanos: self.nanos * (rhs as u128) }
    }
}

// ------------------------------------------------------------------ GneissError shim
// error.rs is not extracted (Box<dyn Error + Send + Sync>).  Constructors are assumed to build the
// variant their name says (error.rs:212-372; each body is one enum-variant literal).
#[derive(PartialEq, Eq, Structural)]
pub enum GErrKind {
    Unimplemented, OperationChannelFailure, DecodingFailure, EncodingFailure, ProtocolError,
    InvalidInboundTopicAlias, ConnectionEstablishmentFailure, InternalStateError, ConnectionClosed,
    OfflineQueuePolicyFailed, AckTimeout, ClientClosed, UserInitiatedDisconnect, PacketValidationFailure,
    OtherError, MaxInterruptedRetriesExceeded,
}
#[verifier::external_body]
pub struct GneissError { k: u8 }
pub type GneissResult<T> = Result<T, GneissError>;
pub trait ErrSrc { }
impl ErrSrc for &str { }
impl ErrSrc for String { }

impl GneissError {
    pub uninterp spec fn kind(&self) -> GErrKind;
    #[verifier::external_body] pub fn new_unimplemented<T: ErrSrc>(source: T) -> (r: GneissError) ensures r.kind() == GErrKind::Unimplemented { unimplemented!() }
    #[verifier::external_body] pub fn new_decoding_failure<T: ErrSrc>(source: T) -> (r: GneissError) ensures r.kind() == GErrKind::DecodingFailure { unimplemented!() }
    #[verifier::external_body] pub fn new_encoding_failure<T: ErrSrc>(source: T) -> (r: GneissError) ensures r.kind() == GErrKind::EncodingFailure { unimplemented!() }
    #[verifier::external_body] pub fn new_protocol_error<T: ErrSrc>(source: T) -> (r: GneissError) ensures r.kind() == GErrKind::ProtocolError { unimplemented!() }
    #[verifier::external_body] pub fn new_inbound_topic_alias_not_valid<T: ErrSrc>(source: T) -> (r: GneissError) ensures r.kind() == GErrKind::InvalidInboundTopicAlias { unimplemented!() }
    #[verifier::external_body] pub fn new_connection_establishment_failure<T: ErrSrc>(source: T) -> (r: GneissError) ensures r.kind() == GErrKind::ConnectionEstablishmentFailure { unimplemented!() }
    #[verifier::external_body] pub fn new_internal_state_error<T: ErrSrc>(source: T) -> (r: GneissError) ensures r.kind() == GErrKind::InternalStateError { unimplemented!() }
    #[verifier::external_body] pub fn new_connection_closed<T: ErrSrc>(source: T) -> (r: GneissError) ensures r.kind() == GErrKind::ConnectionClosed { unimplemented!() }
    #[verifier::external_body] pub fn new_offline_queue_policy_failed() -> (r: GneissError) ensures r.kind() == GErrKind::OfflineQueuePolicyFailed { unimplemented!() }
    #[verifier::external_body] pub fn new_ack_timeout() -> (r: GneissError) ensures r.kind() == GErrKind::AckTimeout { unimplemented!() }
    #[verifier::external_body] pub fn new_client_closed() -> (r: GneissError) ensures r.kind() == GErrKind::ClientClosed { unimplemented!() }
    #[verifier::external_body] pub fn new_user_initiated_disconnect() -> (r: GneissError) ensures r.kind() == GErrKind::UserInitiatedDisconnect { unimplemented!() }
    #[verifier::external_body] pub fn new_packet_validation<T: ErrSrc>(packet_type: PacketType, source: T) -> (r: GneissError) ensures r.kind() == GErrKind::PacketValidationFailure { unimplemented!() }
    #[verifier::external_body] pub fn new_other_error<T: ErrSrc>(source: T) -> (r: GneissError) ensures r.kind() == GErrKind::OtherError { unimplemented!() }
    #[verifier::external_body] pub fn new_max_interrupted_retries_exceeded_error<T: ErrSrc>(source: T) -> (r: GneissError) ensures r.kind() == GErrKind::MaxInterruptedRetriesExceeded { unimplemented!() }
}

// R2: format!(..) -> verif_fmt(): an arbitrary String (message text never influences control flow)
#[verifier::external_body]
pub fn verif_fmt() -> String { unimplemented!() }

// ------------------------------------------------------------------ assumed std specifications
pub mod keyax {
    use vstd::prelude::*;
    pub uninterp spec fn key_of<K, Q: ?Sized>(q: &Q) -> K;
    // Borrow<K> for K is the identity
    pub broadcast axiom fn ax_key_of_same<K>(k: &K)
        ensures #[trigger] key_of::<K, K>(k) == *k;
}
pub use keyax::key_of;

broadcast use keyax::ax_key_of_same;

// HashMap::get_mut (std docs: "Returns a mutable reference to the value corresponding to the key.")
pub assume_specification<'a, 'b, K, V, S, A, Q> [std::collections::HashMap::<K, V, S, A>::get_mut::<Q>] (m: &'a mut HashMap<K, V, S, A>, k: &'b Q) -> (r: Option<&'a mut V>)
    where K: Borrow<Q> + Hash + Eq, Q: Hash + Eq + ?Sized, S: BuildHasher, A: std::alloc::Allocator
    ensures
        obeys_key_model::<K>() && builds_valid_hashers::<S>() ==> match r {
            Some(v) => old(m)@.contains_key(key_of::<K, Q>(k)) && *v == old(m)@[key_of::<K, Q>(k)] && final(m)@ == old(m)@.insert(key_of::<K, Q>(k), *final(v)),
            None => !old(m)@.contains_key(key_of::<K, Q>(k)) && final(m)@ == old(m)@,
        };

// VecDeque::is_empty / front (std docs)
pub assume_specification<T, A: std::alloc::Allocator> [std::collections::VecDeque::<T, A>::is_empty] (d: &VecDeque<T, A>) -> (r: bool)
    ensures r == (d@.len() == 0);
pub assume_specification<'a, T, A: std::alloc::Allocator> [std::collections::VecDeque::<T, A>::front] (d: &'a VecDeque<T, A>) -> (r: Option<&'a T>)
    ensures match r { Some(x) => d@.len() > 0 && *x == d@[0], None => d@.len() == 0 };


// assert_eq!/assert_ne! expand to core::panicking::assert_failed: a panic, hence `requires false`
// (reaching it is a failed obligation, exactly like panic!)
#[verifier::external_type_specification]
pub struct ExAssertKind(core::panicking::AssertKind);
pub assume_specification<T, U> [core::panicking::assert_failed] (_0: core::panicking::AssertKind, _1: &T, _2: &U, _3: std::option::Option<std::fmt::Arguments<'_>>) -> !
    where T: std::marker::MetaSized + std::fmt::Debug + ?Sized, U: std::marker::MetaSized + std::fmt::Debug + ?Sized,
    requires false;

#[verifier::reject_recursive_types(I)]
#[verifier::external_type_specification]
#[verifier::external_body]
pub struct ExCopied<I>(std::iter::Copied<I>);

// ---- by-value iteration of VecDeque / HashMap (std docs: "Creates a consuming iterator, that is, one that moves each value out
// of the deque (from start to end)" / "... each key-value pair out of the map in arbitrary order").  vstd has no specification
// for these two iterator types; the assumed specifications below say they are finite iterators over exactly the elements.
#[verifier::external_type_specification]
#[verifier::external_body]
#[verifier::reject_recursive_types(T)]
#[verifier::reject_recursive_types(A)]
pub struct ExVecDequeIntoIter<T, A: std::alloc::Allocator>(std::collections::vec_deque::IntoIter<T, A>);

pub assume_specification<T, A: std::alloc::Allocator> [<VecDeque<T, A> as IntoIterator>::into_iter] (d: VecDeque<T, A>) -> (r: std::collections::vec_deque::IntoIter<T, A>)
    ensures r.obeys_prophetic_iter_laws(), r.decrease() is Some, r.remaining() == d@;

#[verifier::external_type_specification]
#[verifier::external_body]
#[verifier::reject_recursive_types(K)]
#[verifier::reject_recursive_types(V)]
#[verifier::reject_recursive_types(A)]
pub struct ExHashMapIntoIter<K, V, A: std::alloc::Allocator>(std::collections::hash_map::IntoIter<K, V, A>);

pub assume_specification<K, V, S, A: std::alloc::Allocator> [<HashMap<K, V, S, A> as IntoIterator>::into_iter] (m: HashMap<K, V, S, A>) -> (r: std::collections::hash_map::IntoIter<K, V, A>)
    ensures r.obeys_prophetic_iter_laws(), r.decrease() is Some,
        obeys_key_model::<K>() && builds_valid_hashers::<S>() ==> {
            &&& r.remaining().len() == m@.len()
            &&& forall|i: int| 0 <= i < r.remaining().len() ==> m@.contains_pair((#[trigger] r.remaining()[i]).0, r.remaining()[i].1)
            &&& forall|i: int, j: int| 0 <= i < j < r.remaining().len() ==> (#[trigger] r.remaining()[i]).0 != (#[trigger] r.remaining()[j]).0
            &&& forall|k: K| m@.contains_key(k) ==> exists|i: int| 0 <= i < r.remaining().len() && (#[trigger] r.remaining()[i]).0 == k
        };

} // verus!
