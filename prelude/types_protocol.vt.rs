// prelude/types_protocol.vt.rs -- engine data model copied from client/mod.rs, client/config.rs, protocol.rs
use vstd::multiset::Multiset;
verus! {

// ---- trusted: BinaryHeap / Reverse are external types; the heap's abstract view is a multiset
#[verifier::external_type_specification]
#[verifier::external_body]
#[verifier::reject_recursive_types(T)]
#[verifier::reject_recursive_types(A)]
pub struct ExBinaryHeap<T, A: std::alloc::Allocator>(BinaryHeap<T, A>);

#[verifier::external_type_specification]
pub struct ExReverse<T>(Reverse<T>);

pub uninterp spec fn heap_view<T, A: std::alloc::Allocator>(h: BinaryHeap<T, A>) -> Multiset<T>;

// ---- trusted shim: client/mod.rs `type ResponseHandler<T> = Box<dyn FnOnce(T) -> GneissResult<()> + Send + Sync>`
// (Verus: "dyn with more than one trait" unsupported) -> opaque one-shot handler
#[verifier::external_body]
#[verifier::reject_recursive_types(T)]
pub struct ResponseHandler<T> { h: Box<dyn FnOnce(T) -> GneissResult<()> + Send + Sync> }

//@struct gneiss-mqtt/src/client/mod.rs PublishOptions
//@struct gneiss-mqtt/src/client/mod.rs SubscribeOptions
//@struct gneiss-mqtt/src/client/mod.rs UnsubscribeOptions
//@enum gneiss-mqtt/src/client/mod.rs Qos2Response noderive=PartialEq,Eq
//@enum gneiss-mqtt/src/client/mod.rs PublishResponse noderive=PartialEq,Eq
//@type gneiss-mqtt/src/client/mod.rs PublishResult
//@type gneiss-mqtt/src/client/mod.rs SubscribeResult
//@type gneiss-mqtt/src/client/mod.rs UnsubscribeResult
//@struct gneiss-mqtt/src/client/mod.rs PublishOptionsInternal
//@struct gneiss-mqtt/src/client/mod.rs SubscribeOptionsInternal
//@struct gneiss-mqtt/src/client/mod.rs UnsubscribeOptionsInternal
//@struct gneiss-mqtt/src/client/mod.rs NegotiatedSettings

//@enum gneiss-mqtt/src/client/config.rs RejoinSessionPolicy
//@struct gneiss-mqtt/src/client/config.rs ConnectOptions
//@enum gneiss-mqtt/src/client/config.rs OfflineQueuePolicy
//@enum gneiss-mqtt/src/client/config.rs ProtocolMode
//@enum gneiss-mqtt/src/client/config.rs PostReconnectQueueDrainPolicy

//@enum gneiss-mqtt/src/protocol.rs ClientOperationOptions
//@struct gneiss-mqtt/src/protocol.rs ClientOperation
//@enum gneiss-mqtt/src/protocol.rs PacketEvent
//@struct gneiss-mqtt/src/protocol.rs ConnectionOpenedContext
//@enum gneiss-mqtt/src/protocol.rs NetworkEvent
//@struct gneiss-mqtt/src/protocol.rs NetworkEventContext
//@enum gneiss-mqtt/src/protocol.rs UserEvent
//@struct gneiss-mqtt/src/protocol.rs UserEventContext
//@struct gneiss-mqtt/src/protocol.rs ServiceContext
//@enum gneiss-mqtt/src/protocol.rs ProtocolStateType
//@struct gneiss-mqtt/src/protocol.rs ProtocolStateConfig drop=outbound_alias_resolver
//@enum gneiss-mqtt/src/protocol.rs ProtocolQueueType
//@enum gneiss-mqtt/src/protocol.rs ProtocolQueueServiceMode
//@enum gneiss-mqtt/src/protocol.rs ProtocolEnqueuePosition
//@enum gneiss-mqtt/src/protocol.rs OperationResponse
//@struct gneiss-mqtt/src/protocol.rs OperationTimeoutRecord
//@struct gneiss-mqtt/src/protocol.rs ProtocolState drop=encoder,decoder,outbound_alias_resolver,inbound_alias_resolver

} // verus!
