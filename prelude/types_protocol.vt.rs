// prelude/types_protocol.vt.rs -- engine data model copied from client/mod.rs, client/config.rs, protocol.rs
use vstd::multiset::Multiset;
verus! {

// ---- trusted: BinaryHeap / Reverse are external types; the heap's abstract view is a multiset
#[verifier::external_type_specification]
#[verifier::external_body]
#[verifier::reject_recursive_types(T)]
#[verifier::reject_recursive_types(A)]
pub struct ExBinaryHeap<T, A: std::alloc::Allocator>(BinaryHeap<T, A>);

#[verifier::external_type_specification]
pub struct ExReverse<T>(Reverse<T>);

pub uninterp spec fn heap_view<T, A: std::alloc::Allocator>(h: BinaryHeap<T, A>) -> Multiset<T>;

// Assumed specifications of std::collections::BinaryHeap (std docs: "BinaryHeap is a max-heap": peek/pop
// return the greatest item) and of std::cmp::Reverse ("a helper struct for reverse ordering").
// ord_rel::<T>(a, b) means "a <= b under T's Ord impl"; for a type with an OrdSpecImpl it is that spec
// (for OperationTimeoutRecord the real `Ord::cmp` body is verified against its spec in U-protocol).
pub uninterp spec fn ord_rel<T>(a: T, b: T) -> bool;
pub broadcast axiom fn ax_ord_rel_reverse<T>(a: Reverse<T>, b: Reverse<T>)
    ensures #[trigger] ord_rel::<Reverse<T>>(a, b) == ord_rel::<T>(b.0, a.0);
pub broadcast axiom fn ax_ord_rel_spec<T: Ord>(a: T, b: T)
    requires T::obeys_cmp_spec(),
    ensures #[trigger] ord_rel::<T>(a, b) == (a.cmp_spec(&b) != Ordering::Greater);

pub assume_specification<T> [std::collections::BinaryHeap::<T>::new] () -> (r: BinaryHeap<T>)
    ensures heap_view(r) == Multiset::<T>::empty();
pub assume_specification<T: Ord, A: std::alloc::Allocator> [std::collections::BinaryHeap::<T, A>::push] (h: &mut BinaryHeap<T, A>, item: T)
    ensures heap_view(*final(h)) == heap_view(*old(h)).insert(item);
// heap_top: the item at the root of the heap; peek() looks at it and pop() removes it (both act on data[0])
pub uninterp spec fn heap_top<T, A: std::alloc::Allocator>(h: BinaryHeap<T, A>) -> Option<T>;
pub open spec fn heap_top_ok<T, A: std::alloc::Allocator>(h: BinaryHeap<T, A>) -> bool {
    match heap_top(h) {
        Some(x) => heap_view(h).count(x) > 0 && forall|y: T| #[trigger] heap_view(h).count(y) > 0 ==> ord_rel::<T>(y, x),
        None => heap_view(h) == Multiset::<T>::empty(),
    }
}
pub assume_specification<'a, T, A: std::alloc::Allocator> [std::collections::BinaryHeap::<T, A>::peek] (h: &'a BinaryHeap<T, A>) -> (r: Option<&'a T>)
    ensures heap_top_ok(*h),
        match r { Some(x) => heap_top(*h) == Some(*x), None => heap_top(*h) is None };
pub assume_specification<T: Ord, A: std::alloc::Allocator> [std::collections::BinaryHeap::<T, A>::pop] (h: &mut BinaryHeap<T, A>) -> (r: Option<T>)
    ensures heap_top_ok(*old(h)), r == heap_top(*old(h)),
        match r {
            Some(x) => heap_view(*final(h)) == heap_view(*old(h)).remove(x),
            None => heap_view(*final(h)) == heap_view(*old(h)),
        };
pub assume_specification<T, A: std::alloc::Allocator> [std::collections::BinaryHeap::<T, A>::clear] (h: &mut BinaryHeap<T, A>)
    ensures heap_view(*final(h)) == Multiset::<T>::empty();
pub assume_specification<T, A: std::alloc::Allocator> [std::collections::BinaryHeap::<T, A>::is_empty] (h: &BinaryHeap<T, A>) -> (r: bool)
    ensures r == (heap_view(*h) == Multiset::<T>::empty());

// ---- trusted shim: client/mod.rs `type ResponseHandler<T> = Box<dyn FnOnce(T) -> GneissResult<()> + Send + Sync>`
// (Verus: "dyn with more than one trait" unsupported) -> opaque one-shot handler
#[verifier::external_body]
#[verifier::reject_recursive_types(T)]
pub struct ResponseHandler<T> { h: Box<dyn FnOnce(T) -> GneissResult<()> + Send + Sync> }

//@struct gneiss-mqtt/src/client/mod.rs PublishOptions
//@struct gneiss-mqtt/src/client/mod.rs SubscribeOptions
//@struct gneiss-mqtt/src/client/mod.rs UnsubscribeOptions
//@enum gneiss-mqtt/src/client/mod.rs Qos2Response noderive=PartialEq,Eq
//@enum gneiss-mqtt/src/client/mod.rs PublishResponse noderive=PartialEq,Eq
//@type gneiss-mqtt/src/client/mod.rs PublishResult
//@type gneiss-mqtt/src/client/mod.rs SubscribeResult
//@type gneiss-mqtt/src/client/mod.rs UnsubscribeResult
//@struct gneiss-mqtt/src/client/mod.rs PublishOptionsInternal
//@struct gneiss-mqtt/src/client/mod.rs SubscribeOptionsInternal
//@struct gneiss-mqtt/src/client/mod.rs UnsubscribeOptionsInternal
//@struct gneiss-mqtt/src/client/mod.rs NegotiatedSettings

//@enum gneiss-mqtt/src/client/config.rs RejoinSessionPolicy
//@struct gneiss-mqtt/src/client/config.rs ConnectOptions
//@enum gneiss-mqtt/src/client/config.rs OfflineQueuePolicy
//@enum gneiss-mqtt/src/client/config.rs ProtocolMode
//@enum gneiss-mqtt/src/client/config.rs PostReconnectQueueDrainPolicy

//@enum gneiss-mqtt/src/protocol.rs ClientOperationOptions
//@struct gneiss-mqtt/src/protocol.rs ClientOperation
//@enum gneiss-mqtt/src/protocol.rs PacketEvent
//@struct gneiss-mqtt/src/protocol.rs ConnectionOpenedContext
//@enum gneiss-mqtt/src/protocol.rs NetworkEvent
//@struct gneiss-mqtt/src/protocol.rs NetworkEventContext
//@enum gneiss-mqtt/src/protocol.rs UserEvent
//@struct gneiss-mqtt/src/protocol.rs UserEventContext
//@struct gneiss-mqtt/src/protocol.rs ServiceContext
//@enum gneiss-mqtt/src/protocol.rs ProtocolStateType
//@struct gneiss-mqtt/src/protocol.rs ProtocolStateConfig drop=outbound_alias_resolver
//@enum gneiss-mqtt/src/protocol.rs ProtocolQueueType
//@enum gneiss-mqtt/src/protocol.rs ProtocolQueueServiceMode
//@enum gneiss-mqtt/src/protocol.rs ProtocolEnqueuePosition
//@enum gneiss-mqtt/src/protocol.rs OperationResponse
//@struct gneiss-mqtt/src/protocol.rs OperationTimeoutRecord

//@struct gneiss-mqtt/src/alias.rs OutboundAliasResolution defaultspec
//@struct gneiss-mqtt/src/validate.rs OutboundValidationContext
//@struct gneiss-mqtt/src/validate.rs InboundValidationContext
//@struct gneiss-mqtt/src/encode.rs EncodingContext noderive=Default
//@enum gneiss-mqtt/src/encode.rs EncodeResult

// ---- trusted shim: the Encoder (encode.rs, fn-pointer step list: outside Verus) is opaque here.
// Assumed contract of encode(): it only ever appends to the destination buffer.  The byte-level
// behaviour of the real Encoder is examined by E-K (bounded) under C02.
#[verifier::external_body]
pub struct Encoder { steps: VecDeque<u8> }
impl Encoder {
    #[verifier::external_body]
    pub fn new() -> (r: Encoder) { unimplemented!() }
    #[verifier::external_body]
    pub fn reset(&mut self, packet: &MqttPacket, context: &EncodingContext) -> (r: GneissResult<()>) { unimplemented!() }
    #[verifier::external_body]
    pub fn encode(&mut self, packet: &MqttPacket, dest: &mut Vec<u8>) -> (r: GneissResult<EncodeResult>)
        ensures old(dest)@.is_prefix_of(final(dest)@),
    { unimplemented!() }
}

// ---- trusted shim: the Decoder (decode.rs) is opaque inside the engine unit; it is verified on its own in U-codec
#[verifier::external_body]
pub struct Decoder { scratch: Vec<u8> }
//@struct gneiss-mqtt/src/decode.rs DecodingContext
impl Decoder {
    #[verifier::external_body]
    pub fn new() -> (r: Decoder) { unimplemented!() }
    #[verifier::external_body]
    pub fn reset_for_new_connection(&mut self) { unimplemented!() }
    // Assumed contract of decode_bytes() inside the engine unit: packets are only appended to the output list and every decoded
    // packet ends in the bytes handed in now (so at most one packet per byte); the context's settings are not touched.
    #[verifier::external_body]
    pub fn decode_bytes(&mut self, bytes: &[u8], context: &mut DecodingContext) -> (r: GneissResult<()>)
        ensures old(context).decoded_packets@.is_prefix_of(final(context).decoded_packets@),
            final(context).decoded_packets@.len() <= old(context).decoded_packets@.len() + bytes@.len(),
            final(context).maximum_packet_size == old(context).maximum_packet_size, final(context).protocol_version == old(context).protocol_version,
            // the output reference itself is not re-seated (decode.rs only pushes through it)
            mut_ref_future(final(context).decoded_packets) == mut_ref_future(old(context).decoded_packets),
    { unimplemented!() }
}

// ---- trusted shim for `RefCell<Box<dyn OutboundAliasResolver>>` (interior mutability + dyn trait: outside Verus).
// The resolver's effect is invisible to the engine contracts; the resolvers themselves are verified in U-alias.
#[verifier::external_body]
pub struct OutboundResolverCell { c: std::cell::RefCell<u8> }
#[verifier::external_body]
pub struct OutboundResolverGuard { g: u8 }
// R6 shim for `config.outbound_alias_resolver.take().unwrap_or((OutboundAliasResolverFactory::new_null_factory())())` wrapped in RefCell::new
#[verifier::external_body]
pub fn verif_resolver_cell() -> (r: OutboundResolverCell) { unimplemented!() }
impl OutboundResolverCell {
    #[verifier::external_body]
    pub fn borrow_mut(&self) -> (r: OutboundResolverGuard) { unimplemented!() }
}
impl OutboundResolverGuard {
    #[verifier::external_body]
    pub fn reset_for_new_connection(&mut self, max_aliases: u16) { unimplemented!() }
    #[verifier::external_body]
    pub fn resolve_and_apply_topic_alias(&mut self, alias: &Option<u16>, topic: &str) -> (r: OutboundAliasResolution) { unimplemented!() }
}

//@struct gneiss-mqtt/src/alias.rs InboundAliasResolver
//@struct gneiss-mqtt/src/protocol.rs ProtocolState retype=outbound_alias_resolver:OutboundResolverCell

} // verus!
