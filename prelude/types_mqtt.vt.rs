// prelude/types_mqtt.vt.rs -- data model copied from gneiss-mqtt/src/mqtt/mod.rs (rules R0,R3 only)
verus! {
//@enum gneiss-mqtt/src/mqtt/mod.rs ProtocolVersion
//@enum gneiss-mqtt/src/mqtt/mod.rs QualityOfService
//@enum gneiss-mqtt/src/mqtt/mod.rs PayloadFormatIndicator
//@enum gneiss-mqtt/src/mqtt/mod.rs RetainHandlingType
//@enum gneiss-mqtt/src/mqtt/mod.rs ConnectReasonCode
//@enum gneiss-mqtt/src/mqtt/mod.rs PubackReasonCode
//@enum gneiss-mqtt/src/mqtt/mod.rs PubrecReasonCode
//@enum gneiss-mqtt/src/mqtt/mod.rs PubrelReasonCode
//@enum gneiss-mqtt/src/mqtt/mod.rs PubcompReasonCode
//@enum gneiss-mqtt/src/mqtt/mod.rs DisconnectReasonCode
//@enum gneiss-mqtt/src/mqtt/mod.rs SubackReasonCode
//@enum gneiss-mqtt/src/mqtt/mod.rs UnsubackReasonCode
//@enum gneiss-mqtt/src/mqtt/mod.rs AuthenticateReasonCode
//@enum gneiss-mqtt/src/mqtt/mod.rs PacketType
//@struct gneiss-mqtt/src/mqtt/mod.rs UserProperty clonespec
//@struct gneiss-mqtt/src/mqtt/mod.rs Subscription
//@struct gneiss-mqtt/src/mqtt/mod.rs AuthPacket
//@struct gneiss-mqtt/src/mqtt/mod.rs ConnackPacket defaultspec
//@struct gneiss-mqtt/src/mqtt/mod.rs ConnectPacket
//@struct gneiss-mqtt/src/mqtt/mod.rs DisconnectPacket defaultspec
//@struct gneiss-mqtt/src/mqtt/mod.rs PingreqPacket
//@struct gneiss-mqtt/src/mqtt/mod.rs PingrespPacket
//@struct gneiss-mqtt/src/mqtt/mod.rs PubackPacket defaultspec
//@struct gneiss-mqtt/src/mqtt/mod.rs PubcompPacket defaultspec
//@struct gneiss-mqtt/src/mqtt/mod.rs PublishPacket clonespec defaultspec
//@struct gneiss-mqtt/src/mqtt/mod.rs PubrecPacket defaultspec
//@struct gneiss-mqtt/src/mqtt/mod.rs PubrelPacket defaultspec
//@struct gneiss-mqtt/src/mqtt/mod.rs SubackPacket defaultspec
//@struct gneiss-mqtt/src/mqtt/mod.rs SubscribePacket
//@struct gneiss-mqtt/src/mqtt/mod.rs UnsubackPacket defaultspec
//@struct gneiss-mqtt/src/mqtt/mod.rs UnsubscribePacket
//@enum gneiss-mqtt/src/mqtt/mod.rs MqttPacket
} // verus!
