// prelude/wf_protocol.vt.rs -- OUR specification text: representation invariant of ProtocolState
// (DESIGN.md 1.1, W0..W8).  No repository code.
verus! {

pub open spec fn takes_packet_id(p: MqttPacket) -> bool {
    match p {
        MqttPacket::Subscribe(_) => true,
        MqttPacket::Unsubscribe(_) => true,
        MqttPacket::Publish(publish) => publish.qos != QualityOfService::AtMostOnce,
        _ => false,
    }
}

pub open spec fn carries_packet_id_field(p: MqttPacket) -> bool {
    p is Subscribe || p is Unsubscribe || p is Publish
}

// the packet's own packet-id field (what goes on the wire)
pub open spec fn packet_id_field(p: MqttPacket) -> u16 {
    match p {
        MqttPacket::Subscribe(s) => s.packet_id,
        MqttPacket::Unsubscribe(u) => u.packet_id,
        MqttPacket::Publish(publish) => publish.packet_id,
        _ => 0,
    }
}

pub open spec fn is_internal_packet(p: MqttPacket) -> bool {
    p is Connect || p is Pingreq || p is Puback || p is Pubrec || p is Pubcomp || p is Disconnect
}

pub open spec fn is_qos_publish(p: MqttPacket, q: QualityOfService) -> bool {
    p matches MqttPacket::Publish(publish) && publish.qos == q
}

pub open spec fn is_qos1plus_publish(p: MqttPacket) -> bool {
    p matches MqttPacket::Publish(publish) && publish.qos != QualityOfService::AtMostOnce
}

pub open spec fn options_untaken(o: Option<ClientOperationOptions>) -> bool {
    match o {
        Some(ClientOperationOptions::Publish(po)) => po.response_handler is Some,
        Some(ClientOperationOptions::Subscribe(so)) => so.response_handler is Some,
        Some(ClientOperationOptions::Unsubscribe(uo)) => uo.response_handler is Some,
        None => true,
    }
}

pub open spec fn options_match_packet(o: Option<ClientOperationOptions>, p: MqttPacket) -> bool {
    match o {
        Some(ClientOperationOptions::Publish(_)) => p is Publish,
        Some(ClientOperationOptions::Subscribe(_)) => p is Subscribe,
        Some(ClientOperationOptions::Unsubscribe(_)) => p is Unsubscribe,
        None => true,
    }
}

// Assumption A-CLOCK: instants handed in by the driver (Instant::now()) are at least 2^17 s (~36 h)
// below the largest representable Instant, so `now + keep-alive` cannot overflow.
pub open spec fn clock_ok(t: Instant) -> bool { t.nanos + 131072 * 1000000000 <= INSTANT_MAX_NANOS() }

// per-operation part of the invariant (W4, W6, W8)
pub open spec fn op_wf(op: ClientOperation) -> bool {
    &&& op.slow_start_ack_value <= 1
    &&& (op.ping_extension_base_timepoint matches Some(b) ==> clock_ok(b))
    &&& (op.packet_id matches Some(p) ==> p != 0 && takes_packet_id(*op.packet) && packet_id_field(*op.packet) == p)
    &&& options_untaken(op.options)
    &&& options_match_packet(op.options, *op.packet)
    &&& (op.qos2_pubrel matches Some(pr) ==>
            is_qos_publish(*op.packet, QualityOfService::ExactlyOnce)
            && op.packet_id is Some
            && (*pr matches MqttPacket::Pubrel(rel) && Some(rel.packet_id) == op.packet_id))
}

impl ProtocolState {
    // W0/W9 keys are ids, ids are below the allocation counter
    pub open spec fn wf_ops(&self) -> bool {
        forall|k: u64| #[trigger] self.operations@.contains_key(k) ==>
            self.operations@[k].id == k && k != 0 && k < self.next_operation_id && op_wf(self.operations@[k])
    }

    // W2 both directions
    pub open spec fn wf_alloc(&self) -> bool {
        &&& forall|p: u16| #[trigger] self.allocated_packet_ids@.contains_key(p) ==>
                p != 0 && self.operations@.contains_key(self.allocated_packet_ids@[p])
                && self.operations@[self.allocated_packet_ids@[p]].packet_id == Some(p)
        &&& forall|k: u64| #[trigger] self.operations@.contains_key(k) ==>
                (self.operations@[k].packet_id matches Some(p) ==>
                    self.allocated_packet_ids@.contains_key(p) && self.allocated_packet_ids@[p] == k)
    }

    // the two directions of W2 separately (session handling clears the table in one go and then unbinds operation by operation)
    pub open spec fn alloc_dir1(&self) -> bool {
        forall|p: u16| #[trigger] self.allocated_packet_ids@.contains_key(p) ==>
            p != 0 && self.operations@.contains_key(self.allocated_packet_ids@[p])
            && self.operations@[self.allocated_packet_ids@[p]].packet_id == Some(p)
    }
    pub open spec fn alloc_dir2_for(&self, k: u64) -> bool {
        self.operations@[k].packet_id matches Some(p) ==> self.allocated_packet_ids@.contains_key(p) && self.allocated_packet_ids@[p] == k
    }
    // wf without "every bound id is in the allocation table"
    pub open spec fn wf_x(&self) -> bool {
        &&& self.next_packet_id >= 1 && self.next_operation_id >= 1
        &&& self.wf_ops() && self.alloc_dir1() && self.wf_pending() && self.wf_slow_start()
        &&& ((self.state == ProtocolStateType::Connected || self.state == ProtocolStateType::PendingDisconnect) ==> self.current_settings is Some)
        &&& (self.state == ProtocolStateType::PendingConnack ==> self.connack_timeout_timepoint is Some)
        &&& (self.state == ProtocolStateType::PendingDisconnect ==> self.current_operation is None)
        &&& self.pwc_ok()
    }

    // W3
    pub open spec fn wf_pending(&self) -> bool {
        &&& forall|p: u16| #[trigger] self.pending_publish_operations@.contains_key(p) ==> {
                let k = self.pending_publish_operations@[p];
                self.operations@.contains_key(k) && self.operations@[k].packet_id == Some(p)
                    && is_qos1plus_publish(*self.operations@[k].packet)
            }
        &&& forall|p: u16| #[trigger] self.pending_non_publish_operations@.contains_key(p) ==> {
                let k = self.pending_non_publish_operations@[p];
                self.operations@.contains_key(k) && self.operations@[k].packet_id == Some(p)
                    && (*self.operations@[k].packet is Subscribe || *self.operations@[k].packet is Unsubscribe)
            }
    }

    // W9 slow start: while the throttle is live the counter equals the number of contributing operations
    pub open spec fn ss_active(&self) -> bool {
        self.config.post_reconnect_queue_drain_policy == PostReconnectQueueDrainPolicy::OneAtATime
            && self.state == ProtocolStateType::Connected
    }
    pub open spec fn ss_set(&self) -> Set<u64> {
        self.operations@.dom().filter(|k: u64| self.operations@[k].slow_start_ack_value != 0)
    }
    pub open spec fn wf_slow_start(&self) -> bool {
        self.ss_active() ==> self.slow_start_ack_count as nat == self.ss_set().len()
    }

    // the table invariants (W0..W9); independent of the connection state machine
    pub open spec fn wf_tables(&self) -> bool {
        &&& self.next_packet_id >= 1
        &&& self.next_operation_id >= 1
        &&& self.wf_ops()
        &&& self.wf_alloc()
        &&& self.wf_pending()
    }
    pub open spec fn wf_core(&self) -> bool {
        &&& self.wf_tables()
        &&& self.wf_slow_start()
    }

    pub open spec fn wf(&self) -> bool {
        &&& self.wf_core()
        // W10/W11: per-connection data exists in the states that read it
        &&& ((self.state == ProtocolStateType::Connected || self.state == ProtocolStateType::PendingDisconnect) ==> self.current_settings is Some)
        &&& (self.state == ProtocolStateType::PendingConnack ==> self.connack_timeout_timepoint is Some)
        // W13: nothing is being encoded once the DISCONNECT has gone out
        &&& (self.state == ProtocolStateType::PendingDisconnect ==> self.current_operation is None)
        // W14: what waits for a write completion completes without a response packet (never a SUBSCRIBE / UNSUBSCRIBE / QoS1+ PUBLISH)
        &&& self.pwc_ok()
    }

    pub open spec fn pwc_ok(&self) -> bool {
        forall|i: int| 0 <= i < self.pending_write_completion_operations@.len() ==> {
            let k = #[trigger] self.pending_write_completion_operations@[i];
            k < self.next_operation_id && (self.operations@.contains_key(k) ==> !takes_packet_id(*self.operations@[k].packet))
        }
    }

    // W5 (kept separate: see finding F-TIMEOUT-CURRENT)
    pub open spec fn cur_ok(&self) -> bool {
        self.current_operation matches Some(id) ==> self.operations@.contains_key(id)
    }

    //@lemma lemma_bound_ids_unique props=C06
    // lemma L-UNIQ (C06): under wf, two different operations never hold the same packet id,
    // and every bound id is non-zero
    pub proof fn lemma_bound_ids_unique(&self, a: u64, b: u64)
        requires self.wf(), self.operations@.contains_key(a), self.operations@.contains_key(b),
            self.operations@[a].packet_id is Some,
            self.operations@[a].packet_id == self.operations@[b].packet_id,
        ensures a == b, self.operations@[a].packet_id != Some(0u16),
    {
        let p = self.operations@[a].packet_id->Some_0;
        assert(self.allocated_packet_ids@[p] == a);
        assert(self.allocated_packet_ids@[p] == b);
    }

    //@lemma lemma_no_leak props=C06
    // lemma L-NOLEAK (C06): no tracked operation => allocated ids is empty
    pub proof fn lemma_no_leak(&self)
        requires self.wf(), self.operations@.len() == 0,
        ensures self.allocated_packet_ids@.dom() =~= Set::<u16>::empty(),
    {
        assert forall|p: u16| !self.allocated_packet_ids@.contains_key(p) by {
            if self.allocated_packet_ids@.contains_key(p) {
                let k = self.allocated_packet_ids@[p];
                assert(self.operations@.contains_key(k));
                assert(self.operations@.dom().contains(k));
                assert(self.operations@.dom().len() > 0) by {
                    if self.operations@.dom().len() == 0 {
                        self.operations@.dom().lemma_len0_is_empty();
                    }
                }
            }
        }
    }
}

} // verus!
