import sys
p=sys.argv[1]; s=open(p).read()
ls=[l for l in s.split('\n') if l.startswith('#[verifier::external_body] pub fn write_connect_encoding_steps311(')]
assert len(ls)==1; s=s.replace(ls[0]+'\n','',1)
s=s.replace("        MqttPacket::Pingreq(_) => Some(seq![0xC0u8, 0u8]),\n        MqttPacket::Disconnect(_) => Some(seq![0xE0u8, 0u8]),","        MqttPacket::Pingreq(_) => Some(seq![0xC0u8, 0u8]),\n        MqttPacket::Disconnect(_) => Some(seq![0xE0u8, 0u8]),\n        MqttPacket::Connect(p) => Some(connect311_bytes(p)),",1)
s=s.replace("        MqttPacket::Unsubscribe(p) => filters_ok(p.topic_filters@) && count_ok(p.topic_filters@.len()) && 2 + filters_len(p.topic_filters@, p.topic_filters@.len()) <= 268435455,\n","        MqttPacket::Unsubscribe(p) => filters_ok(p.topic_filters@) && count_ok(p.topic_filters@.len()) && 2 + filters_len(p.topic_filters@, p.topic_filters@.len()) <= 268435455,\n        MqttPacket::Connect(p) => connect311_sendable(p),\n",1)
assert 'connect311_sendable(p),' in s and 'connect311_bytes(p))' in s
k=s.index('// ---- MQTT 5 dispatch: PUBLISH and PINGREQ are under contract')
def ipush(ctor):
    return f"{{ let x = {ctor}; lemma_g_whole_int(x, pk0); lemma_g_push1(s0, cur, x, acc, int_bytes(x), pk0); cur = cur.push(x); acc = acc + int_bytes(x); }}"
def hpush(idx_from_end, bytes_expr, getter, reqargs):
    return (f"{{ let y = steps@[steps@.len() - {idx_from_end}]; "
            f"assert(g_whole(y, {bytes_expr}, pk0)) by {{ reveal(g_whole); assert({getter}.requires({reqargs})); }} "
            f"assert(step_off(y) == 0); lemma_g_push1(s0, cur, y, acc, {bytes_expr}, pk0); cur = cur.push(y); acc = acc + {bytes_expr}; }}")
def block(anchor, where, lines, indent='    '):
    body='\n'.join(indent+'    '+l for l in lines)
    return f'//@@at {where} "{anchor}"\n{indent}proof {{\n{body}\n{indent}}}\n'
PROTO='seq![0u8, 4u8, 77u8, 81u8, 84u8, 84u8, 4u8]'
out='''
// ---------------------------------------------------------------------------------------------------------------------------------
// MQTT 3.1.1 CONNECT on the wire (C02, C07), OASIS 3.1.1 section 3.1: 10, Remaining Length, "MQTT" level 4, connect flags, keep alive, then the
// payload in the order client identifier, will topic, will message, user name, password - each length-prefixed.
//@macro gneiss-mqtt/src/encode.rs encode_length_prefixed_optional_string fnptr_opaque
//@macro gneiss-mqtt/src/encode.rs encode_length_prefixed_optional_bytes fnptr_opaque
pub open spec fn opt_str_len(o: Option<String>) -> nat { match o { Some(s) => blen(s@), None => 0 } }
pub open spec fn opt_bin_len(o: Option<Vec<u8>>) -> nat { match o { Some(b) => b@.len(), None => 0 } }
pub open spec fn connect_payload_len311(p: ConnectPacket) -> nat {
    2 + opt_str_len(p.client_id)
        + (match p.will { Some(will) => 2 + blen(will.topic@) + 2 + opt_bin_len(will.payload), None => 0 })
        + (match p.username { Some(u) => 2 + blen(u@), None => 0 }) + (match p.password { Some(pw) => 2 + pw@.len(), None => 0 })
}
pub open spec fn connect_remaining_len311(p: ConnectPacket) -> nat { 10 + connect_payload_len311(p) }
// A-MEM (as in the validate unit): no single field of a CONNECT is larger than 2^56 bytes
pub open spec fn connect_fields_fit(p: ConnectPacket) -> bool {
    &&& opt_str_len(p.client_id) <= 0x100000000000000 && opt_str_len(p.username) <= 0x100000000000000 && opt_bin_len(p.password) <= 0x100000000000000
    &&& opt_str_len(p.authentication_method) <= 0x100000000000000 && opt_bin_len(p.authentication_data) <= 0x100000000000000
    &&& ups_ok(p.user_properties) && (p.user_properties matches Some(ps) ==> count_ok(ps@.len()))
    &&& (p.will matches Some(will) ==> blen(will.topic@) <= 0x100000000000000 && opt_bin_len(will.payload) <= 0x100000000000000
            && opt_str_len(will.content_type) <= 0x100000000000000 && opt_str_len(will.response_topic) <= 0x100000000000000 && opt_bin_len(will.correlation_data) <= 0x100000000000000
            && ups_ok(will.user_properties) && (will.user_properties matches Some(ps) ==> count_ok(ps@.len())))
}
pub open spec fn connect311_sendable(p: ConnectPacket) -> bool {
    &&& connect_fields_fit(p)
    &&& opt_str_len(p.client_id) <= 65535 && opt_str_len(p.username) <= 65535 && opt_bin_len(p.password) <= 65535
    &&& (p.will matches Some(will) ==> blen(will.topic@) <= 65535 && opt_bin_len(will.payload) <= 65535)
}
// the contract proved in the validate unit (requires connect_fields_fit; Ok whenever the length fits 28 bits - it does when every length-prefixed field fits its 16-bit prefix),
// specialised to 3.1.1 (connect_remaining_len(p, false) there is connect_remaining_len311(p) here); signature-only stub
//@fn gneiss-mqtt/src/mqtt/connect.rs compute_connect_packet_length_properties311 stub
    requires connect311_sendable(*packet),
    ensures r matches Ok(rem) && rem == connect_remaining_len311(*packet),
//@end
// 3.1.2.3: bit 1 Clean Session, bit 2 Will Flag, bits 4-3 Will QoS, bit 5 Will Retain, bit 6 Password Flag, bit 7 User Name Flag, bit 0 reserved 0
pub open spec fn connect_flags(p: ConnectPacket) -> u8 {
    ((if p.clean_start { 2int } else { 0 })
     + (match p.will { Some(will) => 4 + 8 * qos_num(will.qos) + (if will.retain { 32int } else { 0 }), None => 0 })
     + (if p.password is Some { 64int } else { 0 }) + (if p.username is Some { 128int } else { 0 })) as u8
}
//@fn gneiss-mqtt/src/mqtt/connect.rs compute_connect_flags props=C02,C07
    ensures r == connect_flags(*packet),
//@@at bodystart
    proof {
        assert(1u8 << 1 == 2u8) by (bit_vector); assert(1u8 << 2 == 4u8) by (bit_vector); assert(1u8 << 5 == 32u8) by (bit_vector);
        assert(1u8 << 6 == 64u8) by (bit_vector); assert(1u8 << 7 == 128u8) by (bit_vector);
        assert(0u8 | 2u8 == 2u8) by (bit_vector);
        assert(forall|f: u8| (f == 0 || f == 2) ==> #[trigger] (f | 4u8) == f + 4) by (bit_vector);
        assert(forall|f: u8, q: u8| f <= 6 && q <= 2 ==> #[trigger] (f | (q << 3u8)) == f + 8 * q) by (bit_vector);
        assert(forall|f: u8| f < 32 ==> #[trigger] (f | 32u8) == f + 32) by (bit_vector);
        assert(forall|f: u8| f < 64 ==> #[trigger] (f | 64u8) == f + 64) by (bit_vector);
        assert(forall|f: u8| f < 128 ==> #[trigger] (f | 128u8) == f + 128) by (bit_vector);
        if packet.will is Some { assert(packet.will->Some_0.qos as u8 == qos_num(packet.will->Some_0.qos)); }
    }
//@end
//@fn gneiss-mqtt/src/mqtt/connect.rs get_connect_packet_client_id props=C02
    requires packet matches MqttPacket::Connect(p) && p.client_id is Some,
    ensures packet matches MqttPacket::Connect(p) && p.client_id matches Some(t) && r@ == t@,
//@end
//@fn gneiss-mqtt/src/mqtt/connect.rs get_connect_packet_username props=C02
    requires packet matches MqttPacket::Connect(p) && p.username is Some,
    ensures packet matches MqttPacket::Connect(p) && p.username matches Some(t) && r@ == t@,
//@end
//@fn gneiss-mqtt/src/mqtt/connect.rs get_connect_packet_password props=C02
    requires packet matches MqttPacket::Connect(p) && p.password is Some,
    ensures packet matches MqttPacket::Connect(p) && p.password matches Some(t) && r@ == t@,
//@end
//@fn gneiss-mqtt/src/mqtt/connect.rs get_connect_packet_will_topic props=C02
    requires packet matches MqttPacket::Connect(p) && p.will is Some,
    ensures packet matches MqttPacket::Connect(p) && p.will matches Some(w) && r@ == w.topic@,
//@end
//@fn gneiss-mqtt/src/mqtt/connect.rs get_connect_packet_will_payload props=C02
    requires packet matches MqttPacket::Connect(p) && p.will matches Some(w) && w.payload is Some,
    ensures packet matches MqttPacket::Connect(p) && p.will matches Some(w) && w.payload matches Some(t) && r@ == t@,
//@end
// `static MQTT311_CONNECT_PROTOCOL_BYTES: [u8; 7] = [0, 4, 77, 81, 84, 84, 4]` is outside the Verus subset (static array): the getter is a signature-only stub whose
// contract is the initialiser as written in connect.rs (the E-B reference decoder checks the bytes on the wire)
#[verifier::external_body] pub fn get_connect_protocol_bytes311(_arg0: &MqttPacket) -> (r: &[u8]) ensures r@ == '''+PROTO+''' { unimplemented!() }
pub open spec fn optstr_lp(o: Option<String>) -> Seq<u8> { if o is Some { be16_bytes(blen(o->Some_0@) as u16) + str_bytes(o->Some_0@) } else { be16_bytes(0u16) } }
pub open spec fn optbin_lp(o: Option<Vec<u8>>) -> Seq<u8> { if o is Some { be16_bytes(o->Some_0@.len() as u16) + o->Some_0@ } else { be16_bytes(0u16) } }
pub open spec fn will_piece311(o: Option<PublishPacket>) -> Seq<u8> {
    if o is Some { (be16_bytes(blen(o->Some_0.topic@) as u16) + str_bytes(o->Some_0.topic@)) + optbin_lp(o->Some_0.payload) } else { Seq::<u8>::empty() }
}
pub open spec fn user_piece(o: Option<String>) -> Seq<u8> { if o is Some { optstr_lp(o) } else { Seq::<u8>::empty() } }
pub open spec fn password_piece(o: Option<Vec<u8>>) -> Seq<u8> { if o is Some { optbin_lp(o) } else { Seq::<u8>::empty() } }
pub open spec fn connect311_bytes(p: ConnectPacket) -> Seq<u8> {
    seq![0x10u8] + vli(connect_remaining_len311(p)) + '''+PROTO+''' + seq![connect_flags(p)] + be16_bytes(p.keep_alive_interval_seconds)
    + optstr_lp(p.client_id) + will_piece311(p.will) + user_piece(p.username) + password_piece(p.password)
}
pub proof fn lemma_lead_empty9(a: Seq<u8>, b: Seq<u8>, c: Seq<u8>, d: Seq<u8>, e: Seq<u8>, f: Seq<u8>, g: Seq<u8>, h: Seq<u8>, i: Seq<u8>)
    ensures Seq::<u8>::empty() + a + b + c + d + e + f + g + h + i == a + b + c + d + e + f + g + h + i,
{ assert(Seq::<u8>::empty() + a + b + c + d + e + f + g + h + i =~= a + b + c + d + e + f + g + h + i); }

//@fn gneiss-mqtt/src/mqtt/connect.rs write_connect_encoding_steps311 props=C02,C07 fnptr_opaque
//@@attr #[verifier::rlimit(100)]
//@@attr #[verifier::spinoff_prover]
    requires
        connect311_sendable(*packet),          // send-time validation of the connect options
    ensures
        r is Ok,
        steps_wf(old(steps)@, MqttPacket::Connect(*packet)) ==> steps_wf(final(steps)@, MqttPacket::Connect(*packet)),
        flat(final(steps)@, MqttPacket::Connect(*packet)) == flat(old(steps)@, MqttPacket::Connect(*packet)) + connect311_bytes(*packet),
//@@at bodystart
    let ghost s0 = steps@;
    let ghost mut cur = steps@;
    let ghost mut acc = Seq::<u8>::empty();
    let ghost mut pre7 = Seq::<u8>::empty();
    let ghost mut pre8 = Seq::<u8>::empty();
    let ghost mut pre9 = Seq::<u8>::empty();
    let ghost pk0 = MqttPacket::Connect(*packet);
    proof { lemma_g_init(s0, pk0); }
'''
out+=block('encode_integral_expression!(steps, Uint8, 1u8 << 4);','after',['assert(1u8 << 4 == 16u8) by (bit_vector);',ipush('EncodingStep::Uint8(16u8)'),'assert(steps@ == cur);'])
out+=block('encode_integral_expression!(steps, Vli, total_remaining_length);','after',[ipush('EncodingStep::Vli(total_remaining_length)'),'assert(steps@ == cur);'])
out+=block('encode_raw_bytes!(steps, get_connect_protocol_bytes311);','after',[hpush(1,PROTO,'get_connect_protocol_bytes311','(&pk0,)'),'assert(steps@ == cur);'])
out+=block('encode_integral_expression!(steps, Uint8, compute_connect_flags(packet));','after',[ipush('EncodingStep::Uint8(connect_flags(*packet))'),'assert(steps@ == cur);'])
out+=block('encode_integral_expression!(steps, Uint16, packet.keep_alive_interval_seconds);','after',[ipush('EncodingStep::Uint16(packet.keep_alive_interval_seconds)'),'assert(steps@ == cur);'])
out+=block('encode_length_prefixed_optional_string!(steps, get_connect_packet_client_id, packet.client_id);','after',['let pre = acc;','if packet.client_id is Some {',
    '    '+ipush('EncodingStep::Uint16(blen(packet.client_id->Some_0@) as u16)'),'    '+hpush(1,'str_bytes(packet.client_id->Some_0@)','get_connect_packet_client_id','(&pk0,)'),
    '    lemma_g_regroup2(s0, cur, pre, be16_bytes(blen(packet.client_id->Some_0@) as u16), str_bytes(packet.client_id->Some_0@), pk0);',
    '} else { '+ipush('EncodingStep::Uint16(0u16)')+' }','assert(steps@ == cur);','acc = pre + optstr_lp(packet.client_id); pre7 = acc;'])
out+=block('encode_length_prefixed_string!(steps, get_connect_packet_will_topic, will.topic);','after',[ipush('EncodingStep::Uint16(blen(will.topic@) as u16)'),hpush(1,'str_bytes(will.topic@)','get_connect_packet_will_topic','(&pk0,)'),'assert(steps@ == cur);',
    'lemma_g_regroup2(s0, cur, pre7, be16_bytes(blen(will.topic@) as u16), str_bytes(will.topic@), pk0);','acc = pre7 + (be16_bytes(blen(will.topic@) as u16) + str_bytes(will.topic@));'],'        ')
out+=block('encode_length_prefixed_optional_bytes!(steps, get_connect_packet_will_payload, will.payload);','after',['let pre = acc;','if will.payload is Some {',
    '    '+ipush('EncodingStep::Uint16(will.payload->Some_0@.len() as u16)'),'    '+hpush(1,'will.payload->Some_0@','get_connect_packet_will_payload','(&pk0,)'),
    '    lemma_g_regroup2(s0, cur, pre, be16_bytes(will.payload->Some_0@.len() as u16), will.payload->Some_0@, pk0);',
    '} else { '+ipush('EncodingStep::Uint16(0u16)')+' }','assert(steps@ == cur);',
    'lemma_g_regroup2(s0, cur, pre7, be16_bytes(blen(will.topic@) as u16) + str_bytes(will.topic@), optbin_lp(will.payload), pk0);',
    'acc = pre7 + will_piece311(packet.will);'],'        ')
out+=block('if packet.username.is_some() {','before',['if packet.will is None { lemma_g_regroup0(s0, cur, pre7, pk0); }','acc = pre7 + will_piece311(packet.will); pre8 = acc;'])
out+=block('encode_length_prefixed_optional_string!(steps, get_connect_packet_username, packet.username);','after',[ipush('EncodingStep::Uint16(blen(packet.username->Some_0@) as u16)'),hpush(1,'str_bytes(packet.username->Some_0@)','get_connect_packet_username','(&pk0,)'),'assert(steps@ == cur);',
    'lemma_g_regroup2(s0, cur, pre8, be16_bytes(blen(packet.username->Some_0@) as u16), str_bytes(packet.username->Some_0@), pk0);'],'        ')
out+=block('if packet.password.is_some() {','before',['if packet.username is None { lemma_g_regroup0(s0, cur, pre8, pk0); }','acc = pre8 + user_piece(packet.username); pre9 = acc;'])
out+=block('encode_length_prefixed_optional_bytes!(steps, get_connect_packet_password, packet.password);','after',[ipush('EncodingStep::Uint16(packet.password->Some_0@.len() as u16)'),hpush(1,'packet.password->Some_0@','get_connect_packet_password','(&pk0,)'),'assert(steps@ == cur);',
    'lemma_g_regroup2(s0, cur, pre9, be16_bytes(packet.password->Some_0@.len() as u16), packet.password->Some_0@, pk0);'],'        ')
out+=block('Ok(())','before',['if packet.password is None { lemma_g_regroup0(s0, cur, pre9, pk0); }','acc = pre9 + password_piece(packet.password);','lemma_g_final(s0, cur, acc, pk0);',
    f'lemma_lead_empty9(seq![0x10u8], vli(connect_remaining_len311(*packet)), {PROTO}, seq![connect_flags(*packet)], be16_bytes(packet.keep_alive_interval_seconds), optstr_lp(packet.client_id), will_piece311(packet.will), user_piece(packet.username), password_piece(packet.password));',
    'assert(acc == connect311_bytes(*packet));'])
out+='//@end\n\n'
s=s[:k]+out+s[k:]
open(p,'w').write(s)
