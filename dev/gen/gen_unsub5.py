p='/verif/units/codec.vt.rs'; s=open(p).read()
k=s.rfind('} // verus!')
def ipush(ctor):
    return f"{{ let x = {ctor}; lemma_g_whole_int(x, pk0); lemma_g_push1(s0, cur, x, acc, int_bytes(x), pk0); cur = cur.push(x); acc = acc + int_bytes(x); }}"
def hpush(idx_from_end, bytes_expr, getter, reqargs):
    return (f"{{ let y = steps@[steps@.len() - {idx_from_end}]; "
            f"assert(g_whole(y, {bytes_expr}, pk0)) by {{ reveal(g_whole); assert({getter}.requires({reqargs})); }} "
            f"assert(step_off(y) == 0); lemma_g_push1(s0, cur, y, acc, {bytes_expr}, pk0); cur = cur.push(y); acc = acc + {bytes_expr}; }}")
def block(anchor, where, lines, indent='    '):
    body='\n'.join(indent+'    '+l for l in lines)
    return f'//@@at {where} "{anchor}"\n{indent}proof {{\n{body}\n{indent}}}\n'
LIB='''
// ---- the same proof library for any packet kind: everything is stated for the ONE MqttPacket value pk0 the steps were written from
// (is_publish_of(pk, p) etc. determine pk uniquely), so no quantifier is needed at all
#[verifier::opaque]
pub open spec fn g_inv(s0: Seq<EncodingStep>, cur: Seq<EncodingStep>, acc: Seq<u8>, pk0: MqttPacket) -> bool {
    &&& s0.len() <= cur.len()
    &&& forall|i: int| 0 <= i < s0.len() ==> cur[i] == s0[i]
    &&& forall|i: int| s0.len() <= i < cur.len() ==> step_off(#[trigger] cur[i]) == 0
    &&& flat(cur, pk0) == flat(s0, pk0) + acc
}
#[verifier::opaque]
pub open spec fn g_whole(x: EncodingStep, bytes: Seq<u8>, pk0: MqttPacket) -> bool { step_whole(x, pk0) == bytes }
pub proof fn lemma_g_whole_int(x: EncodingStep, pk0: MqttPacket)
    requires is_int_step(x),
    ensures g_whole(x, int_bytes(x), pk0), step_off(x) == 0,
{ reveal(g_whole); }
pub proof fn lemma_g_init(s0: Seq<EncodingStep>, pk0: MqttPacket)
    ensures g_inv(s0, s0, Seq::<u8>::empty(), pk0),
{ reveal(g_inv); assert(flat(s0, pk0) + Seq::<u8>::empty() =~= flat(s0, pk0)); }
pub proof fn lemma_g_push1(s0: Seq<EncodingStep>, cur: Seq<EncodingStep>, x: EncodingStep, acc: Seq<u8>, b: Seq<u8>, pk0: MqttPacket)
    requires g_inv(s0, cur, acc, pk0), g_whole(x, b, pk0), step_off(x) == 0,
    ensures g_inv(s0, cur.push(x), acc + b, pk0),
{
    reveal(g_inv); reveal(g_whole);
    lemma_flat_push(cur, x, pk0);
    assert(step_bytes(x, pk0) =~= b);
    assert(flat(s0, pk0) + acc + b =~= flat(s0, pk0) + (acc + b));
}
pub proof fn lemma_g_regroup0(s0: Seq<EncodingStep>, cur: Seq<EncodingStep>, pre: Seq<u8>, pk0: MqttPacket)
    requires g_inv(s0, cur, pre, pk0),
    ensures g_inv(s0, cur, pre + Seq::<u8>::empty(), pk0),
{ assert(pre + Seq::<u8>::empty() =~= pre); }
pub proof fn lemma_g_regroup_up(s0: Seq<EncodingStep>, cur: Seq<EncodingStep>, pre: Seq<u8>, props: Seq<UserProperty>, n: nat, pk0: MqttPacket)
    requires n < props.len(),
        g_inv(s0, cur, pre + ups_bytes(props, n) + seq![38u8] + be16_bytes(blen(props[n as int].name@) as u16) + str_bytes(props[n as int].name@)
            + be16_bytes(blen(props[n as int].value@) as u16) + str_bytes(props[n as int].value@), pk0),
    ensures g_inv(s0, cur, pre + ups_bytes(props, n + 1), pk0),
{
    let u = props[n as int];
    assert(pre + ups_bytes(props, n) + seq![38u8] + be16_bytes(blen(u.name@) as u16) + str_bytes(u.name@) + be16_bytes(blen(u.value@) as u16) + str_bytes(u.value@)
        =~= pre + (ups_bytes(props, n) + up_bytes(u)));
}
pub proof fn lemma_g_regroup_filter(s0: Seq<EncodingStep>, cur: Seq<EncodingStep>, pre: Seq<u8>, v: Seq<String>, n: nat, pk0: MqttPacket)
    requires n < v.len(), g_inv(s0, cur, pre + filters_bytes(v, n) + be16_bytes(blen(v[n as int]@) as u16) + str_bytes(v[n as int]@), pk0),
    ensures g_inv(s0, cur, pre + filters_bytes(v, n + 1), pk0),
{
    assert(pre + filters_bytes(v, n) + be16_bytes(blen(v[n as int]@) as u16) + str_bytes(v[n as int]@)
        =~= pre + (filters_bytes(v, n) + be16_bytes(blen(v[n as int]@) as u16) + str_bytes(v[n as int]@)));
}
pub proof fn lemma_g_final(s0: Seq<EncodingStep>, cur: Seq<EncodingStep>, acc: Seq<u8>, pk0: MqttPacket)
    requires g_inv(s0, cur, acc, pk0),
    ensures flat(cur, pk0) == flat(s0, pk0) + acc, steps_wf(s0, pk0) ==> steps_wf(cur, pk0),
{
    reveal(g_inv);
    if steps_wf(s0, pk0) {
        assert forall|i: int| 0 <= i < cur.len() implies step_wf(#[trigger] cur[i], pk0) by { if i < s0.len() { assert(cur[i] == s0[i]); assert(step_wf(s0[i], pk0)); } }
    }
}
pub proof fn lemma_lead_empty6(a: Seq<u8>, b: Seq<u8>, c: Seq<u8>, d: Seq<u8>, e: Seq<u8>, f: Seq<u8>)
    ensures Seq::<u8>::empty() + a + b + c + d + e + f == a + b + c + d + e + f,
{ assert(Seq::<u8>::empty() + a + b + c + d + e + f =~= a + b + c + d + e + f); }

// ---------------------------------------------------------------------------------------------------------------------------------
// MQTT 5 UNSUBSCRIBE on the wire (C02), OASIS 5.0 section 3.10
pub open spec fn unsubscribe_props_len(p: UnsubscribePacket) -> nat { opt_user_props_len(p.user_properties) }
pub open spec fn unsubscribe_remaining_len(p: UnsubscribePacket) -> nat {
    2 + vli_len(unsubscribe_props_len(p)) + unsubscribe_props_len(p) + filters_len(p.topic_filters@, p.topic_filters@.len())
}
pub open spec fn unsubscribe5_sendable(p: UnsubscribePacket) -> bool {
    &&& ups_ok(p.user_properties) && filters_ok(p.topic_filters@) && count_ok(p.topic_filters@.len())
    &&& (p.user_properties matches Some(ps) ==> count_ok(ps@.len()))
    &&& unsubscribe_remaining_len(p) <= 268435455
}
// proved in the validate unit (same contract); a signature-only stub here
//@fn gneiss-mqtt/src/mqtt/unsubscribe.rs compute_unsubscribe_packet_length_properties5 stub
    requires ups_ok(packet.user_properties), filters_ok(packet.topic_filters@), count_ok(packet.topic_filters@.len()),
        packet.user_properties matches Some(ps) ==> count_ok(ps@.len()),
    ensures
        r matches Ok((rem, props)) ==> props == unsubscribe_props_len(*packet) && rem == unsubscribe_remaining_len(*packet) && rem <= 268435455 && props <= 268435455,
        (unsubscribe_remaining_len(*packet) <= 268435455) ==> r is Ok,
//@end
//@fn gneiss-mqtt/src/mqtt/unsubscribe.rs get_unsubscribe_packet_user_property props=C02
    requires packet matches MqttPacket::Unsubscribe(p) && p.user_properties matches Some(ups) && index < ups@.len(),
    ensures packet matches MqttPacket::Unsubscribe(p) && p.user_properties matches Some(ups) && *r == ups@[index as int],
//@end
pub open spec fn unsubscribe5_bytes(p: UnsubscribePacket) -> Seq<u8> {
    seq![0xA2u8] + vli(unsubscribe_remaining_len(p)) + be16_bytes(p.packet_id) + vli(unsubscribe_props_len(p)) + ups_piece(p.user_properties)
    + filters_bytes(p.topic_filters@, p.topic_filters@.len())
}
'''
fn='''
//@fn gneiss-mqtt/src/mqtt/unsubscribe.rs write_unsubscribe_encoding_steps5 props=C02 desugar fnptr_opaque expand=gneiss-mqtt/src/encode.rs:encode_user_properties+gneiss-mqtt/src/encode.rs:encode_user_property
//@@attr #[verifier::rlimit(100)]
//@@attr #[verifier::spinoff_prover]
    requires
        unsubscribe5_sendable(*packet),          // send-time validation (C16, validate unit)
    ensures
        r is Ok,
        forall|pk: MqttPacket| is_unsubscribe_of(pk, *packet) && steps_wf(old(steps)@, pk) ==> #[trigger] steps_wf(final(steps)@, pk),
        forall|pk: MqttPacket| is_unsubscribe_of(pk, *packet) ==> #[trigger] flat(final(steps)@, pk) == flat(old(steps)@, pk) + unsubscribe5_bytes(*packet),
//@@at bodystart
    let ghost s0 = steps@;
    let ghost mut cur = steps@;
    let ghost mut acc = Seq::<u8>::empty();
    let ghost mut pre5 = Seq::<u8>::empty();
    let ghost mut pre6 = Seq::<u8>::empty();
    let ghost pk0 = MqttPacket::Unsubscribe(*packet);
    proof { lemma_g_init(s0, pk0); }
'''
fn+=block('encode_integral_expression!(steps, Uint8, UNSUBSCRIBE_FIRST_BYTE);','after',['assert(UNSUBSCRIBE_FIRST_BYTE == 0xA2u8) by (compute);',ipush('EncodingStep::Uint8(0xA2u8)'),'assert(steps@ == cur);'])
fn+=block('encode_integral_expression!(steps, Vli, total_remaining_length);','after',[ipush('EncodingStep::Vli(total_remaining_length)'),'assert(steps@ == cur);'])
fn+=block('encode_integral_expression!(steps, Uint16, packet.packet_id);','after',[ipush('EncodingStep::Uint16(packet.packet_id)'),'assert(steps@ == cur);'])
fn+=block('encode_integral_expression!(steps, Vli, unsubscribe_property_length);','after',[ipush('EncodingStep::Vli(unsubscribe_property_length)'),'assert(steps@ == cur);','pre5 = acc;'])
fn+=block('let mut verif_enum0: usize = 0;','before',['lemma_g_regroup0(s0, cur, pre5, pk0);'],'            ')
fn+='''//@@loop 0 iter=it
            invariant
                packet.user_properties is Some, properties@ == packet.user_properties->Some_0@, it.seq().len() == properties@.len(), count_ok(properties@.len()),
                ups_ok(packet.user_properties), pk0 == MqttPacket::Unsubscribe(*packet),
                verif_enum0 == it.index@,
                cur == steps@,
                g_inv(s0, steps@, pre5 + ups_bytes(properties@, it.index@ as nat), pk0),
                it.index@ == it.seq().len() ==> g_inv(s0, steps@, pre5 + ups_piece(packet.user_properties), pk0),
//@@at before "verif_enum0 += 1;"
                proof { assert(it.index@ < it.seq().len()); }
//@@bodyend_of_loop 0
                proof {
                    let n = it.index@;
                    let u = properties@[n];
                    assert(*user_property == u);
                    assert(up_ok(u));
                    acc = pre5 + ups_bytes(properties@, n as nat);
                    '''+ipush('EncodingStep::Uint8(38u8)')+'''
                    '''+ipush('EncodingStep::Uint16(blen(u.name@) as u16)')+'''
                    '''+hpush(3,'str_bytes(u.name@)','get_unsubscribe_packet_user_property','(&pk0, i)')+'''
                    '''+ipush('EncodingStep::Uint16(blen(u.value@) as u16)')+'''
                    '''+hpush(1,'str_bytes(u.value@)','get_unsubscribe_packet_user_property','(&pk0, i)')+'''
                    assert(steps@ == cur);
                    lemma_g_regroup_up(s0, cur, pre5, properties@, n as nat, pk0);
                }
'''
fn+=block('let topic_filters = &packet.topic_filters;','before',['if packet.user_properties is None { lemma_g_regroup0(s0, cur, pre5, pk0); }','acc = pre5 + ups_piece(packet.user_properties); pre6 = acc;','lemma_g_regroup0(s0, cur, pre6, pk0);'])
fn+='''//@@loop 1 iter=it
        invariant
            topic_filters@ == packet.topic_filters@, it.seq().len() == packet.topic_filters@.len(), count_ok(packet.topic_filters@.len()), filters_ok(packet.topic_filters@),
            pk0 == MqttPacket::Unsubscribe(*packet),
            verif_enum1 == it.index@,
            cur == steps@,
            g_inv(s0, steps@, pre6 + filters_bytes(packet.topic_filters@, it.index@ as nat), pk0),
            it.index@ == it.seq().len() ==> g_inv(s0, steps@, pre6 + filters_bytes(packet.topic_filters@, packet.topic_filters@.len()), pk0),
//@@at before "verif_enum1 += 1;"
            proof { assert(it.index@ < it.seq().len()); }
//@@at after "encode_indexed_string!(steps, get_unsubscribe_packet_topic_filter, topic_filter, i);"
            proof {
                let n = it.index@;
                assert(*topic_filter == packet.topic_filters@[n]);
                acc = pre6 + filters_bytes(packet.topic_filters@, n as nat);
                '''+ipush('EncodingStep::Uint16(blen(topic_filter@) as u16)')+'''
                '''+hpush(1,'str_bytes(topic_filter@)','get_unsubscribe_packet_topic_filter','(&pk0, i)')+'''
                assert(steps@ == cur);
                lemma_g_regroup_filter(s0, cur, pre6, packet.topic_filters@, n as nat, pk0);
            }
'''
fn+=block('Ok(())','before',['acc = pre6 + filters_bytes(packet.topic_filters@, packet.topic_filters@.len());','lemma_g_final(s0, cur, acc, pk0);',
  'lemma_lead_empty6(seq![0xA2u8], vli(unsubscribe_remaining_len(*packet)), be16_bytes(packet.packet_id), vli(unsubscribe_props_len(*packet)), ups_piece(packet.user_properties), filters_bytes(packet.topic_filters@, packet.topic_filters@.len()));',
  'assert(acc == unsubscribe5_bytes(*packet));',
  'assert forall|pk: MqttPacket| is_unsubscribe_of(pk, *packet) implies pk == pk0 by { }'])
fn+='//@end\n\n'
s=s[:k]+LIB+fn+s[k:]
open(p,'w').write(s)
