p='/verif/units/codec.vt.rs'; s=open(p).read()
ls=[l for l in s.split('\n') if l.startswith('#[verifier::external_body] pub fn write_disconnect_encoding_steps5(')]
assert len(ls)==1; s=s.replace(ls[0]+'\n','',1)
s=s.replace("        MqttPacket::Subscribe(p) => Some(subscribe5_bytes(p)),\n","        MqttPacket::Subscribe(p) => Some(subscribe5_bytes(p)),\n        MqttPacket::Disconnect(p) => Some(disconnect5_bytes(p)),\n",1)
s=s.replace("        MqttPacket::Puback(p) => ack5_sendable(p.reason_string, p.user_properties), MqttPacket::Pubrec(p)","        MqttPacket::Disconnect(p) => disconnect5_sendable(p),\n        MqttPacket::Puback(p) => ack5_sendable(p.reason_string, p.user_properties), MqttPacket::Pubrec(p)",1)
k=s.index('// ---- MQTT 5 dispatch: PUBLISH and PINGREQ are under contract')
def ipush(ctor):
    return f"{{ let x = {ctor}; lemma_g_whole_int(x, pk0); lemma_g_push1(s0, cur, x, acc, int_bytes(x), pk0); cur = cur.push(x); acc = acc + int_bytes(x); }}"
def hpush(idx_from_end, bytes_expr, getter, reqargs):
    return (f"{{ let y = steps@[steps@.len() - {idx_from_end}]; "
            f"assert(g_whole(y, {bytes_expr}, pk0)) by {{ reveal(g_whole); assert({getter}.requires({reqargs})); }} "
            f"assert(step_off(y) == 0); lemma_g_push1(s0, cur, y, acc, {bytes_expr}, pk0); cur = cur.push(y); acc = acc + {bytes_expr}; }}")
def block(anchor, where, lines, indent='    '):
    body='\n'.join(indent+'    '+l for l in lines)
    return f'//@@at {where} "{anchor}"\n{indent}proof {{\n{body}\n{indent}}}\n'
def strprop(anchor, key, field, getter):
    return block(anchor,'after',['let pre = acc;',f'if packet.{field} is Some {{',
        '    '+ipush(f'EncodingStep::Uint8({key}u8)'),'    '+ipush(f'EncodingStep::Uint16(blen(packet.{field}->Some_0@) as u16)'),'    '+hpush(1,f'str_bytes(packet.{field}->Some_0@)',getter,'(&pk0,)'),
        f'    lemma_g_regroup3(s0, cur, pre, seq![{key}u8], be16_bytes(blen(packet.{field}->Some_0@) as u16), str_bytes(packet.{field}->Some_0@), pk0);',
        '} else { lemma_g_regroup0(s0, cur, pre, pk0); }','assert(steps@ == cur);',f'acc = pre + opt_str_prop_bytes({key}u8, packet.{field});'])
BYTES='disconnect5_bytes(*packet)'
out='''
// ---------------------------------------------------------------------------------------------------------------------------------
// MQTT 5 DISCONNECT on the wire (C02, C07), OASIS 5.0 section 3.14: E0, Remaining Length, then - unless Normal disconnection without properties
// (Remaining Length 0) - the reason code, and - unless there are no properties (Remaining Length 1) - the property length and the properties
//@const gneiss-mqtt/src/mqtt/utils.rs PROPERTY_KEY_SESSION_EXPIRY_INTERVAL
//@const gneiss-mqtt/src/mqtt/utils.rs PROPERTY_KEY_SERVER_REFERENCE
pub open spec fn disconnect_props_len(p: DisconnectPacket) -> nat {
    opt_user_props_len(p.user_properties) + (if p.session_expiry_interval_seconds is Some { 5nat } else { 0nat }) + opt_strprop_len(p.reason_string) + opt_strprop_len(p.server_reference)
}
pub open spec fn disconnect_remaining_len(p: DisconnectPacket) -> nat {
    if disconnect_props_len(p) == 0 { if p.reason_code == DisconnectReasonCode::NormalDisconnection { 0 } else { 1 } }
    else { 1 + vli_len(disconnect_props_len(p)) + disconnect_props_len(p) }
}
pub open spec fn disconnect5_sendable(p: DisconnectPacket) -> bool {
    &&& ups_ok(p.user_properties) && opt_str_ok(p.reason_string) && opt_str_ok(p.server_reference) && (p.user_properties matches Some(ps) ==> count_ok(ps@.len()))
    &&& disconnect_props_len(p) <= 268435455
}
// proved in the validate unit (same contract); a signature-only stub here
//@fn gneiss-mqtt/src/mqtt/disconnect.rs compute_disconnect_packet_length_properties stub
    requires ups_ok(packet.user_properties), opt_str_ok(packet.reason_string), opt_str_ok(packet.server_reference),
        packet.user_properties matches Some(ps) ==> count_ok(ps@.len()),
    ensures
        r matches Ok((rem, props)) ==> props == disconnect_props_len(*packet) && rem == disconnect_remaining_len(*packet) && props <= 268435455,
        disconnect_props_len(*packet) <= 268435455 ==> r is Ok,
//@end
//@fn gneiss-mqtt/src/mqtt/disconnect.rs get_disconnect_packet_reason_string props=C02
    requires packet matches MqttPacket::Disconnect(p) && p.reason_string is Some,
    ensures packet matches MqttPacket::Disconnect(p) && p.reason_string matches Some(t) && r@ == t@,
//@end
//@fn gneiss-mqtt/src/mqtt/disconnect.rs get_disconnect_packet_server_reference props=C02
    requires packet matches MqttPacket::Disconnect(p) && p.server_reference is Some,
    ensures packet matches MqttPacket::Disconnect(p) && p.server_reference matches Some(t) && r@ == t@,
//@end
//@fn gneiss-mqtt/src/mqtt/disconnect.rs get_disconnect_packet_user_property props=C02
    requires packet matches MqttPacket::Disconnect(p) && p.user_properties matches Some(ups) && index < ups@.len(),
    ensures packet matches MqttPacket::Disconnect(p) && p.user_properties matches Some(ups) && *r == ups@[index as int],
//@end
pub open spec fn sei_piece(o: Option<u32>) -> Seq<u8> { match o { Some(v) => seq![17u8] + be32_bytes(v), None => Seq::<u8>::empty() } }
pub open spec fn disconnect5_bytes(p: DisconnectPacket) -> Seq<u8> {
    let plen = disconnect_props_len(p);
    if plen == 0 {
        if p.reason_code == DisconnectReasonCode::NormalDisconnection { seq![0xE0u8] + vli(0) } else { seq![0xE0u8] + vli(1) + seq![p.reason_code as u8] }
    } else {
        seq![0xE0u8] + vli(disconnect_remaining_len(p)) + seq![p.reason_code as u8] + vli(plen) + sei_piece(p.session_expiry_interval_seconds)
        + opt_str_prop_bytes(31u8, p.reason_string) + opt_str_prop_bytes(28u8, p.server_reference) + ups_piece(p.user_properties)
    }
}
pub proof fn lemma_lead_empty2(a: Seq<u8>, b: Seq<u8>) ensures Seq::<u8>::empty() + a + b == a + b { assert(Seq::<u8>::empty() + a + b =~= a + b); }
pub proof fn lemma_lead_empty8(a: Seq<u8>, b: Seq<u8>, c: Seq<u8>, d: Seq<u8>, e: Seq<u8>, f: Seq<u8>, g: Seq<u8>, h: Seq<u8>)
    ensures Seq::<u8>::empty() + a + b + c + d + e + f + g + h == a + b + c + d + e + f + g + h,
{ assert(Seq::<u8>::empty() + a + b + c + d + e + f + g + h =~= a + b + c + d + e + f + g + h); }

//@fn gneiss-mqtt/src/mqtt/disconnect.rs write_disconnect_encoding_steps5 props=C02,C07 desugar fnptr_opaque expand=gneiss-mqtt/src/encode.rs:encode_user_properties+gneiss-mqtt/src/encode.rs:encode_user_property
//@@attr #[verifier::rlimit(100)]
//@@attr #[verifier::spinoff_prover]
    requires
        disconnect5_sendable(*packet),
    ensures
        r is Ok,
        steps_wf(old(steps)@, MqttPacket::Disconnect(*packet)) ==> steps_wf(final(steps)@, MqttPacket::Disconnect(*packet)),
        flat(final(steps)@, MqttPacket::Disconnect(*packet)) == flat(old(steps)@, MqttPacket::Disconnect(*packet)) + disconnect5_bytes(*packet),
//@@at bodystart
    let ghost s0 = steps@;
    let ghost mut cur = steps@;
    let ghost mut acc = Seq::<u8>::empty();
    let ghost mut pre5 = Seq::<u8>::empty();
    let ghost pk0 = MqttPacket::Disconnect(*packet);
    let ghost plen = disconnect_props_len(*packet);
    proof { lemma_g_init(s0, pk0); }
'''
out+=block('encode_integral_expression!(steps, Uint8, PACKET_TYPE_DISCONNECT << 4);','after',['assert(PACKET_TYPE_DISCONNECT << 4 == 0xE0u8) by (compute);',ipush('EncodingStep::Uint8(0xE0u8)'),'assert(steps@ == cur);'])
out+=block('encode_integral_expression!(steps, Vli, total_remaining_length);','after',[ipush('EncodingStep::Vli(total_remaining_length)'),'assert(steps@ == cur);'])
out+=block('return Ok(()); @nth=1/2','before',['lemma_g_final(s0, cur, acc, pk0);','lemma_lead_empty2(seq![0xE0u8], vli(0));',f'assert(acc == {BYTES});'],'        ')
out+=block('encode_enum!(steps, Uint8, u8, packet.reason_code);','after',[ipush('EncodingStep::Uint8(packet.reason_code as u8)'),'assert(steps@ == cur);'])
out+=block('return Ok(()); @nth=2/2','before',['lemma_g_final(s0, cur, acc, pk0);','lemma_lead_empty3(seq![0xE0u8], vli(1), seq![packet.reason_code as u8]);',f'assert(acc == {BYTES});'],'        ')
out+=block('encode_integral_expression!(steps, Vli, disconnect_property_length);','after',[ipush('EncodingStep::Vli(disconnect_property_length)'),'assert(steps@ == cur);'])
out+=block('encode_optional_property!(steps, Uint32, PROPERTY_KEY_SESSION_EXPIRY_INTERVAL, packet.session_expiry_interval_seconds);','after',['let pre = acc;','if packet.session_expiry_interval_seconds is Some {',
    '    '+ipush('EncodingStep::Uint8(17u8)'),'    '+ipush('EncodingStep::Uint32(packet.session_expiry_interval_seconds->Some_0)'),
    '    lemma_g_regroup2(s0, cur, pre, seq![17u8], be32_bytes(packet.session_expiry_interval_seconds->Some_0), pk0);',
    '} else { lemma_g_regroup0(s0, cur, pre, pk0); }','assert(steps@ == cur);','acc = pre + sei_piece(packet.session_expiry_interval_seconds);'])
out+=strprop('encode_optional_string_property!(steps, get_disconnect_packet_reason_string, PROPERTY_KEY_REASON_STRING, packet.reason_string);',31,'reason_string','get_disconnect_packet_reason_string')
out+=strprop('encode_optional_string_property!(steps, get_disconnect_packet_server_reference, PROPERTY_KEY_SERVER_REFERENCE, packet.server_reference);',28,'server_reference','get_disconnect_packet_server_reference')
out+=block('if let Some(properties) = &packet.user_properties {','before',['pre5 = acc;'])
out+=block('let mut verif_enum0: usize = 0;','before',['lemma_g_regroup0(s0, cur, pre5, pk0);'],'            ')
out+=f'''//@@loop 0 iter=it
            invariant
                packet.user_properties is Some, properties@ == packet.user_properties->Some_0@, it.seq().len() == properties@.len(), count_ok(properties@.len()),
                ups_ok(packet.user_properties), pk0 == MqttPacket::Disconnect(*packet),
                verif_enum0 == it.index@,
                cur == steps@,
                g_inv(s0, steps@, pre5 + ups_bytes(properties@, it.index@ as nat), pk0),
                it.index@ == it.seq().len() ==> g_inv(s0, steps@, pre5 + ups_piece(packet.user_properties), pk0),
//@@at before "verif_enum0 += 1;"
                proof {{ assert(it.index@ < it.seq().len()); }}
//@@bodyend_of_loop 0
                proof {{
                    let n = it.index@;
                    let u = properties@[n];
                    assert(*user_property == u);
                    assert(up_ok(u));
                    acc = pre5 + ups_bytes(properties@, n as nat);
                    {ipush('EncodingStep::Uint8(38u8)')}
                    {ipush('EncodingStep::Uint16(blen(u.name@) as u16)')}
                    {hpush(3,'str_bytes(u.name@)','get_disconnect_packet_user_property','(&pk0, i)')}
                    {ipush('EncodingStep::Uint16(blen(u.value@) as u16)')}
                    {hpush(1,'str_bytes(u.value@)','get_disconnect_packet_user_property','(&pk0, i)')}
                    assert(steps@ == cur);
                    lemma_g_regroup_up(s0, cur, pre5, properties@, n as nat, pk0);
                }}
'''
out+=block('Ok(()) @nth=3/3','before',['if packet.user_properties is None { lemma_g_regroup0(s0, cur, pre5, pk0); }','acc = pre5 + ups_piece(packet.user_properties);','lemma_g_final(s0, cur, acc, pk0);',
    'lemma_lead_empty8(seq![0xE0u8], vli(disconnect_remaining_len(*packet)), seq![packet.reason_code as u8], vli(plen), sei_piece(packet.session_expiry_interval_seconds), opt_str_prop_bytes(31u8, packet.reason_string), opt_str_prop_bytes(28u8, packet.server_reference), ups_piece(packet.user_properties));',
    f'assert(acc == {BYTES});'])
out+='//@end\n\n'
s=s[:k]+out+s[k:]
open(p,'w').write(s)
