p='/verif/units/codec.vt.rs'; s=open(p).read()
k=s.index('// ---- MQTT 5 dispatch: PUBLISH and PINGREQ are under contract')
def ipush(ctor):
    return f"{{ let x = {ctor}; lemma_g_whole_int(x, pk0); lemma_g_push1(s0, cur, x, acc, int_bytes(x), pk0); cur = cur.push(x); acc = acc + int_bytes(x); }}"
def hpush(idx_from_end, bytes_expr, getter, reqargs):
    return (f"{{ let y = steps@[steps@.len() - {idx_from_end}]; "
            f"assert(g_whole(y, {bytes_expr}, pk0)) by {{ reveal(g_whole); assert({getter}.requires({reqargs})); }} "
            f"assert(step_off(y) == 0); lemma_g_push1(s0, cur, y, acc, {bytes_expr}, pk0); cur = cur.push(y); acc = acc + {bytes_expr}; }}")
def block(anchor, where, lines, indent='    '):
    body='\n'.join(indent+'    '+l for l in lines)
    return f'//@@at {where} "{anchor}"\n{indent}proof {{\n{body}\n{indent}}}\n'
out='''
// ---------------------------------------------------------------------------------------------------------------------------------
// MQTT 5 PUBACK / PUBREC / PUBREL / PUBCOMP on the wire (C02, C05), OASIS 5.0 sections 3.4-3.7: fixed header, Remaining Length, Packet Identifier,
// then - unless the reason code is Success and there are no properties (Remaining Length 2) - the reason code, and - unless there are no
// properties (Remaining Length 3) - the property length, the reason string and the user properties. All four are instances of one macro.
//@macro gneiss-mqtt/src/encode.rs add_optional_string_property_length
//@macro gneiss-mqtt/src/encode.rs encode_enum
// proved in the validate unit (same contract); a signature-only stub here
//@fn gneiss-mqtt/src/encode.rs compute_user_properties_length stub
    requires ups_ok(*properties), properties matches Some(ps) ==> count_ok(ps@.len()),
    ensures r == opt_user_props_len(*properties), r <= 16777216 * 131075,
//@end
pub open spec fn ack5_props_len(rs: Option<String>, ups: Option<Vec<UserProperty>>) -> nat { opt_user_props_len(ups) + opt_strprop_len(rs) }
pub open spec fn ack5_bytes(first: u8, id: u16, rc: u8, success: bool, rs: Option<String>, ups: Option<Vec<UserProperty>>) -> Seq<u8> {
    let plen = ack5_props_len(rs, ups);
    if plen == 0 {
        if success { seq![first] + vli(2) + be16_bytes(id) } else { seq![first] + vli(3) + be16_bytes(id) + seq![rc] }
    } else {
        seq![first] + vli(3 + plen + vli_len(plen)) + be16_bytes(id) + seq![rc] + vli(plen) + opt_str_prop_bytes(31u8, rs) + ups_piece(ups)
    }
}
pub open spec fn ack5_sendable(rs: Option<String>, ups: Option<Vec<UserProperty>>) -> bool {
    &&& ups_ok(ups) && opt_str_ok(rs) && (ups matches Some(ps) ==> count_ok(ps@.len()))
    &&& 3 + ack5_props_len(rs, ups) + vli_len(ack5_props_len(rs, ups)) <= 268435455
}
pub proof fn lemma_g_regroup3(s0: Seq<EncodingStep>, cur: Seq<EncodingStep>, pre: Seq<u8>, b0: Seq<u8>, b1: Seq<u8>, b2: Seq<u8>, pk0: MqttPacket)
    requires g_inv(s0, cur, pre + b0 + b1 + b2, pk0),
    ensures g_inv(s0, cur, pre + (b0 + b1 + b2), pk0),
{ assert(pre + b0 + b1 + b2 =~= pre + (b0 + b1 + b2)); }
pub proof fn lemma_lead_empty3(a: Seq<u8>, b: Seq<u8>, c: Seq<u8>) ensures Seq::<u8>::empty() + a + b + c == a + b + c { assert(Seq::<u8>::empty() + a + b + c =~= a + b + c); }
pub proof fn lemma_lead_empty4(a: Seq<u8>, b: Seq<u8>, c: Seq<u8>, d: Seq<u8>) ensures Seq::<u8>::empty() + a + b + c + d == a + b + c + d { assert(Seq::<u8>::empty() + a + b + c + d =~= a + b + c + d); }
'''
for name, Var, byte in [('puback','Puback',0x40),('pubrec','Pubrec',0x50),('pubrel','Pubrel',0x62),('pubcomp','Pubcomp',0x70)]:
    T=Var+'Packet'; RC=Var+'ReasonCode'
    ls=[l for l in s.split('\n') if l.startswith(f'#[verifier::external_body] pub fn write_{name}_encoding_steps5(')]
    assert len(ls)==1; s=s.replace(ls[0]+'\n','',1)
    k=s.index('// ---- MQTT 5 dispatch: PUBLISH and PINGREQ are under contract')
    BYTES=f'ack5_bytes({byte:#04x}u8, packet.packet_id, packet.reason_code as u8, packet.reason_code == {RC}::Success, packet.reason_string, packet.user_properties)'
    out+=f'''
//@fn gneiss-mqtt/src/mqtt/{name}.rs get_{name}_packet_reason_string props=C02 via=gneiss-mqtt/src/encode.rs:define_ack_packet_reason_string_accessor
    requires packet matches MqttPacket::{Var}(p) && p.reason_string is Some,
    ensures packet matches MqttPacket::{Var}(p) && p.reason_string matches Some(t) && r@ == t@,
//@end
//@fn gneiss-mqtt/src/mqtt/{name}.rs get_{name}_packet_user_property props=C02 via=gneiss-mqtt/src/encode.rs:define_ack_packet_user_property_accessor
    requires packet matches MqttPacket::{Var}(p) && p.user_properties matches Some(ups) && index < ups@.len(),
    ensures packet matches MqttPacket::{Var}(p) && p.user_properties matches Some(ups) && *r == ups@[index as int],
//@end
//@fn gneiss-mqtt/src/mqtt/{name}.rs compute_{name}_packet_length_properties props=C02 via=gneiss-mqtt/src/encode.rs:define_ack_packet_lengths_function
    requires ack5_sendable(packet.reason_string, packet.user_properties),
    ensures
        r matches Ok((rem, props)) && props == ack5_props_len(packet.reason_string, packet.user_properties)
            && rem == (if props == 0 {{ if packet.reason_code == {RC}::Success {{ 2int }} else {{ 3 }} }} else {{ 3 + props + vli_len(props as nat) }}),
//@@at bodystart
    proof {{ if packet.user_properties is Some {{ lemma_ups_len_bound(packet.user_properties->Some_0@, packet.user_properties->Some_0@.len()); }} }}
//@end

//@fn gneiss-mqtt/src/mqtt/{name}.rs write_{name}_encoding_steps5 props=C02,C05 via=gneiss-mqtt/src/encode.rs:define_ack_packet_encoding_impl5 desugar fnptr_opaque expand=gneiss-mqtt/src/encode.rs:encode_user_properties+gneiss-mqtt/src/encode.rs:encode_user_property
//@@attr #[verifier::rlimit(100)]
//@@attr #[verifier::spinoff_prover]
    requires
        ack5_sendable(packet.reason_string, packet.user_properties),
    ensures
        r is Ok,
        steps_wf(old(steps)@, MqttPacket::{Var}(*packet)) ==> steps_wf(final(steps)@, MqttPacket::{Var}(*packet)),
        flat(final(steps)@, MqttPacket::{Var}(*packet)) == flat(old(steps)@, MqttPacket::{Var}(*packet)) + {BYTES},
//@@at bodystart
    let ghost s0 = steps@;
    let ghost mut cur = steps@;
    let ghost mut acc = Seq::<u8>::empty();
    let ghost mut pre5 = Seq::<u8>::empty();
    let ghost pk0 = MqttPacket::{Var}(*packet);
    let ghost plen = ack5_props_len(packet.reason_string, packet.user_properties);
    proof {{ lemma_g_init(s0, pk0); }}
'''
    out+=block(f'encode_integral_expression!(steps, Uint8, {name.upper()}_FIRST_BYTE);','after',[f'assert({name.upper()}_FIRST_BYTE == {byte:#04x}u8) by (compute);',ipush(f'EncodingStep::Uint8({byte:#04x}u8)'),'assert(steps@ == cur);'])
    out+=block('encode_integral_expression!(steps, Vli, total_remaining_length);','after',[ipush('EncodingStep::Vli(total_remaining_length)'),'assert(steps@ == cur);'])
    out+=block('encode_integral_expression!(steps, Uint16, packet.packet_id);','after',[ipush('EncodingStep::Uint16(packet.packet_id)'),'assert(steps@ == cur);'])
    out+=block('return Ok(()); @nth=1/2','before',['lemma_g_final(s0, cur, acc, pk0);',f'lemma_lead_empty3(seq![{byte:#04x}u8], vli(2), be16_bytes(packet.packet_id));',f'assert(acc == {BYTES});'],'        ')
    out+=block('encode_enum!(steps, Uint8, u8, packet.reason_code);','after',[ipush('EncodingStep::Uint8(packet.reason_code as u8)'),'assert(steps@ == cur);'])
    out+=block('return Ok(()); @nth=2/2','before',['lemma_g_final(s0, cur, acc, pk0);',f'lemma_lead_empty4(seq![{byte:#04x}u8], vli(3), be16_bytes(packet.packet_id), seq![packet.reason_code as u8]);',f'assert(acc == {BYTES});'],'        ')
    out+=block('encode_integral_expression!(steps, Vli, property_length);','after',[ipush('EncodingStep::Vli(property_length)'),'assert(steps@ == cur);'])
    out+=block(f'encode_optional_string_property!(steps, get_{name}_packet_reason_string, PROPERTY_KEY_REASON_STRING, packet.reason_string);','after',['let pre = acc;','if packet.reason_string is Some {',
        '    '+ipush('EncodingStep::Uint8(31u8)'),'    '+ipush('EncodingStep::Uint16(blen(packet.reason_string->Some_0@) as u16)'),'    '+hpush(1,'str_bytes(packet.reason_string->Some_0@)',f'get_{name}_packet_reason_string','(&pk0,)'),
        '    lemma_g_regroup3(s0, cur, pre, seq![31u8], be16_bytes(blen(packet.reason_string->Some_0@) as u16), str_bytes(packet.reason_string->Some_0@), pk0);',
        '} else { lemma_g_regroup0(s0, cur, pre, pk0); }','assert(steps@ == cur);','acc = pre + opt_str_prop_bytes(31u8, packet.reason_string); pre5 = acc;'])
    out+=block('let mut verif_enum0: usize = 0;','before',['lemma_g_regroup0(s0, cur, pre5, pk0);'],'            ')
    out+=f'''//@@loop 0 iter=it
            invariant
                packet.user_properties is Some, properties@ == packet.user_properties->Some_0@, it.seq().len() == properties@.len(), count_ok(properties@.len()),
                ups_ok(packet.user_properties), pk0 == MqttPacket::{Var}(*packet),
                verif_enum0 == it.index@,
                cur == steps@,
                g_inv(s0, steps@, pre5 + ups_bytes(properties@, it.index@ as nat), pk0),
                it.index@ == it.seq().len() ==> g_inv(s0, steps@, pre5 + ups_piece(packet.user_properties), pk0),
//@@at before "verif_enum0 += 1;"
                proof {{ assert(it.index@ < it.seq().len()); }}
//@@bodyend_of_loop 0
                proof {{
                    let n = it.index@;
                    let u = properties@[n];
                    assert(*user_property == u);
                    assert(up_ok(u));
                    acc = pre5 + ups_bytes(properties@, n as nat);
                    {ipush('EncodingStep::Uint8(38u8)')}
                    {ipush('EncodingStep::Uint16(blen(u.name@) as u16)')}
                    {hpush(3,'str_bytes(u.name@)',f'get_{name}_packet_user_property','(&pk0, i)')}
                    {ipush('EncodingStep::Uint16(blen(u.value@) as u16)')}
                    {hpush(1,'str_bytes(u.value@)',f'get_{name}_packet_user_property','(&pk0, i)')}
                    assert(steps@ == cur);
                    lemma_g_regroup_up(s0, cur, pre5, properties@, n as nat, pk0);
                }}
'''
    out+=block('Ok(()) @nth=3/3','before',['if packet.user_properties is None { lemma_g_regroup0(s0, cur, pre5, pk0); }','acc = pre5 + ups_piece(packet.user_properties);','lemma_g_final(s0, cur, acc, pk0);',
        f'lemma_lead_empty7(seq![{byte:#04x}u8], vli((3 + plen + vli_len(plen)) as nat), be16_bytes(packet.packet_id), seq![packet.reason_code as u8], vli(plen), opt_str_prop_bytes(31u8, packet.reason_string), ups_piece(packet.user_properties));',
        f'assert(acc == {BYTES});'])
    out+='//@end\n'
out+='''
pub proof fn lemma_ups_len_bound(ps: Seq<UserProperty>, n: nat)
    requires n <= ps.len(), forall|i: int| 0 <= i < ps.len() ==> up_ok(#[trigger] ps[i]),
    ensures user_props_len(ps, n) <= n * 131075,
    decreases n
{ if n > 0 { lemma_ups_len_bound(ps, (n - 1) as nat); assert(up_ok(ps[n - 1])); } }

'''
s=s[:k]+out+s[k:]
open(p,'w').write(s)
