p='/verif/units/codec.vt.rs'; s=open(p).read()
k=s.rfind('} // verus!')
P='*packet'
def ipush(ctor):
    return f"{{ let x = {ctor}; lemma_whole_int(x, {P}); lemma_push1(s0, cur, x, acc, int_bytes(x), {P}); cur = cur.push(x); acc = acc + int_bytes(x); }}"
def hpush(idx_from_end, bytes_expr, getter, reqargs):
    return (f"{{ let y = steps@[steps@.len() - {idx_from_end}]; "
            f"assert(whole_is(y, {bytes_expr}, {P})) by {{ reveal(whole_is); assert forall|pk: MqttPacket| is_publish_of(pk, {P}) implies #[trigger] step_whole(y, pk) == {bytes_expr} by {{ assert({getter}.requires({reqargs})); }} }} "
            f"assert(step_off(y) == 0); lemma_push1(s0, cur, y, acc, {bytes_expr}, {P}); cur = cur.push(y); acc = acc + {bytes_expr}; }}")
def block(anchor, where, lines, indent='    '):
    body='\n'.join(indent+'    '+l for l in lines)
    return f'//@@at {where} "{anchor}"\n{indent}proof {{\n{body}\n{indent}}}\n'
def optstage(anchor, cond, piece, pushes, regroup, indent='    '):
    lines=["let pre = acc;", f"if {cond} {{"]+['    '+l for l in pushes]+['    '+regroup, "} else { lemma_regroup0(s0, cur, pre, *packet); }", "assert(steps@ == cur);", f"acc = pre + {piece};"]
    return block(anchor,'after',lines,indent)
LIB=open('/tmp/pub5_lib.txt').read()
PART1=open('/tmp/pub5_part1.txt').read()
fn='''
//@fn gneiss-mqtt/src/mqtt/publish.rs write_publish_encoding_steps5 props=C02,C17 desugar fnptr_opaque expand=gneiss-mqtt/src/encode.rs:encode_user_properties+gneiss-mqtt/src/encode.rs:encode_user_property
//@@attr #[verifier::rlimit(100)]
//@@attr #[verifier::spinoff_prover]
    requires
        publish5_sendable(*packet, context.outbound_alias_resolution),          // send-time validation (C16, validate unit)
    ensures
        r is Ok,
        forall|pk: MqttPacket| is_publish_of(pk, *packet) && steps_wf(old(steps)@, pk) ==> #[trigger] steps_wf(final(steps)@, pk),
        forall|pk: MqttPacket| is_publish_of(pk, *packet) ==> #[trigger] flat(final(steps)@, pk) == flat(old(steps)@, pk) + publish5_bytes(*packet, context.outbound_alias_resolution),
//@@at bodystart
    let ghost s0 = steps@;
    let ghost mut cur = steps@;
    let ghost mut acc = Seq::<u8>::empty();
    let ghost mut pre4 = Seq::<u8>::empty();
    let ghost mut pre15 = Seq::<u8>::empty();
    let ghost mut pre16 = Seq::<u8>::empty();
    let ghost res = context.outbound_alias_resolution;
    proof { lemma_inv_init(s0, *packet); }
'''
fn+=block('encode_integral_expression!(steps, Uint8, compute_publish_fixed_header_first_byte(packet));','after',[ipush('EncodingStep::Uint8(publish_first_byte(*packet))'),'assert(steps@ == cur);'])
fn+=block('encode_integral_expression!(steps, Vli, total_remaining_length);','after',[ipush('EncodingStep::Vli(total_remaining_length)'),'assert(steps@ == cur);'])
fn+=block('encode_integral_expression!(steps, Uint16, 0);','after',['let pre = acc;',ipush('EncodingStep::Uint16(0u16)'),'assert(steps@ == cur);','acc = pre + topic_piece(*packet, res);'],'        ')
fn+=block('encode_length_prefixed_string!(steps, get_publish_packet_topic, packet.topic);','after',['let pre = acc;',ipush('EncodingStep::Uint16(blen(packet.topic@) as u16)'),hpush(1,'str_bytes(packet.topic@)','get_publish_packet_topic','(&pk,)'),'assert(steps@ == cur);',
    'lemma_regroup2(s0, cur, pre, be16_bytes(blen(packet.topic@) as u16), str_bytes(packet.topic@), *packet);','acc = pre + topic_piece(*packet, res);'],'        ')
fn+=block('if packet.qos != QualityOfService::AtMostOnce {','before',['pre4 = acc;'])
fn+=block('encode_integral_expression!(steps, Uint16, packet.packet_id);','after',[ipush('EncodingStep::Uint16(packet.packet_id)'),'assert(steps@ == cur);'],'        ')
fn+=block('encode_integral_expression!(steps, Vli, publish_property_length);','before',['if packet.qos == QualityOfService::AtMostOnce { lemma_regroup0(s0, cur, pre4, *packet); }','acc = pre4 + id_piece(*packet);'])
fn+=block('encode_integral_expression!(steps, Vli, publish_property_length);','after',[ipush('EncodingStep::Vli(publish_property_length)'),'assert(steps@ == cur);'])
fn+=optstage('encode_optional_enum_property!(steps, Uint8, PROPERTY_KEY_PAYLOAD_FORMAT_INDICATOR, u8, packet.payload_format);','packet.payload_format is Some','pfi_piece(packet.payload_format)',
   ['let f = packet.payload_format->Some_0; assert(f as u8 == pfi_num(f));', ipush('EncodingStep::Uint8(1u8)'), ipush('EncodingStep::Uint8(pfi_num(f))')],
   'lemma_regroup2(s0, cur, pre, seq![1u8], seq![pfi_num(f)], *packet);')
fn+=optstage('encode_optional_property!(steps, Uint32, PROPERTY_KEY_MESSAGE_EXPIRY_INTERVAL, packet.message_expiry_interval_seconds);','packet.message_expiry_interval_seconds is Some','mei_piece(packet.message_expiry_interval_seconds)',
   [ipush('EncodingStep::Uint8(2u8)'), ipush('EncodingStep::Uint32(packet.message_expiry_interval_seconds->Some_0)')],
   'lemma_regroup2(s0, cur, pre, seq![2u8], be32_bytes(packet.message_expiry_interval_seconds->Some_0), *packet);')
fn+=optstage('encode_optional_property!(steps, Uint16, PROPERTY_KEY_TOPIC_ALIAS, resolution.alias);','res.alias is Some','alias_piece(res.alias)',
   [ipush('EncodingStep::Uint8(35u8)'), ipush('EncodingStep::Uint16(res.alias->Some_0)')],
   'lemma_regroup2(s0, cur, pre, seq![35u8], be16_bytes(res.alias->Some_0), *packet);')
fn+=optstage('encode_optional_string_property!(steps, get_publish_packet_response_topic, PROPERTY_KEY_RESPONSE_TOPIC, packet.response_topic);','packet.response_topic is Some','opt_str_prop_bytes(8u8, packet.response_topic)',
   [ipush('EncodingStep::Uint8(8u8)'), ipush('EncodingStep::Uint16(blen(packet.response_topic->Some_0@) as u16)'), hpush(1,'str_bytes(packet.response_topic->Some_0@)','get_publish_packet_response_topic','(&pk,)')],
   'lemma_regroup3(s0, cur, pre, seq![8u8], be16_bytes(blen(packet.response_topic->Some_0@) as u16), str_bytes(packet.response_topic->Some_0@), *packet);')
fn+=optstage('encode_optional_bytes_property!(steps, get_publish_packet_correlation_data, PROPERTY_KEY_CORRELATION_DATA, packet.correlation_data);','packet.correlation_data is Some','opt_bin_prop_bytes(9u8, packet.correlation_data)',
   [ipush('EncodingStep::Uint8(9u8)'), ipush('EncodingStep::Uint16(packet.correlation_data->Some_0@.len() as u16)'), hpush(1,'packet.correlation_data->Some_0@','get_publish_packet_correlation_data','(&pk,)')],
   'lemma_regroup3(s0, cur, pre, seq![9u8], be16_bytes(packet.correlation_data->Some_0@.len() as u16), packet.correlation_data->Some_0@, *packet);')
fn+='''//@@loop 0
            invariant false,        // unreachable: client publishes carry no subscription identifiers (precondition)
'''
fn+=optstage('encode_optional_string_property!(steps, get_publish_packet_content_type, PROPERTY_KEY_CONTENT_TYPE, &packet.content_type);','packet.content_type is Some','opt_str_prop_bytes(3u8, packet.content_type)',
   [ipush('EncodingStep::Uint8(3u8)'), ipush('EncodingStep::Uint16(blen(packet.content_type->Some_0@) as u16)'), hpush(1,'str_bytes(packet.content_type->Some_0@)','get_publish_packet_content_type','(&pk,)')],
   'lemma_regroup3(s0, cur, pre, seq![3u8], be16_bytes(blen(packet.content_type->Some_0@) as u16), str_bytes(packet.content_type->Some_0@), *packet);')
fn+=block('if let Some(properties) = &packet.user_properties {','before',['pre15 = acc;'])
fn+=block('let mut verif_enum0: usize = 0;','before',['lemma_regroup0(s0, cur, pre15, *packet);'],'            ')
fn+='''//@@loop 1 iter=it
            invariant
                packet.user_properties is Some, properties@ == packet.user_properties->Some_0@, it.seq().len() == properties@.len(), count_ok(properties@.len()),
                ups_ok(packet.user_properties),
                verif_enum0 == it.index@,
                cur == steps@,
                pub_inv(s0, steps@, pre15 + ups_bytes(properties@, it.index@ as nat), *packet),
                it.index@ == it.seq().len() ==> pub_inv(s0, steps@, pre15 + ups_piece(packet.user_properties), *packet),
//@@at before "verif_enum0 += 1;"
                proof { assert(it.index@ < it.seq().len()); }
//@@bodyend_of_loop 1
                proof {
                    let n = it.index@;
                    let u = properties@[n];
                    assert(*user_property == u);
                    assert(up_ok(u));
                    acc = pre15 + ups_bytes(properties@, n as nat);
                    '''+ipush('EncodingStep::Uint8(38u8)')+'''
                    '''+ipush('EncodingStep::Uint16(blen(u.name@) as u16)')+'''
                    '''+hpush(3,'str_bytes(u.name@)','get_publish_packet_user_property','(&pk, i)')+'''
                    '''+ipush('EncodingStep::Uint16(blen(u.value@) as u16)')+'''
                    '''+hpush(1,'str_bytes(u.value@)','get_publish_packet_user_property','(&pk, i)')+'''
                    assert(steps@ == cur);
                    lemma_regroup_up(s0, cur, pre15, properties@, n as nat, *packet);
                }
'''
fn+=block('if packet.payload.is_some() {','before',['if packet.user_properties is None { lemma_regroup0(s0, cur, pre15, *packet); }','acc = pre15 + ups_piece(packet.user_properties); pre16 = acc;'])
fn+=block('encode_raw_bytes!(steps, get_publish_packet_payload);','after',[hpush(1,'packet.payload->Some_0@','get_publish_packet_payload','(&pk,)'),'assert(steps@ == cur);'],'        ')
fn+=block('Ok(())','before',['if packet.payload is None { lemma_regroup0(s0, cur, pre16, *packet); }','acc = pre16 + payload_piece(packet.payload);','lemma_inv_final(s0, cur, acc, *packet);',
  'lemma_assoc_publish5(seq![publish_first_byte(*packet)], vli(publish_remaining_len(*packet, res)), topic_piece(*packet, res), id_piece(*packet), vli(publish_props_len(*packet, res)), pfi_piece(packet.payload_format), mei_piece(packet.message_expiry_interval_seconds), alias_piece(res.alias), opt_str_prop_bytes(8u8, packet.response_topic), opt_bin_prop_bytes(9u8, packet.correlation_data), opt_str_prop_bytes(3u8, packet.content_type), ups_piece(packet.user_properties), payload_piece(packet.payload));',
  'assert(acc == publish5_bytes(*packet, res));'])
fn+='//@end\n\n'
s=s[:k]+PART1+LIB+fn+s[k:]
open(p,'w').write(s)
