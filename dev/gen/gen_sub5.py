p='/verif/units/codec.vt.rs'; s=open(p).read()
ls=[l for l in s.split('\n') if l.startswith('#[verifier::external_body] pub fn write_subscribe_encoding_steps5(')]
assert len(ls)==1; s=s.replace(ls[0]+'\n','',1)
s=s.replace("        MqttPacket::Unsubscribe(p) => Some(unsubscribe5_bytes(p)),\n","        MqttPacket::Unsubscribe(p) => Some(unsubscribe5_bytes(p)),\n        MqttPacket::Subscribe(p) => Some(subscribe5_bytes(p)),\n",1)
s=s.replace("MqttPacket::Unsubscribe(p) => unsubscribe5_sendable(p), _ => true }","MqttPacket::Unsubscribe(p) => unsubscribe5_sendable(p), MqttPacket::Subscribe(p) => subscribe5_sendable(p), _ => true }",1)
k=s.index('// ---- MQTT 5 dispatch: PUBLISH and PINGREQ are under contract')
def ipush(ctor):
    return f"{{ let x = {ctor}; lemma_g_whole_int(x, pk0); lemma_g_push1(s0, cur, x, acc, int_bytes(x), pk0); cur = cur.push(x); acc = acc + int_bytes(x); }}"
def hpush(idx_from_end, bytes_expr, getter, reqargs):
    return (f"{{ let y = steps@[steps@.len() - {idx_from_end}]; "
            f"assert(g_whole(y, {bytes_expr}, pk0)) by {{ reveal(g_whole); assert({getter}.requires({reqargs})); }} "
            f"assert(step_off(y) == 0); lemma_g_push1(s0, cur, y, acc, {bytes_expr}, pk0); cur = cur.push(y); acc = acc + {bytes_expr}; }}")
def block(anchor, where, lines, indent='    '):
    body='\n'.join(indent+'    '+l for l in lines)
    return f'//@@at {where} "{anchor}"\n{indent}proof {{\n{body}\n{indent}}}\n'
LIB='''
// ---------------------------------------------------------------------------------------------------------------------------------
// MQTT 5 SUBSCRIBE on the wire (C02), OASIS 5.0 section 3.8. The Subscription Identifier is a Variable Byte Integer (3.8.2.1.2) - the
// contract is the standard's; the code writes four bytes, which is the open finding F-SUBID (the obligation holds when no identifier is present).
//@const gneiss-mqtt/src/mqtt/utils.rs SUBSCRIPTION_OPTIONS_NO_LOCAL_MASK
//@const gneiss-mqtt/src/mqtt/utils.rs SUBSCRIPTION_OPTIONS_RETAIN_AS_PUBLISHED_MASK
//@const gneiss-mqtt/src/mqtt/utils.rs SUBSCRIPTION_OPTIONS_RETAIN_HANDLING_SHIFT
pub open spec fn rh_num(t: RetainHandlingType) -> u8 { match t { RetainHandlingType::SendOnSubscribe => 0u8, RetainHandlingType::SendOnSubscribeIfNew => 1u8, RetainHandlingType::DontSend => 2u8 } }
// 3.8.3.1: bits 1-0 maximum QoS, bit 2 No Local, bit 3 Retain As Published, bits 5-4 Retain Handling, bits 7-6 reserved 0
pub open spec fn sub_options_byte(s: Subscription) -> u8 {
    (qos_num(s.qos) + (if s.no_local { 4int } else { 0 }) + (if s.retain_as_published { 8int } else { 0 }) + 16 * rh_num(s.retain_handling_type)) as u8
}
//@fn gneiss-mqtt/src/mqtt/subscribe.rs compute_subscription_options_byte5 props=C02
    ensures r == sub_options_byte(*subscription),
//@@at bodystart
    proof {
        assert(1u8 << 2 == 4u8) by (bit_vector);
        assert(1u8 << 3 == 8u8) by (bit_vector);
        assert(forall|q: u8| q <= 2 ==> #[trigger] (q | 4u8) == q + 4) by (bit_vector);
        assert(forall|b: u8| (b <= 2 || (4 <= b && b <= 6)) ==> #[trigger] (b | 8u8) == b + 8) by (bit_vector);
        assert(forall|b: u8, t: u8| b < 16 && t <= 2 ==> #[trigger] (b | (t << 4u8)) == b + 16 * t) by (bit_vector);
        assert(subscription.qos as u8 == qos_num(subscription.qos));
        assert(subscription.retain_handling_type as u8 == rh_num(subscription.retain_handling_type));
        assert(SUBSCRIPTION_OPTIONS_NO_LOCAL_MASK == 4u8) by (compute);
        assert(SUBSCRIPTION_OPTIONS_RETAIN_AS_PUBLISHED_MASK == 8u8) by (compute);
    }
//@end

pub open spec fn subscribe_props_len(p: SubscribePacket) -> nat {
    opt_user_props_len(p.user_properties) + (match p.subscription_identifier { Some(id) => 1 + vli_len(id as nat), None => 0 })
}
pub open spec fn subscribe_remaining_len(p: SubscribePacket) -> nat {
    2 + vli_len(subscribe_props_len(p)) + subscribe_props_len(p) + subs_len(p.subscriptions@, p.subscriptions@.len())
}
pub open spec fn subscribe5_sendable(p: SubscribePacket) -> bool {
    &&& ups_ok(p.user_properties) && subs_ok(p.subscriptions@) && count_ok(p.subscriptions@.len())
    &&& (p.user_properties matches Some(ps) ==> count_ok(ps@.len()))
    &&& (p.subscription_identifier matches Some(id) ==> 1 <= id <= 268435455)
    &&& subscribe_remaining_len(p) <= 268435455
}
// the contract the validate unit states from the standard (there it fails when an identifier is present: finding F-SUBID); a signature-only stub here
//@fn gneiss-mqtt/src/mqtt/subscribe.rs compute_subscribe_packet_length_properties5 stub
    requires ups_ok(packet.user_properties), subs_ok(packet.subscriptions@), count_ok(packet.subscriptions@.len()),
        packet.user_properties matches Some(ps) ==> count_ok(ps@.len()),
    ensures
        r matches Ok((rem, props)) ==> props == subscribe_props_len(*packet) && rem == subscribe_remaining_len(*packet) && rem <= 268435455 && props <= 268435455,
        (subscribe_remaining_len(*packet) <= 268435455) ==> r is Ok,
//@end
//@fn gneiss-mqtt/src/mqtt/subscribe.rs get_subscribe_packet_user_property props=C02
    requires packet matches MqttPacket::Subscribe(p) && p.user_properties matches Some(ups) && index < ups@.len(),
    ensures packet matches MqttPacket::Subscribe(p) && p.user_properties matches Some(ups) && *r == ups@[index as int],
//@end
pub open spec fn subid_piece(o: Option<u32>) -> Seq<u8> { match o { Some(id) => seq![11u8] + vli(id as nat), None => Seq::<u8>::empty() } }
pub open spec fn subs5_bytes(v: Seq<Subscription>, n: nat) -> Seq<u8> decreases n {
    if n == 0 { Seq::<u8>::empty() } else { subs5_bytes(v, (n - 1) as nat) + be16_bytes(blen(v[n - 1].topic_filter@) as u16) + str_bytes(v[n - 1].topic_filter@) + seq![sub_options_byte(v[n - 1])] }
}
pub open spec fn subscribe5_bytes(p: SubscribePacket) -> Seq<u8> {
    seq![0x82u8] + vli(subscribe_remaining_len(p)) + be16_bytes(p.packet_id) + vli(subscribe_props_len(p)) + subid_piece(p.subscription_identifier) + ups_piece(p.user_properties)
    + subs5_bytes(p.subscriptions@, p.subscriptions@.len())
}
pub proof fn lemma_g_regroup2(s0: Seq<EncodingStep>, cur: Seq<EncodingStep>, pre: Seq<u8>, b0: Seq<u8>, b1: Seq<u8>, pk0: MqttPacket)
    requires g_inv(s0, cur, pre + b0 + b1, pk0),
    ensures g_inv(s0, cur, pre + (b0 + b1), pk0),
{ assert(pre + b0 + b1 =~= pre + (b0 + b1)); }
pub proof fn lemma_g_regroup_sub5(s0: Seq<EncodingStep>, cur: Seq<EncodingStep>, pre: Seq<u8>, v: Seq<Subscription>, n: nat, pk0: MqttPacket)
    requires n < v.len(), g_inv(s0, cur, pre + subs5_bytes(v, n) + be16_bytes(blen(v[n as int].topic_filter@) as u16) + str_bytes(v[n as int].topic_filter@) + seq![sub_options_byte(v[n as int])], pk0),
    ensures g_inv(s0, cur, pre + subs5_bytes(v, n + 1), pk0),
{
    assert(pre + subs5_bytes(v, n) + be16_bytes(blen(v[n as int].topic_filter@) as u16) + str_bytes(v[n as int].topic_filter@) + seq![sub_options_byte(v[n as int])]
        =~= pre + (subs5_bytes(v, n) + be16_bytes(blen(v[n as int].topic_filter@) as u16) + str_bytes(v[n as int].topic_filter@) + seq![sub_options_byte(v[n as int])]));
}
pub proof fn lemma_lead_empty7(a: Seq<u8>, b: Seq<u8>, c: Seq<u8>, d: Seq<u8>, e: Seq<u8>, f: Seq<u8>, g: Seq<u8>)
    ensures Seq::<u8>::empty() + a + b + c + d + e + f + g == a + b + c + d + e + f + g,
{ assert(Seq::<u8>::empty() + a + b + c + d + e + f + g =~= a + b + c + d + e + f + g); }
'''
fn='''
//@fn gneiss-mqtt/src/mqtt/subscribe.rs write_subscribe_encoding_steps5 props=C02 desugar fnptr_opaque expand=gneiss-mqtt/src/encode.rs:encode_user_properties+gneiss-mqtt/src/encode.rs:encode_user_property
//@@attr #[verifier::rlimit(100)]
//@@attr #[verifier::spinoff_prover]
    requires
        subscribe5_sendable(*packet),          // send-time validation (C16, validate unit)
    ensures
        r is Ok,
        forall|pk: MqttPacket| is_subscribe_of(pk, *packet) && steps_wf(old(steps)@, pk) ==> #[trigger] steps_wf(final(steps)@, pk),
        forall|pk: MqttPacket| is_subscribe_of(pk, *packet) ==> #[trigger] flat(final(steps)@, pk) == flat(old(steps)@, pk) + subscribe5_bytes(*packet),
//@@finding F-SUBID
        proof { assume(packet.subscription_identifier is None); }
//@@at bodystart
    let ghost s0 = steps@;
    let ghost mut cur = steps@;
    let ghost mut acc = Seq::<u8>::empty();
    let ghost mut pre5 = Seq::<u8>::empty();
    let ghost mut pre6 = Seq::<u8>::empty();
    let ghost pk0 = MqttPacket::Subscribe(*packet);
    proof { lemma_g_init(s0, pk0); }
'''
fn+=block('encode_integral_expression!(steps, Uint8, SUBSCRIBE_FIRST_BYTE);','after',['assert(SUBSCRIBE_FIRST_BYTE == 0x82u8) by (compute);',ipush('EncodingStep::Uint8(0x82u8)'),'assert(steps@ == cur);'])
fn+=block('encode_integral_expression!(steps, Vli, total_remaining_length);','after',[ipush('EncodingStep::Vli(total_remaining_length)'),'assert(steps@ == cur);'])
fn+=block('encode_integral_expression!(steps, Uint16, packet.packet_id);','after',[ipush('EncodingStep::Uint16(packet.packet_id)'),'assert(steps@ == cur);'])
fn+=block('encode_integral_expression!(steps, Vli, subscribe_property_length);','after',[ipush('EncodingStep::Vli(subscribe_property_length)'),'assert(steps@ == cur);'])
fn+=block('encode_optional_property!(steps, Uint32, PROPERTY_KEY_SUBSCRIPTION_IDENTIFIER, packet.subscription_identifier);','after',['let pre = acc;','if packet.subscription_identifier is Some {',
   '    '+ipush('EncodingStep::Uint8(11u8)'), '    '+ipush('EncodingStep::Uint32(packet.subscription_identifier->Some_0)'),
   '    // the standard: a Variable Byte Integer follows the identifier 0x0B (fails on the code as it is: F-SUBID)',
   '    lemma_g_regroup2(s0, cur, pre, seq![11u8], vli(packet.subscription_identifier->Some_0 as nat), pk0);',
   '} else { lemma_g_regroup0(s0, cur, pre, pk0); }','assert(steps@ == cur);','acc = pre + subid_piece(packet.subscription_identifier); pre5 = acc;'])
fn+=block('let mut verif_enum0: usize = 0;','before',['lemma_g_regroup0(s0, cur, pre5, pk0);'],'            ')
fn+='''//@@loop 0 iter=it
            invariant
                packet.user_properties is Some, properties@ == packet.user_properties->Some_0@, it.seq().len() == properties@.len(), count_ok(properties@.len()),
                ups_ok(packet.user_properties), pk0 == MqttPacket::Subscribe(*packet),
                verif_enum0 == it.index@,
                cur == steps@,
                g_inv(s0, steps@, pre5 + ups_bytes(properties@, it.index@ as nat), pk0),
                it.index@ == it.seq().len() ==> g_inv(s0, steps@, pre5 + ups_piece(packet.user_properties), pk0),
//@@at before "verif_enum0 += 1;"
                proof { assert(it.index@ < it.seq().len()); }
//@@bodyend_of_loop 0
                proof {
                    let n = it.index@;
                    let u = properties@[n];
                    assert(*user_property == u);
                    assert(up_ok(u));
                    acc = pre5 + ups_bytes(properties@, n as nat);
                    '''+ipush('EncodingStep::Uint8(38u8)')+'''
                    '''+ipush('EncodingStep::Uint16(blen(u.name@) as u16)')+'''
                    '''+hpush(3,'str_bytes(u.name@)','get_subscribe_packet_user_property','(&pk0, i)')+'''
                    '''+ipush('EncodingStep::Uint16(blen(u.value@) as u16)')+'''
                    '''+hpush(1,'str_bytes(u.value@)','get_subscribe_packet_user_property','(&pk0, i)')+'''
                    assert(steps@ == cur);
                    lemma_g_regroup_up(s0, cur, pre5, properties@, n as nat, pk0);
                }
'''
fn+=block('let subscriptions = &packet.subscriptions;','before',['if packet.user_properties is None { lemma_g_regroup0(s0, cur, pre5, pk0); }','acc = pre5 + ups_piece(packet.user_properties); pre6 = acc;','lemma_g_regroup0(s0, cur, pre6, pk0);'])
fn+='''//@@loop 1 iter=it
        invariant
            subscriptions@ == packet.subscriptions@, it.seq().len() == packet.subscriptions@.len(), count_ok(packet.subscriptions@.len()), subs_ok(packet.subscriptions@),
            pk0 == MqttPacket::Subscribe(*packet),
            verif_enum1 == it.index@,
            cur == steps@,
            g_inv(s0, steps@, pre6 + subs5_bytes(packet.subscriptions@, it.index@ as nat), pk0),
            it.index@ == it.seq().len() ==> g_inv(s0, steps@, pre6 + subs5_bytes(packet.subscriptions@, packet.subscriptions@.len()), pk0),
//@@at before "verif_enum1 += 1;"
            proof { assert(it.index@ < it.seq().len()); }
//@@at after "encode_integral_expression!(steps, Uint8, compute_subscription_options_byte5(subscription));"
            proof {
                let n = it.index@;
                assert(*subscription == packet.subscriptions@[n]);
                acc = pre6 + subs5_bytes(packet.subscriptions@, n as nat);
                '''+ipush('EncodingStep::Uint16(blen(subscription.topic_filter@) as u16)')+'''
                '''+hpush(2,'str_bytes(subscription.topic_filter@)','get_subscribe_packet_topic_filter','(&pk0, i)')+'''
                '''+ipush('EncodingStep::Uint8(sub_options_byte(*subscription))')+'''
                assert(steps@ == cur);
                lemma_g_regroup_sub5(s0, cur, pre6, packet.subscriptions@, n as nat, pk0);
            }
'''
fn+=block('Ok(())','before',['acc = pre6 + subs5_bytes(packet.subscriptions@, packet.subscriptions@.len());','lemma_g_final(s0, cur, acc, pk0);',
  'lemma_lead_empty7(seq![0x82u8], vli(subscribe_remaining_len(*packet)), be16_bytes(packet.packet_id), vli(subscribe_props_len(*packet)), subid_piece(packet.subscription_identifier), ups_piece(packet.user_properties), subs5_bytes(packet.subscriptions@, packet.subscriptions@.len()));',
  'assert(acc == subscribe5_bytes(*packet));',
  'assert forall|pk: MqttPacket| is_subscribe_of(pk, *packet) implies pk == pk0 by { }'])
fn+='//@end\n\n'
s=s[:k]+LIB+fn+s[k:]
open(p,'w').write(s)
