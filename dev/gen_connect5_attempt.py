import sys
p=sys.argv[1]; s=open(p).read()
ls=[l for l in s.split('\n') if l.startswith('#[verifier::external_body] pub fn write_connect_encoding_steps5(')]
assert len(ls)==1; s=s.replace(ls[0]+'\n','',1)
s=s.replace("        MqttPacket::Disconnect(p) => Some(disconnect5_bytes(p)),\n","        MqttPacket::Disconnect(p) => Some(disconnect5_bytes(p)),\n        MqttPacket::Connect(p) => Some(connect5_bytes(p)),\n",1)
s=s.replace("        MqttPacket::Disconnect(p) => disconnect5_sendable(p),\n","        MqttPacket::Disconnect(p) => disconnect5_sendable(p),\n        MqttPacket::Connect(p) => connect5_sendable(p),\n",1)
assert 'connect5_sendable(p),' in s and 'connect5_bytes(p))' in s
k=s.index('// ---- MQTT 5 dispatch: PUBLISH and PINGREQ are under contract')
def ipush(ctor):
    return f"{{ let x = {ctor}; lemma_g_whole_int(x, pk0); lemma_g_push1(s0, cur, x, acc, int_bytes(x), pk0); cur = cur.push(x); acc = acc + int_bytes(x); }}"
def hpush(idx_from_end, bytes_expr, getter, reqargs):
    return (f"{{ let y = steps@[steps@.len() - {idx_from_end}]; "
            f"assert(g_whole(y, {bytes_expr}, pk0)) by {{ reveal(g_whole); assert({getter}.requires({reqargs})); }} "
            f"assert(step_off(y) == 0); lemma_g_push1(s0, cur, y, acc, {bytes_expr}, pk0); cur = cur.push(y); acc = acc + {bytes_expr}; }}")
def block(anchor, where, lines, indent='    '):
    body='\n'.join(indent+'    '+l for l in lines)
    return f'//@@at {where} "{anchor}"\n{indent}proof {{\n{body}\n{indent}}}\n'
def CP(k): return f'cp({k}, *packet)'
def opt2(anchor, optexpr, key, ctor, k, indent='    '):
    return block(anchor,'after',[f'assert({optexpr} is Some ==> {CP(k)} == seq![{key}u8] + int_bytes({ctor})) by {{ reveal(cp); }}',f'assert({optexpr} is None ==> {CP(k)} == Seq::<u8>::empty()) by {{ reveal(cp); }}',
        f'lemma_st_opt_int(s0, cur, steps@, acc, {key}u8, {optexpr} is Some, {ctor}, {CP(k)}, pk0);',f'cur = steps@; acc = acc + {CP(k)};'],indent)
def optslice(anchor, optexpr, key, getter, k, lenexpr, bytesexpr, indent='    '):
    return block(anchor,'after',['let y = steps@[steps@.len() - 1];',
        f'assert({optexpr} is Some ==> g_whole(y, {bytesexpr}, pk0) && step_off(y) == 0) by {{ if {optexpr} is Some {{ reveal(g_whole); assert({getter}.requires((&pk0,))); }} }}',
        f'assert({optexpr} is Some ==> {CP(k)} == seq![{key}u8] + be16_bytes({lenexpr}) + {bytesexpr}) by {{ reveal(cp); }}',f'assert({optexpr} is None ==> {CP(k)} == Seq::<u8>::empty()) by {{ reveal(cp); }}',
        f'lemma_st_opt_slice(s0, cur, steps@, acc, {key}u8, {optexpr} is Some, {lenexpr}, y, {bytesexpr}, {CP(k)}, pk0);',
        f'cur = steps@; acc = acc + {CP(k)};'],indent)
def optstr(anchor, optexpr, key, getter, k, indent='    '):
    return optslice(anchor, optexpr, key, getter, k, f'blen({optexpr}->Some_0@) as u16', f'str_bytes({optexpr}->Some_0@)', indent)
def optbin(anchor, optexpr, key, getter, k, indent='    '):
    return optslice(anchor, optexpr, key, getter, k, f'{optexpr}->Some_0@.len() as u16', f'{optexpr}->Some_0@', indent)
def lpstage(anchor, where, present, zero_if_absent, len16, bytes_expr, getter, k, indent='    ', before_lines=(), after_lines=()):
    return block(anchor,where,list(before_lines)+['let y = steps@[steps@.len() - 1];',
        f'assert({present} ==> g_whole(y, {bytes_expr}, pk0) && step_off(y) == 0) by {{ if {present} {{ reveal(g_whole); assert({getter}.requires((&pk0,))); }} }}',
        f'assert({present} ==> {CP(k)} == be16_bytes({len16}) + {bytes_expr}) by {{ reveal(cp); }}',
        f'assert(!({present}) ==> {CP(k)} == (if {zero_if_absent} {{ be16_bytes(0u16) }} else {{ Seq::<u8>::empty() }})) by {{ reveal(cp); }}',
        f'lemma_st_lp(s0, cur, steps@, acc, {present}, {zero_if_absent}, {len16}, y, {bytes_expr}, {CP(k)}, pk0);',
        f'cur = steps@; acc = acc + {CP(k)};']+list(after_lines),indent)
def upsloop(n, preg, upsexpr, getter, counter, indent, extra=''):
    i2=indent
    return f'''//@@loop {n} iter=it
{i2}    invariant
{i2}        {upsexpr} is Some, properties@ == {upsexpr}->Some_0@, it.seq().len() == properties@.len(), count_ok(properties@.len()),
{i2}        ups_ok({upsexpr}), pk0 == MqttPacket::Connect(*packet),{extra}
{i2}        {counter} == it.index@,
{i2}        cur == steps@,
{i2}        g_inv(s0, steps@, {preg} + ups_bytes(properties@, it.index@ as nat), pk0),
{i2}        it.index@ == it.seq().len() ==> g_inv(s0, steps@, {preg} + ups_piece({upsexpr}), pk0),
//@@at before "{counter} += 1;"
{i2}        proof {{ assert(it.index@ < it.seq().len()); }}
//@@bodyend_of_loop {n}
{i2}        proof {{
{i2}            let n = it.index@;
{i2}            let u = properties@[n];
{i2}            assert(*user_property == u);
{i2}            assert(up_ok(u));
{i2}            acc = {preg} + ups_bytes(properties@, n as nat);
{i2}            {ipush('EncodingStep::Uint8(38u8)')}
{i2}            {ipush('EncodingStep::Uint16(blen(u.name@) as u16)')}
{i2}            {hpush(3,'str_bytes(u.name@)',getter,'(&pk0, i)')}
{i2}            {ipush('EncodingStep::Uint16(blen(u.value@) as u16)')}
{i2}            {hpush(1,'str_bytes(u.value@)',getter,'(&pk0, i)')}
{i2}            assert(steps@ == cur);
{i2}            lemma_g_regroup_up(s0, cur, {preg}, properties@, n as nat, pk0);
{i2}        }}
'''
PROTO='seq![0u8, 4u8, 77u8, 81u8, 84u8, 84u8, 5u8]'
W='packet.will->Some_0'
getter=lambda name, req, ens, ret='': f'''//@fn gneiss-mqtt/src/mqtt/connect.rs {name} props=C02
    requires {req},
    ensures {ens},
//@end
'''
out='''
// ---------------------------------------------------------------------------------------------------------------------------------
// MQTT 5 CONNECT on the wire (C02, C07), OASIS 5.0 section 3.1: 10, Remaining Length, "MQTT" version 5, connect flags, keep alive, property length and
// CONNECT properties, then the payload: client identifier, [will property length, will properties, will topic, will payload], [user name], [password]
//@macro gneiss-mqtt/src/encode.rs encode_optional_boolean_property
//@const gneiss-mqtt/src/mqtt/utils.rs PROPERTY_KEY_WILL_DELAY_INTERVAL
//@const gneiss-mqtt/src/mqtt/utils.rs PROPERTY_KEY_REQUEST_RESPONSE_INFORMATION
//@const gneiss-mqtt/src/mqtt/utils.rs PROPERTY_KEY_REQUEST_PROBLEM_INFORMATION
pub open spec fn connect_props_len(p: ConnectPacket) -> nat {
    opt_user_props_len(p.user_properties)
        + (if p.session_expiry_interval_seconds is Some { 5nat } else { 0 }) + (if p.receive_maximum is Some { 3nat } else { 0 })
        + (if p.maximum_packet_size_bytes is Some { 5nat } else { 0 }) + (if p.topic_alias_maximum is Some { 3nat } else { 0 })
        + (if p.request_response_information is Some { 2nat } else { 0 }) + (if p.request_problem_information is Some { 2nat } else { 0 })
        + opt_strprop_len(p.authentication_method) + opt_binprop_len(p.authentication_data)
}
pub open spec fn will_props_len(p: ConnectPacket) -> nat {
    match p.will {
        Some(will) => opt_user_props_len(will.user_properties)
            + (if p.will_delay_interval_seconds is Some { 5nat } else { 0 }) + (if will.payload_format is Some { 2nat } else { 0 })
            + (if will.message_expiry_interval_seconds is Some { 5nat } else { 0 })
            + opt_strprop_len(will.content_type) + opt_strprop_len(will.response_topic) + opt_binprop_len(will.correlation_data),
        None => 0,
    }
}
pub open spec fn connect_payload_len5(p: ConnectPacket) -> nat {
    2 + opt_str_len(p.client_id)
        + (match p.will { Some(will) => vli_len(will_props_len(p)) + will_props_len(p) + 2 + blen(will.topic@) + 2 + opt_bin_len(will.payload), None => 0 })
        + (match p.username { Some(u) => 2 + blen(u@), None => 0 }) + (match p.password { Some(pw) => 2 + pw@.len(), None => 0 })
}
pub open spec fn connect_remaining_len5(p: ConnectPacket) -> nat { 10 + vli_len(connect_props_len(p)) + connect_props_len(p) + connect_payload_len5(p) }
pub open spec fn connect5_sendable(p: ConnectPacket) -> bool {
    &&& connect311_sendable(p)
    &&& opt_str_ok(p.authentication_method) && opt_bin_ok(p.authentication_data)
    &&& (p.will matches Some(will) ==> opt_str_ok(will.content_type) && opt_str_ok(will.response_topic) && opt_bin_ok(will.correlation_data))
    &&& connect_remaining_len5(p) <= 268435455
}
// the contract proved in the validate unit (connect_remaining_len(p, true) there is connect_remaining_len5(p) here); signature-only stub
//@fn gneiss-mqtt/src/mqtt/connect.rs compute_connect_packet_length_properties5 stub
    requires connect_fields_fit(*packet),
    ensures
        r matches Ok((rem, props, wprops)) ==> rem == connect_remaining_len5(*packet) && props == connect_props_len(*packet) && wprops == will_props_len(*packet) && rem <= 268435455,
        connect_remaining_len5(*packet) <= 268435455 ==> r is Ok,
//@end
'''
out+=getter('get_connect_packet_authentication_method','packet matches MqttPacket::Connect(p) && p.authentication_method is Some','packet matches MqttPacket::Connect(p) && p.authentication_method matches Some(t) && r@ == t@')
out+=getter('get_connect_packet_authentication_data','packet matches MqttPacket::Connect(p) && p.authentication_data is Some','packet matches MqttPacket::Connect(p) && p.authentication_data matches Some(t) && r@ == t@')
out+=getter('get_connect_packet_user_property','packet matches MqttPacket::Connect(p) && p.user_properties matches Some(ups) && index < ups@.len()','packet matches MqttPacket::Connect(p) && p.user_properties matches Some(ups) && *r == ups@[index as int]')
out+=getter('get_connect_packet_will_content_type','packet matches MqttPacket::Connect(p) && p.will matches Some(w) && w.content_type is Some','packet matches MqttPacket::Connect(p) && p.will matches Some(w) && w.content_type matches Some(t) && r@ == t@')
out+=getter('get_connect_packet_will_response_topic','packet matches MqttPacket::Connect(p) && p.will matches Some(w) && w.response_topic is Some','packet matches MqttPacket::Connect(p) && p.will matches Some(w) && w.response_topic matches Some(t) && r@ == t@')
out+=getter('get_connect_packet_will_correlation_data','packet matches MqttPacket::Connect(p) && p.will matches Some(w) && w.correlation_data is Some','packet matches MqttPacket::Connect(p) && p.will matches Some(w) && w.correlation_data matches Some(t) && r@ == t@')
out+=getter('get_connect_packet_will_user_property','packet matches MqttPacket::Connect(p) && p.will matches Some(w) && w.user_properties matches Some(ups) && index < ups@.len()','packet matches MqttPacket::Connect(p) && p.will matches Some(w) && w.user_properties matches Some(ups) && *r == ups@[index as int]')
out+='''#[verifier::external_body] pub fn get_connect_protocol_bytes5(_arg0: &MqttPacket) -> (r: &[u8]) ensures r@ == '''+PROTO+''' { unimplemented!() }     // static array, as for 3.1.1
pub open spec fn u32_piece(key: u8, o: Option<u32>) -> Seq<u8> { match o { Some(v) => seq![key] + be32_bytes(v), None => Seq::<u8>::empty() } }
pub open spec fn u16_piece(key: u8, o: Option<u16>) -> Seq<u8> { match o { Some(v) => seq![key] + be16_bytes(v), None => Seq::<u8>::empty() } }
pub open spec fn bool_piece(key: u8, o: Option<bool>) -> Seq<u8> { match o { Some(b) => seq![key] + seq![if b { 1u8 } else { 0u8 }], None => Seq::<u8>::empty() } }
// the pieces of the MQTT 5 CONNECT wire image, behind ONE opaque function so that the body of the (long) writer only sees atoms cp(k, packet)
#[verifier::opaque]
pub open spec fn cp(k: int, p: ConnectPacket) -> Seq<u8> {
    let w = p.will->Some_0;
    if k == 1 { u32_piece(17u8, p.session_expiry_interval_seconds) } else if k == 2 { u16_piece(33u8, p.receive_maximum) }
    else if k == 3 { u32_piece(39u8, p.maximum_packet_size_bytes) } else if k == 4 { u16_piece(34u8, p.topic_alias_maximum) }
    else if k == 5 { bool_piece(25u8, p.request_response_information) } else if k == 6 { bool_piece(23u8, p.request_problem_information) }
    else if k == 7 { opt_str_prop_bytes(21u8, p.authentication_method) } else if k == 8 { opt_bin_prop_bytes(22u8, p.authentication_data) }
    else if k == 9 { ups_piece(p.user_properties) } else if k == 10 { optstr_lp(p.client_id) }
    else if k == 11 { u32_piece(24u8, p.will_delay_interval_seconds) } else if k == 12 { pfi_piece(w.payload_format) }
    else if k == 13 { u32_piece(2u8, w.message_expiry_interval_seconds) } else if k == 14 { opt_str_prop_bytes(3u8, w.content_type) }
    else if k == 15 { opt_str_prop_bytes(8u8, w.response_topic) } else if k == 16 { opt_bin_prop_bytes(9u8, w.correlation_data) }
    else if k == 17 { ups_piece(w.user_properties) } else if k == 18 { be16_bytes(blen(w.topic@) as u16) + str_bytes(w.topic@) }
    else if k == 19 { optbin_lp(w.payload) } else if k == 20 { user_piece(p.username) } else if k == 21 { password_piece(p.password) }
    else { Seq::<u8>::empty() }
}
pub open spec fn connect5_props_bytes(p: ConnectPacket) -> Seq<u8> { cp(1, p) + cp(2, p) + cp(3, p) + cp(4, p) + cp(5, p) + cp(6, p) + cp(7, p) + cp(8, p) + cp(9, p) }
pub open spec fn will_piece5(p: ConnectPacket) -> Seq<u8> {
    if p.will is Some { vli(will_props_len(p)) + cp(11, p) + cp(12, p) + cp(13, p) + cp(14, p) + cp(15, p) + cp(16, p) + cp(17, p) + cp(18, p) + cp(19, p) } else { Seq::<u8>::empty() }
}
pub open spec fn connect5_bytes(p: ConnectPacket) -> Seq<u8> {
    seq![0x10u8] + vli(connect_remaining_len5(p)) + '''+PROTO+''' + seq![connect_flags(p)] + be16_bytes(p.keep_alive_interval_seconds)
    + vli(connect_props_len(p)) + connect5_props_bytes(p) + cp(10, p) + will_piece5(p) + cp(20, p) + cp(21, p)
}
// branch-free stage lemmas: one call per optional stage, so the ghost state of the long function never forks (a first version with `if` in the proof blocks
// made the query grow exponentially with the number of optional fields)
pub proof fn lemma_st_opt_int(s0: Seq<EncodingStep>, cur: Seq<EncodingStep>, post: Seq<EncodingStep>, acc: Seq<u8>, key: u8, present: bool, x: EncodingStep, piece: Seq<u8>, pk0: MqttPacket)
    requires g_inv(s0, cur, acc, pk0), is_int_step(x),
        present ==> post == cur.push(EncodingStep::Uint8(key)).push(x) && piece == seq![key] + int_bytes(x),
        !present ==> post == cur && piece == Seq::<u8>::empty(),
    ensures g_inv(s0, post, acc + piece, pk0),
{
    if present {
        let k = EncodingStep::Uint8(key);
        lemma_g_whole_int(k, pk0); lemma_g_push1(s0, cur, k, acc, int_bytes(k), pk0);
        lemma_g_whole_int(x, pk0); lemma_g_push1(s0, cur.push(k), x, acc + int_bytes(k), int_bytes(x), pk0);
        lemma_g_regroup2(s0, post, acc, seq![key], int_bytes(x), pk0);
    } else { lemma_g_regroup0(s0, cur, acc, pk0); }
}
pub proof fn lemma_st_opt_slice(s0: Seq<EncodingStep>, cur: Seq<EncodingStep>, post: Seq<EncodingStep>, acc: Seq<u8>, key: u8, present: bool, len16: u16, y: EncodingStep, bytes: Seq<u8>, piece: Seq<u8>, pk0: MqttPacket)
    requires g_inv(s0, cur, acc, pk0),
        present ==> g_whole(y, bytes, pk0) && step_off(y) == 0 && post == cur.push(EncodingStep::Uint8(key)).push(EncodingStep::Uint16(len16)).push(y) && piece == seq![key] + be16_bytes(len16) + bytes,
        !present ==> post == cur && piece == Seq::<u8>::empty(),
    ensures g_inv(s0, post, acc + piece, pk0),
{
    if present {
        let k = EncodingStep::Uint8(key); let l = EncodingStep::Uint16(len16);
        lemma_g_whole_int(k, pk0); lemma_g_push1(s0, cur, k, acc, int_bytes(k), pk0);
        lemma_g_whole_int(l, pk0); lemma_g_push1(s0, cur.push(k), l, acc + int_bytes(k), int_bytes(l), pk0);
        lemma_g_push1(s0, cur.push(k).push(l), y, acc + int_bytes(k) + int_bytes(l), bytes, pk0);
        lemma_g_regroup3(s0, post, acc, seq![key], be16_bytes(len16), bytes, pk0);
    } else { lemma_g_regroup0(s0, cur, acc, pk0); }
}
// a length-prefixed field: `present` => [Uint16(len), slice step]; otherwise `zero_if_absent` => [Uint16(0)] else nothing
pub proof fn lemma_st_lp(s0: Seq<EncodingStep>, cur: Seq<EncodingStep>, post: Seq<EncodingStep>, acc: Seq<u8>, present: bool, zero_if_absent: bool, len16: u16, y: EncodingStep, bytes: Seq<u8>, piece: Seq<u8>, pk0: MqttPacket)
    requires g_inv(s0, cur, acc, pk0),
        present ==> g_whole(y, bytes, pk0) && step_off(y) == 0 && post == cur.push(EncodingStep::Uint16(len16)).push(y) && piece == be16_bytes(len16) + bytes,
        !present && zero_if_absent ==> post == cur.push(EncodingStep::Uint16(0u16)) && piece == be16_bytes(0u16),
        !present && !zero_if_absent ==> post == cur && piece == Seq::<u8>::empty(),
    ensures g_inv(s0, post, acc + piece, pk0),
{
    if present {
        let l = EncodingStep::Uint16(len16);
        lemma_g_whole_int(l, pk0); lemma_g_push1(s0, cur, l, acc, int_bytes(l), pk0);
        lemma_g_push1(s0, cur.push(l), y, acc + int_bytes(l), bytes, pk0);
        lemma_g_regroup2(s0, post, acc, be16_bytes(len16), bytes, pk0);
    } else if zero_if_absent {
        let l = EncodingStep::Uint16(0u16);
        lemma_g_whole_int(l, pk0); lemma_g_push1(s0, cur, l, acc, int_bytes(l), pk0);
    } else { lemma_g_regroup0(s0, cur, acc, pk0); }
}
pub proof fn lemma_st_join(s0: Seq<EncodingStep>, post: Seq<EncodingStep>, pre: Seq<u8>, present: bool, piece: Seq<u8>, pk0: MqttPacket)
    requires present ==> g_inv(s0, post, pre + piece, pk0), !present ==> g_inv(s0, post, pre, pk0) && piece == Seq::<u8>::empty(),
    ensures g_inv(s0, post, pre + piece, pk0),
{ if !present { lemma_g_regroup0(s0, post, pre, pk0); } }
pub proof fn lemma_g_regroup9(s0: Seq<EncodingStep>, cur: Seq<EncodingStep>, pre: Seq<u8>, a: Seq<u8>, b: Seq<u8>, c: Seq<u8>, d: Seq<u8>, e: Seq<u8>, f: Seq<u8>, g: Seq<u8>, h: Seq<u8>, i: Seq<u8>, pk0: MqttPacket)
    requires g_inv(s0, cur, pre + a + b + c + d + e + f + g + h + i, pk0),
    ensures g_inv(s0, cur, pre + (a + b + c + d + e + f + g + h + i), pk0),
{ assert(pre + a + b + c + d + e + f + g + h + i =~= pre + (a + b + c + d + e + f + g + h + i)); }
pub proof fn lemma_g_regroup10(s0: Seq<EncodingStep>, cur: Seq<EncodingStep>, pre: Seq<u8>, a: Seq<u8>, b: Seq<u8>, c: Seq<u8>, d: Seq<u8>, e: Seq<u8>, f: Seq<u8>, g: Seq<u8>, h: Seq<u8>, i: Seq<u8>, j: Seq<u8>, pk0: MqttPacket)
    requires g_inv(s0, cur, pre + a + b + c + d + e + f + g + h + i + j, pk0),
    ensures g_inv(s0, cur, pre + (a + b + c + d + e + f + g + h + i + j), pk0),
{ assert(pre + a + b + c + d + e + f + g + h + i + j =~= pre + (a + b + c + d + e + f + g + h + i + j)); }
pub proof fn lemma_lead_empty11(a: Seq<u8>, b: Seq<u8>, c: Seq<u8>, d: Seq<u8>, e: Seq<u8>, f: Seq<u8>, g: Seq<u8>, h: Seq<u8>, i: Seq<u8>, j: Seq<u8>, k: Seq<u8>)
    ensures Seq::<u8>::empty() + a + b + c + d + e + f + g + h + i + j + k == a + b + c + d + e + f + g + h + i + j + k,
{ assert(Seq::<u8>::empty() + a + b + c + d + e + f + g + h + i + j + k =~= a + b + c + d + e + f + g + h + i + j + k); }

//@fn gneiss-mqtt/src/mqtt/connect.rs write_connect_encoding_steps5 props=C02,C07 desugar fnptr_opaque expand=gneiss-mqtt/src/encode.rs:encode_user_properties+gneiss-mqtt/src/encode.rs:encode_user_property
//@@attr #[verifier::rlimit(200)]
//@@attr #[verifier::spinoff_prover]
    requires
        connect5_sendable(*packet),          // send-time validation of the connect options
    ensures
        r is Ok,
        steps_wf(old(steps)@, MqttPacket::Connect(*packet)) ==> steps_wf(final(steps)@, MqttPacket::Connect(*packet)),
        flat(final(steps)@, MqttPacket::Connect(*packet)) == flat(old(steps)@, MqttPacket::Connect(*packet)) + connect5_bytes(*packet),
//@@at bodystart
    let ghost s0 = steps@;
    let ghost mut cur = steps@;
    let ghost mut acc = Seq::<u8>::empty();
    let ghost mut pre6 = Seq::<u8>::empty();
    let ghost mut preu = Seq::<u8>::empty();
    let ghost mut pre7 = Seq::<u8>::empty();
    let ghost mut prew = Seq::<u8>::empty();
    let ghost mut prewu = Seq::<u8>::empty();
    let ghost mut pre8 = Seq::<u8>::empty();
    let ghost mut pre9 = Seq::<u8>::empty();
    let ghost pk0 = MqttPacket::Connect(*packet);
    proof { lemma_g_init(s0, pk0); }
'''
out+=block('encode_integral_expression!(steps, Uint8, 1u8 << 4);','after',['assert(1u8 << 4 == 16u8) by (bit_vector);',ipush('EncodingStep::Uint8(16u8)'),'assert(steps@ == cur);'])
out+=block('encode_integral_expression!(steps, Vli, total_remaining_length);','after',[ipush('EncodingStep::Vli(total_remaining_length)'),'assert(steps@ == cur);'])
out+=block('encode_raw_bytes!(steps, get_connect_protocol_bytes5);','after',[hpush(1,PROTO,'get_connect_protocol_bytes5','(&pk0,)'),'assert(steps@ == cur);'])
out+=block('encode_integral_expression!(steps, Uint8, compute_connect_flags(packet));','after',[ipush('EncodingStep::Uint8(connect_flags(*packet))'),'assert(steps@ == cur);'])
out+=block('encode_integral_expression!(steps, Uint16, packet.keep_alive_interval_seconds);','after',[ipush('EncodingStep::Uint16(packet.keep_alive_interval_seconds)'),'assert(steps@ == cur);'])
out+=block('encode_integral_expression!(steps, Vli, connect_property_length);','after',[ipush('EncodingStep::Vli(connect_property_length)'),'assert(steps@ == cur);','pre6 = acc;'])
out+=opt2('encode_optional_property!(steps, Uint32, PROPERTY_KEY_SESSION_EXPIRY_INTERVAL, packet.session_expiry_interval_seconds);','packet.session_expiry_interval_seconds',17,'EncodingStep::Uint32(packet.session_expiry_interval_seconds->Some_0)',1)
out+=opt2('encode_optional_property!(steps, Uint16, PROPERTY_KEY_RECEIVE_MAXIMUM, packet.receive_maximum);','packet.receive_maximum',33,'EncodingStep::Uint16(packet.receive_maximum->Some_0)',2)
out+=opt2('encode_optional_property!(steps, Uint32, PROPERTY_KEY_MAXIMUM_PACKET_SIZE, packet.maximum_packet_size_bytes);','packet.maximum_packet_size_bytes',39,'EncodingStep::Uint32(packet.maximum_packet_size_bytes->Some_0)',3)
out+=opt2('encode_optional_property!(steps, Uint16, PROPERTY_KEY_TOPIC_ALIAS_MAXIMUM, packet.topic_alias_maximum);','packet.topic_alias_maximum',34,'EncodingStep::Uint16(packet.topic_alias_maximum->Some_0)',4)
out+=opt2('encode_optional_boolean_property!(steps, PROPERTY_KEY_REQUEST_RESPONSE_INFORMATION, packet.request_response_information);','packet.request_response_information',25,'EncodingStep::Uint8(if packet.request_response_information->Some_0 { 1u8 } else { 0u8 })',5)
out+=opt2('encode_optional_boolean_property!(steps, PROPERTY_KEY_REQUEST_PROBLEM_INFORMATION, packet.request_problem_information);','packet.request_problem_information',23,'EncodingStep::Uint8(if packet.request_problem_information->Some_0 { 1u8 } else { 0u8 })',6)
out+=optstr('encode_optional_string_property!(steps, get_connect_packet_authentication_method, PROPERTY_KEY_AUTHENTICATION_METHOD, packet.authentication_method);','packet.authentication_method',21,'get_connect_packet_authentication_method',7)
out+=optbin('encode_optional_bytes_property!(steps, get_connect_packet_authentication_data, PROPERTY_KEY_AUTHENTICATION_DATA, packet.authentication_data);','packet.authentication_data',22,'get_connect_packet_authentication_data',8)
out+=block('if let Some(properties) = &packet.user_properties {','before',['preu = acc;'])
out+=block('let mut verif_enum0: usize = 0;','before',['lemma_g_regroup0(s0, cur, preu, pk0);'],'            ')
out+=upsloop(0,'preu','packet.user_properties','get_connect_packet_user_property','verif_enum0','        ')
out+=block('encode_length_prefixed_optional_string!(steps, get_connect_packet_client_id, packet.client_id);','before',[f'assert({CP(9)} == ups_piece(packet.user_properties)) by {{ reveal(cp); }}',f'assert(packet.user_properties is None ==> {CP(9)} == Seq::<u8>::empty()) by {{ reveal(cp); }}',
   f'lemma_st_join(s0, steps@, preu, packet.user_properties is Some, {CP(9)}, pk0);',f'cur = steps@; acc = preu + {CP(9)};',
   f'lemma_g_regroup9(s0, cur, pre6, {CP(1)}, {CP(2)}, {CP(3)}, {CP(4)}, {CP(5)}, {CP(6)}, {CP(7)}, {CP(8)}, {CP(9)}, pk0);',
   'acc = pre6 + connect5_props_bytes(*packet);'])
out+=lpstage('encode_length_prefixed_optional_string!(steps, get_connect_packet_client_id, packet.client_id);','after','packet.client_id is Some','true','blen(packet.client_id->Some_0@) as u16','str_bytes(packet.client_id->Some_0@)','get_connect_packet_client_id',10,after_lines=['pre7 = acc;'])
I8='        '
out+=block('encode_integral_expression!(steps, Vli, will_property_length);','after',[ipush('EncodingStep::Vli(will_property_length)'),'assert(steps@ == cur);'],I8)
out+=opt2('encode_optional_property!(steps, Uint32, PROPERTY_KEY_WILL_DELAY_INTERVAL, packet.will_delay_interval_seconds);','packet.will_delay_interval_seconds',24,'EncodingStep::Uint32(packet.will_delay_interval_seconds->Some_0)',11,I8)
out+=block('encode_optional_enum_property!(steps, Uint8, PROPERTY_KEY_PAYLOAD_FORMAT_INDICATOR, u8, will.payload_format);','after',['assert(will.payload_format is Some ==> will.payload_format->Some_0 as u8 == pfi_num(will.payload_format->Some_0));',
    f'assert(will.payload_format is Some ==> {CP(12)} == seq![1u8] + int_bytes(EncodingStep::Uint8(pfi_num(will.payload_format->Some_0)))) by {{ reveal(cp); }}',f'assert(will.payload_format is None ==> {CP(12)} == Seq::<u8>::empty()) by {{ reveal(cp); }}',
    f'lemma_st_opt_int(s0, cur, steps@, acc, 1u8, will.payload_format is Some, EncodingStep::Uint8(pfi_num(will.payload_format->Some_0)), {CP(12)}, pk0);',f'cur = steps@; acc = acc + {CP(12)};'],I8)
out+=opt2('encode_optional_property!(steps, Uint32, PROPERTY_KEY_MESSAGE_EXPIRY_INTERVAL, will.message_expiry_interval_seconds);','will.message_expiry_interval_seconds',2,'EncodingStep::Uint32(will.message_expiry_interval_seconds->Some_0)',13,I8)
out+=optstr('encode_optional_string_property!(steps, get_connect_packet_will_content_type, PROPERTY_KEY_CONTENT_TYPE, &will.content_type);','will.content_type',3,'get_connect_packet_will_content_type',14,I8)
out+=optstr('encode_optional_string_property!(steps, get_connect_packet_will_response_topic, PROPERTY_KEY_RESPONSE_TOPIC, &will.response_topic);','will.response_topic',8,'get_connect_packet_will_response_topic',15,I8)
out+=optbin('encode_optional_bytes_property!(steps, get_connect_packet_will_correlation_data, PROPERTY_KEY_CORRELATION_DATA, will.correlation_data);','will.correlation_data',9,'get_connect_packet_will_correlation_data',16,I8)
out+=block('if let Some(properties) = &will.user_properties {','before',['prewu = acc;'],I8)
out+=block('let mut verif_enum1: usize = 0;','before',['lemma_g_regroup0(s0, cur, prewu, pk0);'],'                ')
out+=upsloop(1,'prewu','packet.will->Some_0.user_properties','get_connect_packet_will_user_property','verif_enum1','            ',' packet.will is Some, *will == packet.will->Some_0,')
out+=block('encode_length_prefixed_string!(steps, get_connect_packet_will_topic, will.topic);','before',[f'assert({CP(17)} == ups_piece(will.user_properties)) by {{ reveal(cp); }}',f'assert(will.user_properties is None ==> {CP(17)} == Seq::<u8>::empty()) by {{ reveal(cp); }}',
   f'lemma_st_join(s0, steps@, prewu, will.user_properties is Some, {CP(17)}, pk0);',f'cur = steps@; acc = prewu + {CP(17)};'],I8)
out+=lpstage('encode_length_prefixed_string!(steps, get_connect_packet_will_topic, will.topic);','after','true','true','blen(will.topic@) as u16','str_bytes(will.topic@)','get_connect_packet_will_topic',18,I8)
out+=lpstage('encode_length_prefixed_optional_bytes!(steps, get_connect_packet_will_payload, will.payload);','after','will.payload is Some','true','will.payload->Some_0@.len() as u16','will.payload->Some_0@','get_connect_packet_will_payload',19,I8,after_lines=[
    f'lemma_g_regroup10(s0, cur, pre7, vli(will_props_len(*packet)), {CP(11)}, {CP(12)}, {CP(13)}, {CP(14)}, {CP(15)}, {CP(16)}, {CP(17)}, {CP(18)}, {CP(19)}, pk0);',
    'acc = pre7 + will_piece5(*packet);'])
out+=block('if packet.username.is_some() {','before',['lemma_st_join(s0, steps@, pre7, packet.will is Some, will_piece5(*packet), pk0);','cur = steps@; acc = pre7 + will_piece5(*packet);'])
out+=lpstage('if packet.password.is_some() {','before','packet.username is Some','false','blen(packet.username->Some_0@) as u16','str_bytes(packet.username->Some_0@)','get_connect_packet_username',20)
out+=lpstage('Ok(())','before','packet.password is Some','false','packet.password->Some_0@.len() as u16','packet.password->Some_0@','get_connect_packet_password',21,after_lines=['lemma_g_final(s0, cur, acc, pk0);',
    f'lemma_lead_empty11(seq![0x10u8], vli(connect_remaining_len5(*packet)), {PROTO}, seq![connect_flags(*packet)], be16_bytes(packet.keep_alive_interval_seconds), vli(connect_props_len(*packet)), connect5_props_bytes(*packet), {CP(10)}, will_piece5(*packet), {CP(20)}, {CP(21)});',
    'assert(acc == connect5_bytes(*packet));'])
out+='//@end\n\n'
s=s[:k]+out+s[k:]
open(p,'w').write(s)
