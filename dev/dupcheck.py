#!/usr/bin/env python3
"""dev/dupcheck.py - compares the text of `spec fn`s that appear under the same name in units/validate.vt.rs and units/codec.vt.rs
(the codec unit's encoder-side stubs assume contracts proved in the validate unit, over spec functions copied by hand). Not registered."""
import re, sys
def specs(path):
    s = open(path).read()
    out = {}
    for m in re.finditer(r'pub open spec fn (\w+)', s):
        i = s.index('{', m.end()); d = 0; j = i
        while True:
            if s[j] == '{': d += 1
            elif s[j] == '}':
                d -= 1
                if d == 0: break
            j += 1
        out[m.group(1)] = re.sub(r'\s+', ' ', s[m.start():j + 1])
    return out
a = specs('/verif/units/validate.vt.rs'); b = specs('/verif/units/codec.vt.rs')
bad = 0
for n in sorted(set(a) & set(b)):
    same = a[n] == b[n]
    print(('same ' if same else 'DIFF ') + n)
    if not same: bad += 1; print('   validate:', a[n][:300]); print('   codec   :', b[n][:300])
sys.exit(1 if bad else 0)
