// E-B: the two topic grammar functions that the E-V validate unit only ASSUMES (string scanning: `str::contains`, `split`) -
// `is_valid_topic` and `compute_topic_filter_properties` - against reference predicates written from MQTT 5 section 4.7 / 4.8
// (C16 "valid topic names and filters"), over every string of up to 6 tokens from the grammar's alphabet.
use crate::validate::*;

/// 4.7.1: '+' must occupy an entire level; '#' must occupy an entire level and be the last one. 4.7.3: at least one character.
fn ref_filter_levels_ok(s: &str) -> bool {
    if s.is_empty() || s.len() > 65535 { return false; }
    let levels: Vec<&str> = s.split('/').collect();
    for (i, l) in levels.iter().enumerate() {
        if l.contains('#') && (*l != "#" || i + 1 != levels.len()) { return false; }
        if l.contains('+') && *l != "+" { return false; }
    }
    true
}
/// 4.8.2: $share/{ShareName}/{filter}; ShareName at least one character, no '/', '+', '#'; the filter part non-empty.
/// (A string whose first level is $share but which is not of that form is treated by this client as an ordinary filter - a
/// leniency, not judged here; the reference therefore only says when a filter IS a shared subscription.)
fn ref_is_shared(s: &str) -> bool {
    let rest = match s.strip_prefix("$share/") { Some(r) => r, None => return false };
    let (name, filter) = match rest.find('/') { Some(i) => (&rest[..i], &rest[i + 1..]), None => return false };
    !name.is_empty() && !name.contains('+') && !name.contains('#') && !filter.is_empty()
}
/// 4.7.1 [MQTT-3.3.2-2]: a topic NAME has no wildcard characters; 4.7.3: at least one character, at most 65535 bytes
fn ref_topic_name_ok(s: &str) -> bool { !s.is_empty() && s.len() <= 65535 && !s.contains('+') && !s.contains('#') }

#[test]
fn topic_grammar_functions_agree_with_reference() {
    let tokens = ["a", "/", "+", "#", "$share", "bc"];
    let depth = if super::tier_thorough() { 7 } else { 6 };
    let mut strings: Vec<String> = vec![String::new()];
    let mut frontier: Vec<String> = vec![String::new()];
    for _ in 0..depth { let mut next = Vec::new(); for s in &frontier { for t in tokens { let mut n = s.clone(); n.push_str(t); next.push(n); } } strings.extend(next.iter().cloned()); frontier = next; }
    strings.push("x".repeat(65535)); strings.push("x".repeat(65536)); strings.push(format!("{}/#", "x".repeat(65533))); strings.push(format!("{}/#", "x".repeat(65534)));
    let mut cases = 0u64; let mut fails: Vec<String> = Vec::new();
    for s in &strings {
        cases += 1;
        if is_valid_topic(s) != ref_topic_name_ok(s) { if fails.len() < 20 { fails.push(format!("is_valid_topic({:?}) = {}, reference {}", &s[..s.len().min(40)], is_valid_topic(s), ref_topic_name_ok(s))); } }
        let (valid, shared, wildcard) = verif_topic_filter_properties(s);
        if valid != ref_filter_levels_ok(s) { if fails.len() < 20 { fails.push(format!("topic filter {:?}: valid = {}, reference {}", &s[..s.len().min(40)], valid, ref_filter_levels_ok(s))); } continue; }
        if valid {
            if shared != ref_is_shared(s) { if fails.len() < 20 { fails.push(format!("topic filter {:?}: is_shared = {}, reference {}", s, shared, ref_is_shared(s))); } }
            let w = s.contains('+') || s.contains('#');
            if wildcard != w { if fails.len() < 20 { fails.push(format!("topic filter {:?}: has_wildcard = {}, reference {}", s, wildcard, w)); } }
        }
    }
    println!("BOUNDED topic_grammar_functions_agree_with_reference cases={} bound=every string of up to {} tokens over {{a / + # $share bc}} plus the 65535/65536-byte boundaries", cases, depth);
    for f in &fails { println!("BOUNDED-FAIL topic_grammar_functions_agree_with_reference {}", f); }
    assert!(fails.is_empty());
}
